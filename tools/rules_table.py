#!/usr/bin/env python3
"""Prints, per property, the rules its check runs (from /verif/evidence/Cnn.json): id, instances, what the rule establishes."""
import json, os
print("| property | rule | instances | establishes |")
print("|---|---|---|---|")
for n in range(1, 21):
    pid = "C%02d" % n
    p = "/verif/evidence/%s.json" % pid
    if not os.path.exists(p):
        continue
    e = json.load(open(p))
    nconf = max(1, len(e["coverage"].get("configurations", [])))
    for r in e["coverage"].get("rules", []):
        doc = (r.get("doc") or "").replace("|", "/").replace("\n", " ")
        print("| %s | %s | %d | %s |" % (pid, r["rule"], r["instances"] // nconf, doc[:220]))
