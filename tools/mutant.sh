#!/bin/bash
# usage: tools/mutant.sh <patch-file|-e 'sed-expr' file> -- <property> [tier]
# Copies /repo to a scratch dir, applies the change, runs the check against the
# copy with a scratch evidence dir, prints the verdict lines, removes the copy.
set -u
export GOFLAGS=-mod=mod GOPROXY=off GOSUMDB=off GOTOOLCHAIN=local
SCR=$(mktemp -d /tmp/wsm.XXXXXX)
trap 'rm -rf "$SCR"' EXIT
mkdir -p "$SCR/repo" "$SCR/verif/evidence"
rsync -a --exclude .git /repo/ "$SCR/repo/"
cp /verif/known_findings.json "$SCR/verif/" 2>/dev/null
if [ "$1" = "-e" ]; then
  sed -i -E "$2" "$SCR/repo/$3" || exit 3
  shift 3
else
  (cd "$SCR/repo" && patch -p1 -s < "$1") || { echo "patch failed"; exit 3; }
  shift 1
fi
[ "$1" = "--" ] && shift
PROP=$1; TIER=${2:-quick}
if [ "${BUILD:-1}" = 1 ]; then
  (cd "$SCR/repo" && go build ./... 2>&1 | grep -v conda | head -5)
fi
if [ "${TESTS:-0}" = 1 ]; then
  (cd "$SCR/repo" && go test -count=1 ./... 2>&1 | grep -v conda | tail -8)
fi
for P in $PROP; do
WSCHECK_REPO="$SCR/repo" WSCHECK_VERIF="$SCR/verif" ${WSCHECK_BIN:-/verif/bin/wscheck} check -property $P -tier $TIER 2>&1 | grep -v conda | sed "s#$SCR/repo/##g; s#$SCR#SCR#g"
echo "exit=${PIPESTATUS[0]}"
done
