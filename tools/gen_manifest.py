#!/usr/bin/env python3
"""Generates /verif/MANIFEST.json from tools/manifest_src.json (claims) + the list of properties."""
import json, sys, os
root = os.path.dirname(os.path.dirname(os.path.abspath(__file__)))
src = json.load(open(os.path.join(root, 'tools', 'manifest_src.json')))
props = [json.loads(l)['id'] for l in open(os.path.join(root, 'properties.jsonl'))]
ENV = "GOFLAGS=-mod=mod GOPROXY=off GOSUMDB=off GOTOOLCHAIN=local GOWORK=off"
m = {
 "version": 1,
 "setup_cmd": "cd /verif/checker && %s go build -o /verif/bin/wscheck ./cmd/wscheck" % ENV,
 "hooks": {
  "guard": "verif",
  "enable": "none needed: the checks are static analyses that read /repo's source; nothing in /repo is instrumented",
  "baseline_off_cmd": "cd /repo && %s go test -vet=off -count=1 ./..." % ENV,
  "source_commits": [],
  "add_only": True,
 },
 "engines": [
  {"name": "wscheck", "path": "checker", "serves_properties": sorted(src['claims'].keys()),
   "kind_free_text": "repository-specific static analyser over go/packages + go/ssa (x/tools v0.29.0): finite-cell abstract interpretation (FOLD), CFG path rules, alias/provenance dataflow, structural table checks, compiler bounds-check report"},
 ],
 "checks": [],
 "not_applicable": [],
 "notes": src.get('notes', ''),
}
for pid in props:
    c = src['claims'].get(pid)
    if c is None:
        m['not_applicable'].append({"property_id": pid, "reason": src['not_applicable'].get(pid, "no sound static rule built (yet) for this property; see DESIGN.md section 7")})
        continue
    m['checks'].append({
        "property_id": pid,
        "quick_cmd": "./bin/wscheck check -property %s -tier quick" % pid,
        "thorough_cmd": "./bin/wscheck check -property %s -tier thorough" % pid,
        "evidence_file": "evidence/%s.json" % pid,
        "replay_cmd_template": "./bin/wscheck replay {path}",
        "engine": "wscheck",
        "level_claimed": {"category": "other", "text": c['text'], "design_ref": c.get('design_ref', 'DESIGN.md section 5, ' + pid)},
        "level_note": c['note'],
        "technique": c['technique'],
    })
json.dump(m, open(os.path.join(root, 'MANIFEST.json'), 'w'), indent=1)
print("claims:", len(m['checks']), "not_applicable:", len(m['not_applicable']))
