#!/usr/bin/env python3
"""Generates /verif/MANIFEST.json: claims come from `wscheck describe` (the checker's own
registry of properties), not-applicable reasons from tools/manifest_src.json."""
import json, os, subprocess
root = os.path.dirname(os.path.dirname(os.path.abspath(__file__)))
src = json.load(open(os.path.join(root, 'tools', 'manifest_src.json')))
desc = json.loads(subprocess.check_output([os.path.join(root, 'bin', 'wscheck'), 'describe']).decode())
props = [json.loads(l)['id'] for l in open(os.path.join(root, 'properties.jsonl'))]
ENV = "GOFLAGS=-mod=mod GOPROXY=off GOSUMDB=off GOTOOLCHAIN=local GOWORK=off"
m = {
 "version": 1,
 "setup_cmd": "cd /verif/checker && %s go build -o /verif/bin/wscheck ./cmd/wscheck" % ENV,
 "hooks": {
  "guard": "verif",
  "enable": "none needed: the checks are static analyses that read /repo's source; nothing in /repo is instrumented",
  "baseline_off_cmd": "cd /repo && %s go test -vet=off -count=1 ./..." % ENV,
  "source_commits": [],
  "add_only": True,
 },
 "engines": [
  {"name": "wscheck", "path": "checker", "serves_properties": sorted(p for p in desc if p in props and p not in src.get('withdrawn', [])),
   "kind_free_text": "repository-specific static analyser over go/packages + go/ssa (x/tools v0.29.0): finite-cell abstract interpretation with path-sensitive forking on uninterpreted atoms (FOLD), CFG/path rules, alias/provenance dataflow, structural table checks, the compiler's bounds-check report"},
 ],
 "checks": [],
 "not_applicable": [],
 "notes": src.get('notes', ''),
}
default_tech = "static analysis: finite-cell abstract interpretation of the go/ssa form (interval cells, constant propagation, path-sensitive forking on uninterpreted atoms) compared with a reference table written from the RFC"
for pid in props:
    d = desc.get(pid)
    if d is None or pid in src.get('withdrawn', []):
        m['not_applicable'].append({"property_id": pid, "reason": src['not_applicable'].get(pid, "no sound static rule built for this property; see DESIGN.md section 7")})
        continue
    note = "Trusted base: " + "; ".join(d.get('trusted') or []) + "."
    if d.get('assume'):
        note += " Assumed / not decided: " + "; ".join(d['assume']) + "."
    m['checks'].append({
        "property_id": pid,
        "quick_cmd": "./bin/wscheck check -property %s -tier quick" % pid,
        "thorough_cmd": "./bin/wscheck check -property %s -tier thorough" % pid,
        "evidence_file": "evidence/%s.json" % pid,
        "replay_cmd_template": "./bin/wscheck replay {path}",
        "engine": "wscheck",
        "level_claimed": {"category": "other", "text": "Structural necessary conditions of the property, decided statically for every input / path at once (not the behavioural statement as a whole). " + d['explain'], "design_ref": "DESIGN.md section 5, " + pid},
        "level_note": note,
        "technique": d.get('technique') or default_tech,
    })
json.dump(m, open(os.path.join(root, 'MANIFEST.json'), 'w'), indent=1)
print("claims:", len(m['checks']), "not_applicable:", len(m['not_applicable']))
