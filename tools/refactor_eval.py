#!/usr/bin/env python3
"""Applies a behaviour-preserving change to a scratch copy of /repo and runs every quick check
against it: any VIOLATION is a false alarm candidate. usage: refactor_eval.py <diff> [props]"""
import json, os, shutil, subprocess, sys, tempfile, concurrent.futures as cf
ENV = dict(os.environ, GOFLAGS="-mod=mod", GOPROXY="off", GOSUMDB="off", GOTOOLCHAIN="local", GOWORK="off")
def run(cmd, cwd, env=None):
    p = subprocess.run(cmd, cwd=cwd, env=env or ENV, shell=True, capture_output=True, text=True)
    return p.returncode, "\n".join(l for l in (p.stdout + p.stderr).splitlines() if "conda" not in l)
diff = os.path.abspath(sys.argv[1])
props = sys.argv[2].split(',') if len(sys.argv) > 2 else [json.loads(l)['id'] for l in open('/verif/properties.jsonl')]
scr = tempfile.mkdtemp(prefix="wsref.")
res = {"diff": diff}
try:
    repo = os.path.join(scr, "repo")
    subprocess.run(["rsync", "-a", "--exclude", ".git", "/repo/", repo + "/"], check=True)
    rc, out = run("patch -p1 -s < %s" % diff, repo)
    res["applies"] = rc == 0
    if rc == 0:
        # REFACTOR_SKIP_SUITE=1: only build (the suite result of an unchanged diff on an unchanged
        # /repo is known from the previous full run)
        rc, out = run("go build ./..." if os.environ.get("REFACTOR_SKIP_SUITE") == "1" else "go build ./... && go test -count=1 ./...", repo)
        res["builds_and_tests_pass"] = rc == 0
        if rc != 0: res["test_output"] = out[-600:]
        def chk(p):
            vdir = os.path.join(scr, "verif_" + p)
            os.makedirs(os.path.join(vdir, "evidence"))
            shutil.copy("/verif/known_findings.json", vdir)
            env = dict(ENV, WSCHECK_REPO=repo, WSCHECK_VERIF=vdir)
            rc, out = run("/verif/bin/wscheck check -property %s -tier quick" % p, "/verif", env)
            lines = [l.replace(scr + "/repo/", "") for l in out.splitlines()]
            return p, rc, [l[:500] for l in lines if "] " in l and not l.startswith("VIOLATION") and not l.startswith("KNOWN")]
        alarms = {}
        with cf.ThreadPoolExecutor(max_workers=5) as ex:
            for p, rc, diag in ex.map(chk, props):
                if rc != 0:
                    alarms[p] = diag[:3] or ["exit %d" % rc]
        res["alarms"] = alarms
finally:
    shutil.rmtree(scr, ignore_errors=True)
print(json.dumps(res, indent=1))
