#!/usr/bin/env python3
"""Confirms a seeded change and runs the checks against it.

usage: seed_eval.py <seed-dir> [--props C05,C16] [--all]

<seed-dir> holds patch.diff, demo_test.go and meta.json (property, test_dir, test_name).
Everything happens in a scratch copy of /repo under /tmp that is removed at the end:
  1. clean copy: the demonstration test passes;
  2. copy + patch: go build ./... succeeds, the existing suite passes (without the
     demonstration), the demonstration test fails;
  3. the registered quick checks of the property (or all) are run against the patched copy.
Prints one JSON object with the outcome.
"""
import json, os, shutil, subprocess, sys, tempfile

ENV = dict(os.environ, GOFLAGS="-mod=mod", GOPROXY="off", GOSUMDB="off", GOTOOLCHAIN="local", GOWORK="off")


def run(cmd, cwd, env=None, timeout=900):
    p = subprocess.run(cmd, cwd=cwd, env=env or ENV, shell=True, capture_output=True, text=True, timeout=timeout)
    out = "\n".join(l for l in (p.stdout + p.stderr).splitlines() if "conda" not in l)
    return p.returncode, out


def main():
    seed = os.path.abspath(sys.argv[1])
    meta = json.load(open(os.path.join(seed, "meta.json")))
    props = [meta["property"]]
    if "--all" in sys.argv:
        props = [json.loads(l)["id"] for l in open("/verif/properties.jsonl")]
    for i, a in enumerate(sys.argv):
        if a == "--props":
            props = sys.argv[i + 1].split(",")
    scr = tempfile.mkdtemp(prefix="wsseed.")
    res = {"seed": os.path.basename(seed), "property": meta["property"]}
    try:
        repo = os.path.join(scr, "repo")
        subprocess.run(["rsync", "-a", "--exclude", ".git", "/repo/", repo + "/"], check=True)
        tdir = os.path.join(repo, meta["test_dir"])
        tfile = os.path.join(tdir, "zz_seeded_demo_test.go")
        name = meta["test_name"]
        pkg = "./" + meta["test_dir"] if meta["test_dir"] not in ("", ".") else "."
        # 1. clean copy: demo passes
        shutil.copy(os.path.join(seed, "demo_test.go"), tfile)
        rc, out = run("go test -count=1 -run '^%s$' %s" % (name, pkg), repo)
        res["demo_passes_on_clean_tree"] = rc == 0
        if rc != 0:
            res["clean_output"] = out[-1500:]
        os.remove(tfile)
        # 2. patched copy
        rc, out = run("patch -p1 -s < %s" % os.path.join(seed, "patch.diff"), repo)
        res["patch_applies"] = rc == 0
        if rc != 0:
            res["patch_output"] = out[-800:]
            print(json.dumps(res, indent=1))
            return
        rc, out = run("go build ./...", repo)
        res["builds"] = rc == 0
        rc, out = run("go test -count=1 ./...", repo)
        res["existing_suite_passes"] = rc == 0
        if rc != 0:
            res["suite_output"] = out[-1500:]
        shutil.copy(os.path.join(seed, "demo_test.go"), tfile)
        rc, out = run("go test -count=1 -run '^%s$' %s" % (name, pkg), repo)
        res["demo_fails_with_change"] = rc != 0
        os.remove(tfile)
        # 3. checks
        vdir = os.path.join(scr, "verif")
        os.makedirs(os.path.join(vdir, "evidence"))
        shutil.copy("/verif/known_findings.json", vdir)
        env = dict(ENV, WSCHECK_REPO=repo, WSCHECK_VERIF=vdir)
        caught = {}
        for p in props:
            rc, out = run("/verif/bin/wscheck check -property %s -tier quick" % p, "/verif", env)
            lines = [l.replace(scr + "/repo/", "").replace(scr, "SCR") for l in out.splitlines()]
            viol = [l for l in lines if l.startswith("VIOLATION")]
            if rc == 1 and viol:
                diag = [l for l in lines if "] " in l and not l.startswith("VIOLATION") and not l.startswith("KNOWN")]
                caught[p] = [d[:400] for d in diag[:4]]
            elif rc not in (0, 1):
                caught[p] = ["CHECK ERROR exit=%d: %s" % (rc, "\n".join(lines[-5:]))]
        res["caught_by"] = caught
        res["detected"] = bool(caught)
        res["detected_by_own_property"] = meta["property"] in caught
    finally:
        shutil.rmtree(scr, ignore_errors=True)
    print(json.dumps(res, indent=1))


if __name__ == "__main__":
    main()
