#!/usr/bin/env python3
"""Imports sub-agent results from /tmp/wt/<ID>/_out into /verif/seeded/<ID>-m<i>/, confirms
them with seed_eval.py and keeps only confirmed ones (keeps rejected ones under seeded/_rejected
with the reason)."""
import json, os, shutil, subprocess, sys
pid = sys.argv[1]
suffix = sys.argv[2] if len(sys.argv) > 2 else ""
out = "/tmp/wt/%s/_out" % pid
for i in (1, 2, 3):
    d, t, j = [os.path.join(out, "mut%d%s" % (i, e)) for e in (".diff", "_test.go", ".json")]
    if not (os.path.exists(d) and os.path.exists(t) and os.path.exists(j)):
        continue
    try:
        meta = json.load(open(j))
    except Exception as e:
        print(pid, i, "bad json", e); continue
    name = "%s-m%d%s" % (pid, i, suffix)
    dst = os.path.join("/verif/seeded", name)
    os.makedirs(dst, exist_ok=True)
    shutil.copy(d, os.path.join(dst, "patch.diff"))
    shutil.copy(t, os.path.join(dst, "demo_test.go"))
    m = {"property": pid, "summary": meta.get("summary", ""), "needs": meta.get("needs", ""),
         "test_dir": meta.get("test_dir", "."), "test_name": meta.get("test_name", ""),
         "author": "independent sub-agent given only the property text and a scratch worktree",
         "author_verified": meta.get("verified", "")}
    json.dump(m, open(os.path.join(dst, "meta.json"), "w"), indent=1)
    extra = ["--all"] if "--all" in sys.argv else []
    r = subprocess.run(["python3", "/verif/tools/seed_eval.py", dst] + extra, capture_output=True, text=True)
    try:
        res = json.loads(r.stdout)
    except Exception:
        res = {"error": (r.stdout + r.stderr)[-800:]}
    m["confirmed_by_me"] = {k: res.get(k) for k in ("demo_passes_on_clean_tree", "patch_applies", "builds", "existing_suite_passes", "demo_fails_with_change")}
    m["what_i_ran"] = "tools/seed_eval.py: scratch copy of /repo; clean: go test -run <demo>; patched: go build ./..., go test -count=1 ./... (suite without demo), go test -run <demo>; then ./bin/wscheck check -property <id> -tier quick against the patched copy"
    m["checks"] = {"detected": res.get("detected"), "caught_by": res.get("caught_by")}
    json.dump(m, open(os.path.join(dst, "meta.json"), "w"), indent=1)
    ok = all(m["confirmed_by_me"].get(k) for k in m["confirmed_by_me"])
    print(name, "confirmed" if ok else "NOT CONFIRMED %s" % m["confirmed_by_me"], "| detected:", res.get("detected"), list((res.get("caught_by") or {}).keys()))
    if not ok:
        os.makedirs("/verif/seeded/_rejected", exist_ok=True)
        shutil.rmtree(os.path.join("/verif/seeded/_rejected", name), ignore_errors=True)
        shutil.move(dst, os.path.join("/verif/seeded/_rejected", name))
