#!/bin/bash
# Runs the hand-made "silently ignored" changes of seeded/_spot/spot.tsv (property, file, sed
# expression or @patch, what it does) through tools/mutant.sh and reports which are detected.
# Each must still build; they were written while reviewing the reference tables (DESIGN 8.1).
cd /verif
det=0; tot=0
while IFS=$'\t' read -r prop file expr what; do
  [ -z "$prop" ] && continue
  tot=$((tot+1))
  if [ "${expr:0:1}" = "@" ]; then
    out=$(tools/mutant.sh "/verif/seeded/_spot/${expr:1}" -- "$prop" 2>&1)
  else
    out=$(tools/mutant.sh -e "$expr" "$file" -- "$prop" 2>&1)
  fi
  if echo "$out" | grep -q "^exit=1" && echo "$out" | grep -q "^VIOLATION"; then
    det=$((det+1)); echo "DETECTED $prop  $what"
  else
    echo "MISSED   $prop  $what"; echo "$out" | tail -3
  fi
done < seeded/_spot/spot.tsv
echo "$det of $tot hand-made changes detected"
[ "$det" = "$tot" ]
