#!/usr/bin/env python3
"""Runs every quick check against every behaviour-preserving change under seeded/_benign
(each in its own scratch copy of /repo) and writes seeded/_benign/RESULTS.md.
A check that exits non-zero on one of them is a false alarm to be corrected."""
import json, os, subprocess, sys, concurrent.futures as cf
root = '/verif/seeded/_benign'
diffs = sorted(f for f in os.listdir(root) if f.endswith('.diff'))
if len(sys.argv) > 1:
    diffs = [d for d in diffs if any(a in d for a in sys.argv[1:])]
# BENIGN_PROPS=C01,C06: run only these checks and write RESULTS_partial.md (a re-run after a change
# that touches only rules these properties own); the full table stays in RESULTS.md
PROPS = os.environ.get("BENIGN_PROPS", "")
def ev(d):
    r = subprocess.run(['python3', '/verif/tools/refactor_eval.py', os.path.join(root, d)] + ([PROPS] if PROPS else []), capture_output=True, text=True)
    try:
        return d, json.loads(r.stdout)
    except Exception:
        return d, {"error": (r.stdout + r.stderr)[-400:]}
rows = []
with cf.ThreadPoolExecutor(max_workers=int(os.environ.get("BENIGN_WORKERS", "3"))) as ex:
    for d, res in ex.map(ev, diffs):
        alarms = res.get('alarms', {})
        summ = ''
        j = os.path.join(root, d[:-5] + '.json')
        if os.path.exists(j):
            try:
                summ = json.load(open(j)).get('summary', '')
            except Exception:
                pass
        rows.append((d, res.get('applies'), res.get('builds_and_tests_pass'), alarms, summ.replace('\n', ' ')[:160], res.get('error', '')))
        print(d, 'SILENT' if not alarms and not res.get('error') else 'ALARM %s %s' % (list(alarms.keys()), res.get('error', '')[:100]), flush=True)
with open(os.path.join(root, os.environ.get('BENIGN_OUT') or ('RESULTS_partial.md' if PROPS else 'RESULTS.md')), 'w') as f:
    if PROPS:
        f.write('Partial re-run: only the quick checks of %s, build only (suite results as in RESULTS.md).\n\n' % PROPS)
    f.write("# Behaviour-preserving changes (silence controls)\n\nRnn-refK: refactorings written by sub-agents that saw only the repository (extract helper, split function, switch <-> if chain, loop form, renames, named constants, hoisting, early returns); Xnn: mechanical renames of unexported helpers, fields and types. Each builds and passes the existing suite. All 20 quick checks are run against each in a scratch copy.\n\n| change | suite passes | checks that raise an alarm | what it does |\n|---|---|---|---|\n")
    for r in rows:
        f.write("| %s | %s | %s | %s |\n" % (r[0], 'yes' if r[2] else 'NO', ', '.join(sorted(r[3].keys())) or 'none', r[4].replace('|', '/')))
    sil = sum(1 for r in rows if not r[3] and not r[5])
    f.write("\n%d of %d changes leave all 20 checks silent.\n" % (sil, len(rows)))
