#!/usr/bin/env python3
"""Prints a per-property summary of seeded/*/meta.json: how many confirmed changes, how many are
detected by the property's own quick check, and the rules that fire (with counts)."""
import json, os, collections
root = '/verif/seeded'
by = collections.defaultdict(list)
for d in sorted(os.listdir(root)):
    mp = os.path.join(root, d, 'meta.json')
    if d.startswith('_') or not os.path.exists(mp):
        continue
    m = json.load(open(mp))
    by[m['property']].append((d, m))
print("| property | seeded changes | detected | rules that fire (number of changes) |")
print("|---|---|---|---|")
tot = det = 0
for p in sorted(by):
    rules = collections.Counter()
    n = k = 0
    for d, m in by[p]:
        n += 1
        ch = m.get('checks') or {}
        if ch.get('detected'):
            k += 1
        seen = set()
        for prop, diags in (ch.get('caught_by') or {}).items():
            for dg in diags:
                if '[' in dg and ']' in dg:
                    seen.add(dg[dg.index('[') + 1:dg.index(']')])
        for r in seen:
            rules[r] += 1
    tot += n
    det += k
    print("| %s | %d | %d | %s |" % (p, n, k, ', '.join('%s (%d)' % (r, c) for r, c in sorted(rules.items(), key=lambda x: (-x[1], x[0])))))
print()
print("%d of %d seeded changes are detected by the quick check of the property they were written against." % (det, tot))
