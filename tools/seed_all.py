#!/usr/bin/env python3
"""Re-evaluates every seeded change against its own property's check and rewrites
seeded/RESULTS.md and the 'checks' part of each meta.json."""
import json, os, subprocess, sys, concurrent.futures as cf
root = '/verif/seeded'
dirs = sorted(d for d in os.listdir(root) if os.path.isdir(os.path.join(root, d)) and not d.startswith('_'))
only = sys.argv[1:]  # optional substrings: re-evaluate only these, keep the stored verdict of the others
def ev(d):
    if only and not any(a in d for a in only):
        m = json.load(open(os.path.join(root, d, 'meta.json')))
        res = dict(m.get('confirmed_by_me') or {})
        res.update(m.get('checks') or {})
        return d, res
    r = subprocess.run(['python3', '/verif/tools/seed_eval.py', os.path.join(root, d)], capture_output=True, text=True)
    try:
        return d, json.loads(r.stdout)
    except Exception:
        return d, {"error": (r.stdout + r.stderr)[-500:]}
rows = []
with cf.ThreadPoolExecutor(max_workers=4) as ex:
    for d, res in ex.map(ev, dirs):
        mp = os.path.join(root, d, 'meta.json')
        m = json.load(open(mp))
        m['confirmed_by_me'] = {k: res.get(k) for k in ("demo_passes_on_clean_tree", "patch_applies", "builds", "existing_suite_passes", "demo_fails_with_change")}
        m['checks'] = {"detected": res.get('detected'), "caught_by": res.get('caught_by')}
        json.dump(m, open(mp, 'w'), indent=1)
        rules = []
        for p, diags in (res.get('caught_by') or {}).items():
            for dg in diags:
                if '[' in dg and ']' in dg:
                    rules.append(dg[dg.index('[') + 1:dg.index(']')])
        rows.append((d, m['property'], all(m['confirmed_by_me'].values()), res.get('detected'), sorted(set(rules)), m.get('summary', '').replace('\n', ' ')[:150], m.get('needs', '').replace('\n', ' ')[:120]))
        print(d, 'detected' if res.get('detected') else 'MISSED', sorted(set(rules))[:3])
with open(os.path.join(root, 'RESULTS.md'), 'w') as f:
    f.write("# Seeded changes and the checks that catch them\n\nEach change was written by a sub-agent that saw only the property text and a scratch worktree, and was confirmed by `tools/seed_eval.py` (demo passes on the clean tree; with the change: builds, the existing suite passes, the demo fails). 'caught by' lists the rules of the property's own quick check that fire on the changed tree.\n\n| seed | property | confirmed | detected | caught by (rule) | change | needs |\n|---|---|---|---|---|---|---|\n")
    for r in rows:
        f.write("| %s | %s | %s | %s | %s | %s | %s |\n" % (r[0], r[1], 'yes' if r[2] else 'NO', 'yes' if r[3] else '**no**', ', '.join(r[4]) or '-', r[5].replace('|', '/'), r[6].replace('|', '/')))
    det = sum(1 for r in rows if r[3]); f.write("\n%d of %d seeded changes are detected by the check of the property they were written against.\n" % (det, len(rows)))
