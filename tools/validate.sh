#!/bin/bash
# validates MANIFEST.json and every evidence file against the harness schemas
python3-vt - <<'PY'
import json,jsonschema,glob
jsonschema.validate(json.load(open('/verif/MANIFEST.json')), json.load(open('/root/.vp/MANIFEST.schema.json')))
es=json.load(open('/root/.vp/EVIDENCE.schema.json'))
for f in sorted(glob.glob('/verif/evidence/C*.json')):
    jsonschema.validate(json.load(open(f)), es)
print('MANIFEST + %d evidence files valid' % len(glob.glob('/verif/evidence/C*.json')))
PY
