// Command wscheck decides the static rules of one property of gobwas/ws.
//
//	wscheck check -property C03 -tier quick|thorough
//	wscheck replay <file>
//	wscheck list
package main

import (
	"encoding/json"
	"flag"
	"fmt"
	"os"
	"path/filepath"
	"runtime/debug"
	"strings"

	"verif/wscheck/internal/fold"
	"verif/wscheck/internal/load"
	"verif/wscheck/internal/report"
	"verif/wscheck/internal/rules"
)

func verifDir() string {
	if d := os.Getenv("WSCHECK_VERIF"); d != "" {
		return d
	}
	return "/verif"
}

func main() {
	if len(os.Args) < 2 {
		fmt.Fprintln(os.Stderr, "usage: wscheck check|replay|list ...")
		os.Exit(2)
	}
	switch os.Args[1] {
	case "list":
		for _, id := range rules.IDs() {
			fmt.Println(id)
		}
	case "describe":
		out := map[string]any{}
		for _, id := range rules.IDs() {
			p := rules.Registry[id]
			out[id] = map[string]any{"explain": p.Explain, "trusted": p.Trusted, "assume": p.Assume, "technique": p.Technique}
		}
		b, _ := json.MarshalIndent(out, "", " ")
		fmt.Println(string(b))
	case "check":
		fs := flag.NewFlagSet("check", flag.ExitOnError)
		prop := fs.String("property", "", "property id")
		tier := fs.String("tier", "quick", "quick|thorough")
		_ = fs.Parse(os.Args[2:])
		if t := os.Getenv("VERIF_TIER"); t != "" && *tier == "" {
			*tier = t
		}
		os.Exit(check(*prop, *tier))
	case "replay":
		if len(os.Args) < 3 {
			fmt.Fprintln(os.Stderr, "usage: wscheck replay <file>")
			os.Exit(2)
		}
		os.Exit(replay(os.Args[2]))
	case "freeze-anchors":
		// prints the anchors table of the tree under analysis (reference tree only)
		prog, err := load.Load(load.RepoDir(), load.ConfigDefault)
		if err != nil {
			fmt.Fprintln(os.Stderr, err)
			os.Exit(2)
		}
		b, err := rules.FreezeAnchors(prog)
		if err != nil {
			fmt.Fprintln(os.Stderr, err)
			os.Exit(2)
		}
		os.Stdout.Write(b)
		fmt.Println()
	default:
		fmt.Fprintln(os.Stderr, "unknown command", os.Args[1])
		os.Exit(2)
	}
}

func check(id, tier string) (code int) {
	p := rules.Registry[id]
	if p == nil {
		fmt.Fprintf(os.Stderr, "wscheck: no rules registered for property %q\n", id)
		return 2
	}
	defer func() {
		if r := recover(); r != nil {
			fmt.Fprintf(os.Stderr, "wscheck: internal error: %v\n%s\n", r, debug.Stack())
			code = 2
		}
	}()
	rep := report.New(id, tier)
	rep.Explain = p.Explain
	rep.Trusted = p.Trusted
	rep.Assume = p.Assume
	configs := []load.Config{load.ConfigDefault}
	if tier == "thorough" {
		configs = []load.Config{load.ConfigDefault, load.ConfigPurego, load.Config386}
		if p.Configs != nil {
			configs = configs[:0]
			for _, c := range []load.Config{load.ConfigDefault, load.ConfigPurego, load.Config386} {
				for _, n := range p.Configs {
					if n == c.Name {
						configs = append(configs, c)
					}
				}
			}
		}
	}
	for _, cfg := range configs {
		prog, err := load.Load(load.RepoDir(), cfg)
		if err != nil {
			fmt.Fprintf(os.Stderr, "wscheck: cannot analyse %s under configuration %s: %v\n", load.RepoDir(), cfg.Name, err)
			return 2
		}
		if cfg.GOARCH == "386" {
			fold.IntSize = 32
		} else {
			fold.IntSize = 64
		}
		rep.Config = cfg.Name
		rep.Configs = append(rep.Configs, cfg.Name)
		for _, n := range rules.ResolveRenames(prog) {
			rep.Note("renamed helper: %s", n)
		}
		ctx := &rules.Ctx{P: prog, R: rep, Tier: tier,
			Ix: fold.NewInitIndex(prog.ByPath[load.PkgWS], prog.ByPath[load.PkgWSUtil], prog.ByPath[load.PkgWSFlate])}
		func() {
			// a rule that cannot cope with the shape of the tree must not take the check down:
			// the property is then undecided (exit 1 with a diagnostic), not "checker broken"
			defer func() {
				if r := recover(); r != nil {
					stack := strings.Split(string(debug.Stack()), "\n")
					where := ""
					for _, l := range stack {
						if strings.Contains(l, "/internal/rules/") || strings.Contains(l, "/internal/fold/") {
							where = strings.TrimSpace(l)
							break
						}
					}
					rep.Unknown("internal", "internal/analysis-panic:"+cfg.Name, "-", fmt.Sprintf("the analysis could not be completed on this tree (%v at %s): the property is undecided", r, where))
				}
			}()
			p.Run(ctx)
		}()
	}
	rep.Config = ""
	known, err := report.LoadKnown(filepath.Join(verifDir(), "known_findings.json"))
	if err != nil {
		fmt.Fprintf(os.Stderr, "wscheck: %v\n", err)
		return 2
	}
	return rep.Finish(verifDir(), known, "other", fmt.Sprintf("./bin/wscheck check -property %s -tier %s", id, tier))
}

func replay(path string) int {
	b, err := os.ReadFile(path)
	if err != nil {
		fmt.Fprintln(os.Stderr, err)
		return 2
	}
	var rf struct {
		Property   string            `json:"property"`
		Tier       string            `json:"tier"`
		Obligation report.Obligation `json:"obligation"`
	}
	if err := json.Unmarshal(b, &rf); err != nil {
		fmt.Fprintln(os.Stderr, err)
		return 2
	}
	fmt.Printf("replaying %s rule=%s key=%s (recorded: %s at %s: %s)\n", rf.Property, rf.Obligation.Rule, rf.Obligation.Key, rf.Obligation.Status, rf.Obligation.Pos, rf.Obligation.Detail)
	os.Setenv("WSCHECK_ONLY_KEY", rf.Obligation.Rule+"|"+rf.Obligation.Key)
	tier := rf.Tier
	if tier == "" {
		tier = "quick"
	}
	return check(rf.Property, tier)
}
