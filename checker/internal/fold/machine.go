package fold

import (
	"fmt"
	"go/constant"
	"go/token"
	"go/types"
	"math"
	"os"
	"strings"
	"sync"

	"golang.org/x/tools/go/ssa"
)

// Effect is an observable step of a path: a modelled or opaque call, an
// allocation whose size is not constant, a goroutine start, a bounds
// obligation.
type Effect struct {
	Kind string // "call", "alloc", "go", "bounds", "store"
	Name string
	Args []Val
	Pos  token.Pos
	Note string
}

func (e Effect) String() string {
	var a []string
	for _, v := range e.Args {
		a = append(a, Show(v))
	}
	s := e.Kind + ":" + e.Name + "(" + strings.Join(a, ", ") + ")"
	if e.Note != "" {
		s += "/" + e.Note
	}
	return s
}

// Choice is one fork taken on a path.
type Choice struct {
	Key string
	Opt int
	N   int
}

// Refine asks the caller to split input In (0-based) at the given cuts (each
// cut c separates (..c-1] from [c..)).
type Refine struct {
	In   int
	Cuts []int64
}

// Path is the outcome of one explored path.
type Path struct {
	Choices []Choice
	Effects []Effect
	Ret     Val  // result (Tuple for several)
	Panic   bool // ended in an explicit panic instruction
	PanicV  Val
	Abort   string // non-empty: the evaluator could not follow the path
	Refine  *Refine
	Steps   int
	// Bounds records, for every index / slice instruction executed on the path,
	// whether the access was in range for every value the operands stand for.
	Bounds []BoundsNote
}

// BoundsNote is one executed bounds check: Note is "proven", "unproven" or "violated".
type BoundsNote struct {
	Pos  token.Pos
	Note string
}

// Chose returns the option taken for an atom key (-1 if the atom was never asked).
func (p *Path) Chose(key string) int {
	for _, c := range p.Choices {
		if c.Key == key {
			return c.Opt
		}
	}
	return -1
}

// ChoseTrue reports whether a boolean atom was asked and answered true.
func (p *Path) ChoseTrue(key string) bool { return p.Chose(key) == 1 }

func (p *Path) Calls(name string) []Effect {
	var out []Effect
	for _, e := range p.Effects {
		if e.Kind == "call" && e.Name == name {
			out = append(out, e)
		}
	}
	return out
}

func (p *Path) ChoiceString() string {
	var s []string
	for _, c := range p.Choices {
		s = append(s, fmt.Sprintf("%s=%d", c.Key, c.Opt))
	}
	return strings.Join(s, " ")
}

// Call describes a call handed to a Model.
type Call struct {
	M      *Machine
	Name   string // resolved callee name
	Args   []Val
	Instr  ssa.Instruction
	Sig    *types.Signature
	Callee *ssa.Function // nil for invoke / dynamic
	Seq    int           // per-run occurrence number of this callee (1-based)
}

// Model gives the abstract semantics of a call the evaluator does not inline.
// It returns the result (Tuple for several results).
type Model func(c *Call) Val

// Machine explores the paths of a function.
type Machine struct {
	Prog       *ssa.Program
	Models     map[string]Model
	GlobalInit func(g *ssa.Global) (Val, bool)
	Inline     func(fn *ssa.Function) bool
	Recv       func(m *Machine, ch Val, instr *ssa.UnOp) Val
	// MapLookup, if set, gives the value of map[key] (ok=false: not modelled).
	MapLookup func(m *Machine, mp, key Val, commaOk bool) (Val, bool)
	MaxSteps  int
	MaxDepth  int
	MaxPaths  int
	// OnExplored, if set, is called with the complete set of paths of every Explore.
	OnExplored func(fn *ssa.Function, paths []*Path)
	// Bind supplies the free variables when the explored function is a closure.
	Bind func(m *Machine) []Val
	// OpaqueOK lets calls without model or body become opaque effects; when
	// false such a call aborts the path.
	OpaqueOK bool

	decisions []int
	recorded  []Choice
	atoms     map[string]int
	trace     []Effect
	bounds    []BoundsNote
	steps     int
	globals   map[*ssa.Global]*Obj
	symObjs   map[string]*Obj
	callSeq   map[string]int
	objSeq    int
}

type abortErr struct {
	msg    string
	refine *Refine
}

type panicErr struct{ v Val }

func (m *Machine) abort(format string, a ...any) {
	panic(abortErr{msg: fmt.Sprintf(format, a...)})
}

// Choose forks on a named atom with n options; the answer is memoised for the
// rest of the path.
var (
	dbgAtoms = os.Getenv("WSCHECK_DEBUG_ATOMS") != ""
	dbgMu    sync.Mutex
	dbgSeen  = map[string]bool{}
)

func (m *Machine) Choose(key string, n int) int {
	if v, ok := m.atoms[key]; ok {
		return v
	}
	idx := len(m.recorded)
	if idx >= maxDecisions {
		m.abort("decision limit reached at %s (loop that forks on every iteration?)", key)
	}
	opt := 0
	if idx < len(m.decisions) {
		opt = m.decisions[idx]
	}
	m.recorded = append(m.recorded, Choice{Key: key, Opt: opt, N: n})
	m.atoms[key] = opt
	if dbgAtoms {
		dbgMu.Lock()
		if !dbgSeen[key] {
			dbgSeen[key] = true
			fmt.Fprintln(os.Stderr, "ATOM", key)
		}
		dbgMu.Unlock()
	}
	return opt
}

// Seq is the number of calls of the named model (or of "make") made so far on the current path.
func (m *Machine) Seq(name string) int { return m.callSeq[name] }

// Atom forks on a boolean atom.
func (m *Machine) Atom(key string) bool { return m.Choose(key, 2) == 1 }

// Emit appends an effect to the current path.
func (m *Machine) Emit(e Effect) {
	m.trace = append(m.trace, e)
	if e.Kind == "bounds" && e.Pos.IsValid() {
		m.bounds = append(m.bounds, BoundsNote{Pos: e.Pos, Note: e.Note})
	}
}

// NewObj allocates a fresh memory cell.
func (m *Machine) NewObj(name string, v Val) *Obj {
	m.objSeq++
	return &Obj{Name: fmt.Sprintf("%s#%d", name, m.objSeq), V: v}
}

// NewBytes allocates a constant-size byte array and returns a slice over it.
func (m *Machine) NewBytes(name string, elems []Val) SliceV {
	o := m.NewObj(name, Arr{E: elems})
	return SliceV{O: o, Len: int64(len(elems)), Cap: int64(len(elems))}
}

// maxDecisions bounds the forks of one path.
const maxDecisions = 600

// Explore enumerates every path of fn. setup builds the arguments afresh for
// each path (it may itself fork); done, if non-nil, inspects final memory.
func (m *Machine) Explore(fn *ssa.Function, setup func(m *Machine) []Val, done func(m *Machine, p *Path)) []*Path {
	if m.MaxSteps == 0 {
		m.MaxSteps = 200000
	}
	if m.MaxDepth == 0 {
		m.MaxDepth = 24
	}
	if m.MaxPaths == 0 {
		m.MaxPaths = 200000
	}
	var paths []*Path
	m.decisions = nil
	limited := 0
	for {
		p := m.runOnce(fn, setup)
		if strings.Contains(p.Abort, "limit reached") {
			// every such path is undecided anyway: do not enumerate an unbounded tree
			limited++
			if limited >= 16 {
				paths = append(paths, p, &Path{Abort: "exploration stopped: " + p.Abort})
				break
			}
		}
		if done != nil && p.Abort == "" {
			func() {
				defer func() {
					if r := recover(); r != nil {
						if a, ok := r.(abortErr); ok {
							p.Abort = "inspect: " + a.msg
							return
						}
						panic(r)
					}
				}()
				done(m, p)
			}()
		}
		paths = append(paths, p)
		rec := m.recorded
		i := len(rec) - 1
		for i >= 0 && rec[i].Opt+1 >= rec[i].N {
			i--
		}
		if i < 0 {
			break
		}
		next := make([]int, i+1)
		for j := 0; j < i; j++ {
			next[j] = rec[j].Opt
		}
		next[i] = rec[i].Opt + 1
		m.decisions = next
		if len(paths) >= m.MaxPaths {
			paths = append(paths, &Path{Abort: "path limit reached"})
			break
		}
	}
	if m.OnExplored != nil {
		m.OnExplored(fn, paths)
	}
	return paths
}

func (m *Machine) runOnce(fn *ssa.Function, setup func(m *Machine) []Val) (p *Path) {
	m.recorded = nil
	m.atoms = map[string]int{}
	m.trace = nil
	m.bounds = nil
	m.steps = 0
	m.globals = map[*ssa.Global]*Obj{}
	m.symObjs = map[string]*Obj{}
	m.callSeq = map[string]int{}
	m.objSeq = 0
	p = &Path{}
	defer func() {
		p.Choices = m.recorded
		p.Effects = m.trace
		p.Bounds = m.bounds
		p.Steps = m.steps
		if r := recover(); r != nil {
			switch e := r.(type) {
			case abortErr:
				p.Abort = e.msg
				p.Refine = e.refine
			case panicErr:
				p.Panic = true
				p.PanicV = e.v
			default:
				panic(r)
			}
		}
	}()
	args := setup(m)
	var bind []Val
	if m.Bind != nil {
		bind = m.Bind(m)
	}
	p.Ret = m.callFunc(fn, args, bind, 0)
	return p
}

// ---- frames ----

type deferred struct {
	fn   Val
	args []Val
	call *ssa.Defer
}

type frame struct {
	fn     *ssa.Function
	env    map[ssa.Value]Val
	defers []deferred
	depth  int
}

// CallFunc lets models invoke a function value (closure) with arguments.
func (m *Machine) CallValue(f Val, args []Val, depth int) Val {
	switch f := f.(type) {
	case Closure:
		return m.callFunc(f.Fn, args, f.Bind, depth)
	}
	m.abort("call of non-function value %s", Show(f))
	return nil
}

func (m *Machine) callFunc(fn *ssa.Function, args []Val, bind []Val, depth int) Val {
	if depth > m.MaxDepth {
		m.abort("inlining depth exceeded at %s", fn)
	}
	if fn.Blocks == nil {
		m.abort("function %s has no body", fn)
	}
	fr := &frame{fn: fn, env: map[ssa.Value]Val{}, depth: depth}
	if len(args) != len(fn.Params) {
		m.abort("arity mismatch calling %s: %d args for %d params", fn, len(args), len(fn.Params))
	}
	for i, p := range fn.Params {
		fr.env[p] = cloneVal(args[i])
	}
	for i, fv := range fn.FreeVars {
		if i < len(bind) {
			fr.env[fv] = bind[i]
		}
	}
	var prev *ssa.BasicBlock
	b := fn.Blocks[0]
	for {
		var next *ssa.BasicBlock
		for _, instr := range b.Instrs {
			m.steps++
			if m.steps > m.MaxSteps {
				m.abort("step limit reached in %s (loop without a decidable bound?)", fn)
			}
			switch in := instr.(type) {
			case *ssa.Phi:
				for i, pb := range b.Preds {
					if pb == prev {
						fr.env[in] = m.get(fr, in.Edges[i])
						break
					}
				}
			case *ssa.If:
				c := m.get(fr, in.Cond)
				bv, ok := c.(Bool)
				if !ok {
					m.abort("branch on non-boolean %s in %s", Show(c), fn)
				}
				if bv {
					next = b.Succs[0]
				} else {
					next = b.Succs[1]
				}
			case *ssa.Jump:
				next = b.Succs[0]
			case *ssa.Return:
				var ret Val
				switch len(in.Results) {
				case 0:
					ret = nil
				case 1:
					ret = cloneVal(m.get(fr, in.Results[0]))
				default:
					t := make(Tuple, len(in.Results))
					for i, r := range in.Results {
						t[i] = cloneVal(m.get(fr, r))
					}
					ret = t
				}
				return ret
			case *ssa.Panic:
				panic(panicErr{v: m.get(fr, in.X)})
			case *ssa.RunDefers:
				m.runDefers(fr)
			default:
				m.exec(fr, instr)
			}
		}
		if next == nil {
			m.abort("fell off block %d of %s", b.Index, fn)
		}
		prev, b = b, next
	}
}

func (m *Machine) runDefers(fr *frame) {
	for len(fr.defers) > 0 {
		d := fr.defers[len(fr.defers)-1]
		fr.defers = fr.defers[:len(fr.defers)-1]
		m.invoke(fr, d.call, d.call.Common(), d.fn, d.args)
	}
}

func (m *Machine) get(fr *frame, v ssa.Value) Val {
	switch v := v.(type) {
	case *ssa.Const:
		return m.constVal(v)
	case *ssa.Global:
		return Ref{O: m.globalObj(v)}
	case *ssa.Function:
		return Closure{Fn: v}
	case *ssa.Builtin:
		return Builtin{Name: v.Name()}
	}
	x, ok := fr.env[v]
	if !ok {
		m.abort("use of value %s (%s) before definition in %s", v.Name(), v, fr.fn)
	}
	return x
}

func (m *Machine) constVal(c *ssa.Const) Val {
	if c.Value == nil {
		return Zero(c.Type())
	}
	switch c.Value.Kind() {
	case constant.Bool:
		return Bool(constant.BoolVal(c.Value))
	case constant.String:
		return Str(constant.StringVal(c.Value))
	case constant.Int:
		if i, ok := constant.Int64Val(c.Value); ok {
			return K(i)
		}
		if u, ok := constant.Uint64Val(c.Value); ok {
			return K(int64(u)) // two's complement view of a uint64 constant
		}
		return Int{Top: true}
	}
	return Sym{Name: "const:" + c.Value.ExactString()}
}

func (m *Machine) globalObj(g *ssa.Global) *Obj {
	if o, ok := m.globals[g]; ok {
		return o
	}
	name := "global:" + g.Pkg.Pkg.Name() + "." + g.Name()
	o := &Obj{Name: name, G: g}
	elem := g.Type().(*types.Pointer).Elem()
	if m.GlobalInit != nil {
		if v, ok := m.GlobalInit(g); ok {
			o.V = m.materialiseInit(name, v)
			m.globals[g] = o
			return o
		}
	}
	switch elem.Underlying().(type) {
	case *types.Slice:
		o.V = SymSeq{Name: name, Len: Int{Top: true, Name: "len(" + name + ")"}}
	case *types.Basic:
		if b := elem.Underlying().(*types.Basic); b.Info()&types.IsString != 0 {
			o.V = SymSeq{Name: name, Len: Int{Top: true, Name: "len(" + name + ")"}, IsStr: true}
		} else {
			o.V = Sym{Name: name}
		}
	default:
		o.V = Sym{Name: name, NonNil: true}
	}
	m.globals[g] = o
	return o
}

// BytesInit is returned by GlobalInit for `[]byte("...")` initialisers.
type BytesInit struct{ S string }

// GlobalObj returns the memory cell of a package-level variable.
func (m *Machine) GlobalObj(g *ssa.Global) *Obj { return m.globalObj(g) }

func (m *Machine) materialiseInit(name string, v Val) Val {
	switch a := v.(type) {
	case Arr:
		n := Arr{E: make([]Val, len(a.E))}
		for i, e := range a.E {
			n.E[i] = m.materialiseInit(fmt.Sprintf("%s[%d]", name, i), e)
		}
		return n
	case Struct:
		n := Struct{F: make([]Val, len(a.F))}
		for i, e := range a.F {
			n.F[i] = m.materialiseInit(fmt.Sprintf("%s.%d", name, i), e)
		}
		return n
	}
	if b, ok := v.(BytesInit); ok {
		elems := make([]Val, len(b.S))
		for i := range elems {
			elems[i] = K(int64(b.S[i]))
		}
		o := &Obj{Name: name + ".data", V: Arr{E: elems}}
		return SliceV{O: o, Len: int64(len(elems)), Cap: int64(len(elems))}
	}
	return cloneVal(v)
}

// ---- memory ----

func (m *Machine) symObj(name string) *Obj {
	if o, ok := m.symObjs[name]; ok {
		return o
	}
	o := &Obj{Name: name, V: Sym{Name: "*" + name}}
	m.symObjs[name] = o
	return o
}

func (m *Machine) Load(r Ref) Val {
	v := r.O.V
	for _, i := range r.Path {
		switch a := v.(type) {
		case Struct:
			if i >= len(a.F) {
				m.abort("field index out of range in load")
			}
			v = a.F[i]
		case Arr:
			if i >= len(a.E) || i < 0 {
				m.abort("array index %d out of range in load of %s", i, r.O.Name)
			}
			v = a.E[i]
		case Sym:
			return Sym{Name: a.Name + showPath(r.Path)}
		default:
			m.abort("load through non-aggregate %s", Show(v))
		}
	}
	return cloneVal(v)
}

func (m *Machine) Store(r Ref, nv Val) {
	nv = cloneVal(nv)
	if len(r.Path) == 0 {
		r.O.V = nv
		return
	}
	v := r.O.V
	for k, i := range r.Path {
		last := k == len(r.Path)-1
		switch a := v.(type) {
		case Struct:
			if last {
				a.F[i] = nv
				return
			}
			v = a.F[i]
		case Arr:
			if i >= len(a.E) || i < 0 {
				m.abort("array index %d out of range in store to %s", i, r.O.Name)
			}
			if last {
				a.E[i] = nv
				return
			}
			v = a.E[i]
		default:
			// store into opaque memory: remembered as an effect only
			m.Emit(Effect{Kind: "store", Name: r.O.Name + showPath(r.Path), Args: []Val{nv}})
			return
		}
	}
}

// materialise makes sure the object at ref is a Struct/Arr of the given type
// so that field addresses can be taken of opaque memory.
func (m *Machine) materialise(r Ref, t types.Type) {
	cur := m.peek(r)
	s, ok := cur.(Sym)
	if !ok {
		return
	}
	switch u := t.Underlying().(type) {
	case *types.Struct:
		n := Struct{F: make([]Val, u.NumFields())}
		for i := range n.F {
			n.F[i] = symOfType(s.Name+"."+u.Field(i).Name(), u.Field(i).Type())
		}
		m.Store(r, n)
	case *types.Array:
		if u.Len() <= 64 {
			n := Arr{E: make([]Val, u.Len())}
			for i := range n.E {
				n.E[i] = symOfType(fmt.Sprintf("%s[%d]", s.Name, i), u.Elem())
			}
			m.Store(r, n)
		}
	}
}

func (m *Machine) peek(r Ref) Val {
	v := r.O.V
	for _, i := range r.Path {
		switch a := v.(type) {
		case Struct:
			v = a.F[i]
		case Arr:
			if i >= len(a.E) || i < 0 {
				return nil
			}
			v = a.E[i]
		default:
			return v
		}
	}
	return v
}

// SymOfType makes an opaque value of a given static type.
func SymOfType(name string, t types.Type) Val { return symOfType(name, t) }

func symOfType(name string, t types.Type) Val {
	switch u := t.Underlying().(type) {
	case *types.Basic:
		switch {
		case u.Info()&types.IsBoolean != 0:
			return Sym{Name: name} // forked lazily at use
		case u.Info()&types.IsInteger != 0:
			lo, hi, ok := typeRange(t)
			if ok {
				return Int{Lo: lo, Hi: hi, Name: name}
			}
			return Int{Top: true, Name: name}
		case u.Info()&types.IsString != 0:
			return SymSeq{Name: name, Len: Int{Lo: 0, Hi: math.MaxInt64, Name: "len(" + name + ")"}, IsStr: true}
		}
	case *types.Slice:
		return SymSeq{Name: name, Len: Int{Lo: 0, Hi: math.MaxInt64, Name: "len(" + name + ")"}}
	case *types.Struct:
		n := Struct{F: make([]Val, u.NumFields())}
		for i := range n.F {
			n.F[i] = symOfType(name+"."+u.Field(i).Name(), u.Field(i).Type())
		}
		return n
	case *types.Array:
		if u.Len() <= 64 {
			n := Arr{E: make([]Val, u.Len())}
			for i := range n.E {
				n.E[i] = symOfType(fmt.Sprintf("%s[%d]", name, i), u.Elem())
			}
			return n
		}
	}
	return Sym{Name: name}
}

// ---- instructions ----

func (m *Machine) exec(fr *frame, instr ssa.Instruction) {
	switch in := instr.(type) {
	case *ssa.DebugRef:
	case *ssa.Alloc:
		t := in.Type().(*types.Pointer).Elem()
		name := in.Comment
		if name == "" {
			name = "alloc"
		}
		o := m.NewObj(name, Zero(t))
		fr.env[in] = Ref{O: o}
	case *ssa.UnOp:
		fr.env[in] = m.unop(fr, in)
	case *ssa.BinOp:
		x, y := m.get(fr, in.X), m.get(fr, in.Y)
		fr.env[in] = m.binop(in.Op, x, y, in.X.Type(), in.Type(), in)
	case *ssa.Store:
		addr := m.get(fr, in.Addr)
		r, ok := addr.(Ref)
		if !ok {
			m.abort("store through %s", Show(addr))
		}
		m.Store(r, m.get(fr, in.Val))
	case *ssa.FieldAddr:
		x := m.get(fr, in.X)
		st := in.X.Type().Underlying().(*types.Pointer).Elem()
		switch x := x.(type) {
		case Ref:
			m.materialise(x, st)
			fr.env[in] = Ref{O: x.O, Path: appendPath(x.Path, in.Field)}
		case Sym:
			o := m.symObj(x.Name)
			r := Ref{O: o}
			m.materialise(r, st)
			fr.env[in] = Ref{O: o, Path: []int{in.Field}}
		case Nil:
			m.abort("nil dereference (field address) in %s", fr.fn)
		default:
			m.abort("field address of %s", Show(x))
		}
	case *ssa.Field:
		x := m.get(fr, in.X)
		switch x := x.(type) {
		case Struct:
			fr.env[in] = cloneVal(x.F[in.Field])
		case Sym:
			st := in.X.Type().Underlying().(*types.Struct)
			fr.env[in] = symOfType(x.Name+"."+st.Field(in.Field).Name(), st.Field(in.Field).Type())
		default:
			m.abort("field of %s", Show(x))
		}
	case *ssa.IndexAddr:
		fr.env[in] = m.indexAddr(fr, in)
	case *ssa.Index:
		x := m.get(fr, in.X)
		idx := m.get(fr, in.Index)
		switch x := x.(type) {
		case Arr:
			i, ok := idx.(Int)
			if !ok || !i.IsConst() {
				m.abort("array value indexed by non-constant %s", Show(idx))
			}
			if i.Lo < 0 || i.Lo >= int64(len(x.E)) {
				m.abort("array index out of range")
			}
			fr.env[in] = cloneVal(x.E[i.Lo])
		case Str:
			i, ok := idx.(Int)
			if ok && i.IsConst() && i.Lo >= 0 && i.Lo < int64(len(x)) {
				fr.env[in] = K(int64(x[i.Lo]))
			} else {
				fr.env[in] = Range(0, 255)
			}
		case SymSeq:
			fr.env[in] = Int{Lo: 0, Hi: 255, Name: x.Name + "[" + Show(idx) + "]"}
		default:
			m.abort("index of %s", Show(x))
		}
	case *ssa.Slice:
		fr.env[in] = m.slice(fr, in)
	case *ssa.MakeSlice:
		l := m.get(fr, in.Len)
		li, _ := l.(Int)
		et := in.Type().Underlying().(*types.Slice).Elem()
		if li.IsConst() && li.Lo >= 0 && li.Lo <= 1<<18 {
			cp := li.Lo
			if c, ok := m.get(fr, in.Cap).(Int); ok && c.IsConst() && c.Lo >= cp && c.Lo <= 1<<18 {
				cp = c.Lo
			}
			elems := make([]Val, cp)
			z := Zero(et)
			for i := range elems {
				elems[i] = cloneVal(z)
			}
			o := m.NewObj("make", Arr{E: elems})
			fr.env[in] = SliceV{O: o, Len: li.Lo, Cap: cp}
		} else {
			m.callSeq["make"]++
			name := fmt.Sprintf("make#%d", m.callSeq["make"])
			m.Emit(Effect{Kind: "alloc", Name: "make", Args: []Val{l}, Pos: in.Pos()})
			fr.env[in] = SymSeq{Name: name, Len: li}
		}
	case *ssa.MakeInterface:
		x := m.get(fr, in.X)
		fr.env[in] = Iface{T: in.X.Type(), V: x}
	case *ssa.MakeClosure:
		fn := in.Fn.(*ssa.Function)
		b := make([]Val, len(in.Bindings))
		for i, bv := range in.Bindings {
			b[i] = m.get(fr, bv)
		}
		fr.env[in] = Closure{Fn: fn, Bind: b}
	case *ssa.MakeMap:
		fr.env[in] = Sym{Name: "map", NonNil: true}
	case *ssa.MakeChan:
		m.callSeq["chan"]++
		fr.env[in] = Sym{Name: fmt.Sprintf("chan#%d", m.callSeq["chan"]), NonNil: true}
	case *ssa.ChangeType:
		fr.env[in] = m.get(fr, in.X)
	case *ssa.ChangeInterface:
		fr.env[in] = m.get(fr, in.X)
	case *ssa.Convert:
		fr.env[in] = m.convert(m.get(fr, in.X), in.X.Type(), in.Type())
	case *ssa.Extract:
		t, ok := m.get(fr, in.Tuple).(Tuple)
		if !ok || in.Index >= len(t) {
			m.abort("extract #%d from %s", in.Index, Show(m.get(fr, in.Tuple)))
		}
		fr.env[in] = t[in.Index]
	case *ssa.TypeAssert:
		fr.env[in] = m.typeAssert(fr, in)
	case *ssa.Lookup:
		x := m.get(fr, in.X)
		idx := m.get(fr, in.Index)
		switch x := x.(type) {
		case Str:
			if i, ok := idx.(Int); ok && i.IsConst() && i.Lo >= 0 && i.Lo < int64(len(x)) {
				fr.env[in] = K(int64(x[i.Lo]))
			} else {
				fr.env[in] = Range(0, 255)
			}
		case SymSeq:
			fr.env[in] = Int{Lo: 0, Hi: 255, Name: x.Name + "[" + Show(idx) + "]"}
		default:
			// map lookup
			if m.MapLookup != nil {
				if v, ok := m.MapLookup(m, x, idx, in.CommaOk); ok {
					fr.env[in] = v
					break
				}
			}
			name := "lookup(" + Show(x) + "," + Show(idx) + ")"
			if in.CommaOk {
				fr.env[in] = Tuple{symOfType(name, in.Type().(*types.Tuple).At(0).Type()), Bool(m.Atom(name + ".ok"))}
			} else {
				fr.env[in] = symOfType(name, in.Type())
			}
		}
	case *ssa.Call:
		fr.env[in] = m.doCall(fr, in)
	case *ssa.Defer:
		c := in.Common()
		var fv Val
		if !c.IsInvoke() {
			fv = m.get(fr, c.Value)
		} else {
			fv = m.get(fr, c.Value)
		}
		args := make([]Val, len(c.Args))
		for i, a := range c.Args {
			args[i] = m.get(fr, a)
		}
		fr.defers = append(fr.defers, deferred{fn: fv, args: args, call: in})
	case *ssa.Go:
		c := in.Common()
		args := make([]Val, 0, len(c.Args)+1)
		args = append(args, m.get(fr, c.Value))
		for _, a := range c.Args {
			args = append(args, m.get(fr, a))
		}
		m.Emit(Effect{Kind: "go", Name: "go", Args: args, Pos: in.Pos()})
	case *ssa.Send:
		m.Emit(Effect{Kind: "send", Name: Show(m.get(fr, in.Chan)), Args: []Val{m.get(fr, in.X)}, Pos: in.Pos()})
	case *ssa.MapUpdate:
		m.Emit(Effect{Kind: "mapupdate", Name: Show(m.get(fr, in.Map)), Args: []Val{m.get(fr, in.Key), m.get(fr, in.Value)}, Pos: in.Pos()})
	case *ssa.SliceToArrayPointer:
		x := m.get(fr, in.X)
		if s, ok := x.(SliceV); ok {
			fr.env[in] = Ref{O: s.O, Path: s.Path} // only sound when Lo==0; checked:
			if s.Lo != 0 {
				m.abort("slice-to-array-pointer with offset")
			}
		} else {
			m.abort("slice-to-array-pointer of %s", Show(x))
		}
	default:
		m.abort("unsupported instruction %T (%s) in %s", instr, instr, fr.fn)
	}
}

func appendPath(p []int, i int) []int {
	n := make([]int, len(p)+1)
	copy(n, p)
	n[len(p)] = i
	return n
}

func (m *Machine) unop(fr *frame, in *ssa.UnOp) Val {
	x := m.get(fr, in.X)
	switch in.Op {
	case token.MUL: // load
		switch r := x.(type) {
		case Ref:
			v := m.Load(r)
			if s, ok := v.(Sym); ok {
				// typed view of opaque memory
				return m.typedSym(s, in.Type())
			}
			return v
		case Sym:
			return symOfType("*"+r.Name, in.Type())
		case Nil:
			m.abort("nil dereference in %s", fr.fn)
		}
		m.abort("load through %s", Show(x))
	case token.NOT:
		return Bool(!m.truth(x, "not"))
	case token.SUB:
		if i, ok := x.(Int); ok {
			if i.IsConst() {
				return K(wrapConst(-i.Lo, in.Type()))
			}
			if !i.Top && i.Lo != math.MinInt64 {
				return Int{Lo: -i.Hi, Hi: -i.Lo}
			}
			return Int{Top: true}
		}
	case token.XOR:
		if i, ok := x.(Int); ok {
			if i.IsConst() {
				return K(wrapConst(^i.Lo, in.Type()))
			}
			return Int{Top: true}
		}
	case token.ARROW:
		if m.Recv != nil {
			return m.Recv(m, x, in)
		}
		m.abort("channel receive without model in %s", fr.fn)
	}
	m.abort("unsupported unary %s on %s", in.Op, Show(x))
	return nil
}

func (m *Machine) typedSym(s Sym, t types.Type) Val {
	switch t.Underlying().(type) {
	case *types.Basic, *types.Slice, *types.Struct, *types.Array:
		return symOfType(s.Name, t)
	}
	return s
}

// truth converts a value to a concrete boolean, forking on opaque ones.
func (m *Machine) truth(v Val, ctx string) bool {
	switch b := v.(type) {
	case Bool:
		return bool(b)
	case Sym:
		return m.Atom("bool:" + b.Name)
	}
	m.abort("non-boolean %s in %s", Show(v), ctx)
	return false
}

func (m *Machine) indexAddr(fr *frame, in *ssa.IndexAddr) Val {
	x := m.get(fr, in.X)
	idx, _ := m.get(fr, in.Index).(Int)
	switch x := x.(type) {
	case Ref: // pointer to array
		at, _ := in.X.Type().Underlying().(*types.Pointer)
		if at != nil {
			m.materialise(x, at.Elem())
		}
		if !idx.IsConst() {
			// all elements alike? give a ref to a scratch cell holding the join
			if a, ok := m.peek(x).(Arr); ok && idx.within(0, int64(len(a.E))-1) {
				m.boundsOK(in, true)
				return Ref{O: m.NewObj("elem?", joinVals(a.E[idx.Lo:idx.Hi+1]))}
			}
			m.abort("array indexed by non-constant %s in %s", Show(idx), fr.fn)
		}
		if a, ok := m.peek(x).(Arr); ok {
			if idx.Lo < 0 || idx.Lo >= int64(len(a.E)) {
				m.boundsOK(in, false)
				m.abort("index %d out of range [0,%d) in %s", idx.Lo, len(a.E), fr.fn)
			}
			m.boundsOK(in, true)
		}
		return Ref{O: x.O, Path: appendPath(x.Path, int(idx.Lo))}
	case SliceV:
		if !idx.IsConst() {
			if idx.within(0, x.Len-1) {
				m.boundsOK(in, true)
				a, _ := m.peek(Ref{O: x.O, Path: x.Path}).(Arr)
				return Ref{O: m.NewObj("elem?", joinVals(a.E[x.Lo+idx.Lo:x.Lo+idx.Hi+1]))}
			}
			m.Emit(Effect{Kind: "bounds", Name: "index", Args: []Val{idx, K(x.Len)}, Pos: in.Pos(), Note: "unproven"})
			m.abort("slice indexed by non-constant %s in %s", Show(idx), fr.fn)
		}
		if idx.Lo < 0 || idx.Lo >= x.Len {
			m.Emit(Effect{Kind: "bounds", Name: "index", Args: []Val{idx, K(x.Len)}, Pos: in.Pos(), Note: "violated"})
			panic(panicErr{v: Str(fmt.Sprintf("index out of range [%d] with length %d", idx.Lo, x.Len))})
		}
		m.boundsOK(in, true)
		return Ref{O: x.O, Path: appendPath(x.Path, int(x.Lo+idx.Lo))}
	case SymSeq:
		// bounds obligation: idx < len
		lt := m.tryLess(idx, x.Len)
		nonneg := !idx.Top && idx.Lo >= 0
		switch {
		case lt == 1 && nonneg:
			m.Emit(Effect{Kind: "bounds", Name: "index", Args: []Val{idx, x.Len}, Pos: in.Pos(), Note: "proven"})
		case lt == 0:
			m.Emit(Effect{Kind: "bounds", Name: "index", Args: []Val{idx, x.Len}, Pos: in.Pos(), Note: "violated"})
			panic(panicErr{v: Str("index out of range")})
		default:
			m.Emit(Effect{Kind: "bounds", Name: "index", Args: []Val{idx, x.Len}, Pos: in.Pos(), Note: "unproven"})
		}
		return Ref{O: m.NewObj(x.Name+"["+Show(idx)+"]", Int{Lo: 0, Hi: 255, Name: x.Name + "[" + Show(idx) + "]"})}
	case Nil:
		panic(panicErr{v: Str("index of nil slice")})
	}
	m.abort("index address of %s", Show(x))
	return nil
}

func (m *Machine) boundsOK(in ssa.Instruction, ok bool) {
	note := "proven"
	if !ok {
		note = "violated"
	}
	if in.Pos().IsValid() {
		m.bounds = append(m.bounds, BoundsNote{Pos: in.Pos(), Note: note})
	}
}

// tryLess returns 1 if a<b for all values, 0 if a>=b for all, -1 otherwise.
func (m *Machine) tryLess(a, b Int) int {
	if a.In != 0 && a.In == b.In {
		if a.Off < b.Off {
			return 1
		}
		return 0
	}
	if a.Top || b.Top {
		return -1
	}
	if a.Hi < b.Lo {
		return 1
	}
	if a.Lo >= b.Hi {
		return 0
	}
	return -1
}

func joinVals(vs []Val) Val {
	if len(vs) == 0 {
		return Sym{Name: "empty"}
	}
	all := true
	for _, v := range vs[1:] {
		if !Equal(v, vs[0]) {
			all = false
		}
	}
	if all {
		return cloneVal(vs[0])
	}
	lo, hi := int64(math.MaxInt64), int64(math.MinInt64)
	for _, v := range vs {
		i, ok := v.(Int)
		if !ok || i.Top {
			return Sym{Name: "join"}
		}
		if i.Lo < lo {
			lo = i.Lo
		}
		if i.Hi > hi {
			hi = i.Hi
		}
	}
	return Int{Lo: lo, Hi: hi}
}

func (m *Machine) slice(fr *frame, in *ssa.Slice) Val {
	x := m.get(fr, in.X)
	bound := func(v ssa.Value) (Int, bool) {
		if v == nil {
			return Int{}, false
		}
		i, _ := m.get(fr, v).(Int)
		return i, true
	}
	lo, hasLo := bound(in.Low)
	hi, hasHi := bound(in.High)
	mx, hasMax := bound(in.Max)
	switch x := x.(type) {
	case Ref: // pointer to array
		a, ok := m.peek(x).(Arr)
		if !ok {
			m.abort("slice of pointer to %s", Show(m.peek(x)))
		}
		n := int64(len(a.E))
		return m.sliceConcrete(in, SliceV{O: x.O, Path: x.Path, Lo: 0, Len: n, Cap: n}, lo, hasLo, hi, hasHi, mx, hasMax)
	case SliceV:
		return m.sliceConcrete(in, x, lo, hasLo, hi, hasHi, mx, hasMax)
	case Str:
		l, h := int64(0), int64(len(x))
		if hasLo {
			if !lo.IsConst() {
				return SymSeq{Name: "substr", Len: Int{Lo: 0, Hi: int64(len(x))}, IsStr: true}
			}
			l = lo.Lo
		}
		if hasHi {
			if !hi.IsConst() {
				return SymSeq{Name: "substr", Len: Int{Lo: 0, Hi: int64(len(x))}, IsStr: true}
			}
			h = hi.Lo
		}
		if l < 0 || h > int64(len(x)) || l > h {
			panic(panicErr{v: Str("slice bounds out of range")})
		}
		return x[l:h]
	case SymSeq:
		// abstract slice: length = hi - lo with bounds obligations 0<=lo<=hi<=cap
		L := x.Len
		loI := K(0)
		if hasLo {
			loI = lo
		}
		hiI := L
		if hasHi {
			hiI = hi
		}
		note := "proven"
		c1 := m.tryLeq(loI, hiI)
		c2 := 1
		if hasHi {
			c2 = m.tryLeq(hiI, L) // len used for cap: conservative
		}
		c0 := 1
		if loI.Top || loI.Lo < 0 {
			c0 = -1
		}
		if c1 == 0 || c2 == 0 {
			note = "violated"
		} else if c1 < 0 || c2 < 0 || c0 < 0 {
			note = "unproven"
		}
		m.Emit(Effect{Kind: "bounds", Name: "slice", Args: []Val{loI, hiI, L}, Pos: in.Pos(), Note: note})
		if note == "violated" {
			panic(panicErr{v: Str("slice bounds out of range")})
		}
		nl := m.sub(hiI, loI)
		if !nl.Top && nl.Lo < 0 {
			nl.Lo = 0
		}
		name := x.Name
		if hasLo && !(lo.IsConst() && lo.Lo == 0) || hasHi {
			name = fmt.Sprintf("%s[%s:%s]", x.Name, showOpt(loI, hasLo), showOpt(hiI, hasHi))
		}
		return SymSeq{Name: name, Len: nl, IsStr: x.IsStr}
	case Nil:
		if (!hasLo || lo.IsConst() && lo.Lo == 0) && (!hasHi || hi.IsConst() && hi.Lo == 0) {
			return Nil{}
		}
		panic(panicErr{v: Str("slice of nil")})
	}
	m.abort("slice of %s", Show(x))
	return nil
}

func showOpt(i Int, has bool) string {
	if !has {
		return ""
	}
	if !i.IsConst() && i.Name != "" {
		return i.Name
	}
	return Show(i)
}

func (m *Machine) tryLeq(a, b Int) int {
	if a.In != 0 && a.In == b.In {
		if a.Off <= b.Off {
			return 1
		}
		return 0
	}
	if a.Top || b.Top {
		return -1
	}
	if a.Hi <= b.Lo {
		return 1
	}
	if a.Lo > b.Hi {
		return 0
	}
	return -1
}

func (m *Machine) sub(a, b Int) Int {
	if a.Top || b.Top {
		return Int{Top: true}
	}
	if a.In != 0 && a.In == b.In {
		return K(a.Off - b.Off)
	}
	lo, ok1 := subOv(a.Lo, b.Hi)
	hi, ok2 := subOv(a.Hi, b.Lo)
	if !ok1 || !ok2 {
		return Int{Top: true}
	}
	r := Int{Lo: lo, Hi: hi}
	if b.IsConst() && a.In != 0 {
		r.In, r.Off = a.In, a.Off-b.Lo
	}
	return r
}

func (m *Machine) sliceConcrete(in *ssa.Slice, s SliceV, lo Int, hasLo bool, hi Int, hasHi bool, mx Int, hasMax bool) Val {
	l, h, c := int64(0), s.Len, s.Cap
	// a bound with a small range of values is enumerated: one path per value
	// (the key is unique per evaluation, so two evaluations are never tied)
	enum := func(v Int, what string) Int {
		if v.IsConst() || v.Top || v.Hi-v.Lo > 128 || v.Hi-v.Lo < 0 {
			return v
		}
		m.callSeq["slice-bound"]++
		k := m.Choose(fmt.Sprintf("%s@%d#%d", what, in.Pos(), m.callSeq["slice-bound"]), int(v.Hi-v.Lo+1))
		return K(v.Lo + int64(k))
	}
	if hasLo {
		if lo = enum(lo, "slice-low"); !lo.IsConst() {
			m.abort("slice low bound %s not constant", Show(lo))
		}
		l = lo.Lo
	}
	if hasHi {
		if hi = enum(hi, "slice-high"); !hi.IsConst() {
			m.abort("slice high bound %s not constant", Show(hi))
		}
		h = hi.Lo
	}
	if hasMax {
		if !mx.IsConst() {
			m.abort("slice max bound not constant")
		}
		c = mx.Lo
	}
	if l < 0 || l > h || h > c || c > s.Cap {
		m.Emit(Effect{Kind: "bounds", Name: "slice", Args: []Val{K(l), K(h), K(s.Cap)}, Pos: in.Pos(), Note: "violated"})
		panic(panicErr{v: Str(fmt.Sprintf("slice bounds out of range [%d:%d] with capacity %d", l, h, s.Cap))})
	}
	m.boundsOK(in, true)
	return SliceV{O: s.O, Path: s.Path, Lo: s.Lo + l, Len: h - l, Cap: c - l}
}

// Elems returns the element values of a concrete slice.
func (m *Machine) Elems(s SliceV) []Val {
	a, ok := m.peek(Ref{O: s.O, Path: s.Path}).(Arr)
	if !ok {
		m.abort("slice backing is not an array")
	}
	out := make([]Val, s.Len)
	for i := int64(0); i < s.Len; i++ {
		out[i] = cloneVal(a.E[s.Lo+i])
	}
	return out
}

// SetElem stores into element i of a concrete slice.
func (m *Machine) SetElem(s SliceV, i int64, v Val) {
	m.Store(Ref{O: s.O, Path: appendPath(s.Path, int(s.Lo+i))}, v)
}

func (m *Machine) typeAssert(fr *frame, in *ssa.TypeAssert) Val {
	x := m.get(fr, in.X)
	fail := func() Val {
		if in.CommaOk {
			return Tuple{Zero(in.AssertedType), Bool(false)}
		}
		panic(panicErr{v: Str("type assertion failed")})
	}
	okv := func(v Val) Val {
		if in.CommaOk {
			return Tuple{v, Bool(true)}
		}
		return v
	}
	switch x := x.(type) {
	case Nil:
		return fail()
	case Iface:
		if b, isB := x.T.(*types.Basic); x.T == nil || isB && b.Kind() == types.Invalid {
			// opaque dynamic type: both outcomes
			name := Show(x.V)
			key := "assert(" + name + "," + types.TypeString(in.AssertedType, shortQual) + ")"
			if m.Atom(key) {
				if types.IsInterface(in.AssertedType) {
					return okv(x)
				}
				return okv(symOfType(name+".("+types.TypeString(in.AssertedType, shortQual)+")", in.AssertedType))
			}
			return fail()
		}
		if types.IsInterface(in.AssertedType) {
			it := in.AssertedType.Underlying().(*types.Interface)
			if types.Implements(x.T, it) {
				return okv(x)
			}
			return fail()
		}
		if types.Identical(x.T, in.AssertedType) {
			return okv(x.V)
		}
		return fail()
	case Sym:
		key := "assert(" + x.Name + "," + types.TypeString(in.AssertedType, shortQual) + ")"
		if m.Atom(key) {
			return okv(symOfType(x.Name+".("+types.TypeString(in.AssertedType, shortQual)+")", in.AssertedType))
		}
		return fail()
	}
	m.abort("type assertion on %s", Show(x))
	return nil
}

func (m *Machine) convert(x Val, from, to types.Type) Val {
	fu, tu := from.Underlying(), to.Underlying()
	if _, ok := typeBitsOK(to); ok {
		if i, isInt := x.(Int); isInt {
			return m.convInt(i, from, to)
		}
	}
	tb, _ := tu.(*types.Basic)
	fb, _ := fu.(*types.Basic)
	_, toSlice := tu.(*types.Slice)
	_, fromSlice := fu.(*types.Slice)
	switch {
	case tb != nil && tb.Info()&types.IsString != 0 && fromSlice: // string([]byte)
		switch s := x.(type) {
		case SliceV:
			el := m.Elems(s)
			bs := make([]byte, len(el))
			for i, e := range el {
				c, ok := e.(Int)
				if !ok || !c.IsConst() {
					return SymSeq{Name: "string(" + Show(x) + ")", Len: K(s.Len), IsStr: true}
				}
				bs[i] = byte(c.Lo)
			}
			return Str(bs)
		case SymSeq:
			if s.Nil {
				return Str("")
			}
			return SymSeq{Name: "string(" + s.Name + ")", Len: s.Len, IsStr: true}
		case Nil:
			return Str("")
		}
	case toSlice && fb != nil && fb.Info()&types.IsString != 0: // []byte(string)
		switch s := x.(type) {
		case Str:
			el := make([]Val, len(s))
			for i := range el {
				el[i] = K(int64(s[i]))
			}
			return m.NewBytes("bytes", el)
		case SymSeq:
			return SymSeq{Name: "[]byte(" + s.Name + ")", Len: s.Len}
		}
	case tb != nil && tb.Info()&types.IsString != 0 && fb != nil && fb.Info()&types.IsInteger != 0:
		if i, ok := x.(Int); ok && i.IsConst() {
			return Str(string(rune(i.Lo)))
		}
		return SymSeq{Name: "string(rune)", Len: Range(1, 4), IsStr: true}
	case tb != nil && fb != nil && tb.Info()&types.IsString != 0 && fb.Info()&types.IsString != 0:
		return x
	case tb != nil && tb.Kind() == types.UnsafePointer, fb != nil && fb.Kind() == types.UnsafePointer:
		return x
	}
	if _, ok := x.(Sym); ok {
		return x
	}
	if tb != nil && tb.Info()&types.IsFloat != 0 {
		return Sym{Name: "float"}
	}
	m.abort("unsupported conversion %s -> %s of %s", from, to, Show(x))
	return nil
}

func typeBitsOK(t types.Type) (int, bool) {
	b, _, ok := typeBits(t)
	return b, ok
}

func (m *Machine) convInt(i Int, from, to types.Type) Val {
	if i.IsConst() {
		// sign/zero-extend according to the source type first
		v := wrapConst(i.Lo, from)
		return K(wrapConst(v, to))
	}
	tname := func() string {
		if i.Name == "" {
			return ""
		}
		return types.TypeString(to.Underlying(), nil) + "(" + i.Name + ")"
	}
	bits, signed, _ := typeBits(to)
	fb, fs, fok := typeBits(from)
	if i.L != nil && fok && !fs && (fb < bits || fb == bits && !signed) {
		// zero-extension keeps the value and its byte lanes
		l := make([]string, bits/8)
		for k := range l {
			if k < len(i.L) {
				l[k] = i.L[k]
			} else {
				l[k] = "0"
			}
		}
		r := i
		r.L = l
		return r
	}
	if i.Top {
		if fok && (fb < bits && (!fs || signed) || fb == bits && fs == signed) {
			return Int{Top: true, Name: i.Name}
		}
		lo, hi, ok := typeRange(to)
		if ok {
			return Int{Lo: lo, Hi: hi, Name: tname()}
		}
		return Int{Top: true, Name: tname()}
	}
	if bits == 64 {
		if signed || i.Lo >= 0 {
			return i
		}
		return Int{Top: true, Name: tname()}
	}
	lo, hi, _ := typeRange(to)
	if i.Lo >= lo && i.Hi <= hi {
		return i
	}
	return Int{Lo: lo, Hi: hi, Name: tname()}
}

// ChoiceOf returns the option already taken for an atom on the current path.
func (m *Machine) ChoiceOf(key string) (int, bool) {
	v, ok := m.atoms[key]
	return v, ok
}
