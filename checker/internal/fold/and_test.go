package fold

import "testing"

func TestAndBit(t *testing.T) {
	for _, tc := range []struct{ lo, hi, c int64 }{{0xf0, 0xff, 0xf0}, {0x30, 0x39, 0xf0}, {0x3a, 0x3f, 0xf0}, {0x32, 0x39, 0x0f}, {0x00, 0x0f, 0xf0}} {
		r, ok := andBit(Int{Lo: tc.lo, Hi: tc.hi}, K(tc.c))
		t.Logf("[%#x..%#x]&%#x = %v %v", tc.lo, tc.hi, tc.c, Show(r), ok)
	}
}
