// Package fold is a finite-cell abstract interpreter for go/ssa functions.
//
// It is sparse conditional constant propagation, specialised once per cell of
// a finite partition of the inputs, with path-sensitive forking on
// uninterpreted boolean atoms. It never compiles, links or runs the analysed
// code: it walks the SSA of /repo as data. Integers are intervals (a singleton
// interval is a constant); a comparison is taken because it is decided for the
// whole interval, or it is an atom and both outcomes are explored, or the cell
// is split at the compared constant and re-evaluated. Anything it does not
// understand makes the path "aborted" and the rule that asked reports
// "undecided"; nothing is skipped silently.
package fold

import (
	"fmt"
	"go/types"
	"math"
	"sort"
	"strings"

	"golang.org/x/tools/go/ssa"
)

// Val is an abstract value.
type Val interface{}

// Int is an integer interval [Lo,Hi]. Top means "any value of the static
// type". Name, if set, identifies an input (or input+offset) so that
// undecidable comparisons can be turned into named atoms or cell splits.
type Int struct {
	Lo, Hi int64
	Top    bool
	In     int   // input index + 1 (0 = not linear in an input)
	Off    int64 // value = input + Off
	Name   string
	// L, if set, is the little-endian byte decomposition of the value: one
	// symbolic lane name per byte ("0" for a zero byte). It lets word-wise
	// XOR/shift/or code be compared byte by byte.
	L []string
}

func K(v int64) Int                    { return Int{Lo: v, Hi: v} }
func Range(lo, hi int64) Int           { return Int{Lo: lo, Hi: hi} }
func (i Int) IsConst() bool            { return !i.Top && i.Lo == i.Hi }
func (i Int) Const() int64             { return i.Lo }
func (i Int) within(lo, hi int64) bool { return !i.Top && i.Lo >= lo && i.Hi <= hi }

// InputInt makes the idx-th integer input restricted to [lo,hi].
func InputInt(idx int, name string, lo, hi int64) Int {
	return Int{Lo: lo, Hi: hi, In: idx + 1, Name: name}
}

type Bool bool
type Str string

// Nil is the nil pointer/interface/slice/func/map/chan.
type Nil struct{}

// Sym is an opaque value with identity. NonNil symbols compare unequal to nil.
type Sym struct {
	Name   string
	NonNil bool
}

// SymSeq is an opaque slice or string with an abstract length.
type SymSeq struct {
	Name   string
	Len    Int
	IsStr  bool
	Nil    bool // known-nil slice
	NonNil bool // known non-nil slice
}

type Struct struct{ F []Val }
type Arr struct{ E []Val }

// Obj is a mutable memory cell (local alloc, heap cell, global).
type Obj struct {
	Name string
	V    Val
	G    *ssa.Global
	Esc  bool // pointer was handed to code the evaluator did not follow
}

// Ref is a pointer to (a sub-object of) an Obj.
type Ref struct {
	O    *Obj
	Path []int
}

// SliceV is a slice of a modelled array object: elements Path..., [Lo, Lo+Len).
type SliceV struct {
	O        *Obj
	Path     []int
	Lo       int64
	Len, Cap int64
}

// Iface is a non-nil interface value with known dynamic type.
type Iface struct {
	T types.Type
	V Val
}

type Closure struct {
	Fn   *ssa.Function
	Bind []Val
}

type Tuple []Val

// Builtin is a builtin function value.
type Builtin struct{ Name string }

// Show renders a value deterministically (used in tables and evidence).
func Show(v Val) string {
	switch v := v.(type) {
	case nil:
		return "<none>"
	case Int:
		if v.Top {
			if v.Name != "" {
				return v.Name
			}
			return "int?"
		}
		if v.Lo == v.Hi {
			return fmt.Sprintf("%d", v.Lo)
		}
		s := fmt.Sprintf("[%s..%s]", showBound(v.Lo), showBound(v.Hi))
		if v.Name != "" {
			s = v.Name + s
		}
		return s
	case Bool:
		if v {
			return "true"
		}
		return "false"
	case Str:
		return fmt.Sprintf("%q", string(v))
	case Nil:
		return "nil"
	case Sym:
		return v.Name
	case SymSeq:
		if v.Nil {
			return "nil"
		}
		return v.Name
	case Struct:
		var p []string
		for _, f := range v.F {
			p = append(p, Show(f))
		}
		return "{" + strings.Join(p, ",") + "}"
	case Arr:
		var p []string
		for _, f := range v.E {
			p = append(p, Show(f))
		}
		return "[" + strings.Join(p, ",") + "]"
	case Ref:
		return "&" + v.O.Name + showPath(v.Path)
	case SliceV:
		return fmt.Sprintf("%s%s[%d:%d]", v.O.Name, showPath(v.Path), v.Lo, v.Lo+v.Len)
	case Iface:
		return "iface(" + types.TypeString(v.T, shortQual) + ":" + Show(v.V) + ")"
	case Closure:
		return "func:" + v.Fn.String()
	case Tuple:
		var p []string
		for _, f := range v {
			p = append(p, Show(f))
		}
		return "(" + strings.Join(p, ", ") + ")"
	case Builtin:
		return "builtin:" + v.Name
	}
	return fmt.Sprintf("%T", v)
}

func shortQual(p *types.Package) string { return p.Name() }

func showBound(b int64) string {
	switch b {
	case math.MaxInt64:
		return "max"
	case math.MinInt64:
		return "min"
	}
	return fmt.Sprintf("%d", b)
}

func showPath(p []int) string {
	var sb strings.Builder
	for _, i := range p {
		fmt.Fprintf(&sb, ".%d", i)
	}
	return sb.String()
}

// Equal reports deep equality of two abstract values (structural).
func Equal(a, b Val) bool { return Show(a) == Show(b) }

// Zero returns the zero value of t.
func Zero(t types.Type) Val {
	switch u := t.Underlying().(type) {
	case *types.Basic:
		switch {
		case u.Info()&types.IsBoolean != 0:
			return Bool(false)
		case u.Info()&types.IsInteger != 0:
			return K(0)
		case u.Info()&types.IsString != 0:
			return Str("")
		case u.Kind() == types.UnsafePointer, u.Kind() == types.UntypedNil:
			return Nil{}
		}
		return Sym{Name: "zero:" + u.Name()}
	case *types.Struct:
		s := Struct{F: make([]Val, u.NumFields())}
		for i := range s.F {
			s.F[i] = Zero(u.Field(i).Type())
		}
		return s
	case *types.Array:
		n := u.Len()
		if n > 1<<16 {
			return Sym{Name: "bigarray"}
		}
		a := Arr{E: make([]Val, n)}
		z := Zero(u.Elem())
		for i := range a.E {
			a.E[i] = cloneVal(z)
		}
		return a
	}
	return Nil{}
}

// cloneVal deep-copies value-typed aggregates (structs and arrays); pointers,
// slices and objects keep their identity.
func cloneVal(v Val) Val {
	switch v := v.(type) {
	case Struct:
		n := Struct{F: make([]Val, len(v.F))}
		for i, f := range v.F {
			n.F[i] = cloneVal(f)
		}
		return n
	case Arr:
		n := Arr{E: make([]Val, len(v.E))}
		for i, f := range v.E {
			n.E[i] = cloneVal(f)
		}
		return n
	case Tuple:
		n := make(Tuple, len(v))
		for i, f := range v {
			n[i] = cloneVal(f)
		}
		return n
	}
	return v
}

func typeBits(t types.Type) (bits int, signed bool, ok bool) {
	b, isb := t.Underlying().(*types.Basic)
	if !isb || b.Info()&types.IsInteger == 0 {
		return 0, false, false
	}
	switch b.Kind() {
	case types.Int8:
		return 8, true, true
	case types.Int16:
		return 16, true, true
	case types.Int32:
		return 32, true, true
	case types.Int64:
		return 64, true, true
	case types.Int, types.UntypedInt, types.UntypedRune:
		return IntSize, true, true
	case types.Uint8:
		return 8, false, true
	case types.Uint16:
		return 16, false, true
	case types.Uint32:
		return 32, false, true
	case types.Uint64:
		return 64, false, true
	case types.Uint, types.Uintptr:
		return IntSize, false, true
	}
	return 0, false, false
}

// IntSize is the width of int/uint in the configuration being analysed.
var IntSize = 64

func typeRange(t types.Type) (lo, hi int64, ok bool) {
	bits, signed, ok := typeBits(t)
	if !ok {
		return 0, 0, false
	}
	if signed {
		if bits == 64 {
			return math.MinInt64, math.MaxInt64, true
		}
		return -(1 << (bits - 1)), 1<<(bits-1) - 1, true
	}
	if bits == 64 {
		return 0, math.MaxInt64, false // not representable: caller must treat as Top
	}
	return 0, 1<<bits - 1, true
}

// wrapConst wraps a concrete value to the width of t.
func wrapConst(v int64, t types.Type) int64 {
	bits, signed, ok := typeBits(t)
	if !ok || bits == 64 {
		return v
	}
	m := uint64(1)<<bits - 1
	u := uint64(v) & m
	if signed && u&(1<<(bits-1)) != 0 {
		return int64(u) - int64(1)<<bits
	}
	return int64(u)
}

// sortedKeys is a helper for deterministic iteration.
func sortedKeys[M ~map[string]V, V any](m M) []string {
	k := make([]string, 0, len(m))
	for s := range m {
		k = append(k, s)
	}
	sort.Strings(k)
	return k
}
