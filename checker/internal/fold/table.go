package fold

import (
	"fmt"
	"math"
	"sort"

	"golang.org/x/tools/go/ssa"
)

// IntDom is an integer input whose range is partitioned into interval cells.
// Cuts are refined automatically whenever the analysed code compares the
// input (plus a constant offset) with a constant that falls inside a cell.
type IntDom struct {
	Name   string
	Lo, Hi int64
	Cuts   []int64 // each cut c starts a new cell at c
}

func (d *IntDom) addCut(c int64) bool {
	if c <= d.Lo || c > d.Hi {
		return false
	}
	for _, x := range d.Cuts {
		if x == c {
			return false
		}
	}
	d.Cuts = append(d.Cuts, c)
	sort.Slice(d.Cuts, func(i, j int) bool { return d.Cuts[i] < d.Cuts[j] })
	return true
}

// Cells returns the current partition.
func (d *IntDom) Cells(idx int) []Int {
	var out []Int
	lo := d.Lo
	for _, c := range d.Cuts {
		out = append(out, InputInt(idx, d.Name, lo, c-1))
		lo = c
	}
	out = append(out, InputInt(idx, d.Name, lo, d.Hi))
	return out
}

// CellPath is a path labelled with the integer cells it was explored under.
type CellPath struct {
	Cells []Int
	*Path
}

// ExploreCells explores fn once per combination of cells of doms, refining the
// partitions until every comparison is decided for whole cells.
func (m *Machine) ExploreCells(fn *ssa.Function, doms []*IntDom,
	setup func(m *Machine, cells []Int) []Val,
	done func(m *Machine, cells []Int, p *Path)) ([]CellPath, error) {

	for round := 0; round < 200; round++ {
		var out []CellPath
		refined := false
		lists := make([][]Int, len(doms))
		for i, d := range doms {
			lists[i] = d.Cells(i)
		}
		idx := make([]int, len(doms))
	combos:
		for {
			cells := make([]Int, len(doms))
			for i := range doms {
				cells[i] = lists[i][idx[i]]
			}
			paths := m.Explore(fn, func(m *Machine) []Val { return setup(m, cells) },
				func(m *Machine, p *Path) {
					if done != nil {
						done(m, cells, p)
					}
				})
			for _, p := range paths {
				if p.Refine != nil {
					if p.Refine.In < 0 || p.Refine.In >= len(doms) {
						return nil, fmt.Errorf("refinement of unknown input %d", p.Refine.In)
					}
					for _, c := range p.Refine.Cuts {
						if doms[p.Refine.In].addCut(c) {
							refined = true
						}
					}
					if !refined {
						return nil, fmt.Errorf("cell split at %v of input %s made no progress", p.Refine.Cuts, doms[p.Refine.In].Name)
					}
					break combos
				}
				out = append(out, CellPath{Cells: cells, Path: p})
			}
			// next combination
			k := len(idx) - 1
			for k >= 0 {
				idx[k]++
				if idx[k] < len(lists[k]) {
					break
				}
				idx[k] = 0
				k--
			}
			if k < 0 {
				break
			}
		}
		if !refined {
			return out, nil
		}
	}
	return nil, fmt.Errorf("cell refinement did not converge")
}

// MaxInt64 is re-exported for rule files.
const MaxInt64 = math.MaxInt64
