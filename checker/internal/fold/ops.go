package fold

import (
	"fmt"
	"go/token"
	"go/types"
	"math"
	"math/bits"
	"strings"

	"golang.org/x/tools/go/ssa"
)

func addOv(a, b int64) (int64, bool) {
	c := a + b
	if (c > a) == (b > 0) {
		return c, true
	}
	return 0, false
}

func subOv(a, b int64) (int64, bool) {
	c := a - b
	if (c < a) == (b > 0) {
		return c, true
	}
	return 0, false
}

func mulOv(a, b int64) (int64, bool) {
	if a == 0 || b == 0 {
		return 0, true
	}
	c := a * b
	if c/b != a || (a == -1 && b == math.MinInt64) || (b == -1 && a == math.MinInt64) {
		return 0, false
	}
	return c, true
}

func (m *Machine) binop(op token.Token, x, y Val, xt, rt types.Type, in ssa.Instruction) Val {
	switch op {
	case token.EQL, token.NEQ:
		r := m.equal(x, y)
		if op == token.NEQ {
			r = !r
		}
		return Bool(r)
	case token.LSS, token.LEQ, token.GTR, token.GEQ:
		switch a := x.(type) {
		case Int:
			b, ok := y.(Int)
			if !ok {
				m.abort("comparison of int with %s", Show(y))
			}
			return Bool(m.cmpInt(op, a, b, xt))
		case Str:
			if b, ok := y.(Str); ok {
				switch op {
				case token.LSS:
					return Bool(a < b)
				case token.LEQ:
					return Bool(a <= b)
				case token.GTR:
					return Bool(a > b)
				default:
					return Bool(a >= b)
				}
			}
		}
		return Bool(m.Atom(fmt.Sprintf("cmp(%s %s %s)", Show(x), op, Show(y))))
	case token.LAND, token.LOR:
		m.abort("unexpected logical operator in SSA")
	}
	// arithmetic
	switch a := x.(type) {
	case Int:
		b, ok := y.(Int)
		if !ok {
			m.abort("arithmetic %s on int and %s", op, Show(y))
		}
		return m.arith(op, a, b, rt)
	case Str:
		if op == token.ADD {
			switch b := y.(type) {
			case Str:
				return a + b
			case SymSeq:
				l, _ := m.arith(token.ADD, K(int64(len(a))), b.Len, types.Typ[types.Int]).(Int)
				return SymSeq{Name: "(" + Show(a) + "+" + b.Name + ")", Len: l, IsStr: true}
			}
		}
	case SymSeq:
		if op == token.ADD {
			switch b := y.(type) {
			case Str:
				l, _ := m.arith(token.ADD, a.Len, K(int64(len(b))), types.Typ[types.Int]).(Int)
				return SymSeq{Name: "(" + a.Name + "+" + Show(b) + ")", Len: l, IsStr: true}
			case SymSeq:
				l, _ := m.arith(token.ADD, a.Len, b.Len, types.Typ[types.Int]).(Int)
				return SymSeq{Name: "(" + a.Name + "+" + b.Name + ")", Len: l, IsStr: true}
			}
		}
	case Sym:
		return Sym{Name: "(" + a.Name + op.String() + Show(y) + ")"}
	}
	m.abort("unsupported binary %s on %s, %s", op, Show(x), Show(y))
	return nil
}

// arith computes an integer operation on intervals; a non-constant result of
// named operands gets the expression as its name, so that byte layouts can be
// compared symbolically.
func (m *Machine) arith(op token.Token, a, b Int, rt types.Type) Val {
	// algebraic identities keep the operand (and its symbolic name) unchanged
	if b.IsConst() && !a.IsConst() {
		switch {
		case b.Lo == 0 && (op == token.ADD || op == token.SUB || op == token.OR || op == token.XOR || op == token.SHL || op == token.SHR || op == token.AND_NOT):
			return a
		case b.Lo == 1 && (op == token.MUL || op == token.QUO):
			return a
		}
	}
	if a.IsConst() && !b.IsConst() {
		switch {
		case a.Lo == 0 && (op == token.ADD || op == token.OR || op == token.XOR):
			return b
		case a.Lo == 1 && op == token.MUL:
			return b
		}
	}
	if a.L != nil || b.L != nil {
		if r, ok := laneArith(op, a, b, rt); ok {
			return r
		}
	}
	r := m.arith0(op, a, b, rt)
	ri, ok := r.(Int)
	if !ok || ri.IsConst() {
		return r
	}
	if sameInt(ri, a) || sameInt(ri, b) { // operand returned unchanged (e.g. x % c with x < c)
		return ri
	}
	an, bn := nameOf(a), nameOf(b)
	if an != "" && bn != "" {
		ri.Name = "(" + an + op.String() + bn + ")"
	} else {
		ri.Name = ""
	}
	return ri
}

func (m *Machine) arith0(op token.Token, a, b Int, rt types.Type) Val {
	rbits, rsigned, _ := typeBits(rt)
	norm := func(r Int) Val {
		if r.Top {
			return Int{Top: true}
		}
		if r.IsConst() {
			return K(wrapConst(r.Lo, rt))
		}
		if rbits == 64 {
			if !rsigned && r.Lo < 0 {
				return Int{Top: true}
			}
			return r
		}
		lo, hi, _ := typeRange(rt)
		if r.Lo >= lo && r.Hi <= hi {
			return r
		}
		return Int{Lo: lo, Hi: hi}
	}
	if a.IsConst() && b.IsConst() {
		x, y := a.Lo, b.Lo
		var r int64
		switch op {
		case token.ADD:
			r = x + y
		case token.SUB:
			r = x - y
		case token.MUL:
			r = x * y
		case token.QUO:
			if y == 0 {
				panic(panicErr{v: Str("integer divide by zero")})
			}
			if !rsigned {
				r = int64(uint64(x) / uint64(y))
			} else {
				r = x / y
			}
		case token.REM:
			if y == 0 {
				panic(panicErr{v: Str("integer divide by zero")})
			}
			if !rsigned {
				r = int64(uint64(x) % uint64(y))
			} else {
				r = x % y
			}
		case token.AND:
			r = x & y
		case token.OR:
			r = x | y
		case token.XOR:
			r = x ^ y
		case token.AND_NOT:
			r = x &^ y
		case token.SHL:
			if y < 0 {
				panic(panicErr{v: Str("negative shift")})
			}
			if y >= 64 {
				r = 0
			} else {
				r = x << uint(y)
			}
		case token.SHR:
			if y < 0 {
				panic(panicErr{v: Str("negative shift")})
			}
			if !rsigned {
				ux := uint64(x)
				if rbits < 64 {
					ux &= 1<<uint(rbits) - 1
				}
				if y >= 64 {
					r = 0
				} else {
					r = int64(ux >> uint(y))
				}
			} else {
				if y >= 64 {
					y = 63
				}
				r = x >> uint(y)
			}
		default:
			m.abort("unsupported integer op %s", op)
		}
		return K(wrapConst(r, rt))
	}
	if a.Top || b.Top {
		switch op {
		case token.AND:
			if b.IsConst() && b.Lo >= 0 {
				return Int{Lo: 0, Hi: b.Lo}
			}
			if a.IsConst() && a.Lo >= 0 {
				return Int{Lo: 0, Hi: a.Lo}
			}
		case token.REM:
			if b.IsConst() && b.Lo > 0 && !rsigned {
				return Int{Lo: 0, Hi: b.Lo - 1}
			}
		}
		return Int{Top: true}
	}
	switch op {
	case token.ADD:
		lo, ok1 := addOv(a.Lo, b.Lo)
		hi, ok2 := addOv(a.Hi, b.Hi)
		if !ok1 || !ok2 {
			return Int{Top: true}
		}
		r := Int{Lo: lo, Hi: hi}
		if a.In != 0 && b.IsConst() {
			r.In, r.Off = a.In, a.Off+b.Lo
		} else if b.In != 0 && a.IsConst() {
			r.In, r.Off = b.In, b.Off+a.Lo
		}
		out := norm(r)
		if o, ok := out.(Int); ok && (o.Lo != r.Lo || o.Hi != r.Hi) {
			o.In = 0
			return o
		}
		return out
	case token.SUB:
		r := m.sub(a, b)
		out := norm(r)
		if o, ok := out.(Int); ok && (o.Lo != r.Lo || o.Hi != r.Hi) {
			o.In = 0
			return o
		}
		return out
	case token.MUL:
		if a.Lo >= 0 && b.Lo >= 0 {
			lo, ok1 := mulOv(a.Lo, b.Lo)
			hi, ok2 := mulOv(a.Hi, b.Hi)
			if ok1 && ok2 {
				return norm(Int{Lo: lo, Hi: hi})
			}
		}
		return norm(Int{Top: true})
	case token.QUO:
		if b.IsConst() && b.Lo > 0 && a.Lo >= 0 {
			return norm(Int{Lo: a.Lo / b.Lo, Hi: a.Hi / b.Lo})
		}
	case token.REM:
		if b.IsConst() && b.Lo > 0 && a.Lo >= 0 {
			if a.Hi < b.Lo {
				return a
			}
			return Int{Lo: 0, Hi: b.Lo - 1}
		}
	case token.AND:
		if r, ok := andBit(a, b); ok {
			return r
		}
		if r, ok := andBit(b, a); ok {
			return r
		}
		if b.IsConst() && b.Lo >= 0 {
			return Int{Lo: 0, Hi: b.Lo}
		}
		if a.IsConst() && a.Lo >= 0 {
			return Int{Lo: 0, Hi: a.Lo}
		}
		if a.Lo >= 0 && b.Lo >= 0 {
			h := a.Hi
			if b.Hi < h {
				h = b.Hi
			}
			return Int{Lo: 0, Hi: h}
		}
	case token.OR, token.XOR:
		if a.Lo >= 0 && b.Lo >= 0 {
			h := a.Hi
			if b.Hi > h {
				h = b.Hi
			}
			n := bits.Len64(uint64(h))
			if n < 63 {
				return norm(Int{Lo: 0, Hi: 1<<uint(n) - 1})
			}
		}
	case token.SHR:
		if b.IsConst() && b.Lo >= 0 && b.Lo < 64 && a.Lo >= 0 {
			return Int{Lo: a.Lo >> uint(b.Lo), Hi: a.Hi >> uint(b.Lo)}
		}
	case token.SHL:
		if b.IsConst() && b.Lo >= 0 && b.Lo < 62 && a.Lo >= 0 && a.Hi < 1<<uint(62-b.Lo) {
			return norm(Int{Lo: a.Lo << uint(b.Lo), Hi: a.Hi << uint(b.Lo)})
		}
	}
	return norm(Int{Top: true})
}

// andBit is exact for x & c when c is a single bit that is constant over the
// whole interval x, or when x lies entirely below the lowest set bit of c.
func andBit(x, c Int) (Int, bool) {
	if !c.IsConst() || c.Lo <= 0 || x.Top || x.Lo < 0 {
		return Int{}, false
	}
	low := c.Lo & -c.Lo
	if x.Hi < low {
		return K(0), true
	}
	// contiguous high mask (e.g. 0xf0): exact when those bits are constant over x
	if sh := uint(bits.TrailingZeros64(uint64(c.Lo))); (uint64(c.Lo)>>sh+1)&(uint64(c.Lo)>>sh) == 0 && x.Lo>>sh == x.Hi>>sh && x.Hi <= (c.Lo|(int64(1)<<sh-1)) {
		return K(x.Lo & c.Lo), true
	}
	if (c.Lo+1)&c.Lo == 0 { // low mask 2^k-1: exact when the high part is constant over x
		k := uint(bits.Len64(uint64(c.Lo)))
		if x.Lo>>k == x.Hi>>k {
			return Int{Lo: x.Lo & c.Lo, Hi: x.Hi & c.Lo}, true
		}
	}
	if c.Lo&(c.Lo-1) == 0 { // single bit
		k := uint(bits.TrailingZeros64(uint64(c.Lo)))
		if x.Lo>>k == x.Hi>>k {
			return K(((x.Lo >> k) & 1) << k), true
		}
	}
	return Int{}, false
}

// cmpInt decides an ordering comparison for whole intervals, or refines, or
// forks on a named atom.
func (m *Machine) cmpInt(op token.Token, a, b Int, t types.Type) bool {
	_, signed, _ := typeBits(t)
	if !signed {
		// unsigned comparison of values kept in two's complement: only safe
		// when both are known non-negative.
		if (a.IsConst() && a.Lo < 0) || (b.IsConst() && b.Lo < 0) {
			if a.IsConst() && b.IsConst() {
				ua, ub := uint64(a.Lo), uint64(b.Lo)
				switch op {
				case token.LSS:
					return ua < ub
				case token.LEQ:
					return ua <= ub
				case token.GTR:
					return ua > ub
				default:
					return ua >= ub
				}
			}
			m.abort("unsigned comparison with a value above 2^63")
		}
	}
	switch op {
	case token.GTR:
		return m.less(b, a, false)
	case token.GEQ:
		return m.less(b, a, true)
	case token.LEQ:
		return m.less(a, b, true)
	}
	return m.less(a, b, false)
}

// less decides a<b (or a<=b when orEq).
func (m *Machine) less(a, b Int, orEq bool) bool {
	var r int
	if orEq {
		r = m.tryLeq(a, b)
	} else {
		r = m.tryLess(a, b)
	}
	if r >= 0 {
		return r == 1
	}
	// split an input cell at the compared constant
	if b.IsConst() && a.In != 0 && !a.Top {
		cut := b.Lo - a.Off // a<b  <=> in < b-off
		if orEq {
			cut++ // a<=b <=> in < b-off+1
		}
		panic(abortErr{msg: "cell split needed", refine: &Refine{In: a.In - 1, Cuts: []int64{cut}}})
	}
	if a.IsConst() && b.In != 0 && !b.Top {
		cut := a.Lo - b.Off // a<b <=> in > a-off <=> in >= a-off+1
		if !orEq {
			cut++
		}
		panic(abortErr{msg: "cell split needed", refine: &Refine{In: b.In - 1, Cuts: []int64{cut}}})
	}
	an, bn := nameOf(a), nameOf(b)
	if an != "" && bn != "" {
		opn := "<"
		if orEq {
			opn = "<="
		}
		return m.Atom("cmp(" + an + opn + bn + ")")
	}
	m.abort("undecidable comparison %s vs %s", Show(a), Show(b))
	return false
}

func nameOf(i Int) string {
	if i.IsConst() {
		return fmt.Sprintf("%d", i.Lo)
	}
	return i.Name
}

func (m *Machine) equal(x, y Val) bool {
	switch a := x.(type) {
	case Int:
		b, ok := y.(Int)
		if !ok {
			m.abort("== of int and %s", Show(y))
		}
		if a.IsConst() && b.IsConst() {
			return a.Lo == b.Lo
		}
		if a.In != 0 && a.In == b.In {
			return a.Off == b.Off
		}
		if !a.Top && !b.Top && (a.Hi < b.Lo || b.Hi < a.Lo) {
			return false
		}
		if b.IsConst() && a.In != 0 && !a.Top {
			c := b.Lo - a.Off
			panic(abortErr{msg: "cell split needed", refine: &Refine{In: a.In - 1, Cuts: []int64{c, c + 1}}})
		}
		if a.IsConst() && b.In != 0 && !b.Top {
			c := a.Lo - b.Off
			panic(abortErr{msg: "cell split needed", refine: &Refine{In: b.In - 1, Cuts: []int64{c, c + 1}}})
		}
		an, bn := nameOf(a), nameOf(b)
		if an != "" && bn != "" {
			return m.Atom("cmp(" + an + "==" + bn + ")")
		}
		m.abort("undecidable equality %s vs %s", Show(a), Show(b))
	case Bool:
		switch b := y.(type) {
		case Bool:
			return a == b
		case Sym:
			return m.truth(b, "eq") == bool(a)
		}
	case Str:
		switch b := y.(type) {
		case Str:
			return a == b
		case SymSeq:
			return m.seqEqStr(b, a)
		}
	case SymSeq:
		switch b := y.(type) {
		case Str:
			return m.seqEqStr(a, b)
		case SymSeq:
			if a.Name == b.Name {
				return true
			}
			return m.Atom("eq(" + a.Name + "," + b.Name + ")")
		case Nil:
			if a.Nil {
				return true
			}
			if a.NonNil || a.IsStr {
				return false
			}
			return m.Atom("isnil(" + a.Name + ")")
		}
	case Nil:
		switch b := y.(type) {
		case Nil:
			return true
		case Sym:
			if b.NonNil {
				return false
			}
			return m.Atom("isnil(" + b.Name + ")")
		case SymSeq:
			if b.Nil {
				return true
			}
			if b.NonNil || b.IsStr {
				return false
			}
			return m.Atom("isnil(" + b.Name + ")")
		case Iface, Ref, Closure, SliceV:
			return false
		}
	case Sym:
		switch b := y.(type) {
		case Nil:
			if a.NonNil {
				return false
			}
			return m.Atom("isnil(" + a.Name + ")")
		case Sym:
			if a.Name == b.Name {
				return true
			}
			if a.NonNil && b.NonNil && (isGlobalName(a.Name) || isGlobalName(b.Name)) {
				// distinct named symbols declared distinct by their producers
				return false
			}
			return m.Atom("eq(" + a.Name + "," + b.Name + ")")
		case Iface:
			if isGlobalName(a.Name) {
				return false
			}
			return m.Atom("eq(" + a.Name + "," + Show(b) + ")")
		case Bool:
			return m.truth(a, "eq") == bool(b)
		case Ref:
			return false
		}
	case Iface:
		switch b := y.(type) {
		case Nil:
			return false
		case Iface:
			if !types.Identical(a.T, b.T) {
				return false
			}
			return m.equal(a.V, b.V)
		case Sym:
			return m.equal(y, x)
		}
	case Ref:
		switch b := y.(type) {
		case Nil:
			return false
		case Ref:
			return a.O == b.O && showPath(a.Path) == showPath(b.Path)
		case Sym:
			return false
		}
	case Closure:
		if _, ok := y.(Nil); ok {
			return false
		}
	case SliceV:
		if _, ok := y.(Nil); ok {
			return false
		}
	case Struct:
		if b, ok := y.(Struct); ok && len(a.F) == len(b.F) {
			for i := range a.F {
				if !m.equal(a.F[i], b.F[i]) {
					return false
				}
			}
			return true
		}
	case Arr:
		if b, ok := y.(Arr); ok && len(a.E) == len(b.E) {
			for i := range a.E {
				if !m.equal(a.E[i], b.E[i]) {
					return false
				}
			}
			return true
		}
	}
	m.abort("unsupported equality %s == %s", Show(x), Show(y))
	return false
}

func isGlobalName(n string) bool { return len(n) > 7 && n[:7] == "global:" }

func (m *Machine) seqEqStr(a SymSeq, s Str) bool {
	if !a.Len.Top && (a.Len.Hi < int64(len(s)) || a.Len.Lo > int64(len(s))) {
		return false
	}
	return m.Atom(fmt.Sprintf("eq(%s,%q)", a.Name, string(s)))
}

// ---- calls ----

func (m *Machine) doCall(fr *frame, in ssa.CallInstruction) Val {
	c := in.Common()
	args := make([]Val, len(c.Args))
	for i, a := range c.Args {
		args[i] = m.get(fr, a)
	}
	return m.invoke(fr, in, c, m.get(fr, c.Value), args)
}

func (m *Machine) invoke(fr *frame, in ssa.CallInstruction, c *ssa.CallCommon, fv Val, args []Val) Val {
	if c.IsInvoke() {
		name := "invoke:" + c.Method.FullName()
		switch r := fv.(type) {
		case Iface:
			if b, isB := r.T.(*types.Basic); r.T == nil || isB && b.Kind() == types.Invalid {
				// opaque dynamic value behind a non-nil interface
				return m.modelOrOpaque(fr, in, name, nil, c.Signature(), append([]Val{r.V}, args...))
			}
			fn := m.Prog.LookupMethod(r.T, c.Method.Pkg(), c.Method.Name())
			if fn == nil {
				m.abort("no method %s on %s", c.Method.Name(), r.T)
			}
			return m.callStatic(fr, in, fn, append([]Val{r.V}, args...))
		case Nil:
			panic(panicErr{v: Str("nil interface method call")})
		}
		return m.modelOrOpaque(fr, in, name, nil, c.Signature(), append([]Val{fv}, args...))
	}
	switch f := fv.(type) {
	case Builtin:
		return m.builtin(fr, in, f.Name, args, c)
	case Closure:
		return m.callStaticBind(fr, in, f.Fn, args, f.Bind)
	case Nil:
		panic(panicErr{v: Str("call of nil function")})
	case Sym:
		return m.modelOrOpaque(fr, in, "callback:"+f.Name, nil, c.Signature(), args)
	}
	m.abort("call of %s", Show(fv))
	return nil
}

func (m *Machine) callStatic(fr *frame, in ssa.CallInstruction, fn *ssa.Function, args []Val) Val {
	return m.callStaticBind(fr, in, fn, args, nil)
}

// canon maps a function to the name the models know it by (set once per loaded
// program before any exploration starts, read-only afterwards).
var canon = map[*ssa.Function]string{}

// SetCanon makes the evaluator look fn up under name.
func SetCanon(fn *ssa.Function, name string) { canon[fn] = name }

// CanonFuncName is the name the models know fn by.
func CanonFuncName(fn *ssa.Function) string { return fnKey(fn) }

func fnKey(fn *ssa.Function) string {
	if o := fn.Origin(); o != nil {
		fn = o
	}
	if n, ok := canon[fn]; ok {
		return n
	}
	return fn.String()
}

func (m *Machine) callStaticBind(fr *frame, in ssa.CallInstruction, fn *ssa.Function, args []Val, bind []Val) Val {
	key := fnKey(fn)
	if _, ok := m.Models[key]; ok {
		return m.modelOrOpaque(fr, in, key, fn, fn.Signature, args)
	}
	if fn.Blocks != nil && (m.Inline == nil || m.Inline(fn)) {
		return m.callFunc(fn, args, bind, fr.depth+1)
	}
	return m.modelOrOpaque(fr, in, key, fn, fn.Signature, args)
}

func (m *Machine) modelOrOpaque(fr *frame, in ssa.CallInstruction, name string, fn *ssa.Function, sig *types.Signature, args []Val) Val {
	m.callSeq[name]++
	call := &Call{M: m, Name: name, Args: args, Sig: sig, Callee: fn, Seq: m.callSeq[name]}
	if in != nil {
		call.Instr = in
	}
	if mod, ok := m.Models[name]; ok {
		return mod(call)
	}
	if !m.OpaqueOK {
		m.abort("call to %s has neither model nor followable body", name)
	}
	return m.Opaque(call)
}

// Opaque is the default model: an effect, havoc of reachable objects, and
// fresh opaque results (error and bool results fork).
func (m *Machine) Opaque(c *Call) Val {
	var pos token.Pos
	if c.Instr != nil {
		pos = c.Instr.Pos()
	}
	m.Emit(Effect{Kind: "call", Name: c.Name, Args: c.Args, Pos: pos})
	for _, a := range c.Args {
		m.havoc(a)
	}
	return m.FreshResults(c)
}

// FreshResults builds opaque results for the signature of c.
func (m *Machine) FreshResults(c *Call) Val {
	res := c.Sig.Results()
	mk := func(i int) Val {
		t := res.At(i).Type()
		name := fmt.Sprintf("%s#%d.r%d", c.Name, c.Seq, i)
		if isErrorType(t) {
			if m.Atom(name + "!=nil") {
				return Sym{Name: name, NonNil: true}
			}
			return Nil{}
		}
		if b, ok := t.Underlying().(*types.Basic); ok && b.Info()&types.IsBoolean != 0 {
			return Bool(m.Atom(name))
		}
		return symOfType(name, t)
	}
	switch res.Len() {
	case 0:
		return nil
	case 1:
		return mk(0)
	}
	t := make(Tuple, res.Len())
	for i := range t {
		t[i] = mk(i)
	}
	return t
}

func isErrorType(t types.Type) bool {
	return types.Identical(t, types.Universe.Lookup("error").Type())
}

// IsErrorType reports whether t is the predeclared error interface.
func IsErrorType(t types.Type) bool { return isErrorType(t) }

func (m *Machine) havoc(v Val) {
	switch v := v.(type) {
	case Ref:
		if v.O.G != nil {
			return
		}
		v.O.Esc = true
		m.Store(v, Sym{Name: "havoc:" + v.O.Name})
	case SliceV:
		a, ok := m.peek(Ref{O: v.O, Path: v.Path}).(Arr)
		if ok && v.O.G == nil {
			for i := v.Lo; i < v.Lo+v.Len && i < int64(len(a.E)); i++ {
				a.E[i] = Int{Lo: 0, Hi: 255, Name: fmt.Sprintf("havoc:%s[%d]", v.O.Name, i)}
			}
		}
	case Iface:
		m.havoc(v.V)
	case Closure:
		for _, b := range v.Bind {
			m.havoc(b)
		}
	}
}

func (m *Machine) builtin(fr *frame, in ssa.CallInstruction, name string, args []Val, c *ssa.CallCommon) Val {
	switch name {
	case "len", "cap":
		switch s := args[0].(type) {
		case SliceV:
			if name == "cap" {
				return K(s.Cap)
			}
			return K(s.Len)
		case Str:
			return K(int64(len(s)))
		case SymSeq:
			if s.Nil {
				return K(0)
			}
			return s.Len
		case Nil:
			return K(0)
		case Arr:
			return K(int64(len(s.E)))
		case Ref:
			if a, ok := m.peek(s).(Arr); ok {
				return K(int64(len(a.E)))
			}
		case Sym:
			return Int{Lo: 0, Hi: math.MaxInt64, Name: name + "(" + s.Name + ")"}
		}
		m.abort("%s of %s", name, Show(args[0]))
	case "copy":
		return m.copyBuiltin(args[0], args[1], in)
	case "append":
		return m.appendBuiltin(args[0], args[1], in)
	case "min", "max":
		if len(args) == 2 {
			a, ok1 := args[0].(Int)
			b, ok2 := args[1].(Int)
			if ok1 && ok2 {
				lt := m.less(a, b, false)
				if (name == "min") == lt {
					return a
				}
				return b
			}
		}
	case "close":
		m.Emit(Effect{Kind: "close", Name: Show(args[0]), Pos: in.Pos()})
		return nil
	case "print", "println":
		return nil
	}
	m.abort("unsupported builtin %s", name)
	return nil
}

func (m *Machine) copyBuiltin(dst, src Val, in ssa.CallInstruction) Val {
	seqLen := func(v Val) Int {
		switch s := v.(type) {
		case SliceV:
			return K(s.Len)
		case Str:
			return K(int64(len(s)))
		case SymSeq:
			if s.Nil {
				return K(0)
			}
			return s.Len
		case Nil:
			return K(0)
		}
		m.abort("copy operand %s", Show(v))
		return Int{}
	}
	dl, sl := seqLen(dst), seqLen(src)
	var n Int
	switch {
	case m.tryLeq(sl, dl) == 1:
		n = sl
	case m.tryLeq(dl, sl) == 1:
		n = dl
	case dl.IsConst() && sl.In != 0 && !sl.Top:
		panic(abortErr{msg: "cell split needed", refine: &Refine{In: sl.In - 1, Cuts: []int64{dl.Lo - sl.Off + 1}}})
	case sl.IsConst() && dl.In != 0 && !dl.Top:
		panic(abortErr{msg: "cell split needed", refine: &Refine{In: dl.In - 1, Cuts: []int64{sl.Lo - dl.Off + 1}}})
	default:
		if dl.Top || sl.Top {
			n = Int{Lo: 0, Hi: math.MaxInt64}
		} else {
			lo, hi := dl.Lo, dl.Hi
			if sl.Lo < lo {
				lo = sl.Lo
			}
			if sl.Hi < hi {
				hi = sl.Hi
			}
			n = Int{Lo: lo, Hi: hi, Name: "min(" + nameOf(dl) + "," + nameOf(sl) + ")"}
		}
	}
	var pos token.Pos
	if in != nil {
		pos = in.Pos()
	}
	m.Emit(Effect{Kind: "copy", Name: "copy", Args: []Val{dst, src, n}, Pos: pos})
	if d, ok := dst.(SliceV); ok {
		switch s := src.(type) {
		case SliceV:
			if n.IsConst() {
				el := m.Elems(SliceV{O: s.O, Path: s.Path, Lo: s.Lo, Len: n.Lo, Cap: n.Lo})
				for i := int64(0); i < n.Lo; i++ {
					m.SetElem(d, i, el[i])
				}
				return n
			}
		case Str:
			if n.IsConst() {
				for i := int64(0); i < n.Lo; i++ {
					m.SetElem(d, i, K(int64(s[i])))
				}
				return n
			}
		case Nil:
			return K(0)
		}
		// unknown source bytes or count: overwrite what may be touched
		hi := d.Len
		if !n.Top && n.Hi < hi {
			hi = n.Hi
		}
		sn := Show(src)
		for i := int64(0); i < hi; i++ {
			m.SetElem(d, i, Int{Lo: 0, Hi: 255, Name: fmt.Sprintf("%s[%d]", sn, i)})
		}
	}
	return n
}

func (m *Machine) appendBuiltin(dst, src Val, in ssa.CallInstruction) Val {
	// Precise only for concrete slices with a known number of elements.
	var del []Val
	switch d := dst.(type) {
	case Nil:
	case SliceV:
		del = m.Elems(d)
	case SymSeq:
		l, _ := m.arith(token.ADD, d.Len, lenOf(src), types.Typ[types.Int]).(Int)
		return SymSeq{Name: "append(" + d.Name + "," + Show(src) + ")", Len: l}
	default:
		m.abort("append to %s", Show(dst))
	}
	switch s := src.(type) {
	case Nil:
		if dst == nil {
			return Nil{}
		}
		return dst
	case SliceV:
		all := append(del, m.Elems(s)...)
		o := m.NewObj("append", Arr{E: all})
		return SliceV{O: o, Len: int64(len(all)), Cap: int64(len(all))}
	case Str:
		all := del
		for i := 0; i < len(s); i++ {
			all = append(all, K(int64(s[i])))
		}
		o := m.NewObj("append", Arr{E: all})
		return SliceV{O: o, Len: int64(len(all)), Cap: int64(len(all))}
	case SymSeq:
		l, _ := m.arith(token.ADD, K(int64(len(del))), s.Len, types.Typ[types.Int]).(Int)
		return SymSeq{Name: "append(" + Show(dst) + "," + s.Name + ")", Len: l}
	}
	m.abort("append of %s", Show(src))
	return nil
}

func lenOf(v Val) Int {
	switch s := v.(type) {
	case SliceV:
		return K(s.Len)
	case Str:
		return K(int64(len(s)))
	case SymSeq:
		return s.Len
	case Nil:
		return K(0)
	}
	return Int{Top: true}
}

// LenOf returns the abstract length of a sequence value.
func LenOf(v Val) Int { return lenOf(v) }

func sameInt(a, b Int) bool {
	return a.Lo == b.Lo && a.Hi == b.Hi && a.Top == b.Top && a.In == b.In && a.Off == b.Off && a.Name == b.Name && len(a.L) == len(b.L)
}

// lanesOf returns the little-endian byte lanes of v for a type of n bytes.
func lanesOf(v Int, n int) ([]string, bool) {
	if v.L != nil {
		out := make([]string, n)
		for i := range out {
			if i < len(v.L) {
				out[i] = v.L[i]
			} else {
				out[i] = "0"
			}
		}
		return out, true
	}
	if v.IsConst() {
		out := make([]string, n)
		for i := range out {
			b := (uint64(v.Lo) >> (8 * uint(i))) & 0xff
			out[i] = fmt.Sprint(b)
		}
		return out, true
	}
	if n == 1 && v.Name != "" {
		return []string{v.Name}, true
	}
	return nil, false
}

func laneArith(op token.Token, a, b Int, rt types.Type) (Val, bool) {
	bitsN, _, ok := typeBits(rt)
	if !ok {
		return nil, false
	}
	n := bitsN / 8
	mk := func(l []string) Val {
		allConst := true
		var u uint64
		for i, s := range l {
			var x uint64
			if _, err := fmt.Sscanf(s, "%d", &x); err != nil || fmt.Sprint(x) != s {
				allConst = false
				break
			}
			u |= x << (8 * uint(i))
		}
		if allConst {
			return K(wrapConst(int64(u), rt))
		}
		return Int{Top: true, L: l, Name: "lanes[" + strings.Join(l, ",") + "]"}
	}
	switch op {
	case token.SHL, token.SHR:
		if !b.IsConst() || b.Lo%8 != 0 || b.Lo < 0 {
			return nil, false
		}
		la, ok := lanesOf(a, n)
		if !ok {
			return nil, false
		}
		k := int(b.Lo / 8)
		out := make([]string, n)
		for i := range out {
			src := i - k
			if op == token.SHR {
				src = i + k
			}
			if src >= 0 && src < n {
				out[i] = la[src]
			} else {
				out[i] = "0"
			}
		}
		return mk(out), true
	case token.AND:
		// word & constant mask, byte by byte: a zero mask byte erases the lane
		word, mask := a, b
		if a.IsConst() && !b.IsConst() {
			word, mask = b, a
		}
		if !mask.IsConst() {
			return nil, false
		}
		lw, ok := lanesOf(word, n)
		if !ok {
			return nil, false
		}
		out := make([]string, n)
		for i := range out {
			mb := (uint64(mask.Lo) >> (8 * uint(i))) & 0xff
			switch {
			case mb == 0 || lw[i] == "0":
				out[i] = "0"
			case mb == 0xff:
				out[i] = lw[i]
			default:
				out[i] = fmt.Sprintf("(%s&%d)", lw[i], mb)
			}
		}
		return mk(out), true
	case token.OR, token.XOR:
		la, ok1 := lanesOf(a, n)
		lb, ok2 := lanesOf(b, n)
		if !ok1 || !ok2 {
			return nil, false
		}
		out := make([]string, n)
		for i := range out {
			switch {
			case la[i] == "0":
				out[i] = lb[i]
			case lb[i] == "0":
				out[i] = la[i]
			case op == token.XOR && la[i] == lb[i]:
				out[i] = "0"
			default:
				out[i] = "(" + la[i] + op.String() + lb[i] + ")"
			}
		}
		return mk(out), true
	}
	return nil, false
}
