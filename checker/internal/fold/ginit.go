package fold

import (
	"go/ast"
	"go/constant"
	"go/token"
	"go/types"

	"golang.org/x/tools/go/packages"
	"golang.org/x/tools/go/ssa"
)

// InitIndex maps package-level variables to their syntactic initialisers so
// that write-once globals can be read as constants by the evaluator.
type InitIndex struct {
	exprs    map[types.Object]ast.Expr
	infos    map[types.Object]*types.Info
	declared map[types.Object]bool
}

// NewInitIndex indexes the initialisers of the given packages.
func NewInitIndex(pkgs ...*packages.Package) *InitIndex {
	ix := &InitIndex{exprs: map[types.Object]ast.Expr{}, infos: map[types.Object]*types.Info{}, declared: map[types.Object]bool{}}
	for _, pk := range pkgs {
		if pk == nil {
			continue
		}
		for _, f := range pk.Syntax {
			for _, d := range f.Decls {
				gd, ok := d.(*ast.GenDecl)
				if !ok || gd.Tok != token.VAR {
					continue
				}
				for _, sp := range gd.Specs {
					vs := sp.(*ast.ValueSpec)
					if len(vs.Values) == 0 {
						for _, n := range vs.Names {
							if obj := pk.TypesInfo.Defs[n]; obj != nil {
								ix.declared[obj] = true
							}
						}
						continue
					}
					if len(vs.Values) != len(vs.Names) {
						continue
					}
					for i, n := range vs.Names {
						if obj := pk.TypesInfo.Defs[n]; obj != nil {
							ix.exprs[obj] = vs.Values[i]
							ix.infos[obj] = pk.TypesInfo
						}
					}
				}
			}
		}
	}
	return ix
}

// Expr returns the initialiser expression of a global, if any.
func (ix *InitIndex) Expr(obj types.Object) (ast.Expr, *types.Info) {
	return ix.exprs[obj], ix.infos[obj]
}

// Init evaluates the initialiser of g if it is a constant, a composite
// literal of constants, or a []byte("...") conversion.
func (ix *InitIndex) Init(g *ssa.Global) (Val, bool) {
	obj := g.Object()
	if obj == nil {
		return nil, false
	}
	e, info := ix.exprs[obj], ix.infos[obj]
	if e == nil {
		// declared without initialiser: zero value
		if ix.declared[obj] {
			return Zero(obj.Type()), true
		}
		return nil, false
	}
	return constExpr(e, info)
}

func constExpr(e ast.Expr, info *types.Info) (Val, bool) {
	e = ast.Unparen(e)
	tv, ok := info.Types[e]
	if ok && tv.Value != nil {
		switch tv.Value.Kind() {
		case constant.Bool:
			return Bool(constant.BoolVal(tv.Value)), true
		case constant.String:
			return Str(constant.StringVal(tv.Value)), true
		case constant.Int:
			if i, ok := constant.Int64Val(tv.Value); ok {
				return K(i), true
			}
			if u, ok := constant.Uint64Val(tv.Value); ok {
				return K(int64(u)), true
			}
		}
		return nil, false
	}
	switch x := e.(type) {
	case *ast.CompositeLit:
		t := info.TypeOf(x)
		if t == nil {
			return nil, false
		}
		switch u := t.Underlying().(type) {
		case *types.Struct:
			s := Zero(t).(Struct)
			for i, el := range x.Elts {
				idx := i
				val := el
				if kv, ok := el.(*ast.KeyValueExpr); ok {
					id, ok := kv.Key.(*ast.Ident)
					if !ok {
						return nil, false
					}
					idx = -1
					for j := 0; j < u.NumFields(); j++ {
						if u.Field(j).Name() == id.Name {
							idx = j
						}
					}
					val = kv.Value
				}
				if idx < 0 || idx >= len(s.F) {
					return nil, false
				}
				v, ok := constExpr(val, info)
				if !ok {
					return nil, false
				}
				s.F[idx] = v
			}
			return s, true
		case *types.Array:
			a := Zero(t)
			arr, ok := a.(Arr)
			if !ok {
				return nil, false
			}
			next := 0
			for _, el := range x.Elts {
				val := el
				if kv, ok := el.(*ast.KeyValueExpr); ok {
					ktv := info.Types[kv.Key]
					if ktv.Value == nil {
						return nil, false
					}
					k, _ := constant.Int64Val(ktv.Value)
					next = int(k)
					val = kv.Value
				}
				if next >= len(arr.E) {
					return nil, false
				}
				v, ok := constExpr(val, info)
				if !ok {
					return nil, false
				}
				arr.E[next] = v
				next++
			}
			return arr, true
		}
	case *ast.CallExpr:
		// []byte("const")
		if len(x.Args) == 1 {
			if ft, ok := info.Types[x.Fun]; ok && ft.IsType() {
				if sl, ok := ft.Type.Underlying().(*types.Slice); ok {
					if b, ok := sl.Elem().Underlying().(*types.Basic); ok && b.Kind() == types.Byte {
						if av, ok := info.Types[x.Args[0]]; ok && av.Value != nil && av.Value.Kind() == constant.String {
							return BytesInit{S: constant.StringVal(av.Value)}, true
						}
					}
				}
			}
		}
	}
	return nil, false
}
