package rules

import (
	_ "embed"
	"encoding/json"
	"fmt"
	"go/ast"
	"go/types"
	"sort"
	"strings"

	"golang.org/x/tools/go/ssa"

	"verif/wscheck/internal/fold"
	"verif/wscheck/internal/load"
)

// The rules name the library's unexported helpers (as anchors, as keys of fold
// models and of the reviewed tables). anchors.json freezes, from the reference
// tree, every unexported function and method of the three packages with its
// signature and callers. When a frozen name is gone, the unexported function of
// the same package and receiver that is new (its own name is not frozen), has
// the identical signature and is called from the same functions is the same
// helper under a new name: the rules keep using the frozen name for it.
//
//go:embed anchors.json
var anchorsJSON []byte

type frozenTable struct {
	Funcs   []frozenFunc   `json:"funcs"`
	Types   []frozenType   `json:"types"`
	Globals []frozenGlobal `json:"globals"`
}

// frozenGlobal is an unexported package-level variable and its type.
type frozenGlobal struct {
	Pkg  string `json:"pkg"`
	Name string `json:"name"`
	Type string `json:"type"`
}

// globalCanon maps a renamed package-level variable to its frozen name.
var globalCanon = map[types.Object]string{}

func moduleGlobals(p *load.Program) []*ssa.Global {
	var out []*ssa.Global
	for _, path := range []string{load.PkgWS, load.PkgWSUtil, load.PkgWSFlate} {
		sp := p.SSA[path]
		if sp == nil {
			continue
		}
		for name, m := range sp.Members {
			if g, ok := m.(*ssa.Global); ok && !ast.IsExported(name) && !strings.HasPrefix(name, "init$") {
				out = append(out, g)
			}
		}
	}
	sort.Slice(out, func(i, j int) bool { return out[i].String() < out[j].String() })
	return out
}

// frozenType is a named type of the module: its underlying type (with the
// type's own name written as "self") and, for structs, the fields in order.
type frozenType struct {
	Pkg        string        `json:"pkg"`
	Name       string        `json:"name"`
	Underlying string        `json:"underlying"`
	Fields     []frozenField `json:"fields,omitempty"`
}

type frozenField struct {
	Name string `json:"name"`
	Type string `json:"type"`
}

type frozenFunc struct {
	Full    string   `json:"full"`  // ssa name, e.g. (*github.com/gobwas/ws/wsutil.Writer).flushFragment
	Short   string   `json:"short"` // table name, e.g. wsutil.(*Writer).flushFragment
	Pkg     string   `json:"pkg"`
	Recv    string   `json:"recv"` // receiver type ("" for functions)
	Name    string   `json:"name"`
	Sig     string   `json:"sig"`
	Callers []string `json:"callers"`
}

func sigString(f *ssa.Function) string {
	sig := f.Signature
	// without the receiver, with full package paths
	s := types.NewSignatureType(nil, nil, nil, sig.Params(), sig.Results(), sig.Variadic())
	var ps []string
	for i := 0; i < s.Params().Len(); i++ {
		ps = append(ps, canonTypeString(s.Params().At(i).Type()))
	}
	var rs []string
	for i := 0; i < s.Results().Len(); i++ {
		rs = append(rs, canonTypeString(s.Results().At(i).Type()))
	}
	v := ""
	if s.Variadic() {
		v = "..."
	}
	return "(" + strings.Join(ps, ",") + v + ")(" + strings.Join(rs, ",") + ")"
}

func recvString(f *ssa.Function) string {
	if r := f.Signature.Recv(); r != nil {
		return canonTypeString(r.Type())
	}
	return ""
}

// typeCanon maps the full name of a renamed module type to its frozen full name.
var typeCanon = map[string]string{}

// typeCanonShort is the same for the unqualified name as written in receivers.
var typeCanonShort = map[string]string{}

// fieldAlias gives, per struct, the index of a field under its frozen name.
var fieldAlias = map[*types.Struct]map[string]int{}

// fieldCanon maps a renamed field to its frozen name.
var fieldCanon = map[*types.Var]string{}

// canonTypeString renders t with renamed module types under their frozen names.
func canonTypeString(t types.Type) string {
	s := types.TypeString(t, nil)
	for n, o := range typeCanon {
		if strings.Contains(s, n) {
			s = replaceIdent(s, n, o)
		}
	}
	return s
}

// replaceIdent replaces whole-identifier occurrences of from in s.
func replaceIdent(s, from, to string) string {
	var b strings.Builder
	for {
		i := strings.Index(s, from)
		if i < 0 {
			b.WriteString(s)
			return b.String()
		}
		end := i + len(from)
		if end < len(s) && (s[end] == '_' || s[end] >= '0' && s[end] <= '9' || s[end] >= 'a' && s[end] <= 'z' || s[end] >= 'A' && s[end] <= 'Z') {
			b.WriteString(s[:end])
			s = s[end:]
			continue
		}
		b.WriteString(s[:i])
		b.WriteString(to)
		s = s[end:]
	}
}

func moduleNamedTypes(p *load.Program) []*types.Named {
	var out []*types.Named
	for _, path := range []string{load.PkgWS, load.PkgWSUtil, load.PkgWSFlate} {
		sp := p.SSA[path]
		if sp == nil {
			continue
		}
		for _, m := range sp.Members {
			if t, ok := m.(*ssa.Type); ok {
				if n, ok := t.Type().(*types.Named); ok {
					out = append(out, n)
				}
			}
		}
	}
	sort.Slice(out, func(i, j int) bool { return out[i].String() < out[j].String() })
	return out
}

func underlyingString(n *types.Named) string {
	return replaceIdent(canonTypeString(n.Underlying()), n.Obj().Pkg().Path()+"."+n.Obj().Name(), "self")
}

// staticCallers returns, per module function, the names of the top-level module
// functions that call it statically.
func staticCallers(p *load.Program) map[*ssa.Function]map[string]bool {
	out := map[*ssa.Function]map[string]bool{}
	for _, fn := range p.AllModuleFuncs() {
		top := fn
		for top.Parent() != nil {
			top = top.Parent()
		}
		for _, b := range fn.Blocks {
			for _, in := range b.Instrs {
				ci, ok := in.(ssa.CallInstruction)
				if !ok {
					continue
				}
				cal := ci.Common().StaticCallee()
				if cal == nil || !load.InModule(cal) || cal.Parent() != nil || cal == top {
					continue
				}
				if out[cal] == nil {
					out[cal] = map[string]bool{}
				}
				out[cal][top.String()] = true
			}
		}
	}
	return out
}

func unexportedTopLevel(p *load.Program) []*ssa.Function {
	var out []*ssa.Function
	for _, fn := range p.AllModuleFuncs() {
		if fn.Parent() != nil || fn.Synthetic != "" || ast.IsExported(fn.Name()) || fn.Name() == "init" || strings.HasPrefix(fn.Name(), "init#") {
			continue
		}
		if fn.Package() == nil {
			continue
		}
		switch fn.Package().Pkg.Path() {
		case load.PkgWS, load.PkgWSUtil, load.PkgWSFlate:
			out = append(out, fn)
		}
	}
	sort.Slice(out, func(i, j int) bool { return out[i].String() < out[j].String() })
	return out
}

// FreezeAnchors renders the anchors table of the loaded tree.
func FreezeAnchors(p *load.Program) ([]byte, error) {
	callers := staticCallers(p)
	var tab []frozenFunc
	for _, fn := range unexportedTopLevel(p) {
		e := frozenFunc{Full: fn.String(), Short: astFuncName(fn), Pkg: fn.Package().Pkg.Path(), Recv: recvString(fn), Name: fn.Name(), Sig: sigString(fn)}
		for c := range callers[fn] {
			e.Callers = append(e.Callers, c)
		}
		sort.Strings(e.Callers)
		tab = append(tab, e)
	}
	var tt []frozenType
	for _, n := range moduleNamedTypes(p) {
		e := frozenType{Pkg: n.Obj().Pkg().Path(), Name: n.Obj().Name(), Underlying: underlyingString(n)}
		if st, ok := n.Underlying().(*types.Struct); ok {
			for i := 0; i < st.NumFields(); i++ {
				e.Fields = append(e.Fields, frozenField{Name: st.Field(i).Name(), Type: canonTypeString(st.Field(i).Type())})
			}
		}
		tt = append(tt, e)
	}
	var gg []frozenGlobal
	for _, g := range moduleGlobals(p) {
		gg = append(gg, frozenGlobal{Pkg: g.Pkg.Pkg.Path(), Name: g.Name(), Type: canonTypeString(g.Type().(*types.Pointer).Elem())})
	}
	return json.MarshalIndent(frozenTable{Funcs: tab, Types: tt, Globals: gg}, "", " ")
}

// canonShort maps the table name of a renamed helper to its frozen table name.
var canonShort = map[string]string{}

// ResolveRenames matches frozen helpers that no longer resolve with new
// functions and installs the aliases (load.Program.Renamed, fold.Canon).
// It returns a description of every alias for the evidence.
func ResolveRenames(p *load.Program) []string {
	var ft frozenTable
	if err := json.Unmarshal(anchorsJSON, &ft); err != nil {
		panic("anchors.json: " + err.Error())
	}
	tab := ft.Funcs
	var notes []string
	notes = append(notes, resolveTypeRenames(p, ft.Types)...)
	notes = append(notes, resolveGlobalRenames(p, ft.Globals)...)
	frozenName := map[string]bool{}
	for _, e := range tab {
		frozenName[e.Full] = true
	}
	cur := unexportedTopLevel(p)
	byFull := map[string]*ssa.Function{}
	for _, fn := range cur {
		byFull[fn.String()] = fn
	}
	callers := staticCallers(p)
	canonOf := map[string]string{} // current full name -> frozen full name
	resolved := map[string]bool{}
	taken := map[*ssa.Function]bool{}
	// iterate: a caller may itself be renamed
	for round := 0; round < 4; round++ {
		progress := false
		for _, e := range tab {
			if byFull[e.Full] != nil || resolved[e.Full] {
				continue
			}
			var cands []*ssa.Function
			for _, fn := range cur {
				if taken[fn] || frozenName[fn.String()] || fn.Package().Pkg.Path() != e.Pkg || recvString(fn) != e.Recv || sigString(fn) != e.Sig {
					continue
				}
				cands = append(cands, fn)
			}
			if len(cands) > 1 {
				// disambiguate by the set of callers
				want := strings.Join(e.Callers, "|")
				var keep []*ssa.Function
				for _, fn := range cands {
					var cs []string
					for c := range callers[fn] {
						if o, ok := canonOf[c]; ok {
							c = o
						}
						cs = append(cs, c)
					}
					sort.Strings(cs)
					if strings.Join(cs, "|") == want {
						keep = append(keep, fn)
					}
				}
				cands = keep
			}
			if len(cands) != 1 {
				continue
			}
			fn := cands[0]
			taken[fn] = true
			resolved[e.Full] = true
			canonOf[fn.String()] = e.Full
			if p.Renamed == nil {
				p.Renamed = map[string]*ssa.Function{}
			}
			p.Renamed[e.Full] = fn
			fold.SetCanon(fn, e.Full)
			canonShort[astFuncNameRaw(fn)] = e.Short
			notes = append(notes, fmt.Sprintf("%s is analysed as %s (same package, receiver, signature and callers; the frozen name is gone)", fn.String(), e.Full))
			progress = true
		}
		if !progress {
			break
		}
	}
	// every method of a renamed type is known to the models under the frozen type name
	if len(typeCanon) > 0 {
		for _, fn := range p.AllModuleFuncs() {
			if fn.Parent() != nil || fn.Signature.Recv() == nil {
				continue
			}
			if _, done := canonOf[fn.String()]; done {
				continue
			}
			full := fn.String()
			c := full
			for n, o := range typeCanon {
				c = replaceIdent(c, n, o)
			}
			if c != full {
				fold.SetCanon(fn, c)
				if p.Renamed == nil {
					p.Renamed = map[string]*ssa.Function{}
				}
				p.Renamed[c] = fn
			}
		}
	}
	sort.Strings(notes)
	return notes
}

// resolveTypeRenames matches frozen named types and struct fields that are
// gone with new ones of identical shape.
func resolveTypeRenames(p *load.Program, frozen []frozenType) []string {
	var notes []string
	cur := moduleNamedTypes(p)
	byName := map[string]*types.Named{}
	for _, n := range cur {
		byName[n.Obj().Pkg().Path()+"."+n.Obj().Name()] = n
	}
	frozenNames := map[string]bool{}
	for _, e := range frozen {
		frozenNames[e.Pkg+"."+e.Name] = true
	}
	fieldTypes := func(n *types.Named) string {
		st, ok := n.Underlying().(*types.Struct)
		if !ok {
			return underlyingString(n)
		}
		var fs []string
		for i := 0; i < st.NumFields(); i++ {
			fs = append(fs, replaceIdent(canonTypeString(st.Field(i).Type()), n.Obj().Pkg().Path()+"."+n.Obj().Name(), "self"))
		}
		return "struct{" + strings.Join(fs, ";") + "}"
	}
	for _, e := range frozen {
		full := e.Pkg + "." + e.Name
		if byName[full] != nil || ast.IsExported(e.Name) {
			continue
		}
		want := e.Underlying
		if len(e.Fields) > 0 {
			var fs []string
			for _, f := range e.Fields {
				fs = append(fs, replaceIdent(f.Type, full, "self"))
			}
			want = "struct{" + strings.Join(fs, ";") + "}"
		}
		var cands []*types.Named
		for _, n := range cur {
			nf := n.Obj().Pkg().Path() + "." + n.Obj().Name()
			if frozenNames[nf] || n.Obj().Pkg().Path() != e.Pkg || n.Obj().Exported() {
				continue
			}
			if fieldTypes(n) == want {
				cands = append(cands, n)
			}
		}
		if len(cands) != 1 {
			continue
		}
		n := cands[0]
		nf := n.Obj().Pkg().Path() + "." + n.Obj().Name()
		typeCanon[nf] = full
		typeCanonShort[n.Obj().Name()] = e.Name
		if p.RenamedTypes == nil {
			p.RenamedTypes = map[string]*types.Named{}
		}
		p.RenamedTypes[full] = n
		byName[full] = n
		notes = append(notes, fmt.Sprintf("type %s is analysed as %s (same package and shape; the frozen name is gone)", nf, full))
	}
	// fields
	for _, e := range frozen {
		n := byName[e.Pkg+"."+e.Name]
		if n == nil || len(e.Fields) == 0 {
			continue
		}
		st, ok := n.Underlying().(*types.Struct)
		if !ok {
			continue
		}
		have := map[string]int{}
		for i := 0; i < st.NumFields(); i++ {
			have[st.Field(i).Name()] = i
		}
		frozenField := map[string]bool{}
		for _, f := range e.Fields {
			frozenField[f.Name] = true
		}
		used := map[int]bool{}
		for fi, f := range e.Fields {
			if _, ok := have[f.Name]; ok {
				continue
			}
			var cands []int
			for i := 0; i < st.NumFields(); i++ {
				if used[i] || frozenField[st.Field(i).Name()] || st.Field(i).Exported() {
					continue
				}
				if canonTypeString(st.Field(i).Type()) == f.Type {
					cands = append(cands, i)
				}
			}
			pick := -1
			if len(cands) == 1 {
				pick = cands[0]
			} else {
				for _, i := range cands {
					if i == fi { // same position in the struct
						pick = i
					}
				}
			}
			if pick < 0 {
				continue
			}
			used[pick] = true
			if fieldAlias[st] == nil {
				fieldAlias[st] = map[string]int{}
			}
			fieldAlias[st][f.Name] = pick
			fieldCanon[st.Field(pick)] = f.Name
			notes = append(notes, fmt.Sprintf("field %s.%s is analysed as %s.%s (same type; the frozen name is gone)", e.Name, st.Field(pick).Name(), e.Name, f.Name))
		}
	}
	return notes
}

// resolveGlobalRenames matches frozen unexported package variables that are
// gone with the unique new variable of the same package and type.
func resolveGlobalRenames(p *load.Program, frozen []frozenGlobal) []string {
	var notes []string
	cur := moduleGlobals(p)
	have := map[string]bool{}
	for _, g := range cur {
		have[g.Pkg.Pkg.Path()+"."+g.Name()] = true
	}
	frozenNames := map[string]bool{}
	for _, e := range frozen {
		frozenNames[e.Pkg+"."+e.Name] = true
	}
	taken := map[*ssa.Global]bool{}
	for _, e := range frozen {
		if have[e.Pkg+"."+e.Name] {
			continue
		}
		var cands []*ssa.Global
		for _, g := range cur {
			full := g.Pkg.Pkg.Path() + "." + g.Name()
			if taken[g] || frozenNames[full] || g.Pkg.Pkg.Path() != e.Pkg {
				continue
			}
			if canonTypeString(g.Type().(*types.Pointer).Elem()) == e.Type {
				cands = append(cands, g)
			}
		}
		if len(cands) != 1 {
			continue
		}
		g := cands[0]
		taken[g] = true
		if p.RenamedGlobals == nil {
			p.RenamedGlobals = map[string]*ssa.Global{}
		}
		p.RenamedGlobals[e.Pkg+"."+e.Name] = g
		if obj := g.Object(); obj != nil {
			globalCanon[obj] = e.Name
		}
		notes = append(notes, fmt.Sprintf("variable %s.%s is analysed as %s.%s (same package and type; the frozen name is gone)", e.Pkg, g.Name(), e.Pkg, e.Name))
	}
	return notes
}

// canonGlobalName is the frozen name of a package-level variable that was renamed, its own name otherwise.
func canonGlobalName(g *ssa.Global) string {
	if obj := g.Object(); obj != nil {
		if n, ok := globalCanon[obj]; ok {
			return n
		}
	}
	return g.Name()
}
