package rules

import (
	"fmt"
	"go/constant"
	"sort"
	"strings"

	"golang.org/x/tools/go/ssa"

	"verif/wscheck/internal/fold"
)

func init() {
	register(&Property{
		ID:      "C14",
		Explain: "FOLD. wsflate.Extension.Negotiate is evaluated on the whole grid server configuration (2x2x9x9) x parsed offer (2x2x9x10) x already-accepted, with Parameters.Parse replaced by 'the offer's fields take any value of the validated domain' and Option() by a record of the four answer fields; every accepted cell's answer is compared with RFC 7692 7.1: server_max_window_bits present and <= the requested limit, client_max_window_bits only if offered and <= an offered value, server_no_context_takeover whenever asked, all window values in 8..15; at most one offer is accepted. The validated domain itself is derived by folding bitsFromASCII. Parameters.Parse is evaluated on scripted parameter lists (every pair of the four names + an unknown one x value empty / valid / out of range / not a number): unknown, duplicated and ill-valued parameters are errors and each parameter sets exactly its own field. Option() is evaluated per field against the RFC parameter names, and the names Parse accepts are the names Option emits. Extension.Reset clears accepted state and parsed parameters. negotiateExtensions (the server's scan that drives the negotiator) is folded; param-error: paramError returns a non-nil error for every reason string its callers pass; Reset returns every unexported field other than the configuration to its zero value. Both upgrader decision tables run here: a refusal by the negotiator ends the handshake, also when a later header line would negotiate successfully. first-acceptable: on the grid, an offer to which the configured parameters are a legal answer is accepted, not passed over (left open: a value-less client_max_window_bits against a configured value, which the code declines and the RFC allows either way).",
		Trusted: []string{"go/ssa + go/types", "the checker's abstract evaluator", "httphead option scanning and httphead.IntFromASCII (atoms)"},
		Run:     runC14,
	})
}

var wbits = []int64{0, 8, 9, 10, 11, 12, 13, 14, 15}

func runC14(c *Ctx) {
	// the negotiator is driven by the server's scan of the extensions header
	negotiateExtensionsRules(c, "C14")
	// a refusal by the negotiator must end the handshake in both upgraders
	serverUpgraderRules(c, "C14")
	httpUpgraderRules(c, "C14")
	c14ParamError(c)
	c14Negotiate(c)
	c14Parse(c)
	c14Option(c)
	c14Reset(c)
}

func paramsVal(sn, cn bool, sb, cb int64) fold.Struct {
	return fold.Struct{F: []fold.Val{fold.Bool(sn), fold.Bool(cn), fold.K(sb), fold.K(cb)}}
}

func (c *Ctx) paramsLayoutOK(rule string) bool {
	st := structOf(c.P.NamedType(wsflate, "Parameters"))
	want := []string{"ServerNoContextTakeover", "ClientNoContextTakeover", "ServerMaxWindowBits", "ClientMaxWindowBits"}
	if st == nil || st.NumFields() != 4 {
		c.R.Unknown(rule, rule+"/anchor:wsflate.Parameters", "-", "wsflate.Parameters no longer has its four fields")
		return false
	}
	for i, w := range want {
		if st.Field(i).Name() != w {
			c.R.Unknown(rule, rule+"/anchor:wsflate.Parameters", "-", "field order changed")
			return false
		}
	}
	return true
}

func c14Negotiate(c *Ctx) {
	const rule = "C14.negotiate-grid"
	c.R.Rule(rule, 1, "every answer Negotiate gives is a legal RFC 7692 7.1 answer to the offer; at most one offer is accepted")
	if !c.paramsLayoutOK(rule) {
		return
	}
	f := c.method(rule, wsflate, "Extension", "Negotiate")
	ext := c.P.NamedType(wsflate, "Extension")
	if f == nil || ext == nil {
		return
	}
	est := structOf(ext)
	iParams, iAccepted, iParsed := fieldIdx(est, "Parameters", nil), fieldIdx(est, "accepted", typeIs("bool")), fieldIdx(est, "params", typeIs(wsflate+".Parameters"))
	if iParams < 0 || iAccepted < 0 || iParsed < 0 {
		c.R.Unknown(rule, rule+"/anchor:wsflate.Extension.fields", "-", "fields do not resolve")
		return
	}
	type cell struct {
		cfg, offer [4]int64
		accepted   bool
	}
	optionModel := func(cl *fold.Call) fold.Val {
		cl.M.Emit(fold.Effect{Kind: "call", Name: "Option", Args: cl.Args})
		return fold.Sym{Name: "answer-option", NonNil: true}
	}
	equalModel := func(cl *fold.Call) fold.Val { return fold.Bool(cl.M.Choose("name-matches", 2) == 1) }
	type rec struct {
		c     cell
		p     *fold.Path
		accF  string
		match bool
	}
	// parallel over the 36 (snct, cnct, sbits) server configurations
	var all []rec
	nparts := 4 * 9
	parts := make([][]rec, nparts)
	done := make(chan int, nparts)
	sem := make(chan struct{}, 16)
	for pi := 0; pi < nparts; pi++ {
		pi := pi
		go func() {
			sem <- struct{}{}
			defer func() { <-sem; done <- pi }()
			var lrecv *fold.Obj
			var lcur cell
			lm := c.machine()
			lm.MaxPaths = 2000000
			lm.Models["bytes.Equal"] = equalModel
			lm.Models["("+wsflate+".Parameters).Option"] = optionModel
			lm.Models["(*"+wsflate+".Parameters).Parse"] = func(cl *fold.Call) fold.Val {
				x := cl.M
				if x.Choose("parse.err", 2) == 1 {
					return fold.Sym{Name: "parse-error", NonNil: true}
				}
				r := cl.Args[0].(fold.Ref)
				o := [4]int64{int64(x.Choose("o.snct", 2)), int64(x.Choose("o.cnct", 2)), wbits[x.Choose("o.sbits", 9)], 0}
				k := x.Choose("o.cbits", 10)
				if k == 9 {
					o[3] = 1
				} else {
					o[3] = wbits[k]
				}
				lcur.offer = o
				x.Store(r, paramsVal(o[0] == 1, o[1] == 1, o[2], o[3]))
				return fold.Nil{}
			}
			var out []rec
			lps := lm.Explore(f, func(x *fold.Machine) []fold.Val {
				lcur = cell{}
				lcur.cfg = [4]int64{int64(pi & 1), int64((pi >> 1) & 1), wbits[pi>>2], wbits[x.Choose("c.cbits", 9)]}
				lcur.accepted = x.Choose("accepted", 2) == 1
				s := fold.SymOfType("n", ext).(fold.Struct)
				s.F[iParams] = paramsVal(lcur.cfg[0] == 1, lcur.cfg[1] == 1, lcur.cfg[2], lcur.cfg[3])
				s.F[iAccepted] = fold.Bool(lcur.accepted)
				s.F[iParsed] = paramsVal(false, false, 0, 0)
				lrecv = x.NewObj("ext", s)
				return []fold.Val{fold.Ref{O: lrecv}, fold.SymOfType("opt", f.Params[1].Type())}
			}, func(x *fold.Machine, p *fold.Path) {
				out = append(out, rec{c: lcur, p: p, accF: fold.Show(x.Load(fold.Ref{O: lrecv, Path: []int{iAccepted}})), match: p.Chose("name-matches") == 1})
			})
			for _, p := range lps {
				if p.Abort != "" || p.Panic {
					out = append(out, rec{c: lcur, p: p})
				}
			}
			parts[pi] = out
		}()
	}
	for i := 0; i < nparts; i++ {
		<-done
	}
	for _, p := range parts {
		all = append(all, p...)
	}
	c.R.AddCells(len(all))
	c.R.Paths += len(all)
	var problems []string
	acceptedCells := 0
	for _, r := range all {
		if r.p.Abort != "" || r.p.Panic {
			problems = append(problems, "undecided: "+r.p.Abort+panicNote(r.p))
			continue
		}
		ret, _ := r.p.Ret.(fold.Tuple)
		if len(ret) != 2 {
			problems = append(problems, "unexpected result shape")
			continue
		}
		e := c.errName(ret[1])
		ans := r.p.Calls("Option")
		desc := fmt.Sprintf("config{snct=%d cnct=%d sbits=%d cbits=%d} offer{snct=%d cnct=%d sbits=%d cbits=%d}", r.c.cfg[0], r.c.cfg[1], r.c.cfg[2], r.c.cfg[3], r.c.offer[0], r.c.offer[1], r.c.offer[2], r.c.offer[3])
		if !r.match || r.c.accepted {
			if len(ans) != 0 || e != "nil" || r.accF != fmt.Sprint(r.c.accepted) {
				problems = append(problems, "an offer for another extension, or a second permessage-deflate offer after one was accepted, must be declined without error")
			}
			continue
		}
		if r.p.Chose("parse.err") == 1 {
			if len(ans) != 0 || e != "parse-error" || r.accF != "false" {
				problems = append(problems, "a malformed offer must be returned as an error and not accepted")
			}
			continue
		}
		if len(ans) == 0 {
			if e != "nil" || r.accF != "false" {
				problems = append(problems, "a declined offer must leave the negotiator unaccepted and return no error ["+desc+"]")
			}
			// "the first acceptable one": the negotiator answers with its configuration, so an
			// offer to which the configuration is a legal answer must not be passed over. Left
			// open: a value-less client_max_window_bits against a configured value (the code
			// declines; the RFC allows either).
			cfg, o := r.c.cfg, r.c.offer
			if (o[2] == 0 || (cfg[2] != 0 && cfg[2] <= o[2])) &&
				(cfg[3] == 0 || (o[3] >= 8 && cfg[3] <= o[3])) &&
				(o[0] == 0 || cfg[0] == 1) {
				problems = append(problems, "first acceptable offer passed over: the configured parameters are a legal answer, yet the offer is declined ["+desc+"]")
			}
			continue
		}
		acceptedCells++
		if r.accF != "true" || e != "nil" {
			problems = append(problems, "an accepted offer must be remembered (accepted=true) ["+desc+"]")
		}
		a, _ := ans[0].Args[0].(fold.Struct)
		if len(a.F) != 4 {
			problems = append(problems, "answer is not a Parameters value")
			continue
		}
		geti := func(v fold.Val) int64 {
			switch x := v.(type) {
			case fold.Int:
				return x.Const()
			case fold.Bool:
				if x {
					return 1
				}
			}
			return 0
		}
		as, _, asb, acb := geti(a.F[0]), geti(a.F[1]), geti(a.F[2]), geti(a.F[3])
		o := r.c.offer
		var bad []string
		if o[2] != 0 && (asb == 0 || asb > o[2]) {
			bad = append(bad, fmt.Sprintf("client limited server_max_window_bits to %d, answer says %d", o[2], asb))
		}
		if acb != 0 && o[3] == 0 {
			bad = append(bad, fmt.Sprintf("answer carries client_max_window_bits=%d although the client did not offer it", acb))
		}
		if acb != 0 && o[3] >= 8 && acb > o[3] {
			bad = append(bad, fmt.Sprintf("answer client_max_window_bits=%d exceeds the offered %d", acb, o[3]))
		}
		if o[0] == 1 && as != 1 {
			bad = append(bad, "client asked for server_no_context_takeover, answer omits it")
		}
		for _, b := range []int64{asb, acb} {
			if b != 0 && (b < 8 || b > 15) {
				bad = append(bad, fmt.Sprintf("window bits %d outside 8..15", b))
			}
		}
		if len(bad) > 0 {
			problems = append(problems, desc+": "+strings.Join(bad, "; "))
		}
	}
	if acceptedCells == 0 {
		problems = append(problems, "undecided: no cell of the grid is accepted")
	}
	c.R.Sample(map[string]any{"rule": rule, "grid_paths": len(all), "accepted_cells": acceptedCells})
	c.verdict(rule, rule+"/Negotiate", c.P.FuncPos(f), uniq(problems), fmt.Sprintf("%d grid cells, %d accepted, every answer legal", len(all), acceptedCells))
}

func c14Parse(c *Ctx) {
	const rule = "C14.parse-strict"
	c.R.Rule(rule, 1, "Parameters.Parse rejects unknown, duplicated and ill-valued parameters and stores each parameter in its own field")
	f := c.method(rule, wsflate, "Parameters", "Parse")
	if f == nil || !c.paramsLayoutOK(rule) {
		return
	}
	// validated domain of bitsFromASCII
	if bf := c.fn(rule, wsflate, "bitsFromASCII"); bf != nil {
		m := c.machine()
		dom := &fold.IntDom{Name: "n", Lo: -bigLen(), Hi: bigLen()}
		var curCell fold.Int
		m.Models["github.com/gobwas/httphead.IntFromASCII"] = func(cl *fold.Call) fold.Val {
			return fold.Tuple{curCell, fold.Bool(cl.M.Choose("numeric", 2) == 1)}
		}
		paths, err := m.ExploreCells(bf, []*fold.IntDom{dom}, func(mm *fold.Machine, cells []fold.Int) []fold.Val {
			curCell = cells[0]
			return []fold.Val{fold.SymSeq{Name: "val", Len: fold.Range(1, 64)}}
		}, nil)
		var problems []string
		if err != nil {
			problems = append(problems, "undecided: "+err.Error())
		}
		for _, p := range paths {
			if p.Abort != "" || p.Panic {
				problems = append(problems, "undecided: "+p.Abort)
				continue
			}
			ret, _ := p.Ret.(fold.Tuple)
			ok := fold.Show(ret[1]) == "true"
			in := p.Cells[0]
			want := p.Chose("numeric") == 1 && in.Lo >= 8 && in.Hi <= 15
			if ok != want {
				problems = append(problems, fmt.Sprintf("bitsFromASCII(n in %s, numeric=%v) ok=%v, want %v", fold.Show(in), p.Chose("numeric") == 1, ok, want))
			}
			if ok {
				v, _ := ret[0].(fold.Int)
				if v.Top || v.Lo < 8 || v.Hi > 15 {
					problems = append(problems, "bitsFromASCII yields "+fold.Show(v)+" outside 8..15")
				}
			}
		}
		c.R.AddCells(len(paths))
		c.verdict(rule, rule+"/bitsFromASCII", c.P.FuncPos(bf), uniq(problems), "accepts exactly the numbers 8..15")
	}
	names := []string{"client_max_window_bits", "server_max_window_bits", "client_no_context_takeover", "server_no_context_takeover", "x-unknown"}
	field := map[string]int{"server_no_context_takeover": 0, "client_no_context_takeover": 1, "server_max_window_bits": 2, "client_max_window_bits": 3}
	vals := []string{"empty", "10", "7", "abc"}
	m := c.machine()
	type script struct {
		k [2]int
		v [2]int
		n int
	}
	var cur script
	var recv *fold.Obj
	type rec struct {
		s   script
		p   *fold.Path
		fin fold.Val
	}
	var out []rec
	m.Models["github.com/gobwas/httphead.IntFromASCII"] = func(cl *fold.Call) fold.Val {
		s := fold.Show(cl.Args[0])
		switch {
		case strings.Contains(s, "val:10"):
			return fold.Tuple{fold.K(10), fold.Bool(true)}
		case strings.Contains(s, "val:7"):
			return fold.Tuple{fold.K(7), fold.Bool(true)}
		}
		return fold.Tuple{fold.K(0), fold.Bool(false)}
	}
	m.Models["fmt.Errorf"] = func(cl *fold.Call) fold.Val {
		return fold.Sym{Name: "param-error:" + fold.Show(cl.Args[0]), NonNil: true}
	}
	m.Models[wsflate+".paramError"] = func(cl *fold.Call) fold.Val {
		return fold.Sym{Name: "param-error:" + strings.Trim(fold.Show(cl.Args[0]), `"`), NonNil: true}
	}
	m.Models["(*github.com/gobwas/httphead.Parameters).ForEach"] = func(cl *fold.Call) fold.Val {
		mm := cl.M
		cb := cl.Args[1]
		for i := 0; i < cur.n; i++ {
			key := names[cur.k[i]]
			kb := make([]fold.Val, len(key))
			for j := range kb {
				kb[j] = fold.K(int64(key[j]))
			}
			var val fold.Val
			switch vals[cur.v[i]] {
			case "empty":
				val = fold.Nil{}
			default:
				val = fold.SymSeq{Name: "val:" + vals[cur.v[i]], Len: fold.K(int64(len(vals[cur.v[i]])))}
			}
			r := mm.CallValue(cb, []fold.Val{mm.NewBytes("key", kb), val}, 1)
			if fold.Show(r) != "true" {
				break
			}
		}
		return nil
	}
	paths := m.Explore(f, func(mm *fold.Machine) []fold.Val {
		cur = script{}
		cur.n = 1 + mm.Choose("n", 2)
		for i := 0; i < cur.n; i++ {
			cur.k[i] = mm.Choose(fmt.Sprintf("k%d", i), len(names))
			cur.v[i] = mm.Choose(fmt.Sprintf("v%d", i), len(vals))
		}
		recv = mm.NewObj("params", paramsVal(true, true, 15, 15))
		return []fold.Val{fold.Ref{O: recv}, fold.SymOfType("opt", f.Params[1].Type())}
	}, func(mm *fold.Machine, p *fold.Path) {
		out = append(out, rec{s: cur, p: p, fin: mm.Load(fold.Ref{O: recv})})
	})
	c.R.AddCells(len(paths))
	c.R.Paths += len(paths)
	var problems []string
	for _, p := range paths {
		if p.Abort != "" || p.Panic {
			problems = append(problems, "undecided: "+p.Abort+panicNote(p))
		}
	}
	validVal := func(k, v int) bool {
		name, val := names[k], vals[v]
		switch name {
		case "client_max_window_bits":
			return val == "empty" || val == "10"
		case "server_max_window_bits":
			return val == "10"
		case "client_no_context_takeover", "server_no_context_takeover":
			return val == "empty"
		}
		return false
	}
	for _, r := range out {
		e := c.errName(r.p.Ret)
		var desc []string
		for i := 0; i < r.s.n; i++ {
			desc = append(desc, names[r.s.k[i]]+"="+vals[r.s.v[i]])
		}
		d := strings.Join(desc, "; ")
		wantErr := false
		want := [4]int64{}
		for i := 0; i < r.s.n && !wantErr; i++ {
			k, v := r.s.k[i], r.s.v[i]
			if names[k] == "x-unknown" || !validVal(k, v) {
				wantErr = true
				break
			}
			if i == 1 && r.s.k[0] == k {
				wantErr = true
				break
			}
			fi := field[names[k]]
			switch {
			case fi < 2:
				want[fi] = 1
			case vals[v] == "empty":
				want[fi] = 1
			default:
				want[fi] = 10
			}
		}
		if wantErr {
			if e == "nil" {
				problems = append(problems, "parameter list ["+d+"] is accepted, it must be an error")
			}
			continue
		}
		if e != "nil" {
			problems = append(problems, "valid parameter list ["+d+"] is refused: "+e)
			continue
		}
		got, _ := r.fin.(fold.Struct)
		wantS := paramsVal(want[0] == 1, want[1] == 1, want[2], want[3])
		if fold.Show(got) != fold.Show(wantS) {
			problems = append(problems, "["+d+"] parses to "+fold.Show(got)+", want "+fold.Show(wantS))
		}
	}
	c.verdict(rule, rule+"/Parse", c.P.FuncPos(f), uniq(problems), fmt.Sprintf("%d scripted parameter lists (1-2 parameters x 5 names x 4 value kinds)", len(out)))
}

func c14Option(c *Ctx) {
	const rule = "C14.option-encoding"
	c.R.Rule(rule, 1, "Parameters.Option emits exactly the RFC 7692 parameter names with the right values; these are the names Parse accepts")
	f := c.method(rule, wsflate, "Parameters", "Option")
	if f == nil {
		return
	}
	m := c.machine()
	m.Models["(*github.com/gobwas/httphead.Parameters).Set"] = func(cl *fold.Call) fold.Val {
		name := "?"
		if s, ok := cl.Args[1].(fold.SliceV); ok {
			el := cl.M.Elems(s)
			b := make([]byte, len(el))
			for i, e := range el {
				if k, ok := e.(fold.Int); ok && k.IsConst() {
					b[i] = byte(k.Const())
				}
			}
			name = string(b)
		}
		val := "<none>"
		switch v := cl.Args[2].(type) {
		case fold.SliceV:
			el := cl.M.Elems(v)
			b := make([]byte, len(el))
			for i, e := range el {
				if k, ok := e.(fold.Int); ok && k.IsConst() {
					b[i] = byte(k.Const())
				}
			}
			val = string(b)
		case fold.Nil:
		default:
			val = fold.Show(v)
		}
		cl.M.Emit(fold.Effect{Kind: "call", Name: "Set", Args: []fold.Val{fold.Str(name), fold.Str(val)}})
		return fold.Bool(true)
	}
	// windowBits[i] is filled by the package's init(): fold it once and read the table
	table := c.foldWindowBits(rule)
	if table != nil {
		wb := c.P.Global(wsflate, "windowBits")
		m.GlobalInit = func(g *ssa.Global) (fold.Val, bool) {
			if g == wb {
				a := fold.Arr{E: make([]fold.Val, len(table))}
				for i, t := range table {
					a.E[i] = fold.BytesInit{S: t}
				}
				return a, true
			}
			return c.Ix.Init(g)
		}
	}
	type rec struct {
		sn, cn bool
		sb, cb int64
		p      *fold.Path
	}
	var out []rec
	var cur rec
	bits := []int64{0, 1, 8, 11, 15}
	paths := m.Explore(f, func(mm *fold.Machine) []fold.Val {
		cur = rec{sn: mm.Choose("sn", 2) == 1, cn: mm.Choose("cn", 2) == 1, sb: bits[mm.Choose("sb", len(bits))], cb: bits[mm.Choose("cb", len(bits))]}
		return []fold.Val{paramsVal(cur.sn, cur.cn, cur.sb, cur.cb)}
	}, func(mm *fold.Machine, p *fold.Path) { cur.p = p; out = append(out, cur) })
	c.R.AddCells(len(paths))
	var problems []string
	for _, p := range paths {
		if p.Abort != "" || p.Panic {
			problems = append(problems, "undecided: "+p.Abort+panicNote(p))
		}
	}
	for _, r := range out {
		got := map[string]string{}
		for _, e := range r.p.Calls("Set") {
			got[strings.Trim(fold.Show(e.Args[0]), `"`)] = strings.Trim(fold.Show(e.Args[1]), `"`)
		}
		want := map[string]string{}
		if r.sn {
			want["server_no_context_takeover"] = "<none>"
		}
		if r.cn {
			want["client_no_context_takeover"] = "<none>"
		}
		for name, b := range map[string]int64{"server_max_window_bits": r.sb, "client_max_window_bits": r.cb} {
			switch {
			case b == 1:
				want[name] = "<none>"
			case b >= 8:
				want[name] = fmt.Sprint(b)
			}
		}
		for k, v := range want {
			g, ok := got[k]
			if !ok {
				problems = append(problems, fmt.Sprintf("Option(%v,%v,%d,%d) does not emit %s", r.sn, r.cn, r.sb, r.cb, k))
				continue
			}
			if v == "<none>" && g != "<none>" {
				problems = append(problems, k+" emitted with value "+g)
			}
			if v != "<none>" && g != v {
				problems = append(problems, fmt.Sprintf("%s=%s emitted as %q", k, v, g))
			}
		}
		for k := range got {
			if _, ok := want[k]; !ok {
				problems = append(problems, fmt.Sprintf("Option(%v,%v,%d,%d) emits unexpected parameter %q", r.sn, r.cn, r.sb, r.cb, k))
			}
		}
	}
	c.verdict(rule, rule+"/Option", c.P.FuncPos(f), uniq(problems), fmt.Sprintf("%d field combinations", len(out)))
}

func c14Reset(c *Ctx) {
	const rule = "C14.reset"
	c.R.Rule(rule, 1, "Extension.Reset clears the accepted flag and the parsed parameters and keeps the configuration")
	f := c.method(rule, wsflate, "Extension", "Reset")
	ext := c.P.NamedType(wsflate, "Extension")
	if f == nil || ext == nil {
		return
	}
	est := structOf(ext)
	iParams, iAccepted, iParsed := fieldIdx(est, "Parameters", nil), fieldIdx(est, "accepted", typeIs("bool")), fieldIdx(est, "params", typeIs(wsflate+".Parameters"))
	if iParams < 0 || iAccepted < 0 || iParsed < 0 {
		c.R.Unknown(rule, rule+"/anchor", "-", "fields do not resolve")
		return
	}
	m := c.machine()
	var recv *fold.Obj
	var problems []string
	paths := m.Explore(f, func(mm *fold.Machine) []fold.Val {
		s := fold.SymOfType("n", ext).(fold.Struct)
		s.F[iParams] = paramsVal(true, false, 12, 9)
		s.F[iAccepted] = fold.Bool(true)
		s.F[iParsed] = paramsVal(true, true, 10, 1)
		recv = mm.NewObj("ext", s)
		return []fold.Val{fold.Ref{O: recv}}
	}, func(mm *fold.Machine, p *fold.Path) {
		s, _ := mm.Load(fold.Ref{O: recv}).(fold.Struct)
		if fold.Show(s.F[iAccepted]) != "false" {
			problems = append(problems, "Reset keeps accepted=true: the next handshake declines every offer")
		}
		if fold.Show(s.F[iParsed]) != fold.Show(paramsVal(false, false, 0, 0)) {
			problems = append(problems, "Reset keeps the previous handshake's parsed parameters")
		}
		if fold.Show(s.F[iParams]) != fold.Show(paramsVal(true, false, 12, 9)) {
			problems = append(problems, "Reset changes the configured Parameters")
		}
		// whatever else the negotiator remembers between calls (a cache, a counter) is state of the
		// previous handshake too: every other unexported field must be back at its zero value
		for i := 0; i < est.NumFields(); i++ {
			if i == iParams || i == iAccepted || i == iParsed || est.Field(i).Exported() {
				continue
			}
			if got, want := fold.Show(s.F[i]), fold.Show(fold.Zero(est.Field(i).Type())); got != want {
				problems = append(problems, fmt.Sprintf("Reset leaves field %q as it was (%s): a reused negotiator differs from a new one with the same configuration", est.Field(i).Name(), got))
			}
		}
	})
	for _, p := range paths {
		if p.Abort != "" || p.Panic {
			problems = append(problems, "undecided: "+p.Abort)
		}
	}
	c.verdict(rule, rule+"/Reset", c.P.FuncPos(f), uniq(problems), "accepted=false, params zeroed, configuration kept")
}

// foldWindowBits evaluates wsflate's init() and returns the decimal strings it
// stores into the windowBits table.
func (c *Ctx) foldWindowBits(rule string) []string {
	sp := c.P.SSA[wsflate]
	var initFn *ssa.Function
	for name, mem := range sp.Members {
		if fn, ok := mem.(*ssa.Function); ok && strings.HasPrefix(name, "init#") {
			initFn = fn
		}
	}
	wb := c.P.Global(wsflate, "windowBits")
	if initFn == nil || wb == nil {
		c.R.Unknown(rule, rule+"/anchor:wsflate.windowBits", "-", "windowBits table or its init() does not resolve")
		return nil
	}
	m := c.machine()
	m.Models["strconv.Itoa"] = func(cl *fold.Call) fold.Val {
		k, _ := cl.Args[0].(fold.Int)
		if !k.IsConst() {
			cl.M.Emit(fold.Effect{Kind: "call", Name: "Itoa?", Args: cl.Args})
			return fold.Str("?")
		}
		return fold.Str(fmt.Sprint(k.Const()))
	}
	var out []string
	paths := m.Explore(initFn, func(mm *fold.Machine) []fold.Val { return nil }, func(mm *fold.Machine, p *fold.Path) {
		a, ok := mm.Load(fold.Ref{O: mm.GlobalObj(wb)}).(fold.Arr)
		if !ok {
			return
		}
		for _, e := range a.E {
			s, ok := e.(fold.SliceV)
			if !ok {
				out = append(out, "")
				continue
			}
			el := mm.Elems(s)
			b := make([]byte, len(el))
			for i, x := range el {
				if k, ok := x.(fold.Int); ok && k.IsConst() {
					b[i] = byte(k.Const())
				}
			}
			out = append(out, string(b))
		}
	})
	if len(paths) != 1 || paths[0].Abort != "" || len(out) == 0 {
		d := "init() does not fold"
		if len(paths) > 0 {
			d += ": " + paths[0].Abort
		}
		c.R.Unknown(rule, rule+"/windowBits-init", c.P.FuncPos(initFn), d)
		return nil
	}
	return out
}

// c14ParamError: Parse refuses an offer by returning paramError(reason, key, value).
// Whatever reason string a call site passes, the result is a non-nil error - a
// reason the function does not know must not turn the refusal into acceptance.
func c14ParamError(c *Ctx) {
	const rule = "C14.param-error"
	c.R.Rule(rule, 1, "paramError returns a non-nil error for every reason its callers pass")
	f := c.fn(rule, wsflate, "paramError")
	if f == nil {
		return
	}
	reasons := map[string]bool{}
	for _, fn := range c.P.AllModuleFuncs() {
		for _, b := range fn.Blocks {
			for _, in := range b.Instrs {
				ci, ok := in.(ssa.CallInstruction)
				if !ok || ci.Common().StaticCallee() == nil || fold.CanonFuncName(ci.Common().StaticCallee()) != wsflate+".paramError" || len(ci.Common().Args) == 0 {
					continue
				}
				if k, ok := ci.Common().Args[0].(*ssa.Const); ok && k.Value != nil {
					reasons[constant.StringVal(k.Value)] = true
				} else {
					reasons["\x00symbolic"] = true
				}
			}
		}
	}
	var problems []string
	var rs []string
	for r := range reasons {
		rs = append(rs, r)
	}
	sort.Strings(rs)
	if len(rs) == 0 {
		problems = append(problems, "undecided: no call of paramError found")
	}
	for _, r := range rs {
		r := r
		m := c.machine()
		m.Models["fmt.Errorf"] = func(cl *fold.Call) fold.Val { return fold.Sym{Name: "param-error", NonNil: true} }
		m.Models["errors.New"] = func(cl *fold.Call) fold.Val { return fold.Sym{Name: "param-error", NonNil: true} }
		ps := m.Explore(f, func(mm *fold.Machine) []fold.Val {
			var reason fold.Val = fold.Str(r)
			if r == "\x00symbolic" {
				reason = fold.SymSeq{Name: "reason", IsStr: true, Len: fold.Range(0, 100)}
			}
			return []fold.Val{reason, fold.SymSeq{Name: "key", Len: fold.Range(0, 100)}, fold.SymSeq{Name: "val", Len: fold.Range(0, 100)}}
		}, nil)
		for _, p := range ps {
			if p.Abort != "" || p.Panic {
				problems = append(problems, "undecided: "+p.Abort+panicNote(p))
				continue
			}
			if c.errName(p.Ret) == "nil" {
				problems = append(problems, fmt.Sprintf("paramError(%q, ...) returns nil: Parse takes the offending parameter for acceptable", r))
			}
		}
	}
	c.verdict(rule, rule+"/paramError", c.P.FuncPos(f), uniq(problems), fmt.Sprintf("non-nil for the %d reasons passed by Parse", len(rs)))
}
