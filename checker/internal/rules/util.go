package rules

import (
	"go/types"
	"runtime"
	"sync"

	"verif/wscheck/internal/fold"
)

func structOf(t types.Type) *types.Struct {
	if t == nil {
		return nil
	}
	s, _ := t.Underlying().(*types.Struct)
	return s
}

// intName returns the symbolic name of an integer value ("" for constants).
func intName(v fold.Val) string {
	if i, ok := v.(fold.Int); ok {
		return i.Name
	}
	return ""
}

// parallel runs fn(0..n-1) on all cores.
func parallel(n int, fn func(i int)) {
	var wg sync.WaitGroup
	sem := make(chan struct{}, runtime.NumCPU())
	for i := 0; i < n; i++ {
		i := i
		wg.Add(1)
		sem <- struct{}{}
		go func() {
			defer wg.Done()
			defer func() { <-sem }()
			fn(i)
		}()
	}
	wg.Wait()
}

// derefType returns the element type of a pointer type (or t itself).
func derefType(t types.Type) types.Type {
	if p, ok := t.Underlying().(*types.Pointer); ok {
		return p.Elem()
	}
	return t
}
