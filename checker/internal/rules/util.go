package rules

import (
	"go/types"

	"verif/wscheck/internal/fold"
)

func structOf(t types.Type) *types.Struct {
	if t == nil {
		return nil
	}
	s, _ := t.Underlying().(*types.Struct)
	return s
}

// intName returns the symbolic name of an integer value ("" for constants).
func intName(v fold.Val) string {
	if i, ok := v.(fold.Int); ok {
		return i.Name
	}
	return ""
}
