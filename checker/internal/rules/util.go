package rules

import (
	"go/types"
	"runtime"
	"sync"

	"golang.org/x/tools/go/ssa"

	"verif/wscheck/internal/fold"
)

func structOf(t types.Type) *types.Struct {
	if t == nil {
		return nil
	}
	s, _ := t.Underlying().(*types.Struct)
	return s
}

// intName returns the symbolic name of an integer value ("" for constants).
func intName(v fold.Val) string {
	if i, ok := v.(fold.Int); ok {
		return i.Name
	}
	return ""
}

// parallel runs fn(0..n-1) on all cores.
func parallel(n int, fn func(i int)) {
	var wg sync.WaitGroup
	sem := make(chan struct{}, runtime.NumCPU())
	for i := 0; i < n; i++ {
		i := i
		wg.Add(1)
		sem <- struct{}{}
		go func() {
			defer wg.Done()
			defer func() { <-sem }()
			fn(i)
		}()
	}
	wg.Wait()
}

// derefType returns the element type of a pointer type (or t itself).
func derefType(t types.Type) types.Type {
	if p, ok := t.Underlying().(*types.Pointer); ok {
		return p.Elem()
	}
	return t
}

type (
	ssaFunction = ssa.Function
	ssaCall     = ssa.Call
	ssaConst    = ssa.Const
)

// fieldLoadOf reports whether v is (a load of) the field named name of some struct.
func fieldLoadOf(v ssa.Value, name string) bool {
	switch x := v.(type) {
	case *ssa.Field:
		st, ok := x.X.Type().Underlying().(*types.Struct)
		return ok && st.Field(x.Field).Name() == name
	case *ssa.UnOp:
		if fa, ok := x.X.(*ssa.FieldAddr); ok {
			st, ok := fa.X.Type().Underlying().(*types.Pointer).Elem().Underlying().(*types.Struct)
			return ok && st.Field(fa.Field).Name() == name
		}
	}
	return false
}

// constIntQuiet reads a package-level integer constant without recording anything.
func (c *Ctx) constIntQuiet(pkg, name string) (int64, bool) {
	if sp := c.P.SSA[pkg]; sp != nil {
		if k := sp.Const(name); k != nil && k.Value != nil {
			return k.Value.Int64(), true
		}
	}
	return 0, false
}

// bigLen is a large length/size that still fits the int of the configuration
// being analysed.
func bigLen() int64 {
	if fold.IntSize == 32 {
		return 1 << 30 // lengths near 2^31 cannot exist in a 32-bit address space next to the program
	}
	return 1 << 40
}
