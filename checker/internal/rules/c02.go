package rules

import (
	"fmt"
	"go/token"
	"go/types"
	"sort"
	"strings"

	"golang.org/x/tools/go/ssa"

	"verif/wscheck/internal/fold"
	"verif/wscheck/internal/load"
)

func init() {
	register(&Property{
		ID:        "C02",
		Explain:   "FOLD with symbolic byte lanes. ws.Cipher is evaluated for every payload length 0..72 (all residues of the 16-byte word loop over several iterations, the 8-byte threshold, head and tail loops) x every stream offset 0..9 (all residues mod 4, offsets >= 4) with payload bytes p_i and key bytes k_j as symbolic lanes; 64-bit words are tracked as 8 byte lanes through the little-endian loads, the shift/or that builds the doubled key, the XOR and the stores, so the result is compared byte by byte with payload[i] XOR key[(offset+i) mod 4]; every index is in range. The remain table must equal [0,3,2,1]. The streaming wrappers and the frame helpers are folded with Cipher as an effect: CipherReader.Read ciphers exactly p[:n] at the running position and advances it by n; CipherWriter.Write ciphers a pooled copy (never p) at the running position, advances by what the destination accepted and returns the buffer to the pool; MaskFrame*/UnmaskFrame* set/clear Masked and Mask, cipher with that same key at offset 0, and the copying variants cipher a fresh copy. NOT decided: payload lengths above 72 (the loops are uniform in the length, but that is an argument, not a decision). The constructors NewCipherReader / NewCipherWriter wrap exactly the stream they are given with exactly the given key at position 0, whatever that stream is; the Mask* helpers are also folded on frames that already carry a key (the payload is ciphered once, with the new key). cipher-call-sites: ws.Cipher is applied only in the five functions whose offset and key discipline a fold examines (a helper with a single caller inherits); a new entry point that ciphers - an io.WriterTo fast path, say - is a violation until a fold covers it. Both wrappers keep the stream position in Cipher's own offset type (a narrower field wraps on long streams). Cipher is also folded around every constant the code compares the payload length with (a fast path for big payloads is evaluated byte by byte like the rest).",
		Technique: "static analysis: abstract interpretation over go/ssa with a symbolic byte-lane domain (bounded unrolling at concrete lengths, symbolic contents)",
		Trusted:   []string{"go/ssa + go/types", "the checker's abstract evaluator and its lane algebra (XOR/OR/shift by whole bytes)", "encoding/binary.LittleEndian is little-endian (lane intrinsic)"},
		Run:       runC02,
	})
}

func runC02(c *Ctx) {
	c02Remain(c)
	c02Cipher(c)
	c02Streams(c)
	c02Frames(c)
	c02CallSites(c)
}

func c02Remain(c *Ctx) {
	const rule = "C02.remain-table"
	c.R.Rule(rule, 1, "remain[k] == (4-k) mod 4: after the head loop the word loop is key-aligned")
	g := c.P.Global(ws, "remain")
	if g == nil {
		c.R.Unknown(rule, rule+"/anchor:ws.remain", "-", "table does not resolve")
		return
	}
	v, ok := c.Ix.Init(g)
	a, isArr := v.(fold.Arr)
	if !ok || !isArr {
		c.R.Unknown(rule, rule+"/remain", c.P.Pos(g.Pos()), "initialiser is not a constant array")
		return
	}
	got := strings.Join(laneNamesPlain(a.E), ",")
	c.R.Check(got == "0,3,2,1", rule, rule+"/remain", c.P.Pos(g.Pos()), "remain = [0,3,2,1]", "remain = ["+got+"], want [0,3,2,1]")
}

func c02Cipher(c *Ctx) {
	const rule = "C02.cipher-bytewise"
	c.R.Rule(rule, 1, "Cipher(payload, key, offset) turns byte i into payload[i] XOR key[(offset+i) mod 4]")
	f := c.fn(rule, ws, "Cipher")
	if f == nil {
		return
	}
	maxLen, maxOff := 72, 9
	if c.Tier == "thorough" {
		maxLen, maxOff = 520, 17 // thirty-two iterations of the word loop, every residue, offsets past 16
	}
	type job struct{ n, off int }
	var jobs []job
	for n := 0; n <= maxLen; n++ {
		for off := 0; off <= maxOff; off++ {
			jobs = append(jobs, job{n, off})
		}
	}
	// length regimes: the argument "the loops are uniform beyond the lengths folded" holds only if
	// no branch distinguishes longer payloads. Every constant the code compares the payload length
	// with starts a regime; one that lies beyond maxLen (a fast path for big payloads) is folded
	// around its threshold as well, or left undecided when it is out of reach.
	var regimeProblems []string
	thresholds := lengthThresholds(f)
	for _, t := range thresholds {
		if t <= int64(maxLen)-16 {
			continue
		}
		if t > 1<<14 {
			regimeProblems = append(regimeProblems, fmt.Sprintf("undecided: Cipher (or a function it calls) treats payloads of %d bytes and more differently; lengths that large are not folded", t))
			continue
		}
		for n := int(t) - 2; n <= int(t)+70; n++ {
			if n < 0 {
				continue
			}
			for off := 0; off <= 9; off++ {
				jobs = append(jobs, job{n, off})
			}
		}
	}
	results := make([][]string, len(jobs))
	parallel(len(jobs), func(j int) {
		n, off := jobs[j].n, jobs[j].off
		m := c.machine()
		addBinaryModels(m)
		var payload fold.SliceV
		var got []string
		paths := m.Explore(f, func(mm *fold.Machine) []fold.Val {
			el := make([]fold.Val, n)
			for i := range el {
				el[i] = fold.Int{Lo: 0, Hi: 255, Name: fmt.Sprintf("p%d", i)}
			}
			payload = mm.NewBytes("payload", el)
			key := fold.Arr{E: []fold.Val{fold.Int{Lo: 0, Hi: 255, Name: "k0"}, fold.Int{Lo: 0, Hi: 255, Name: "k1"}, fold.Int{Lo: 0, Hi: 255, Name: "k2"}, fold.Int{Lo: 0, Hi: 255, Name: "k3"}}}
			return []fold.Val{payload, key, fold.K(int64(off))}
		}, func(mm *fold.Machine, p *fold.Path) {
			got = laneNamesPlain(mm.Elems(payload))
		})
		var problems []string
		if len(paths) != 1 {
			problems = append(problems, fmt.Sprintf("undecided: %d paths for a concrete length", len(paths)))
		}
		for _, p := range paths {
			if p.Abort != "" {
				problems = append(problems, fmt.Sprintf("undecided: n=%d offset=%d: %s", n, off, p.Abort))
			} else if p.Panic {
				problems = append(problems, fmt.Sprintf("n=%d offset=%d: panics: %s", n, off, fold.Show(p.PanicV)))
			}
		}
		if len(problems) == 0 {
			for i := 0; i < n; i++ {
				want := fmt.Sprintf("(p%d^k%d)", i, (off+i)%4)
				alt := fmt.Sprintf("(k%d^p%d)", (off+i)%4, i)
				if got[i] != want && got[i] != alt {
					problems = append(problems, fmt.Sprintf("n=%d offset=%d: byte %d becomes %s, RFC 6455 5.3 says %s", n, off, i, got[i], want))
					break
				}
			}
		}
		results[j] = problems
	})
	problems := append([]string{}, regimeProblems...)
	for _, r := range results {
		problems = append(problems, r...)
	}
	c.R.AddCells(len(jobs))
	c.R.Sample(map[string]any{"rule": rule, "length_thresholds_in_code": fmt.Sprint(thresholds), "lengths": fmt.Sprintf("0..%d", maxLen), "offsets": fmt.Sprintf("0..%d", maxOff), "example": "n=21 offset=6: byte 17 -> (p17^k3)"})
	c.verdict(rule, rule+"/Cipher", c.P.FuncPos(f), uniq(problems), fmt.Sprintf("%d (length, offset) pairs: every byte is p_i XOR k_((offset+i) mod 4)", len(jobs)))
}

func c02Streams(c *Ctx) {
	const rule = "C02.stream-wrappers"
	c.R.Rule(rule, 5, "CipherReader/CipherWriter cipher exactly the transferred bytes at the running position and advance it by the transferred count; the writer never touches the caller's slice")
	L := c.readerLayout(rule)
	if L == nil {
		return
	}
	crN := c.P.NamedType(wsutil, "CipherReader")
	cwN := c.P.NamedType(wsutil, "CipherWriter")
	if crN == nil || cwN == nil {
		c.R.Unknown(rule, rule+"/anchor", "-", "CipherReader/CipherWriter do not resolve")
		return
	}
	cws := structOf(cwN)
	wW, wMask, wPos := fieldIdx(cws, "w", typeIs("io.Writer")), fieldIdx(cws, "mask", typeIs("[4]byte")), fieldIdx(cws, "pos", typeIs("int"))
	if wW < 0 || wMask < 0 || wPos < 0 {
		c.R.Unknown(rule, rule+"/anchor:CipherWriter.fields", "-", "fields do not resolve")
		return
	}
	// the running position is a stream offset handed to Cipher as its int offset: a narrower
	// field wraps on long streams (a negative offset panics in Cipher, a wrapped one mis-aligns the key)
	{
		var problems []string
		var want types.Type = types.Typ[types.Int]
		if cf := c.P.Func(ws, "Cipher"); cf != nil && len(cf.Params) == 3 {
			want = cf.Params[2].Type()
		}
		crs := structOf(crN)
		for _, fl := range []struct {
			owner string
			t     types.Type
		}{{"CipherReader", crs.Field(L.crPos).Type()}, {"CipherWriter", cws.Field(wPos).Type()}} {
			if !types.Identical(fl.t, want) {
				problems = append(problems, fmt.Sprintf("%s keeps its stream position in a %s, Cipher takes the offset as %s: the position wraps after 2^%d bytes of one stream", fl.owner, fl.t, want, map[bool]int{true: 31, false: 15}[strings.Contains(fl.t.String(), "32")]))
			}
		}
		c.verdict(rule, rule+"/position-width", c.P.Pos(cwN.Obj().Pos()), problems, "both wrappers keep the position in Cipher's own offset type")
	}
	// constructors: whatever the wrapped stream is (another cipher wrapper, anything), the new
	// wrapper works on exactly that stream with exactly the given key from position 0
	for _, ctor := range []struct {
		name       string
		rI, mI, pI int
	}{{"NewCipherReader", L.crR, L.crMask, L.crPos}, {"NewCipherWriter", wW, wMask, wPos}} {
		f := c.fn(rule, wsutil, ctor.name)
		if f == nil {
			continue
		}
		m := c.machine()
		var problems []string
		paths := m.Explore(f, func(mm *fold.Machine) []fold.Val {
			return []fold.Val{fold.Iface{V: fold.Sym{Name: "stream", NonNil: true}}, maskLanes()}
		}, func(mm *fold.Machine, p *fold.Path) {
			r, ok := p.Ret.(fold.Ref)
			if !ok {
				problems = append(problems, ctor.name+" does not return a new object: "+fold.Show(p.Ret))
				return
			}
			s, _ := mm.Load(r).(fold.Struct)
			if len(s.F) <= ctor.pI {
				problems = append(problems, ctor.name+": unexpected result shape")
				return
			}
			key := "?"
			if a, ok := s.F[ctor.mI].(fold.Arr); ok {
				key = strings.Join(laneNamesPlain(a.E), "")
			}
			if nameOf(s.F[ctor.rI]) != "stream" || key != "m0m1m2m3" || fold.Show(s.F[ctor.pI]) != "0" {
				problems = append(problems, fmt.Sprintf("%s(stream, mask) wraps %s with key %s at position %s [%s]: a wrapper that looks into the stream it is given (e.g. merges with another cipher wrapper) ignores that one's running position", ctor.name, nameOf(s.F[ctor.rI]), key, fold.Show(s.F[ctor.pI]), p.ChoiceString()))
			}
		})
		for _, p := range paths {
			if p.Abort != "" || p.Panic {
				problems = append(problems, "undecided: "+p.Abort+panicNote(p))
			}
		}
		c.verdict(rule, rule+"/"+ctor.name, c.P.FuncPos(f), uniq(problems), "wraps the given stream with the given key at position 0")
	}
	// Read
	if f := c.method(rule, wsutil, "CipherReader", "Read"); f != nil {
		m := c.machine()
		addWriterLeafModels(m)
		var recv *fold.Obj
		m.Models["invoke:(io.Reader).Read"] = func(cl *fold.Call) fold.Val {
			cl.M.Emit(fold.Effect{Kind: "call", Name: "src.Read", Args: cl.Args})
			return fold.Tuple{fold.Int{Lo: 0, Hi: 1 << 30, Name: "n"}, errChoice(cl.M, "src.err", "global:io.EOF", "src-error")}
		}
		var problems []string
		paths := m.Explore(f, func(mm *fold.Machine) []fold.Val {
			s := fold.SymOfType("c", crN).(fold.Struct)
			s.F[L.crR] = fold.Iface{V: fold.Sym{Name: "src", NonNil: true}}
			s.F[L.crMask] = maskLanes()
			s.F[L.crPos] = fold.Int{Lo: 0, Hi: bigLen(), Name: "pos"}
			recv = mm.NewObj("c", s)
			return []fold.Val{fold.Ref{O: recv}, fold.SymSeq{Name: "p", Len: fold.Int{Lo: 0, Hi: 1 << 30, Name: "len(p)"}}}
		}, func(mm *fold.Machine, p *fold.Path) {
			rd := p.Calls("src.Read")
			cp := p.Calls("Cipher")
			if len(rd) != 1 || fold.Show(rd[0].Args[1]) != "p" {
				problems = append(problems, "source is not read into p exactly once")
				return
			}
			if len(cp) == 0 {
				// nothing was read: skipping the (empty) cipher call is the same thing
				ret, _ := p.Ret.(fold.Tuple)
				zero := false
				if len(ret) == 2 {
					if k, ok := ret[0].(fold.Int); ok && !k.Top && k.Lo == 0 && k.Hi == 0 {
						zero = true
					}
				}
				np, _ := mm.Load(fold.Ref{O: recv, Path: []int{L.crPos}}).(fold.Int)
				wantE := []string{"nil", "global:io.EOF", "src-error"}[p.Chose("src.err")]
				if !zero || np.Name != "pos" || c.errName(ret[1]) != wantE {
					problems = append(problems, "Cipher applied 0 times although bytes were read (or the position / the source's error is not handed on)")
				}
				return
			}
			if len(cp) != 1 {
				problems = append(problems, fmt.Sprintf("Cipher applied %d times", len(cp)))
				return
			}
			if fold.Show(cp[0].Args[0]) != "p[:n]" {
				problems = append(problems, "ciphers "+fold.Show(cp[0].Args[0])+" instead of exactly the bytes read p[:n]")
			}
			if a, ok := cp[0].Args[1].(fold.Arr); !ok || strings.Join(laneNamesPlain(a.E), "") != "m0m1m2m3" {
				problems = append(problems, "ciphers with a key other than the reader's mask")
			}
			if intName(cp[0].Args[2]) != "pos" {
				problems = append(problems, "ciphers at offset "+fold.Show(cp[0].Args[2])+" instead of the running position")
			}
			np, _ := mm.Load(fold.Ref{O: recv, Path: []int{L.crPos}}).(fold.Int)
			if np.Name != "(pos+n)" && np.Name != "(n+pos)" {
				problems = append(problems, "position becomes "+fold.Show(np)+" instead of pos+n")
			}
			ret, _ := p.Ret.(fold.Tuple)
			if len(ret) == 2 {
				wantE := []string{"nil", "global:io.EOF", "src-error"}[p.Chose("src.err")]
				if intName(ret[0]) != "n" || c.errName(ret[1]) != wantE {
					problems = append(problems, "does not return the source's (n, err)")
				}
			}
			// order: read, then cipher
			ir, ic := -1, -1
			for i, e := range p.Effects {
				if e.Name == "src.Read" {
					ir = i
				}
				if e.Name == "Cipher" {
					ic = i
				}
			}
			if ic < ir {
				problems = append(problems, "ciphers before reading")
			}
		})
		for _, p := range paths {
			if p.Abort != "" || p.Panic {
				problems = append(problems, "undecided: "+p.Abort+panicNote(p))
			}
		}
		c.verdict(rule, rule+"/CipherReader.Read", c.P.FuncPos(f), uniq(problems), "read p; Cipher(p[:n], mask, pos); pos += n")
	}
	// Reset
	if f := c.method(rule, wsutil, "CipherReader", "Reset"); f != nil {
		m := c.machine()
		var recv *fold.Obj
		var problems []string
		paths := m.Explore(f, func(mm *fold.Machine) []fold.Val {
			s := fold.SymOfType("c", crN).(fold.Struct)
			s.F[L.crPos] = fold.K(7)
			recv = mm.NewObj("c", s)
			return []fold.Val{fold.Ref{O: recv}, fold.Iface{V: fold.Sym{Name: "newsrc", NonNil: true}}, maskLanes()}
		}, func(mm *fold.Machine, p *fold.Path) {
			s, _ := mm.Load(fold.Ref{O: recv}).(fold.Struct)
			if fold.Show(s.F[L.crPos]) != "0" {
				problems = append(problems, "Reset keeps the stream position "+fold.Show(s.F[L.crPos]))
			}
			if a, ok := s.F[L.crMask].(fold.Arr); !ok || strings.Join(laneNamesPlain(a.E), "") != "m0m1m2m3" {
				problems = append(problems, "Reset does not install the new mask")
			}
			if !strings.Contains(fold.Show(s.F[L.crR]), "newsrc") {
				problems = append(problems, "Reset does not install the new source")
			}
		})
		for _, p := range paths {
			if p.Abort != "" {
				problems = append(problems, "undecided: "+p.Abort)
			}
		}
		c.verdict(rule, rule+"/CipherReader.Reset", c.P.FuncPos(f), uniq(problems), "source, mask installed; pos = 0")
	}
	// Write
	if f := c.method(rule, wsutil, "CipherWriter", "Write"); f != nil {
		m := c.machine()
		addWriterLeafModels(m)
		var recv *fold.Obj
		m.Models["invoke:(io.Writer).Write"] = func(cl *fold.Call) fold.Val {
			cl.M.Emit(fold.Effect{Kind: "call", Name: "dst.Write", Args: cl.Args})
			return fold.Tuple{fold.Int{Lo: 0, Hi: 1 << 30, Name: "n"}, errChoice(cl.M, "dst.err", "dst-error")}
		}
		var problems []string
		paths := m.Explore(f, func(mm *fold.Machine) []fold.Val {
			s := fold.SymOfType("c", cwN).(fold.Struct)
			s.F[wW] = fold.Iface{V: fold.Sym{Name: "dst", NonNil: true}}
			s.F[wMask] = maskLanes()
			s.F[wPos] = fold.Int{Lo: 0, Hi: bigLen(), Name: "pos"}
			recv = mm.NewObj("c", s)
			return []fold.Val{fold.Ref{O: recv}, fold.SymSeq{Name: "p", Len: fold.Int{Lo: 0, Hi: 1 << 30, Name: "len(p)"}}}
		}, func(mm *fold.Machine, p *fold.Path) {
			var seq []string
			for _, e := range p.Effects {
				switch {
				case e.Kind == "copy":
					if isPooled(e.Args[0]) && fold.Show(e.Args[1]) == "p" {
						seq = append(seq, "copy(pooled,p)")
					} else {
						seq = append(seq, "copy("+fold.Show(e.Args[0])+","+fold.Show(e.Args[1])+")")
					}
				case e.Kind == "call":
					seq = append(seq, e.Name)
				}
			}
			if strings.Join(seq, ",") != "pool.Get,copy(pooled,p),Cipher,dst.Write,pool.Put" {
				problems = append(problems, "order is ["+strings.Join(seq, ",")+"], want [pool.Get,copy(pooled,p),Cipher,dst.Write,pool.Put]")
				return
			}
			g := p.Calls("pool.Get")[0]
			if intName(g.Args[0]) != "len(p)" {
				problems = append(problems, "pooled copy has "+fold.Show(g.Args[0])+" bytes, not len(p)")
			}
			cp := p.Calls("Cipher")[0]
			if !isPooled(cp.Args[0]) || fold.Show(cp.Args[0]) == "p" {
				problems = append(problems, "ciphers "+fold.Show(cp.Args[0])+": the caller's slice must not be the cipher's argument")
			}
			if a, ok := cp.Args[1].(fold.Arr); !ok || strings.Join(laneNamesPlain(a.E), "") != "m0m1m2m3" || intName(cp.Args[2]) != "pos" {
				problems = append(problems, "ciphers with the wrong key or offset")
			}
			w := p.Calls("dst.Write")[0]
			if !isPooled(w.Args[1]) || fold.Show(w.Args[1]) != fold.Show(cp.Args[0]) {
				problems = append(problems, "the bytes written are not the ciphered copy")
			}
			np, _ := mm.Load(fold.Ref{O: recv, Path: []int{wPos}}).(fold.Int)
			if np.Name != "(pos+n)" && np.Name != "(n+pos)" {
				problems = append(problems, "position becomes "+fold.Show(np)+" instead of pos + bytes accepted by the destination")
			}
			ret, _ := p.Ret.(fold.Tuple)
			if len(ret) == 2 && (intName(ret[0]) != "n" || (p.Chose("dst.err") > 0) != (c.errName(ret[1]) == "dst-error")) {
				problems = append(problems, "does not return the destination's (n, err)")
			}
		})
		for _, p := range paths {
			if p.Abort != "" || p.Panic {
				problems = append(problems, "undecided: "+p.Abort+panicNote(p))
			}
		}
		c.verdict(rule, rule+"/CipherWriter.Write", c.P.FuncPos(f), uniq(problems), "pooled copy of p ciphered at pos, written, pos += n, buffer returned")
	}
	if f := c.method(rule, wsutil, "CipherWriter", "Reset"); f != nil {
		m := c.machine()
		var recv *fold.Obj
		var problems []string
		paths := m.Explore(f, func(mm *fold.Machine) []fold.Val {
			s := fold.SymOfType("c", cwN).(fold.Struct)
			s.F[wPos] = fold.K(7)
			recv = mm.NewObj("c", s)
			return []fold.Val{fold.Ref{O: recv}, fold.Iface{V: fold.Sym{Name: "newdst", NonNil: true}}, maskLanes()}
		}, func(mm *fold.Machine, p *fold.Path) {
			s, _ := mm.Load(fold.Ref{O: recv}).(fold.Struct)
			if fold.Show(s.F[wPos]) != "0" {
				problems = append(problems, "Reset keeps the stream position")
			}
			if a, ok := s.F[wMask].(fold.Arr); !ok || strings.Join(laneNamesPlain(a.E), "") != "m0m1m2m3" {
				problems = append(problems, "Reset does not install the new mask")
			}
			if !strings.Contains(fold.Show(s.F[wW]), "newdst") {
				problems = append(problems, "Reset does not install the new destination")
			}
		})
		for _, p := range paths {
			if p.Abort != "" {
				problems = append(problems, "undecided: "+p.Abort)
			}
		}
		c.verdict(rule, rule+"/CipherWriter.Reset", c.P.FuncPos(f), uniq(problems), "destination, mask installed; pos = 0")
	}
}

func c02Frames(c *Ctx) {
	const rule = "C02.frame-helpers"
	c.R.Rule(rule, 6, "MaskFrame*/UnmaskFrame* set or clear Masked/Mask, cipher with that key at offset 0; the copying variants cipher a fresh copy and leave the caller's bytes alone")
	if !c.headerLayoutOK(rule) {
		return
	}
	type spec struct {
		name          string
		withMask      bool
		unmask, copyP bool
	}
	for _, sp := range []spec{
		{"MaskFrameInPlaceWith", true, false, false},
		{"MaskFrameInPlace", false, false, false},
		{"MaskFrameWith", true, false, true},
		{"MaskFrame", false, false, true},
		{"UnmaskFrameInPlace", false, true, false},
		{"UnmaskFrame", false, true, true},
	} {
		f := c.fn(rule, ws, sp.name)
		if f == nil {
			continue
		}
		m := c.machine()
		addWriterLeafModels(m)
		var problems []string
		var paths []*fold.Path
		for _, premasked := range []bool{false, true} {
			premasked := premasked
			if sp.unmask && premasked {
				continue
			}
			// premasked: a frame that already carries a key (taken from the wire) is masked again:
			// the payload is ciphered once, with the new key
			ps := m.Explore(f, func(mm *fold.Machine) []fold.Val {
				hmask := fold.Arr{E: []fold.Val{fold.K(0), fold.K(0), fold.K(0), fold.K(0)}}
				masked := false
				if sp.unmask || premasked {
					hmask = fold.Arr{E: []fold.Val{fold.Int{Lo: 0, Hi: 255, Name: "h0"}, fold.Int{Lo: 0, Hi: 255, Name: "h1"}, fold.Int{Lo: 0, Hi: 255, Name: "h2"}, fold.Int{Lo: 0, Hi: 255, Name: "h3"}}}
					masked = true
				}
				h := headerVal(true, 0, 2, masked, hmask, fold.Int{Lo: 0, Hi: bigLen(), Name: "Length"})
				fr := fold.Struct{F: []fold.Val{h, fold.SymSeq{Name: "payload", Len: fold.Int{Lo: 0, Hi: 1 << 30, Name: "len(payload)"}}}}
				if sp.withMask {
					return []fold.Val{fr, maskLanes()}
				}
				return []fold.Val{fr}
			}, func(mm *fold.Machine, p *fold.Path) {
				fr, _ := p.Ret.(fold.Struct)
				if len(fr.F) != 2 {
					problems = append(problems, "result is not a frame")
					return
				}
				h, _ := fr.F[0].(fold.Struct)
				cp := p.Calls("Cipher")
				if len(cp) != 1 || fold.Show(cp[0].Args[2]) != "0" {
					problems = append(problems, fmt.Sprintf("payload is ciphered %d times (must be once, at offset 0)", len(cp)))
					return
				}
				key := ""
				if a, ok := cp[0].Args[1].(fold.Arr); ok {
					key = strings.Join(laneNamesPlain(a.E), "")
				}
				hm := ""
				if a, ok := h.F[4].(fold.Arr); ok {
					hm = strings.Join(laneNamesPlain(a.E), "")
				}
				switch {
				case sp.unmask:
					if key != "h0h1h2h3" {
						problems = append(problems, "unmasks with key "+key+" instead of the header's mask as it was before being cleared")
					}
					if fold.Show(h.F[3]) != "false" || hm != "0000" {
						problems = append(problems, "result header still says Masked="+fold.Show(h.F[3])+" Mask="+hm)
					}
				case sp.withMask:
					if key != "m0m1m2m3" || hm != "m0m1m2m3" || fold.Show(h.F[3]) != "true" {
						problems = append(problems, fmt.Sprintf("masked with %s, header Mask=%s Masked=%s: all three must be the given mask", key, hm, fold.Show(h.F[3])))
					}
				default:
					if key != "k0k1k2k3" || hm != "k0k1k2k3" || fold.Show(h.F[3]) != "true" {
						problems = append(problems, fmt.Sprintf("masked with %s, header Mask=%s Masked=%s: all three must be the fresh key", key, hm, fold.Show(h.F[3])))
					}
				}
				arg := fold.Show(cp[0].Args[0])
				if sp.copyP {
					if arg == "payload" || strings.HasPrefix(arg, "payload[") {
						problems = append(problems, "the copying variant ciphers the caller's payload in place")
					}
					okCopy := false
					for _, e := range p.Effects {
						if e.Kind == "copy" && fold.Show(e.Args[0]) == arg && fold.Show(e.Args[1]) == "payload" {
							okCopy = true
						}
					}
					al := fold.LenOf(cp[0].Args[0])
					if !okCopy || al.Name != "len(payload)" {
						problems = append(problems, "the ciphered buffer is not a full copy of the payload")
					}
				} else if arg != "payload" {
					problems = append(problems, "the in-place variant ciphers "+arg)
				}
				if fold.Show(fr.F[1]) != arg {
					problems = append(problems, "the returned payload is not the ciphered buffer")
				}
				if intName(h.F[5]) != "Length" || fold.Show(h.F[0]) != "true" || fold.Show(h.F[2]) != "2" {
					problems = append(problems, "other header fields changed")
				}
			})
			paths = append(paths, ps...)
		}
		for _, p := range paths {
			if p.Abort != "" || p.Panic {
				problems = append(problems, "undecided: "+p.Abort+panicNote(p))
			}
		}
		if sp.copyP {
			// the copy is promised whatever the header says: an unmasked frame given to UnmaskFrame,
			// a frame with a zero key, an already masked frame given to MaskFrame
			for _, variant := range []string{"flag-inverted", "zero-key"} {

				variant := variant
				m2 := c.machine()
				addWriterLeafModels(m2)
				ps := m2.Explore(f, func(mm *fold.Machine) []fold.Val {
					hmask := fold.Arr{E: []fold.Val{fold.K(0), fold.K(0), fold.K(0), fold.K(0)}}
					masked := sp.unmask
					if variant == "flag-inverted" {
						masked = !sp.unmask
						if masked {
							hmask = fold.Arr{E: []fold.Val{fold.Int{Lo: 0, Hi: 255, Name: "h0"}, fold.Int{Lo: 0, Hi: 255, Name: "h1"}, fold.Int{Lo: 0, Hi: 255, Name: "h2"}, fold.Int{Lo: 0, Hi: 255, Name: "h3"}}}
						}
					}
					h := headerVal(true, 0, 2, masked, hmask, fold.Int{Lo: 0, Hi: bigLen(), Name: "Length"})
					fr := fold.Struct{F: []fold.Val{h, fold.SymSeq{Name: "payload", Len: fold.Int{Lo: 0, Hi: 1 << 30, Name: "len(payload)"}}}}
					if sp.withMask {
						return []fold.Val{fr, fold.Arr{E: []fold.Val{fold.K(0), fold.K(0), fold.K(0), fold.K(0)}}}
					}
					return []fold.Val{fr}
				}, func(mm *fold.Machine, p *fold.Path) {
					fr, _ := p.Ret.(fold.Struct)
					if len(fr.F) != 2 {
						problems = append(problems, "result is not a frame ("+variant+")")
						return
					}
					if got := fold.Show(fr.F[1]); got == "payload" || strings.HasPrefix(got, "payload[") {
						problems = append(problems, "with a "+variant+" input the copying variant returns the caller's own payload slice: in-place work on the supposed copy rewrites the caller's bytes")
					}
				})
				for _, p := range ps {
					if p.Abort != "" || p.Panic {
						problems = append(problems, "undecided ("+variant+"): "+p.Abort+panicNote(p))
					}
				}
			}
		}
		c.verdict(rule, rule+"/"+sp.name, c.P.FuncPos(f), uniq(problems), "mask fields and cipher key agree; copy/in-place as documented")
	}
}

// cipherSites: who applies ws.Cipher, and which rule examines offset and key at that site.
var cipherSites = map[string]string{
	"ws.UnmaskFrameInPlace":          "C02.frame-helpers: key = Header.Mask, offset 0 over the whole payload",
	"ws.MaskFrameInPlaceWith":        "C02.frame-helpers: key = the given mask, offset 0 over the whole payload",
	"wsutil.(*CipherReader).Read":    "C02.stream-wrappers: exactly the bytes read, at the running position",
	"wsutil.(*CipherWriter).Write":   "C02.stream-wrappers: a pooled copy of exactly the bytes written, at the running position",
	"wsutil.(*Writer).flushFragment": "C06.writer-flushfragment-frame: the buffered payload of one frame with a fresh key, offset 0",
}

// c02CallSites is the who-may-call rule for ws.Cipher: a new site (an extra
// entry point such as an io.WriterTo fast path, a helper shared by two callers)
// applies the key at an offset no fold of this check has looked at.
func c02CallSites(c *Ctx) {
	const rule = "C02.cipher-call-sites"
	c.R.Rule(rule, 5, "ws.Cipher is applied only at the sites whose offset and key discipline a fold examines")
	target := c.fn(rule, ws, "Cipher")
	if target == nil {
		return
	}
	for _, fn := range c.P.AllModuleFuncs() {
		for _, b := range fn.Blocks {
			for _, in := range b.Instrs {
				call, ok := in.(ssa.CallInstruction)
				if !ok || call.Common().StaticCallee() != target {
					continue
				}
				name := astFuncName(fn)
				key := rule + "/" + name
				pos := c.P.Pos(call.Pos())
				why, found := "", false
				for _, o := range c.ownerChain(name) {
					if w, ok := cipherSites[o]; ok {
						why, found = w, true
						if o != name {
							why += " (site moved into helper " + name + ", whose only caller is " + o + ")"
						}
						break
					}
				}
				if !found {
					why, found = c.reviewedThroughCallers(name, cipherSites, 0, map[string]bool{})
				}
				if found {
					c.R.OK(rule, key, pos, why)
				} else {
					c.R.Fail(rule, key, pos, "ws.Cipher is applied in "+name+", a site none of the folds of this check examines: nothing establishes that the key is applied at the stream position of the bytes it is given")
				}
				c.R.Sites++
			}
		}
	}
}

// lengthThresholds returns the constants that f and the module functions it
// calls compare the length of their first (slice) parameter with.
func lengthThresholds(f *ssa.Function) []int64 {
	seen := map[*ssa.Function]bool{}
	set := map[int64]bool{}
	var visit func(fn *ssa.Function, depth int)
	visit = func(fn *ssa.Function, depth int) {
		if fn == nil || seen[fn] || fn.Blocks == nil || depth > 4 || len(fn.Params) == 0 {
			return
		}
		seen[fn] = true
		p0 := fn.Params[0]
		if _, isSlice := p0.Type().Underlying().(*types.Slice); !isSlice {
			return
		}
		var fromLen func(v ssa.Value, d int) bool
		fromLen = func(v ssa.Value, d int) bool {
			if v == nil || d > 6 {
				return false
			}
			switch x := v.(type) {
			case *ssa.Call:
				if b, ok := x.Call.Value.(*ssa.Builtin); ok && b.Name() == "len" && len(x.Call.Args) == 1 {
					a := x.Call.Args[0]
					for {
						if sl, ok := a.(*ssa.Slice); ok {
							a = sl.X
							continue
						}
						break
					}
					return a == ssa.Value(p0)
				}
			case *ssa.BinOp:
				_, cx := x.X.(*ssa.Const)
				_, cy := x.Y.(*ssa.Const)
				return cy && fromLen(x.X, d+1) || cx && fromLen(x.Y, d+1)
			case *ssa.Convert:
				return fromLen(x.X, d+1)
			case *ssa.Phi:
				for _, e := range x.Edges {
					if fromLen(e, d+1) {
						return true
					}
				}
			}
			return false
		}
		for _, b := range fn.Blocks {
			for _, in := range b.Instrs {
				switch x := in.(type) {
				case *ssa.BinOp:
					switch x.Op {
					case token.LSS, token.LEQ, token.GTR, token.GEQ, token.EQL, token.NEQ:
						if k, ok := x.Y.(*ssa.Const); ok && k.Value != nil && fromLen(x.X, 0) {
							set[k.Int64()] = true
						}
						if k, ok := x.X.(*ssa.Const); ok && k.Value != nil && fromLen(x.Y, 0) {
							set[k.Int64()] = true
						}
					}
				case ssa.CallInstruction:
					if cal := x.Common().StaticCallee(); cal != nil && load.InModule(cal) {
						visit(cal, depth+1)
					}
				}
			}
		}
	}
	visit(f, 0)
	var out []int64
	for k := range set {
		out = append(out, k)
	}
	sort.Slice(out, func(i, j int) bool { return out[i] < out[j] })
	return out
}
