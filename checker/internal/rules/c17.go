package rules

import (
	"fmt"
	"sort"
	"strings"

	"golang.org/x/tools/go/ssa"

	"verif/wscheck/internal/fold"
)

func init() {
	register(&Property{
		ID:        "C17",
		Explain:   "Aliasing, decided by def-use tables and FOLD. (1) Every call site of the unsafe byte/string views (btsToString, strToBytes) is enumerated and each use of a view is classified: comparison / switch, argument of a reviewed non-retaining callee, or return inside the view helpers themselves; a new site or a new kind of use (stored, returned, handed to an unreviewed callee) is reported - this is how a copy replaced by a view is seen. (2) The library-owned selection paths are folded with the header value as symbolic transient memory: btsSelectProtocol / strSelectProtocol return string(token) - a copy, never the token; btsSelectExtensions selects with the SelectCopy flag; matchSelectedExtensions gives each matched option parameters from Parameters.Copy into a fresh buffer and names from the dialer's own list; negotiateExtensions hands transient options only to the user's callback. readLine copies partial chunks (C11 rule). Close reasons and message payloads are copies / fresh buffers (folds of C03, C04, C08). (3) Write-side APIs documented as non-mutating: writeFrame (all WriteMessage variants), Writer.WriteThrough, CipherWriter.Write, MaskFrame, MaskFrameWith, UnmaskFrame are folded: on the client side the cipher's argument is a pooled or fresh copy, never the caller's slice; on the server side nothing is ciphered; Writer.Write only copies out of p and keeps no reference to it. NOT decided: what user-supplied callbacks return (user-owned by contract). pooled-memory-escape: nothing returned by a function points into a pooled object that the function puts back (taint from the pooled object through calls, slices, fields, cells and append to the return values). The pool pairing rule is part of this check: only objects taken from a pool may be put into it, never a caller's buffer. The copying frame helpers must copy whatever the header says (unmasked input, zero key). negotiate-result-fresh: no result of Extension.Negotiate may alias the offered option (may-alias summary); Grow is folded with a caller's array behind the buffer: it must not extend the buffer in place. helper-readmessage: with m == nil the result of ReadMessage is a concrete list; every payload in it is memory of its own (ReadAll / Buffer.Bytes of a buffer local to the call, or an allocation made while that very frame was handled) and payloads are read only while the Reader reads the connection itself. caller-slices-not-written: a slice of values a struct keeps without copying (stored from a parameter, or an exported field) is replaced or re-sliced, never written element-wise. The frame rule of C01 runs here: ReadFrame reads the payload into a fresh allocation of Header.Length bytes (no view of a buffered source). inplace-mask-call-sites: MaskFrameInPlace / MaskFrameInPlaceWith / UnmaskFrameInPlace are applied only at the six reviewed sites where the payload is a copy or a fresh buffer of the library's own; no-global-bytes-returned (with the other rules about package-level state) runs here: no exported function returns bytes that live in a package-level variable.",
		Technique: "static analysis: def-use classification of unsafe-view sites plus path-sensitive abstract interpretation with symbolic memory regions",
		Trusted:   []string{"go/ssa + go/types", "the checker's abstract evaluator", "httphead.ScanTokens/ScanOptions call back with sub-slices of their input; OptionSelector honours SelectCopy; Parameters.Copy copies (dependency source, not analysed here)"},
		Run:       runC17,
	})
}

func runC17(c *Ctx) {
	c17UnsafeViews(c)
	c17Selection(c)
	c17WriteFrame(c)
	c02Frames(c)
	c02Streams(c)
	writerMethodRules(c, "C17")
	c17WriteRetention(c)
	readLineRules(c, "C17")
	pooledEscapeRules(c, "C17")
	// only pooled objects may be put into a pool: a caller's buffer must never end up there
	c19Pools(c)
	resultAliasRules(c, "C17")
	// a buffer handed to NewWriterBuffer stays the caller's beyond its length
	writerGrowRules(c, "C17")
	// message payloads returned by the read helpers are memory of their own
	helperReadMessageRules(c, "C17")
	callerSliceRules(c, "C17")
	// the caller's configuration (Dialer.Extensions, Upgrader fields) is not written by a handshake
	configReadOnlyRules(c, "C17")
	// ReadFrame / WriteFrame / CompileFrame: the payload read is a fresh allocation of Header.Length bytes
	if c.headerLayoutOK("C01.anchor") {
		c01Frames(c)
	}
	// what the constructors return is the caller's to mask or fill in place: never the bytes of a
	// package-level variable (no-global-bytes-returned, decided together with the other rules
	// about package-level state)
	c19Globals(c)
	c17InPlaceSites(c)
}

func c17UnsafeViews(c *Ctx) {
	const rule = "C17.unsafe-view-uses"
	c.R.Rule(rule, 12, "every use of an unsafe byte/string view is a comparison or goes to a reviewed non-retaining callee")
	// callee (short name) -> why it neither retains nor mutates the view
	reviewed := map[string]string{
		"(*bufio.Writer).WriteString": "copies into the bufio buffer",
		"ws.httpWriteHeader":          "value is only handed to WriteString",
		"httphead.ScanTokens":         "scans; the callback's sub-slices are handled by the selection rules",
		"ws.btsHasToken":              "compares tokens",
		"ws.negotiateExtensions":      "transient options reach only the user's Negotiate callback (folded)",
		"ws.btsSelectExtensions":      "selects with SelectCopy (folded)",
		"ws.httpWriteResponseUpgrade": "nonce is only read to compute the accept value",
		"callback":                    "user callback: the argument is documented as valid only until it returns",
	}
	exemptFuncs := map[string]string{
		"ws.ParseCloseFrameDataUnsafe": "documented as unsafe; must have no caller inside the module",
		"ws.strHasToken":               "passes both views to btsHasToken",
	}
	views := map[string]bool{ws + ".btsToString": true, ws + ".strToBytes": true}
	n := 0
	unsafeCallers := 0
	for _, fn := range c.P.AllModuleFuncs() {
		for _, b := range fn.Blocks {
			for _, in := range b.Instrs {
				call, ok := in.(*ssa.Call)
				if !ok {
					continue
				}
				callee := call.Call.StaticCallee()
				if callee == nil {
					continue
				}
				if shortName(callee.String()) == "ws.ParseCloseFrameDataUnsafe" {
					unsafeCallers++
					c.R.Fail(rule, rule+"/caller-of-ParseCloseFrameDataUnsafe:"+shortName(fn.String()), c.P.Pos(call.Pos()), "the unsafe close parser is used inside the module: its reason string aliases the payload buffer")
				}
				if !views[callee.String()] {
					continue
				}
				n++
				fname := shortName(fn.String())
				key := fmt.Sprintf("%s/%s:%s", rule, fname, callee.Name())
				var bad []string
				var uses []string
				for _, r := range *call.Referrers() {
					switch u := r.(type) {
					case *ssa.DebugRef:
					case *ssa.BinOp:
						uses = append(uses, "compare")
					case *ssa.Call:
						cn := "callback"
						if sc := u.Call.StaticCallee(); sc != nil {
							cn = shortName(sc.String())
						} else if u.Call.IsInvoke() {
							cn = "invoke:" + u.Call.Method.Name()
						}
						if _, ok := reviewed[cn]; ok {
							uses = append(uses, cn)
						} else {
							bad = append(bad, "passed to unreviewed callee "+cn)
						}
					case *ssa.Return:
						if _, ok := exemptFuncs[fname]; ok {
							uses = append(uses, "return(exempt)")
						} else {
							bad = append(bad, "returned from "+fname)
						}
					case *ssa.Store:
						bad = append(bad, "stored to memory")
					case *ssa.Phi, *ssa.MakeInterface, *ssa.Slice, *ssa.MakeClosure:
						bad = append(bad, fmt.Sprintf("flows on through %T", u))
					default:
						bad = append(bad, fmt.Sprintf("used by %T", u))
					}
				}
				sort.Strings(uses)
				if len(bad) > 0 {
					c.R.Fail(rule, key, c.P.Pos(call.Pos()), "view of transient memory is "+strings.Join(bad, "; ")+": it outlives the buffer it points into")
				} else {
					c.R.OK(rule, key, c.P.Pos(call.Pos()), "uses: "+strings.Join(uniq(uses), ", "))
				}
			}
		}
	}
	c.R.Sites += n
}

func c17Selection(c *Ctx) {
	const rule = "C17.selection-copies"
	c.R.Rule(rule, 4, "the subprotocol / extension selection paths return copies, never sub-slices of the header value")
	scan := func(m *fold.Machine, tokens int) {
		m.Models["github.com/gobwas/httphead.ScanTokens"] = func(cl *fold.Call) fold.Val {
			mm := cl.M
			mm.Emit(fold.Effect{Kind: "call", Name: "ScanTokens", Args: cl.Args[:1]})
			for i := 0; i < tokens; i++ {
				tok := fold.SymSeq{Name: fmt.Sprintf("%s[tok%d]", fold.Show(cl.Args[0]), i), Len: fold.Int{Lo: 1, Hi: 100, Name: fmt.Sprintf("len(tok%d)", i)}, NonNil: true}
				r := mm.CallValue(cl.Args[1], []fold.Val{tok}, 1)
				if fold.Show(r) != "true" {
					break
				}
			}
			return fold.Bool(mm.Choose("wellformed", 2) == 1)
		}
	}
	isAlias := func(v fold.Val) bool {
		s := fold.Show(v)
		return strings.Contains(s, "h[tok") && !strings.HasPrefix(s, "string(") || strings.HasPrefix(s, "view(")
	}
	for _, name := range []string{"btsSelectProtocol", "strSelectProtocol"} {
		f := c.fn(rule, ws, name)
		if f == nil {
			continue
		}
		m := c.machine()
		scan(m, 2)
		m.Models["callback:check"] = func(cl *fold.Call) fold.Val {
			cl.M.Emit(fold.Effect{Kind: "call", Name: "check", Args: cl.Args})
			return fold.Bool(cl.M.Choose(fmt.Sprintf("accept#%d", cl.Seq), 2) == 1)
		}
		var problems []string
		ps := m.Explore(f, func(mm *fold.Machine) []fold.Val {
			var h fold.Val = fold.SymSeq{Name: "h", Len: fold.Range(0, 1<<20), IsStr: name == "strSelectProtocol"}
			return []fold.Val{h, fold.Sym{Name: "check", NonNil: true}}
		}, func(mm *fold.Machine, p *fold.Path) {
			ret, _ := p.Ret.(fold.Tuple)
			if len(ret) != 2 {
				return
			}
			got := fold.Show(ret[0])
			first := -1
			for i := 1; i <= 2; i++ {
				if p.Chose(fmt.Sprintf("accept#%d", i)) == 1 {
					first = i - 1
					break
				}
			}
			if isAlias(ret[0]) {
				problems = append(problems, name+" returns "+got+": a view of the header buffer, which is recycled after the handshake")
			}
			well := p.Chose("wellformed") == 1
			if first >= 0 && (well || name == "strSelectProtocol") {
				want := fmt.Sprintf("string(h[tok%d])", first)
				if got != want {
					problems = append(problems, fmt.Sprintf("%s returns %s, want a copy of the first accepted token %s", name, got, want))
				}
			}
			if fold.Show(ret[1]) != fmt.Sprint(well) {
				problems = append(problems, name+" does not report whether the header is well-formed")
			}
		})
		for _, p := range ps {
			if p.Abort != "" || p.Panic {
				problems = append(problems, "undecided: "+p.Abort+panicNote(p))
			}
		}
		c.verdict(rule, rule+"/"+name, c.P.FuncPos(f), uniq(problems), "first accepted token, copied")
	}
	// btsSelectExtensions: selector carries SelectCopy
	if f := c.fn(rule, ws, "btsSelectExtensions"); f != nil {
		m := c.machine()
		var problems []string
		selectCopy := int64(-1)
		if sp := c.P.SSA["github.com/gobwas/httphead"]; sp != nil {
			if k := sp.Const("SelectCopy"); k != nil {
				selectCopy = k.Value.Int64()
			}
		}
		m.Models["(github.com/gobwas/httphead.OptionSelector).Select"] = func(cl *fold.Call) fold.Val {
			s, _ := cl.Args[0].(fold.Struct)
			cl.M.Emit(fold.Effect{Kind: "call", Name: "Select", Args: append([]fold.Val{s}, cl.Args[1:]...)})
			return fold.Tuple{fold.SymSeq{Name: "selected-options", Len: fold.Range(0, 10)}, fold.Bool(cl.M.Choose("ok", 2) == 1)}
		}
		ps := m.Explore(f, func(mm *fold.Machine) []fold.Val {
			return []fold.Val{fold.SymSeq{Name: "h", Len: fold.Range(0, 1<<20)}, fold.SymSeq{Name: "selected", Len: fold.Range(0, 10)}, fold.Sym{Name: "check", NonNil: true}}
		}, func(mm *fold.Machine, p *fold.Path) {
			sel := p.Calls("Select")
			if len(sel) != 1 {
				problems = append(problems, "extensions are not selected by one OptionSelector.Select call")
				return
			}
			s, _ := sel[0].Args[0].(fold.Struct)
			flags := int64(0)
			for _, fv := range s.F {
				if k, ok := fv.(fold.Int); ok && k.IsConst() {
					flags |= k.Const()
				}
			}
			if selectCopy < 0 || flags&selectCopy == 0 {
				problems = append(problems, fmt.Sprintf("the option selector does not set httphead.SelectCopy (flags=%d): returned extensions alias the pooled header buffer", flags))
			}
			if fold.Show(sel[0].Args[1]) != "h" || fold.Show(sel[0].Args[2]) != "selected" {
				problems = append(problems, "Select is not applied to the header value and the accumulated list")
			}
		})
		for _, p := range ps {
			if p.Abort != "" || p.Panic {
				problems = append(problems, "undecided: "+p.Abort+panicNote(p))
			}
		}
		c.verdict(rule, rule+"/btsSelectExtensions", c.P.FuncPos(f), uniq(problems), "OptionSelector{Flags: SelectCopy}")
	}
	// matchSelectedExtensions: names from the wanted list, parameters copied
	if f := c.fn(rule, ws, "matchSelectedExtensions"); f != nil {
		m := c.machine()
		optT := c.P.NamedType("github.com/gobwas/httphead", "Option")
		var problems []string
		if optT == nil {
			c.R.Unknown(rule, rule+"/anchor:httphead.Option", "-", "type does not resolve")
			return
		}
		m.Models["github.com/gobwas/httphead.ScanOptions"] = func(cl *fold.Call) fold.Val {
			mm := cl.M
			mm.Emit(fold.Effect{Kind: "call", Name: "ScanOptions", Args: cl.Args[:1]})
			// two options in the server's list: the first with a parameter, the second without
			seq := func(n string) fold.SymSeq { return fold.SymSeq{Name: n, Len: fold.Range(1, 100), NonNil: true} }
			r := mm.CallValue(cl.Args[1], []fold.Val{fold.K(0), seq("selected[name0]"), seq("selected[attr0]"), seq("selected[val0]")}, 1)
			if fold.Show(r) == "0" || true {
				r = mm.CallValue(cl.Args[1], []fold.Val{fold.K(1), seq("selected[name1]"), fold.Nil{}, fold.Nil{}}, 1)
			}
			_ = r
			return fold.Bool(mm.Choose("wellformed", 2) == 1)
		}
		paramContent := func(mm *fold.Machine, v fold.Val) string {
			if r, ok := v.(fold.Ref); ok {
				v = mm.Load(r)
			}
			if sy, ok := v.(fold.Sym); ok && strings.HasPrefix(sy.Name, "params:") {
				return sy.Name
			}
			return "params:"
		}
		m.Models["(*github.com/gobwas/httphead.Parameters).Set"] = func(cl *fold.Call) fold.Val {
			r, _ := cl.Args[0].(fold.Ref)
			cur := paramContent(cl.M, r)
			cl.M.Store(r, fold.Sym{Name: cur + fold.Show(cl.Args[1]) + ";"})
			return fold.Bool(true)
		}
		m.Models["(*github.com/gobwas/httphead.Parameters).Size"] = func(cl *fold.Call) fold.Val {
			return fold.Int{Lo: 0, Hi: 1 << 20, Name: "params-size"}
		}
		m.Models["(*github.com/gobwas/httphead.Parameters).Copy"] = func(cl *fold.Call) fold.Val {
			cl.M.Emit(fold.Effect{Kind: "call", Name: "Parameters.Copy", Args: cl.Args})
			return fold.Tuple{fold.Sym{Name: "copy-into(" + fold.Show(cl.Args[1]) + ") of " + paramContent(cl.M, cl.Args[0])}, fold.SymSeq{Name: "rest", Len: fold.Range(0, 100)}}
		}
		m.Models["bytes.Equal"] = func(cl *fold.Call) fold.Val {
			// server option k names the k-th wanted extension
			a, b := fold.Show(cl.Args[0]), fold.Show(cl.Args[1])
			return fold.Bool(a[len(a)-2] == b[len(b)-1] || a[len(a)-1] == b[len(b)-2])
		}
		ps := m.Explore(f, func(mm *fold.Machine) []fold.Val {
			var ws []fold.Val
			for i := 0; i < 2; i++ {
				w := fold.SymOfType("want", optT).(fold.Struct)
				w.F[0] = fold.SymSeq{Name: fmt.Sprintf("wanted-name%d", i), Len: fold.Range(1, 100), NonNil: true}
				w.F[1] = fold.Sym{Name: fmt.Sprintf("wanted-params%d", i)}
				ws = append(ws, w)
			}
			wanted := fold.SliceV{O: mm.NewObj("wanted", fold.Arr{E: ws}), Len: 2, Cap: 2}
			return []fold.Val{fold.SymSeq{Name: "selected", Len: fold.Range(1, 1<<20)}, wanted, fold.Nil{}}
		}, func(mm *fold.Machine, p *fold.Path) {
			ret, _ := p.Ret.(fold.Tuple)
			if len(ret) != 2 {
				return
			}
			if p.Chose("wellformed") != 1 {
				if c.errName(ret[1]) == "nil" {
					problems = append(problems, "a malformed extensions header is accepted")
				}
				return
			}
			if c.errName(ret[1]) != "nil" {
				problems = append(problems, "two requested extensions, both returned by the server, are refused: "+c.errName(ret[1]))
				return
			}
			s, ok := ret[0].(fold.SliceV)
			if !ok || s.Len != 2 {
				problems = append(problems, "matched list is "+fold.Show(ret[0])+", want the two extensions the server returned")
				return
			}
			for i, e := range mm.Elems(s) {
				o, _ := e.(fold.Struct)
				if len(o.F) < 2 {
					continue
				}
				if fold.Show(o.F[0]) != fmt.Sprintf("wanted-name%d", i) {
					problems = append(problems, fmt.Sprintf("returned extension %d is named %s (must be the dialer's own name, in the server's order)", i, fold.Show(o.F[0])))
				}
				ps := fold.Show(o.F[1])
				wantP := "copy-into(make#" + fmt.Sprint(i+1) + ") of params:"
				if i == 0 {
					wantP += "selected[attr0];"
				}
				if ps != wantP {
					problems = append(problems, fmt.Sprintf("parameters of returned extension %d are <%s>, want <%s>: each extension gets a fresh copy of exactly its own parameters", i, ps, wantP))
				}
			}
		})
		for _, p := range ps {
			if p.Abort != "" || p.Panic {
				problems = append(problems, "undecided: "+p.Abort+panicNote(p))
			}
		}
		c.verdict(rule, rule+"/matchSelectedExtensions", c.P.FuncPos(f), uniq(problems), "two extensions: names from the wanted list; each gets a fresh copy of its own parameters only")
	}
}

func c17WriteFrame(c *Ctx) {
	const rule = "C17.writeframe-copy"
	c.R.Rule(rule, 1, "writeFrame (every WriteMessage variant): the client masks a pooled copy, the server sends the caller's slice untouched")
	f := c.fn(rule, wsutil, "writeFrame")
	if f == nil {
		return
	}
	m := c.machine()
	addWriterLeafModels(m)
	m.Models[ws+".WriteFrame"] = func(cl *fold.Call) fold.Val {
		cl.M.Emit(fold.Effect{Kind: "call", Name: "WriteFrame", Args: cl.Args})
		return errChoice(cl.M, "write.err", "write-error")
	}
	var problems []string
	ps := m.Explore(f, func(mm *fold.Machine) []fold.Val {
		st := int64(1 + mm.Choose("client", 2))
		return []fold.Val{fold.Iface{V: fold.Sym{Name: "w", NonNil: true}}, fold.K(st), fold.K(2), fold.Bool(true), fold.SymSeq{Name: "p", Len: fold.Int{Lo: 0, Hi: 1 << 30, Name: "len(p)"}}}
	}, func(mm *fold.Machine, p *fold.Path) {
		client := p.Chose("client") == 1
		wf := p.Calls("WriteFrame")
		if len(wf) != 1 {
			problems = append(problems, "writeFrame does not write exactly one frame")
			return
		}
		fr, _ := wf[0].Args[1].(fold.Struct)
		if len(fr.F) != 2 {
			return
		}
		h, _ := fr.F[0].(fold.Struct)
		cp := p.Calls("Cipher")
		for _, cc := range cp {
			if fold.Show(cc.Args[0]) == "p" || strings.HasPrefix(fold.Show(cc.Args[0]), "p[") {
				problems = append(problems, "the caller's slice is ciphered in place: WriteMessage must not mutate p")
			}
		}
		if client {
			var seq []string
			for _, e := range p.Effects {
				switch {
				case e.Kind == "copy" && isPooled(e.Args[0]) && fold.Show(e.Args[1]) == "p":
					seq = append(seq, "copy")
				case e.Kind == "call":
					seq = append(seq, e.Name)
				}
			}
			if strings.Join(seq, ",") != "pool.Get,copy,NewMask,Cipher,WriteFrame,pool.Put" {
				problems = append(problems, "client order is ["+strings.Join(seq, ",")+"], want [pool.Get,copy,NewMask,Cipher,WriteFrame,pool.Put]")
				return
			}
			if !isPooled(fr.F[1]) || !isPooled(cp[0].Args[0]) || fold.Show(h.F[3]) != "true" || fold.Show(h.F[4]) != fold.Show(cp[0].Args[1]) || intName(h.F[5]) != "len(p)" {
				problems = append(problems, "client frame is not {Masked, key used by the cipher, Length len(p), pooled masked copy}: "+fold.Show(fr.F[0]))
			}
		} else {
			if len(cp) != 0 || fold.Show(fr.F[1]) != "p" || fold.Show(h.F[3]) != "false" || intName(h.F[5]) != "len(p)" {
				problems = append(problems, "server frame must carry p unmasked: "+fold.Show(fr.F[0]))
			}
		}
		if fold.Show(h.F[0]) != "true" || fold.Show(h.F[2]) != "2" {
			problems = append(problems, "frame header does not carry the given opcode and fin")
		}
		if (p.Chose("write.err") > 0) != (c.errName(p.Ret) == "write-error") {
			problems = append(problems, "write error is lost")
		}
	})
	for _, p := range ps {
		if p.Abort != "" || p.Panic {
			problems = append(problems, "undecided: "+p.Abort+panicNote(p))
		}
	}
	c.verdict(rule, rule+"/writeFrame", c.P.FuncPos(f), uniq(problems), "client: pooled copy masked with the header's key; server: p as is")
	// the exported wrappers all end in writeFrame with the caller's slice
	const wrule = "C17.writemessage-wrappers"
	c.R.Rule(wrule, 7, "WriteMessage and its six variants only delegate (down to writeFrame) with the caller's slice")
	for _, name := range []string{"WriteMessage", "WriteServerMessage", "WriteServerText", "WriteServerBinary", "WriteClientMessage", "WriteClientText", "WriteClientBinary"} {
		f := c.fn(wrule, wsutil, name)
		if f == nil {
			continue
		}
		ok := true
		var why string
		ncalls := 0
		for _, b := range f.Blocks {
			for _, in := range b.Instrs {
				switch x := in.(type) {
				case *ssa.Call:
					ncalls++
					sc := x.Call.StaticCallee()
					if sc == nil || !(sc.Name() == "writeFrame" || strings.HasPrefix(sc.Name(), "Write")) {
						ok, why = false, "calls something other than a Write* delegate"
					}
					// the slice parameter must be passed on unchanged
					pass := false
					for _, a := range x.Call.Args {
						if a == ssa.Value(f.Params[len(f.Params)-1]) {
							pass = true
						}
					}
					if !pass {
						ok, why = false, "does not pass the caller's slice on unchanged"
					}
				case *ssa.Store, *ssa.MapUpdate:
					ok, why = false, "stores to memory"
				}
			}
		}
		if ncalls != 1 {
			ok, why = false, fmt.Sprintf("%d calls instead of one delegation", ncalls)
		}
		c.R.Check(ok, wrule, wrule+"/"+name, c.P.FuncPos(f), "pure delegation", name+" "+why)
	}
}

func c17WriteRetention(c *Ctx) {
	const rule = "C17.write-no-retention"
	c.R.Rule(rule, 1, "Writer.Write copies out of p and keeps no reference to it: reuse of p by the caller cannot change what is sent")
	L := c.writerLayout(rule)
	f := c.method(rule, wsutil, "Writer", "Write")
	if L == nil || f == nil {
		return
	}
	m := c.machine()
	addWriterMidModels(m, L)
	var obj *fold.Obj
	var problems []string
	dom := &fold.IntDom{Name: "len(p)", Lo: 0, Hi: 1 << 20}
	paths, err := m.ExploreCells(f, []*fold.IntDom{dom}, func(mm *fold.Machine, cells []fold.Int) []fold.Val {
		cfg := writerCfg{rawLen: 16, offset: 2, op: 1, n: []int{0, 4}[mm.Choose("n", 2)]}
		obj, _ = newWriterObj(mm, L, cfg)
		return []fold.Val{fold.Ref{O: obj}, fold.SymSeq{Name: "p", Len: cells[0]}}
	}, func(mm *fold.Machine, cells []fold.Int, p *fold.Path) {
		s, _ := mm.Load(fold.Ref{O: obj}).(fold.Struct)
		for i, fv := range s.F {
			if i == L.raw || i == L.buf {
				if sv, ok := fv.(fold.SymSeq); ok && (sv.Name == "p" || strings.HasPrefix(sv.Name, "p[")) {
					problems = append(problems, "the writer's buffer becomes the caller's slice")
				}
				continue
			}
			if sh := fold.Show(fv); sh == "p" || strings.HasPrefix(sh, "p[") {
				problems = append(problems, "writer field "+L.st.Field(i).Name()+" keeps a reference to the caller's slice")
			}
		}
		for _, e := range p.Effects {
			if e.Kind == "copy" {
				if d := fold.Show(e.Args[0]); d == "p" || strings.HasPrefix(d, "p[") {
					problems = append(problems, "Write copies INTO the caller's slice")
				}
			}
		}
	})
	if err != nil {
		problems = append(problems, "undecided: "+err.Error())
	}
	for _, p := range paths {
		if p.Abort != "" || p.Panic {
			problems = append(problems, "undecided: "+p.Abort+panicNote(p.Path))
		}
	}
	c.verdict(rule, rule+"/Write", c.P.FuncPos(f), uniq(problems), "p is only a copy source; no field refers to it afterwards")
}

// inPlaceSites: who applies the in-place (un)masking helpers, and why the payload they are given
// is not the caller's memory.
var inPlaceSites = map[string]string{
	"ws.MaskFrameWith":    "copies the payload into a fresh slice first (C02.frame-helpers)",
	"ws.MaskFrameInPlace": "the documented in-place API itself: delegates to MaskFrameInPlaceWith with a fresh key",
	"ws.UnmaskFrame":      "copies the payload into a fresh slice first (C02.frame-helpers)",
	"wsutil.(ControlHandler).closeWithProtocolError": "the frame is built from NewCloseFrameBody's fresh body (C08.handler-close)",
	"wsutil.(*Writer).WriteThrough":                  "the payload is a pooled copy of p (C06.writer-writethrough, C17.write-no-retention)",
	"wsutil.writeFrame":                              "the payload is a pooled copy of p (C17.writemessage-wrappers)",
}

// c17InPlaceSites is the who-may-call rule for the helpers that XOR a frame's payload where it
// lies: a new caller - a shortcut that builds a reply frame straight from a payload the
// application was given, say - scribbles on memory the library has handed out or was lent.
func c17InPlaceSites(c *Ctx) {
	const rule = "C17.inplace-mask-call-sites"
	c.R.Rule(rule, 3, "MaskFrameInPlace / MaskFrameInPlaceWith / UnmaskFrameInPlace are applied only where the payload is a copy or a fresh buffer of the library's own")
	targets := map[*ssa.Function]bool{}
	for _, n := range []string{"MaskFrameInPlace", "MaskFrameInPlaceWith", "UnmaskFrameInPlace"} {
		if f := c.fn(rule, ws, n); f != nil {
			targets[f] = true
		}
	}
	if len(targets) != 3 {
		return
	}
	for _, fn := range c.P.AllModuleFuncs() {
		for _, b := range fn.Blocks {
			for _, in := range b.Instrs {
				call, ok := in.(ssa.CallInstruction)
				if !ok || !targets[call.Common().StaticCallee()] {
					continue
				}
				name := astFuncName(fn)
				key := rule + "/" + name + "->" + call.Common().StaticCallee().Name()
				pos := c.P.Pos(call.Pos())
				why, found := "", false
				for _, o := range c.ownerChain(name) {
					if w, ok := inPlaceSites[o]; ok {
						why, found = w, true
						if o != name {
							why += " (site moved into helper " + name + ", whose only caller is " + o + ")"
						}
						break
					}
				}
				if !found {
					why, found = c.reviewedThroughCallers(name, inPlaceSites, 0, map[string]bool{})
				}
				if found {
					c.R.OK(rule, key, pos, why)
				} else {
					c.R.Fail(rule, key, pos, call.Common().StaticCallee().Name()+" is applied in "+name+", a site that was not reviewed: nothing establishes that the payload XORed in place there is a copy and not memory the caller (or an earlier ReadMessage) owns")
				}
				c.R.Sites++
			}
		}
	}
}

// reviewedThroughCallers: a site that moved into an unexported helper is covered when every
// function that can call the helper (transitively, through further such helpers) is itself a
// reviewed site of the table - a helper that two reviewed callers share, say.
func (c *Ctx) reviewedThroughCallers(name string, table map[string]string, depth int, seen map[string]bool) (string, bool) {
	if w, ok := table[name]; ok {
		return w, true
	}
	c.owners()
	if depth > 4 || seen[name] || c.notHelper[name] || len(c.callersOf[name]) == 0 {
		return "", false
	}
	seen[name] = true
	var from []string
	for caller := range c.callersOf[name] {
		if _, ok := c.reviewedThroughCallers(caller, table, depth+1, seen); !ok {
			return "", false
		}
		from = append(from, caller)
	}
	sort.Strings(from)
	return "helper reached only from reviewed sites: " + strings.Join(from, ", "), true
}
