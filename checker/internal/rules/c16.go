package rules

func init() {
	register(&Property{
		ID:      "C16",
		Explain: "Path-sensitive FOLD and CFG rules showing that no path turns a short read or a failed write into success. Reader.Read table: EOF (or a drained limited reader) with payload bytes outstanding is io.ErrUnexpectedEOF, transport errors pass through. Every other consumer of the per-frame limited reader (Discard's drain, the drain of an intermediate control frame) must report an error when the source ended with bytes outstanding (io.Copy swallows EOF). NextFrame: io.EOF between the fragments of a message is io.ErrUnexpectedEOF. Control handlers bound their reads by the announced length. Fragmenting writer: every emission is guarded by the sticky error, its result is stored in it, and every exported method of a failed writer returns that error (R-STICKY). Transport errors are never dropped (R-ERRPROP): the error result of every call that touches the transport reaches a return value or a sticky field. Both handshake decision tables are part of this check: a request or response head that is cut (EOF or transport error, also exactly at a line boundary) never completes the handshake. The control handlers are part of this check: a ping or close cut inside its payload is not answered as if it were complete. discarded-errors: every call in the three packages whose error result is not examined is a reviewed case (37 on the reference tree); a new one is reported. The sticky error survives ResetOp (C18.writer-reset); a handler that drains a payload with io.Copy from a limited reader must compare the count with the announced length. helper-nextreader: NextReader hands back the Reader itself (which turns a cut payload into io.ErrUnexpectedEOF), not a wrapper around it. Discard leaves the fragmentation state to NextFrame (a failed Discard in the middle of a message does not make the end of the stream look clean). Both header decoders (decode-table) run here: a header cut inside its extended length or mask bytes is an error. watcher-protocol (C20): the dial watcher replaces the handshake's I/O error only by the context's error, never by nil. prefetch-keeps-source: the debug dialer's sniffing reader always chains the connection behind the prefetched bytes, so a cut response reaches the handshake as the connection's own error.",
		Trusted: []string{"go/ssa + go/types", "the checker's abstract evaluator", "io.Copy returns nil when its source reports io.EOF (documented)"},
		Assume:  []string{"that a cut at every offset of every stream shape is reported is a history property; the rules show no path turns a short read into success"},
		Run: func(c *Ctx) {
			readerNextFrameRules(c, "C16")
			readerReadRules(c, "C16")
			readerDiscardRules(c, "C16")
			writerMethodRules(c, "C16")
			writerWriteRules(c, "C16")
			c01Frames(c)
			helperReadDataRules(c, "C16")
			helperReadMessageRules(c, "C16")
			helperNextReaderRules(c, "C16")
			// a request or response cut inside the head must not complete the handshake
			serverUpgraderRules(c, "C16")
			dialerUpgradeRules(c, "C16")
			// a control frame cut inside its payload must not be answered as if it were complete
			handlerRules(c, "C16")
			discardedErrorRules(c, "C16")
			// the sticky error survives the quick reset
			c18Writer(c)
			// a header cut inside its extended length / mask bytes is an error of both decoders
			c01Decoder(c, "C16.decode-table", c.fn("C16.decode-table", ws, "ReadHeader"), false)
			c01Decoder(c, "C16.decode-table", c.method("C16.decode-table", wsutil, "Reader", "readHeader"), true)
			// the dialer's context watcher may replace the handshake's I/O error only by the
			// context's error, never by nil
			c20Watcher(c)
			// a response cut inside the head reaches the handshake as the connection's own error,
			// also through the debug dialer's sniffing reader
			c20PrefetchKeepsSource(c, "C16")
		},
	})
}
