package rules

func init() {
	register(&Property{
		ID:      "C04",
		Explain: "FOLD of the message reader's pieces, each over all of its abstract inputs: Reader.NextFrame (connection bytes are consumed only by readHeader(r.Source) and the per-frame LimitedReader{Source, hdr.Length}; masked frames go through the cipher reader reset to (raw, hdr.Mask, pos 0); state table Fragmented' = !Fin, opCode' = first frame's opcode; an intermediate control frame leaves frame/opCode/utf8/State untouched), Reader.Read (decision table over frame present, fragmented, read outcome, bytes outstanding, UTF-8 validity), Reader.Discard (drain every fragment, then reset), readData (control -> handler with the Reader as source, unwanted -> Discard, wanted -> ReadAll(&rd), over scripted sequences of up to 3 frames) and ReadMessage. These are the wiring conditions every correct reassembly needs; the exactness of the concatenation over arbitrary frame sequences x chunkings x buffer sizes is a property of histories and is NOT decided here. The delivered payload is unmasked by CipherReader: the C02 stream-wrapper fold (cipher exactly the bytes the source returned, also when they arrive together with an error) is part of this check. The reader's own header decoder (decode table) and the header rules it applies (CheckHeader table) are part of this check. The control handlers (what they consume decides where the next frame is looked for) and the UTF-8 automaton (ReadMessage / ReadData validate text) are part of this check. The end-of-message reset and Discard must leave every configuration field of the Reader as it was. ReadMessage pulls payload bytes only through a Reader that still reads the connection r itself (a read-ahead layer would keep bytes of the next message); the helper-nextreader fold shows NextReader returns the very Reader that read the header, on the given source and state. nextframe-sizegate runs here as well: a frame of exactly MaxFrameSize bytes is delivered, not refused.",
		Trusted: []string{"go/ssa + go/types", "the checker's abstract evaluator", "io.LimitedReader, io.Copy, io.ReadFull, ioutil.ReadAll, bytes.Buffer.ReadFrom behave as documented (modelled as effects)"},
		Assume:  []string{"header decoding itself is C01; header validity is C03/C05"},
		Run: func(c *Ctx) {
			readerNextFrameRules(c, "C04")
			readerReadRules(c, "C04")
			readerDiscardRules(c, "C04")
			helperReadDataRules(c, "C04")
			helperReadMessageRules(c, "C04")
			helperNextReaderRules(c, "C04")
			// the payload the reader delivers is unmasked by CipherReader
			c02Streams(c)
			// the unmasking itself, for every length regime the code distinguishes
			c02Cipher(c)
			// the reader's own header decoder and the header rules it applies
			c01Decoder(c, "C04.decode-table", c.method("C04.decode-table", wsutil, "Reader", "readHeader"), true)
			c03CheckHeader(c)
			// control frames between messages are consumed by the handlers: what they leave on the
			// stream is where the next frame is looked for
			handlerRules(c, "C04")
			// ReadMessage / ReadData validate text: a wrong automaton refuses a valid message
			c07DFA(c)
			c07Read(c)
		},
	})
}
