package rules

import (
	"fmt"
	"strings"

	"verif/wscheck/internal/fold"
)

// indexModel makes bytes/strings.IndexByte-like calls return every possible
// position for the (concrete) length of their argument and records which part
// of the input they were applied to.
func indexModel(name string) fold.Model {
	return func(cl *fold.Call) fold.Val {
		mm := cl.M
		var n, lo int64
		base := "?"
		switch s := cl.Args[0].(type) {
		case fold.SliceV:
			n, lo, base = s.Len, s.Lo, s.O.Name
		case fold.SymSeq:
			if s.Len.IsConst() {
				n = s.Len.Const()
			}
			base = s.Name
		case fold.Str:
			n = int64(len(s))
		case fold.Nil:
		}
		mm.Emit(fold.Effect{Kind: "call", Name: name, Args: []fold.Val{fold.Str(base), fold.K(lo), fold.K(n), cl.Args[1]}})
		k := mm.Choose(fmt.Sprintf("%s#%d", name, cl.Seq), int(n)+1) - 1
		return fold.K(int64(k))
	}
}

func sliceDesc(v fold.Val) string {
	switch s := v.(type) {
	case fold.SliceV:
		return fmt.Sprintf("[%d:%d]", s.Lo, s.Lo+s.Len)
	case fold.Nil:
		return "nil"
	case fold.SymSeq:
		return s.Name
	}
	return fold.Show(v)
}

// parserHelperRules folds the zero-copy splitting / trimming helpers over all
// positions of their separators for every input length up to a small bound,
// with symbolic contents.
func parserHelperRules(c *Ctx, prop string) {
	rule := prop + ".parse-helpers"
	c.R.Rule(rule, 5, "bsplit3, httpParseHeaderLine, btrim, canonicalizeHeaderKey, hostport never index out of range and split exactly at the separators")
	httpVersionRules(c, rule)
	// ---- bsplit3 ----
	if f := c.fn(rule, ws, "bsplit3"); f != nil {
		var problems []string
		total := 0
		for L := 0; L <= 6; L++ {
			L := L
			m := c.machine()
			m.Models["bytes.IndexByte"] = indexModel("IndexByte")
			ps := m.Explore(f, func(mm *fold.Machine) []fold.Val {
				el := make([]fold.Val, L)
				for i := range el {
					el[i] = fold.Int{Lo: 0, Hi: 255, Name: fmt.Sprintf("c%d", i)}
				}
				var bts fold.Val = mm.NewBytes("bts", el)
				return []fold.Val{bts, fold.K(' ')}
			}, nil)
			total += len(ps)
			for _, p := range ps {
				a := p.Chose("IndexByte#1") - 1
				b := p.Chose("IndexByte#2") - 1
				desc := fmt.Sprintf("len=%d first separator at %d, second at +%d", L, a, b)
				if p.Abort != "" {
					problems = append(problems, "undecided: "+desc+": "+p.Abort)
					continue
				}
				if p.Panic {
					problems = append(problems, "bsplit3 panics ("+fold.Show(p.PanicV)+") for "+desc)
					continue
				}
				idx := p.Calls("IndexByte")
				if len(idx) >= 1 && (fold.Show(idx[0].Args[1]) != "0" || fold.Show(idx[0].Args[2]) != fmt.Sprint(L)) {
					problems = append(problems, "the first separator is not searched in the whole input")
				}
				ret, _ := p.Ret.(fold.Tuple)
				if len(ret) != 3 {
					continue
				}
				got := sliceDesc(ret[0]) + "," + sliceDesc(ret[1]) + "," + sliceDesc(ret[2])
				want := fmt.Sprintf("[0:%d],nil,nil", L)
				if a >= 0 && b >= 0 {
					if len(idx) == 2 && (fold.Show(idx[1].Args[1]) != fmt.Sprint(a+1) || fold.Show(idx[1].Args[2]) != fmt.Sprint(L-a-1)) {
						problems = append(problems, "the second separator is not searched right after the first one")
					}
					want = fmt.Sprintf("[0:%d],[%d:%d],[%d:%d]", a, a+1, a+1+b, a+2+b, L)
				}
				if got != want {
					problems = append(problems, fmt.Sprintf("%s: parts %s, want %s", desc, got, want))
				}
			}
		}
		c.R.AddCells(total)
		c.verdict(rule, rule+"/bsplit3", c.P.FuncPos(f), uniq(problems), fmt.Sprintf("%d (length, separator positions) cells", total))
	}
	// ---- httpParseHeaderLine ----
	if f := c.fn(rule, ws, "httpParseHeaderLine"); f != nil {
		var problems []string
		total := 0
		for L := 0; L <= 5; L++ {
			L := L
			m := c.machine()
			m.Models["bytes.IndexByte"] = indexModel("IndexByte")
			m.Models[ws+".btrim"] = func(cl *fold.Call) fold.Val {
				cl.M.Emit(fold.Effect{Kind: "call", Name: "btrim", Args: cl.Args})
				return cl.Args[0]
			}
			m.Models[ws+".canonicalizeHeaderKey"] = func(cl *fold.Call) fold.Val {
				cl.M.Emit(fold.Effect{Kind: "call", Name: "canonicalize", Args: cl.Args})
				return nil
			}
			ps := m.Explore(f, func(mm *fold.Machine) []fold.Val {
				el := make([]fold.Val, L)
				for i := range el {
					el[i] = fold.Int{Lo: 0, Hi: 255, Name: fmt.Sprintf("c%d", i)}
				}
				return []fold.Val{mm.NewBytes("line", el)}
			}, nil)
			total += len(ps)
			for _, p := range ps {
				colon := p.Chose("IndexByte#1") - 1
				desc := fmt.Sprintf("len=%d colon at %d", L, colon)
				if p.Abort != "" {
					problems = append(problems, "undecided: "+desc+": "+p.Abort)
					continue
				}
				if p.Panic {
					problems = append(problems, "httpParseHeaderLine panics for "+desc)
					continue
				}
				ret, _ := p.Ret.(fold.Tuple)
				if len(ret) != 3 {
					continue
				}
				got := sliceDesc(ret[0]) + "," + sliceDesc(ret[1]) + "," + fold.Show(ret[2])
				want := "nil,nil,false"
				if colon >= 0 {
					want = fmt.Sprintf("[0:%d],[%d:%d],true", colon, colon+1, L)
					cn := p.Calls("canonicalize")
					if len(cn) != 1 || sliceDesc(cn[0].Args[0]) != fmt.Sprintf("[0:%d]", colon) {
						problems = append(problems, "the header name is not canonicalised")
					}
					if len(p.Calls("btrim")) != 2 {
						problems = append(problems, "name and value are not both trimmed")
					}
					// the name is trimmed first and canonicalised afterwards: the first letter the
					// canonical form capitalises is the first letter of the trimmed name
					it, ic := -1, -1
					for i, e := range p.Effects {
						if e.Kind != "call" {
							continue
						}
						if e.Name == "btrim" && it < 0 && len(e.Args) == 1 && sliceDesc(e.Args[0]) == fmt.Sprintf("[0:%d]", colon) {
							it = i
						}
						if e.Name == "canonicalize" && ic < 0 {
							ic = i
						}
					}
					if it < 0 || ic < it {
						problems = append(problems, "the header name is canonicalised before it is trimmed: a blank in front of the name moves the letter that gets capitalised ("+desc+")")
					}
				}
				if got != want {
					problems = append(problems, fmt.Sprintf("%s: (key,value,ok) = %s, want %s", desc, got, want))
				}
			}
		}
		c.R.AddCells(total)
		c.verdict(rule, rule+"/httpParseHeaderLine", c.P.FuncPos(f), uniq(problems), fmt.Sprintf("%d cells", total))
	}
	// ---- btrim: blanks are ' ' and '\t' ----
	if f := c.fn(rule, ws, "btrim"); f != nil {
		var problems []string
		total := 0
		for L := 0; L <= 5; L++ {
			L := L
			// short inputs range over every byte some library function takes for white space (the
			// HTTP grammar knows only SP and HTAB); longer ones over {space, tab, other}
			kinds := []byte{' ', '\t', 'x'}
			if L <= 3 {
				kinds = []byte{' ', '\t', 'x', '\n', '\v', '\f', '\r', 0x85, 0xA0, 0}
			}
			m := c.machine()
			var cur []byte
			ps := m.Explore(f, func(mm *fold.Machine) []fold.Val {
				cur = make([]byte, L)
				el := make([]fold.Val, L)
				for i := range el {
					cur[i] = kinds[mm.Choose(fmt.Sprintf("b%d", i), len(kinds))]
					el[i] = fold.K(int64(cur[i]))
				}
				return []fold.Val{mm.NewBytes("bts", el)}
			}, nil)
			total += len(ps)
			for _, p := range ps {
				in := make([]byte, L)
				for i := range in {
					in[i] = kinds[p.Chose(fmt.Sprintf("b%d", i))]
				}
				if p.Abort != "" {
					problems = append(problems, fmt.Sprintf("undecided: %q: %s", in, p.Abort))
					continue
				}
				if p.Panic {
					problems = append(problems, fmt.Sprintf("btrim panics on %q", in))
					continue
				}
				i, j := 0, L
				for i < L && (in[i] == ' ' || in[i] == '\t') {
					i++
				}
				for j > i && (in[j-1] == ' ' || in[j-1] == '\t') {
					j--
				}
				want := fmt.Sprintf("[%d:%d]", i, j)
				if got := sliceDesc(p.Ret); got != want {
					problems = append(problems, fmt.Sprintf("btrim(%q) = %s, want %s", in, got, want))
				}
			}
		}
		c.R.AddCells(total)
		c.verdict(rule, rule+"/btrim", c.P.FuncPos(f), uniq(problems), fmt.Sprintf("%d inputs: every white-space-like byte for lengths 0..3, {space, tab, other} for 4..5", total))
	}
	// ---- canonicalizeHeaderKey on the handshake header names in three spellings ----
	if f := c.fn(rule, ws, "canonicalizeHeaderKey"); f != nil {
		var problems []string
		names := []string{"Host", "Upgrade", "Connection", "Sec-WebSocket-Version", "Sec-WebSocket-Key", "Sec-WebSocket-Protocol", "Sec-WebSocket-Extensions", "Sec-WebSocket-Accept", "x-custom--hdr-", "-a"}
		ref := func(s string) string {
			b := []byte(s)
			up := true
			for i, ch := range b {
				if up && 'a' <= ch && ch <= 'z' {
					b[i] = ch - 32
				} else if !up && 'A' <= ch && ch <= 'Z' {
					b[i] = ch + 32
				}
				up = ch == '-'
			}
			return string(b)
		}
		n := 0
		for _, nm := range names {
			for _, sp := range []string{nm, strings.ToLower(nm), strings.ToUpper(nm)} {
				sp := sp
				m := c.machine()
				var buf fold.SliceV
				ps := m.Explore(f, func(mm *fold.Machine) []fold.Val {
					buf = constBytesVal(mm, sp)
					return []fold.Val{buf}
				}, func(mm *fold.Machine, p *fold.Path) {
					got := strings.Trim(bytesStr(mm, buf), `"`)
					if got != ref(sp) {
						problems = append(problems, fmt.Sprintf("canonicalizeHeaderKey(%q) = %q, want %q", sp, got, ref(sp)))
					}
				})
				n++
				for _, p := range ps {
					if p.Abort != "" || p.Panic {
						problems = append(problems, "undecided: "+sp+": "+p.Abort+panicNote(p))
					}
				}
			}
		}
		// and the canonical forms are the ones the upgrade loops switch on
		for k, want := range map[string]string{"headerHostCanonical": "Host", "headerUpgradeCanonical": "Upgrade", "headerConnectionCanonical": "Connection",
			"headerSecVersionCanonical": "Sec-Websocket-Version", "headerSecKeyCanonical": "Sec-Websocket-Key", "headerSecProtocolCanonical": "Sec-Websocket-Protocol",
			"headerSecExtensionsCanonical": "Sec-Websocket-Extensions", "headerSecAcceptCanonical": "Sec-Websocket-Accept"} {
			sp := c.P.SSA[ws]
			kc := sp.Const(k)
			if kc == nil || kc.Value == nil {
				problems = append(problems, "undecided: constant "+k+" does not resolve")
				continue
			}
			got := strings.Trim(kc.Value.Value.ExactString(), `"`)
			if got != want || ref(got) != got {
				problems = append(problems, fmt.Sprintf("%s = %q is not the canonical form %q the parser produces: the header would never be recognised", k, got, want))
			}
		}
		c.R.AddCells(n)
		c.verdict(rule, rule+"/canonicalizeHeaderKey", c.P.FuncPos(f), uniq(problems), fmt.Sprintf("%d spellings fold to the canonical names the handshake switches on", n))
	}
	// ---- hostport ----
	if f := c.fn(rule, ws, "hostport"); f != nil {
		var problems []string
		total := 0
		for L := 0; L <= 5; L++ {
			L := L
			m := c.machine()
			m.Models["strings.LastIndexByte"] = indexModel("LastIndexByte")
			m.Models["strings.IndexByte"] = indexModel("IndexByte")
			ps := m.Explore(f, func(mm *fold.Machine) []fold.Val {
				return []fold.Val{fold.SymSeq{Name: "host", Len: fold.K(int64(L)), IsStr: true}, fold.SymSeq{Name: "defaultPort", Len: fold.Range(1, 6), IsStr: true}}
			}, nil)
			total += len(ps)
			for _, p := range ps {
				colon := p.Chose("LastIndexByte#1") - 1
				bracket := p.Chose("IndexByte#1") - 1
				desc := fmt.Sprintf("len=%d last ':' at %d, ']' at %d", L, colon, bracket)
				if p.Abort != "" {
					problems = append(problems, "undecided: "+desc+": "+p.Abort)
					continue
				}
				if p.Panic {
					problems = append(problems, "hostport panics for "+desc)
					continue
				}
				ret, _ := p.Ret.(fold.Tuple)
				if len(ret) != 2 {
					continue
				}
				got := fold.Show(ret[0]) + " | " + fold.Show(ret[1])
				want := "host | (host+defaultPort)"
				if colon > bracket {
					want = fmt.Sprintf("host[:%d] | host", colon)
				}
				if got != want {
					problems = append(problems, fmt.Sprintf("%s: (hostname, addr) = %s, want %s", desc, got, want))
				}
			}
		}
		c.R.AddCells(total)
		c.verdict(rule, rule+"/hostport", c.P.FuncPos(f), uniq(problems), fmt.Sprintf("%d cells: a port after the last ']' is kept, otherwise the default is appended", total))
	}
}

// concreteBytes returns the bytes of a slice whose elements are all constants.
func concreteBytes(mm *fold.Machine, v fold.Val) ([]byte, bool) {
	switch s := v.(type) {
	case fold.SliceV:
		el := mm.Elems(s)
		out := make([]byte, len(el))
		for i, e := range el {
			k, ok := e.(fold.Int)
			if !ok || !k.IsConst() {
				return nil, false
			}
			out[i] = byte(k.Const())
		}
		return out, true
	case fold.Nil:
		return nil, true
	case fold.Str:
		return []byte(s), true
	}
	return nil, false
}

// httpVersionRules evaluates httpParseVersion on concrete version tokens and
// compares it with the grammar "HTTP/" 1*DIGIT "." 1*DIGIT (at least 8 bytes):
// nothing but decimal digits may be taken for a number - no signs, no bytes
// that merely share bits with the digits.
func httpVersionRules(c *Ctx, rule string) {
	f := c.fn(rule, ws, "httpParseVersion")
	if f == nil {
		return
	}
	var inputs []string
	nums := []string{"", "0", "1", "2", "9", "01", "10", "11", "A", "x", ":", "/", "+1", "-1", " 1", "1 ", "1a", "\x001"}
	for _, pre := range []string{"HTTP/", "HTTQ/", "http/", "HTTP"} {
		for _, sep := range []string{".", ",", ""} {
			for _, a := range nums {
				for _, b := range nums {
					if pre != "HTTP/" && !(a == "1" && (b == "1" || b == "0")) {
						continue
					}
					inputs = append(inputs, pre+a+sep+b)
				}
			}
		}
	}
	inputs = append(inputs, "", "HTTP/1.1.1", "HTTP/1.1 ", " HTTP/1.1", "HTTP/1..1", "HTTP/99999999999999999999.1", "HTTP/1.99999999999999999999")
	isNum := func(s string) (int, bool) {
		if s == "" || len(s) > 18 {
			return 0, false
		}
		n := 0
		for i := 0; i < len(s); i++ {
			if s[i] < '0' || s[i] > '9' {
				return 0, false
			}
			n = n*10 + int(s[i]-'0')
		}
		return n, true
	}
	var problems []string
	results := make([][]string, len(inputs))
	parallel(len(inputs), func(i int) {
		in := inputs[i]
		m := c.machine()
		m.Models["fmt.Errorf"] = func(cl *fold.Call) fold.Val { return fold.Sym{Name: "not-a-number", NonNil: true} }
		m.Models["bytes.Equal"] = func(cl *fold.Call) fold.Val {
			a, ok1 := concreteBytes(cl.M, cl.Args[0])
			b, ok2 := concreteBytes(cl.M, cl.Args[1])
			if !ok1 || !ok2 {
				return fold.Bool(cl.M.Atom(fmt.Sprintf("Equal#%d", cl.Seq)))
			}
			return fold.Bool(string(a) == string(b))
		}
		m.Models["bytes.IndexByte"] = func(cl *fold.Call) fold.Val {
			a, ok := concreteBytes(cl.M, cl.Args[0])
			ch, _ := cl.Args[1].(fold.Int)
			if !ok || !ch.IsConst() {
				return fold.Int{Lo: -1, Hi: 1 << 20}
			}
			return fold.K(int64(strings.IndexByte(string(a), byte(ch.Const()))))
		}
		ps := m.Explore(f, func(mm *fold.Machine) []fold.Val {
			el := make([]fold.Val, len(in))
			for j := range el {
				el[j] = fold.K(int64(in[j]))
			}
			return []fold.Val{mm.NewBytes("version", el)}
		}, nil)
		var out []string
		if len(ps) != 1 {
			out = append(out, fmt.Sprintf("undecided: %d paths for the concrete token %q", len(ps), in))
		}
		for _, p := range ps {
			if p.Abort != "" {
				out = append(out, fmt.Sprintf("undecided: %q: %s", in, p.Abort))
				continue
			}
			if p.Panic {
				out = append(out, fmt.Sprintf("httpParseVersion(%q) panics: %s", in, fold.Show(p.PanicV)))
				continue
			}
			ret, _ := p.Ret.(fold.Tuple)
			if len(ret) != 3 {
				out = append(out, "unexpected result shape")
				continue
			}
			wantOK := false
			var wa, wb int
			if len(in) >= 8 && strings.HasPrefix(in, "HTTP/") {
				rest := in[5:]
				if dot := strings.IndexByte(rest, '.'); dot >= 0 {
					a, oka := isNum(rest[:dot])
					b, okb := isNum(rest[dot+1:])
					if oka && okb {
						wantOK, wa, wb = true, a, b
					}
				}
			}
			got := fold.Show(ret[2])
			if got != fmt.Sprint(wantOK) {
				out = append(out, fmt.Sprintf("httpParseVersion(%q) ok=%s, the grammar says %v", in, got, wantOK))
				continue
			}
			if wantOK && (fold.Show(ret[0]) != fmt.Sprint(wa) || fold.Show(ret[1]) != fmt.Sprint(wb)) {
				out = append(out, fmt.Sprintf("httpParseVersion(%q) = %s.%s, want %d.%d", in, fold.Show(ret[0]), fold.Show(ret[1]), wa, wb))
			}
		}
		results[i] = out
	})
	for _, r := range results {
		problems = append(problems, r...)
	}
	c.R.AddCells(len(inputs))
	c.verdict(rule, rule+"/httpParseVersion", c.P.FuncPos(f), uniq(problems), fmt.Sprintf("%d concrete version tokens agree with \"HTTP/\" 1*DIGIT \".\" 1*DIGIT", len(inputs)))
}
