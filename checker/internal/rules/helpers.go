package rules

import (
	"fmt"
	"strings"

	"verif/wscheck/internal/fold"
)

// helperReadDataRules folds wsutil.readData: routing of control frames,
// discarding of unwanted messages, reading of the wanted one through the
// Reader itself.
func helperReadDataRules(c *Ctx, prop string) {
	rule := prop + ".helper-readdata"
	c.R.Rule(rule, 1, "readData: control frames go to the control handler with the Reader as source, unwanted data messages are Discard()ed, the wanted message is read with ReadAll(&rd) and returned with the first frame's opcode; every error is returned")
	L := c.readerLayout(rule)
	f := c.fn(rule, wsutil, "readData")
	if L == nil || f == nil {
		return
	}
	m := c.machine()
	var cfgProblems []string
	type ev struct{ kind string }
	m.Models["(*"+wsutil+".Reader).NextFrame"] = func(cl *fold.Call) fold.Val {
		mm := cl.M
		r, _ := cl.Args[0].(fold.Ref)
		if cl.Seq == 1 {
			ld := func(i int) string { return fold.Show(mm.Load(fold.Ref{O: r.O, Path: []int{i}})) }
			if ld(L.source) != "rw" {
				cfgProblems = append(cfgProblems, "Reader.Source is "+ld(L.source)+", not rw")
			}
			if ld(L.state) != "s[0..255]" && ld(L.state) != "s" {
				cfgProblems = append(cfgProblems, "Reader.State is "+ld(L.state)+", not s")
			}
			if ld(L.checkUTF8) != "true" {
				cfgProblems = append(cfgProblems, "Reader.CheckUTF8 is not enabled")
			}
			if ld(L.skip) != "false" {
				cfgProblems = append(cfgProblems, "Reader.SkipHeaderCheck is enabled")
			}
			if !strings.HasPrefix(ld(L.onInter), "func:") {
				cfgProblems = append(cfgProblems, "Reader.OnIntermediate is not the control handler: "+ld(L.onInter))
			}
			cfgProblems = append(cfgProblems, readerPristine(mm, r.O, L, "readData")...)
		}
		mm.Emit(fold.Effect{Kind: "call", Name: "NextFrame", Args: cl.Args})
		opts := 4
		if cl.Seq >= 3 {
			opts = 2
		}
		k := mm.Choose(fmt.Sprintf("nf%d", cl.Seq), opts) // 0 err, 1 wanted, 2 control, 3 unwanted
		want, _ := mm.ChoiceOf("want")
		wantedOp, otherOp := int64(1), int64(2)
		if want == 1 {
			wantedOp, otherOp = 2, 1
		}
		switch k {
		case 0:
			return fold.Tuple{headerVal(true, 0, 0, false, nil, fold.K(0)), fold.Sym{Name: "nf-error", NonNil: true}}
		case 1:
			return fold.Tuple{headerVal(true, 0, wantedOp, false, nil, fold.Int{Lo: 0, Hi: fold.MaxInt64, Name: "Length"}), fold.Nil{}}
		case 2:
			return fold.Tuple{headerVal(true, 0, 9, false, nil, fold.Int{Lo: 0, Hi: 125, Name: "CLength"}), fold.Nil{}}
		}
		if want == 2 { // both wanted: nothing is unwanted
			return fold.Tuple{headerVal(true, 0, otherOp, false, nil, fold.Int{Lo: 0, Hi: fold.MaxInt64, Name: "Length"}), fold.Nil{}}
		}
		return fold.Tuple{headerVal(true, 0, otherOp, false, nil, fold.Int{Lo: 0, Hi: fold.MaxInt64, Name: "ULength"}), fold.Nil{}}
	}
	m.Models["("+wsutil+".ControlHandler).Handle"] = func(cl *fold.Call) fold.Val {
		cl.M.Emit(fold.Effect{Kind: "call", Name: "Handle", Args: cl.Args})
		return errChoice(cl.M, fmt.Sprintf("handle%d.err", cl.Seq), "handle-error")
	}
	m.Models["(*"+wsutil+".Reader).Discard"] = func(cl *fold.Call) fold.Val {
		cl.M.Emit(fold.Effect{Kind: "call", Name: "Discard", Args: cl.Args})
		return errChoice(cl.M, fmt.Sprintf("discard%d.err", cl.Seq), "discard-error")
	}
	readAll := func(cl *fold.Call) fold.Val {
		cl.M.Emit(fold.Effect{Kind: "call", Name: "ReadAll", Args: cl.Args})
		return fold.Tuple{fold.SymSeq{Name: "bts", Len: fold.Int{Lo: 0, Hi: fold.MaxInt64}}, errChoice(cl.M, "readall.err", "readall-error")}
	}
	m.Models["io/ioutil.ReadAll"] = readAll
	m.Models["io.ReadAll"] = readAll
	paths := m.Explore(f, func(mm *fold.Machine) []fold.Val {
		w := mm.Choose("want", 3) // 0: text, 1: binary, 2: both
		return []fold.Val{fold.Sym{Name: "rw", NonNil: true}, fold.Int{Lo: 0, Hi: 255, Name: "s"}, fold.K([]int64{1, 2, 3}[w])}
	}, nil)
	c.R.AddCells(len(paths))
	c.R.Paths += len(paths)
	var problems []string
	problems = append(problems, cfgProblems...)
	isRd := func(v fold.Val) bool {
		o, ok := isObjRef(v)
		return ok && strings.HasPrefix(o.Name, "rd#")
	}
	for _, p := range paths {
		if p.Abort != "" || p.Panic {
			problems = append(problems, "undecided: "+p.Abort+panicNote(p))
			continue
		}
		ret, _ := p.Ret.(fold.Tuple)
		if len(ret) != 3 {
			problems = append(problems, "unexpected result shape")
			continue
		}
		e := c.errName(ret[2])
		want := p.Chose("want")
		// walk the script
		var trace []string
		for _, ef := range p.Effects {
			if ef.Kind == "call" {
				trace = append(trace, ef.Name)
			}
		}
		var expect []string
		wantErr := ""
		done := false
		hi, di := 0, 0
		for seq := 1; !done; seq++ {
			k := p.Chose(fmt.Sprintf("nf%d", seq))
			if k < 0 {
				problems = append(problems, fmt.Sprintf("readData stops after %d frames without a result [%s]", seq-1, strings.Join(trace, ",")))
				break
			}
			if seq >= 3 {
				// options were {err, wanted}
			}
			expect = append(expect, "NextFrame")
			switch {
			case k == 0:
				wantErr, done = "nf-error", true
			case k == 1 || (k == 3 && want == 2):
				expect = append(expect, "ReadAll")
				if p.Chose("readall.err") > 0 {
					wantErr = "readall-error"
				} else {
					wantErr = "nil"
				}
				done = true
			case k == 2:
				hi++
				expect = append(expect, "Handle")
				if p.Chose(fmt.Sprintf("handle%d.err", hi)) > 0 {
					wantErr, done = "handle-error", true
				}
			case k == 3:
				di++
				expect = append(expect, "Discard")
				if p.Chose(fmt.Sprintf("discard%d.err", di)) > 0 {
					wantErr, done = "discard-error", true
				}
			}
		}
		if strings.Join(trace, ",") != strings.Join(expect, ",") {
			problems = append(problems, fmt.Sprintf("want=%d: calls [%s], reference [%s]", want, strings.Join(trace, ","), strings.Join(expect, ",")))
			continue
		}
		if e != wantErr {
			problems = append(problems, fmt.Sprintf("returns error %s, want %s after [%s]", e, wantErr, strings.Join(trace, ",")))
		}
		for _, h := range p.Calls("Handle") {
			rc, _ := h.Args[0].(fold.Struct)
			okSrc := false
			for _, fv := range rc.F {
				if isRd(fv) {
					okSrc = true
				}
			}
			if !okSrc {
				problems = append(problems, "control handler does not read the control payload from the Reader: "+fold.Show(h.Args[0]))
			}
			hh, _ := h.Args[1].(fold.Struct)
			if len(hh.F) != 6 || intName(hh.F[5]) != "CLength" {
				problems = append(problems, "control handler is not given the control frame's header")
			}
		}
		for _, r := range p.Calls("ReadAll") {
			if !isRd(r.Args[0]) {
				problems = append(problems, "message is read from "+fold.Show(r.Args[0])+" instead of the Reader itself (bypasses end-of-frame logic)")
			}
		}
		if len(p.Calls("ReadAll")) == 1 {
			wantOp := "1"
			if want == 1 {
				wantOp = "2"
			}
			if fold.Show(ret[0]) != "bts" {
				problems = append(problems, "result is not the bytes read: "+fold.Show(ret[0]))
			}
			if want != 2 && fold.Show(ret[1]) != wantOp {
				problems = append(problems, "returned opcode "+fold.Show(ret[1])+" is not the message's opcode "+wantOp)
			}
		}
	}
	c.verdict(rule, rule+"/readData", c.P.FuncPos(f), uniq(problems), fmt.Sprintf("%d paths over scripted frame sequences (control / unwanted / wanted, up to 3 frames)", len(paths)))
}

// helperReadMessageRules folds wsutil.ReadMessage.
func helperReadMessageRules(c *Ctx, prop string) {
	rule := prop + ".helper-readmessage"
	c.R.Rule(rule, 1, "ReadMessage: intermediate control frames are appended inside OnIntermediate, the data message last with the first frame's opcode; payload read through the Reader itself; errors returned")
	L := c.readerLayout(rule)
	f := c.fn(rule, wsutil, "ReadMessage")
	if L == nil || f == nil {
		return
	}
	m := c.machine()
	m.OpaqueOK = true
	var cfgProblems []string
	markSeq := 0 // objects created after this one were allocated inside the OnIntermediate callback
	markMake := 0
	m.Models["(*"+wsutil+".Reader).NextFrame"] = func(cl *fold.Call) fold.Val {
		mm := cl.M
		r, _ := cl.Args[0].(fold.Ref)
		ld := func(i int) fold.Val { return mm.Load(fold.Ref{O: r.O, Path: []int{i}}) }
		if fold.Show(ld(L.source)) != "r" {
			cfgProblems = append(cfgProblems, "Reader.Source is "+fold.Show(ld(L.source))+", not r")
		}
		if fold.Show(ld(L.checkUTF8)) != "true" {
			cfgProblems = append(cfgProblems, "Reader.CheckUTF8 is not enabled")
		}
		if fold.Show(ld(L.skip)) != "false" {
			cfgProblems = append(cfgProblems, "Reader.SkipHeaderCheck is enabled")
		}
		mm.Emit(fold.Effect{Kind: "call", Name: "NextFrame", Args: cl.Args})
		// an intermediate control frame may be delivered while reading: run the callback once
		if mm.Choose("intermediate", 2) == 1 {
			cb := ld(L.onInter)
			if _, ok := cb.(fold.Closure); !ok {
				cfgProblems = append(cfgProblems, "Reader.OnIntermediate is not set")
			} else {
				ph := headerVal(true, 0, 9, false, nil, fold.Int{Lo: 0, Hi: 125, Name: "CLength"})
				markSeq = objSeq(mm.NewObj("mark", fold.Nil{}))
				markMake = mm.Seq("make")
				e := mm.CallValue(cb, []fold.Val{ph, fold.Sym{Name: "ctl-src", NonNil: true}}, 1)
				if c.errName(e) != "nil" {
					return fold.Tuple{ph, e}
				}
			}
		}
		k := mm.Choose("nf", 3) // 0 err, 1 final, 2 fragmented
		h := headerVal(k == 1, 0, 1, false, nil, fold.Int{Lo: 0, Hi: fold.MaxInt64, Name: "Length"})
		if k == 0 {
			return fold.Tuple{h, fold.Sym{Name: "nf-error", NonNil: true}}
		}
		return fold.Tuple{h, fold.Nil{}}
	}
	// whenever the payload is pulled through the Reader, the Reader still reads the connection
	// itself: a layer in between that reads ahead keeps bytes of the next message when it is dropped
	stillOnSource := func(mm *fold.Machine, v fold.Val) {
		if o, ok := isObjRefAny(v); ok {
			if st, ok := mm.Load(fold.Ref{O: o}).(fold.Struct); ok && len(st.F) > L.source {
				if got := fold.Show(st.F[L.source]); got != "r" {
					cfgProblems = append(cfgProblems, "the payload is read while Reader.Source is "+got+", not the connection r: what that layer read ahead is lost with it")
				}
			}
		}
	}
	readAll := func(cl *fold.Call) fold.Val {
		cl.M.Emit(fold.Effect{Kind: "call", Name: "ReadAll", Args: cl.Args})
		return fold.Tuple{fold.SymSeq{Name: "ctl-bts", Len: fold.Int{Lo: 0, Hi: fold.MaxInt64}}, errChoice(cl.M, "readall.err", "readall-error")}
	}
	m.Models["io/ioutil.ReadAll"] = readAll
	m.Models["io.ReadAll"] = readAll
	m.Models["io.ReadFull"] = func(cl *fold.Call) fold.Val {
		if fold.Show(cl.Args[0]) == "ctl-src" {
			// the payload of an intermediate control frame read into a buffer of the callback's own
			cl.M.Emit(fold.Effect{Kind: "call", Name: "CtlReadFull", Args: cl.Args})
			return fold.Tuple{fold.Int{Lo: 0, Hi: 125}, errChoice(cl.M, "readall.err", "readall-error")}
		}
		cl.M.Emit(fold.Effect{Kind: "call", Name: "ReadFull", Args: cl.Args})
		stillOnSource(cl.M, cl.Args[0])
		return fold.Tuple{fold.Int{Lo: 0, Hi: fold.MaxInt64}, errChoice(cl.M, "readfull.err", "readfull-error")}
	}
	m.Models["(*bytes.Buffer).ReadFrom"] = func(cl *fold.Call) fold.Val {
		cl.M.Emit(fold.Effect{Kind: "call", Name: "Buffer.ReadFrom", Args: cl.Args})
		stillOnSource(cl.M, cl.Args[1])
		return fold.Tuple{fold.Int{Lo: 0, Hi: fold.MaxInt64}, errChoice(cl.M, "readfrom.err", "readfrom-error")}
	}
	m.Models["(*bytes.Buffer).Bytes"] = func(cl *fold.Call) fold.Val {
		cl.M.Emit(fold.Effect{Kind: "call", Name: "Buffer.Bytes", Args: cl.Args})
		return fold.SymSeq{Name: "buf-bytes", Len: fold.Int{Lo: 0, Hi: fold.MaxInt64}}
	}
	paths := m.Explore(f, func(mm *fold.Machine) []fold.Val {
		return []fold.Val{fold.Sym{Name: "r", NonNil: true}, fold.Int{Lo: 0, Hi: 255, Name: "s"}, fold.SymSeq{Name: "m", Len: fold.Int{Lo: 0, Hi: 1 << 30, Name: "len(m)"}}}
	}, nil)
	c.R.AddCells(len(paths))
	c.R.Paths += len(paths)
	problems := append([]string{}, cfgProblems...)
	// identity of what is returned: with m == nil the result is a concrete list of messages, and
	// every payload in it must be memory of its own - the result of ReadAll / Buffer.Bytes of a
	// buffer local to the call, or an allocation made while that very frame was handled
	if mn := c.P.NamedType(wsutil, "Message"); mn != nil {
		iPayload := fieldIdx(structOf(mn), "Payload", typeIs("[]byte"))
		idPaths := m.Explore(f, func(mm *fold.Machine) []fold.Val {
			markSeq = 0
			return []fold.Val{fold.Sym{Name: "r", NonNil: true}, fold.Int{Lo: 0, Hi: 255, Name: "s"}, fold.Nil{}}
		}, func(mm *fold.Machine, p *fold.Path) {
			ret, _ := p.Ret.(fold.Tuple)
			if len(ret) != 2 || c.errName(ret[1]) != "nil" || iPayload < 0 {
				return
			}
			sl, ok := ret[0].(fold.SliceV)
			if !ok {
				return
			}
			inter := p.Chose("intermediate") == 1
			for i, el := range mm.Elems(sl) {
				st, ok := el.(fold.Struct)
				if !ok || len(st.F) <= iPayload {
					continue
				}
				switch pl := st.F[iPayload].(type) {
				case fold.SliceV:
					if inter && i == 0 && objSeq(pl.O) < markSeq {
						problems = append(problems, "the payload of an intermediate control frame is returned in "+pl.O.Name+", memory that was allocated before the frame arrived: every control frame of the call shares it, so an earlier message changes when a later one is read")
					}
				case fold.SymSeq:
					var k int
					if _, err := fmt.Sscanf(pl.Name, "make#%d", &k); err == nil {
						if inter && i == 0 && k <= markMake {
							problems = append(problems, "the payload of an intermediate control frame is returned in "+pl.Name+", memory that was allocated before the frame arrived: every control frame of the call shares it")
						}
					} else if pl.Name != "ctl-bts" && pl.Name != "buf-bytes" {
						problems = append(problems, "a returned payload is "+pl.Name+", not memory of its own")
					}
				}
			}
		})
		for _, p := range idPaths {
			if p.Abort != "" || p.Panic {
				problems = append(problems, "undecided: "+p.Abort+panicNote(p))
			}
		}
		c.R.AddCells(len(idPaths))
	}
	for _, p := range paths {
		if p.Abort != "" || p.Panic {
			problems = append(problems, "undecided: "+p.Abort+panicNote(p))
			continue
		}
		ret, _ := p.Ret.(fold.Tuple)
		if len(ret) != 2 {
			problems = append(problems, "unexpected result shape")
			continue
		}
		e := c.errName(ret[1])
		res := fold.Show(ret[0])
		inter := p.Chose("intermediate") == 1
		if inter {
			ra := p.Calls("ReadAll")
			if !(len(ra) == 1 && fold.Show(ra[0].Args[0]) == "ctl-src" && len(p.Calls("CtlReadFull")) == 0) && !(len(ra) == 0 && len(p.Calls("CtlReadFull")) == 1) {
				problems = append(problems, "intermediate control payload is not read (once, to its end) from the reader handed to OnIntermediate")
				continue
			}
			if p.Chose("readall.err") > 0 {
				if e != "readall-error" {
					problems = append(problems, "error while reading an intermediate control frame is lost: "+e)
				}
				continue
			}
		}
		k := p.Chose("nf")
		prefix := "m"
		if inter {
			prefix = "append(m,"
		}
		switch k {
		case 0:
			if e != "nf-error" {
				problems = append(problems, "NextFrame error is not returned: "+e)
			}
			continue
		case 1:
			rf := p.Calls("ReadFull")
			var allocs []fold.Effect
			for _, ef := range p.Effects {
				if ef.Kind == "alloc" {
					allocs = append(allocs, ef)
				}
			}
			if len(rf) != 1 || !isRdRef(rf[0].Args[0]) {
				problems = append(problems, "single-frame payload is not read with io.ReadFull(&rd, p)")
				continue
			}
			// the buffer it is read into is the k-th allocation of the path, and that one has Header.Length bytes
			var k int
			if _, err := fmt.Sscanf(fold.Show(rf[0].Args[1]), "make#%d", &k); err != nil || k < 1 || k > len(allocs) {
				problems = append(problems, "single-frame payload is read into "+fold.Show(rf[0].Args[1])+", not into a buffer allocated for it")
				continue
			}
			if size := intName(allocs[k-1].Args[0]); !(size == "Length" || fold.IntSize == 32 && strings.Contains(size, "Length")) {
				problems = append(problems, "single-frame message is not read into a buffer of Header.Length bytes (but "+size+")")
				continue
			}
			if p.Chose("readfull.err") > 0 {
				if e != "readfull-error" {
					problems = append(problems, "payload read error is lost: "+e)
				}
				continue
			}
		case 2:
			rf := p.Calls("Buffer.ReadFrom")
			if len(rf) != 1 || !isRdRef(rf[0].Args[1]) {
				problems = append(problems, "fragmented payload is not read from the Reader itself")
				continue
			}
			if p.Chose("readfrom.err") > 0 {
				if e != "readfrom-error" {
					problems = append(problems, "payload read error is lost: "+e)
				}
				continue
			}
		}
		if e != "nil" {
			problems = append(problems, "successful read returns "+e)
		}
		if !strings.HasPrefix(res, "append("+prefix) {
			problems = append(problems, "result is not m with the intermediate frames and then the message appended: "+res)
		}
	}
	c.verdict(rule, rule+"/ReadMessage", c.P.FuncPos(f), uniq(problems), fmt.Sprintf("%d paths", len(paths)))
}

// isRdRef reports whether v is a pointer to the local Reader named rd.
func isRdRef(v fold.Val) bool {
	o, ok := isObjRef(v)
	return ok && strings.HasPrefix(o.Name, "rd#")
}

// readerPristine checks that a Reader a helper is about to use for a new
// message carries nothing over from an earlier one: no frame, no payload left,
// no message opcode, a UTF-8 reader in its initial state, no size limit the
// helper did not set. A reused (pooled) reader must be indistinguishable from
// a new one.
func readerPristine(mm *fold.Machine, o *fold.Obj, L *readerLayout, who string) []string {
	var out []string
	ld := func(path ...int) string { return fold.Show(mm.Load(fold.Ref{O: o, Path: path})) }
	check := func(what, got, want string) {
		if got != want {
			out = append(out, fmt.Sprintf("%s starts a message with a Reader whose %s is %s instead of %s: state of an earlier message (or of another connection, if readers are pooled) leaks into this one", who, what, got, want))
		}
	}
	check("frame", ld(L.frame), "nil")
	check("raw.N", ld(L.raw, 1), "0")
	check("message opcode", ld(L.opCode), "0")
	check("UTF-8 state", ld(uPath(L.utf8, L.utf8StateP)...), "0")
	check("UTF-8 code point", ld(uPath(L.utf8, L.utf8CodepP)...), "0")
	check("UTF-8 accepted count", ld(uPath(L.utf8, L.utf8AcceptedP)...), "0")
	check("MaxFrameSize", ld(L.maxFrame), "0")
	check("OnContinuation", ld(L.onCont), "nil")
	return out
}

// helperNextReaderRules folds wsutil.NextReader: the Reader it creates reads
// from exactly the source it was given (nothing in between that could read
// ahead and keep bytes of the next frame) with the given state.
func helperNextReaderRules(c *Ctx, prop string) {
	rule := prop + ".helper-nextreader"
	c.R.Rule(rule, 1, "NextReader reads the header through a new Reader on exactly the given source and state and returns that Reader")
	L := c.readerLayout(rule)
	f := c.fn(rule, wsutil, "NextReader")
	if L == nil || f == nil {
		return
	}
	m := c.machine()
	m.OpaqueOK = true // whatever else is called: what matters is the Reader that read the header and what is handed back
	var problems []string
	var rdObj *fold.Obj
	m.Models["(*"+wsutil+".Reader).NextFrame"] = func(cl *fold.Call) fold.Val {
		mm := cl.M
		r, _ := cl.Args[0].(fold.Ref)
		rdObj = r.O
		if got := nameOf(mm.Load(fold.Ref{O: r.O, Path: []int{L.source}})); got != "src" {
			problems = append(problems, "the Reader reads from "+got+" instead of the source it was given: whatever sits in between may read past the header, and those bytes are lost when the per-message Reader is dropped")
		}
		if got := nameOf(mm.Load(fold.Ref{O: r.O, Path: []int{L.state}})); got != "s" {
			problems = append(problems, "the Reader checks headers against state "+got+" instead of the given one")
		}
		problems = append(problems, readerPristine(mm, r.O, L, "NextReader")...)
		mm.Emit(fold.Effect{Kind: "call", Name: "NextFrame"})
		if mm.Choose("nf.err", 2) == 1 {
			return fold.Tuple{headerVal(true, 0, 1, false, nil, fold.K(0)), fold.Sym{Name: "nf-error", NonNil: true}}
		}
		return fold.Tuple{headerVal(true, 0, 1, false, nil, fold.Int{Lo: 0, Hi: fold.MaxInt64, Name: "Length"}), fold.Nil{}}
	}
	paths := m.Explore(f, func(mm *fold.Machine) []fold.Val {
		rdObj = nil
		return []fold.Val{fold.Iface{V: fold.Sym{Name: "src", NonNil: true}}, fold.Int{Lo: 0, Hi: 255, Name: "s"}}
	}, func(mm *fold.Machine, p *fold.Path) {
		ret, _ := p.Ret.(fold.Tuple)
		if len(ret) != 3 {
			problems = append(problems, "unexpected result shape")
			return
		}
		if len(p.Calls("NextFrame")) != 1 {
			problems = append(problems, "NextReader does not read exactly one header")
			return
		}
		e := c.errName(ret[2])
		if p.Chose("nf.err") == 1 {
			if e != "nf-error" {
				problems = append(problems, "the header error is lost: "+e)
			}
			return
		}
		if e != "nil" {
			problems = append(problems, "unexpected error "+e)
		}
		if o, ok := isObjRefAny(ret[1]); !ok || o != rdObj {
			problems = append(problems, "the reader handed back is not the Reader that read the header: "+fold.Show(ret[1]))
		}
	})
	for _, p := range paths {
		if p.Abort != "" || p.Panic {
			problems = append(problems, "undecided: "+p.Abort+panicNote(p))
		}
	}
	c.R.AddCells(len(paths))
	c.verdict(rule, rule+"/NextReader", c.P.FuncPos(f), uniq(problems), "new Reader on the given source and state")
}

// objSeq is the creation number of a modelled object (objects are numbered in the order the
// evaluator creates them on a path).
func objSeq(o *fold.Obj) int {
	if o == nil {
		return -1
	}
	n := 0
	if i := strings.LastIndexByte(o.Name, '#'); i >= 0 {
		fmt.Sscanf(o.Name[i+1:], "%d", &n)
	}
	return n
}
