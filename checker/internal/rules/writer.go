package rules

import (
	"fmt"
	"go/types"
	"strings"

	"golang.org/x/tools/go/ssa"

	"verif/wscheck/internal/fold"
)

type writerLayout struct {
	named                                                         *types.Named
	st                                                            *types.Struct
	dest, op, state, exts, noFlush, raw, buf, n, dirty, fseq, err int
}

func (c *Ctx) writerLayout(rule string) *writerLayout {
	n := c.P.NamedType(wsutil, "Writer")
	if n == nil {
		c.R.Unknown(rule, rule+"/anchor:wsutil.Writer", "-", "type wsutil.Writer does not resolve")
		return nil
	}
	st := structOf(n)
	L := &writerLayout{named: n, st: st}
	isBytes := typeIs("[]byte")
	L.dest = fieldIdx(st, "dest", typeIs("io.Writer"))
	L.op = fieldIdx(st, "op", typeIs(ws+".OpCode"))
	L.state = fieldIdx(st, "state", typeIs(ws+".State"))
	L.exts = fieldIdx(st, "extensions", typeIs("[]"+wsutil+".SendExtension"))
	L.noFlush = fieldIdx(st, "noFlush", nil)
	L.raw = fieldIdx(st, "raw", nil)
	L.buf = fieldIdx(st, "buf", nil)
	L.n = fieldIdx(st, "n", nil)
	L.dirty = fieldIdx(st, "dirty", nil)
	L.fseq = fieldIdx(st, "fseq", nil)
	L.err = fieldIdx(st, "err", typeIs("error"))
	_ = isBytes
	for name, v := range map[string]int{"dest": L.dest, "op": L.op, "state": L.state, "extensions": L.exts, "noFlush": L.noFlush,
		"raw": L.raw, "buf": L.buf, "n": L.n, "dirty": L.dirty, "fseq": L.fseq, "err": L.err} {
		if v < 0 {
			c.R.Unknown(rule, rule+"/anchor:wsutil.Writer."+name, "-", "field "+name+" of wsutil.Writer does not resolve")
			return nil
		}
	}
	return L
}

// writerCfg describes a concrete writer instance for folding.
type writerCfg struct {
	client  bool
	rawLen  int
	offset  int // header reservation
	n       int // buffered bytes
	dirty   bool
	fseq    int
	sticky  bool // w.err already set
	noFlush bool
	nExt    int
	op      int64
	extra   int64 // further state bits (ws.StateExtended = 4): the side must be tested as a flag
	arena   int   // bytes of the caller's array behind the buffer (cap(raw) = rawLen + arena)
}

func (w writerCfg) String() string {
	return fmt.Sprintf("client=%v raw=%d reserve=%d n=%d dirty=%v fseq=%d failed=%v noFlush=%v exts=%d op=%d state+=%d", w.client, w.rawLen, w.offset, w.n, w.dirty, w.fseq, w.sticky, w.noFlush, w.nExt, w.op, w.extra)
}

func newWriterObj(mm *fold.Machine, L *writerLayout, cfg writerCfg) (*fold.Obj, *fold.Obj) {
	st := fold.SymOfType("w", L.named).(fold.Struct)
	st.F[L.dest] = fold.Sym{Name: "dest", NonNil: true}
	st.F[L.op] = fold.K(cfg.op)
	state := int64(1)
	if cfg.client {
		state = 2
	}
	st.F[L.state] = fold.K(state | cfg.extra)
	ext := make([]fold.Val, cfg.nExt)
	for i := range ext {
		ext[i] = fold.Sym{Name: fmt.Sprintf("ext%d", i+1), NonNil: true}
	}
	if cfg.nExt == 0 {
		st.F[L.exts] = fold.Nil{}
	} else {
		st.F[L.exts] = fold.SliceV{O: mm.NewObj("exts", fold.Arr{E: ext}), Len: int64(cfg.nExt), Cap: int64(cfg.nExt)}
	}
	st.F[L.noFlush] = fold.Bool(cfg.noFlush)
	rawEl := make([]fold.Val, cfg.rawLen+cfg.arena)
	for i := range rawEl {
		if i >= cfg.rawLen {
			rawEl[i] = fold.Int{Lo: 0, Hi: 255, Name: fmt.Sprintf("callers%d", i-cfg.rawLen)}
		} else if i < cfg.offset {
			rawEl[i] = fold.Int{Lo: 0, Hi: 255, Name: fmt.Sprintf("junk%d", i)}
		} else {
			rawEl[i] = fold.Int{Lo: 0, Hi: 255, Name: fmt.Sprintf("p%d", i-cfg.offset)}
		}
	}
	rawObj := mm.NewObj("raw", fold.Arr{E: rawEl})
	st.F[L.raw] = fold.SliceV{O: rawObj, Len: int64(cfg.rawLen), Cap: int64(cfg.rawLen + cfg.arena)}
	st.F[L.buf] = fold.SliceV{O: rawObj, Lo: int64(cfg.offset), Len: int64(cfg.rawLen - cfg.offset), Cap: int64(cfg.rawLen - cfg.offset + cfg.arena)}
	st.F[L.n] = fold.K(int64(cfg.n))
	st.F[L.dirty] = fold.Bool(cfg.dirty)
	st.F[L.fseq] = fold.K(int64(cfg.fseq))
	if cfg.sticky {
		st.F[L.err] = fold.Sym{Name: "sticky-error", NonNil: true}
	} else {
		st.F[L.err] = fold.Nil{}
	}
	return mm.NewObj("writer", st), rawObj
}

type writerFinal struct {
	n, dirty, fseq, err, op, state, noFlush string
	extLen                                  string
}

func writerFinalOf(mm *fold.Machine, o *fold.Obj, L *writerLayout) writerFinal {
	ld := func(i int) fold.Val { return mm.Load(fold.Ref{O: o, Path: []int{i}}) }
	wf := writerFinal{n: fold.Show(ld(L.n)), dirty: fold.Show(ld(L.dirty)), fseq: fold.Show(ld(L.fseq)),
		op: fold.Show(ld(L.op)), state: fold.Show(ld(L.state)), noFlush: fold.Show(ld(L.noFlush))}
	e := ld(L.err)
	switch x := e.(type) {
	case fold.Nil:
		wf.err = "nil"
	case fold.Sym:
		wf.err = x.Name
	default:
		wf.err = fold.Show(e)
	}
	wf.extLen = fold.Show(fold.LenOf(ld(L.exts)))
	return wf
}

// addWriterLeafModels models the calls at the bottom of the writer: mask
// generation, the cipher, the pool and the destination.
func addWriterLeafModels(m *fold.Machine) {
	m.Models[ws+".NewMask"] = func(cl *fold.Call) fold.Val {
		cl.M.Emit(fold.Effect{Kind: "call", Name: "NewMask"})
		return fold.Arr{E: []fold.Val{fold.Int{Lo: 0, Hi: 255, Name: "k0"}, fold.Int{Lo: 0, Hi: 255, Name: "k1"}, fold.Int{Lo: 0, Hi: 255, Name: "k2"}, fold.Int{Lo: 0, Hi: 255, Name: "k3"}}}
	}
	m.Models[ws+".Cipher"] = func(cl *fold.Call) fold.Val {
		mm := cl.M
		mm.Emit(fold.Effect{Kind: "call", Name: "Cipher", Args: cl.Args})
		mask := "?"
		if a, ok := cl.Args[1].(fold.Arr); ok {
			mask = strings.Join(laneNamesPlain(a.E), "")
		}
		off := fold.Show(cl.Args[2])
		if s, ok := cl.Args[0].(fold.SliceV); ok {
			el := mm.Elems(s)
			for i, e := range el {
				nm := "?"
				if k, ok := e.(fold.Int); ok {
					if k.IsConst() {
						nm = fmt.Sprint(k.Const())
					} else {
						nm = k.Name
					}
				}
				mm.SetElem(s, int64(i), fold.Int{Lo: 0, Hi: 255, Name: fmt.Sprintf("x(%s,%s,%s+%d)", nm, mask, off, i)})
			}
		}
		return nil
	}
	m.Models["github.com/gobwas/pool/pbytes.GetLen"] = func(cl *fold.Call) fold.Val {
		mm := cl.M
		mm.Emit(fold.Effect{Kind: "call", Name: "pool.Get", Args: cl.Args})
		l, _ := cl.Args[0].(fold.Int)
		if l.IsConst() && l.Const() >= 0 && l.Const() <= 4096 {
			el := make([]fold.Val, l.Const())
			for i := range el {
				el[i] = fold.Int{Lo: 0, Hi: 255, Name: fmt.Sprintf("pool%d", i)}
			}
			return fold.SliceV{O: mm.NewObj("pooled", fold.Arr{E: el}), Len: l.Const(), Cap: l.Const()}
		}
		return fold.SymSeq{Name: fmt.Sprintf("pooled#%d", cl.Seq), Len: l}
	}
	m.Models["github.com/gobwas/pool/pbytes.Put"] = func(cl *fold.Call) fold.Val {
		cl.M.Emit(fold.Effect{Kind: "call", Name: "pool.Put", Args: cl.Args})
		return nil
	}
}

func isPooled(v fold.Val) bool {
	switch s := v.(type) {
	case fold.SliceV:
		return strings.HasPrefix(s.O.Name, "pooled#")
	case fold.SymSeq:
		return strings.HasPrefix(s.Name, "pooled#")
	}
	return false
}

// ---- flushFragment: byte-exact frame at concrete buffer shapes ----

func writerFlushFragmentRules(c *Ctx, prop string) {
	rule := prop + ".writer-flushfragment-frame"
	c.R.Rule(rule, 1, "flushFragment emits exactly one slice: the RFC header (opcode or continuation, Fin, extension bits, mask iff client) right-aligned before the buffered payload, the payload ciphered with the header's own key at offset 0 iff client")
	L := c.writerLayout(rule)
	f := c.method(rule, wsutil, "Writer", "flushFragment")
	if L == nil || f == nil {
		return
	}
	m := c.machine()
	addWriterLeafModels(m)
	addBinaryModels(m)
	m.Models["invoke:("+wsutil+".SendExtension).SetBits"] = func(cl *fold.Call) fold.Val {
		cl.M.Emit(fold.Effect{Kind: "call", Name: "SetBits", Args: cl.Args})
		h, ok := cl.Args[1].(fold.Struct)
		if !ok {
			return fold.Tuple{cl.Args[1], fold.Sym{Name: "bad", NonNil: true}}
		}
		n := fold.Struct{F: append([]fold.Val{}, h.F...)}
		r, _ := h.F[1].(fold.Int)
		n.F[1] = fold.K(r.Const() | int64(1)<<uint(cl.Seq-1)) // extension k sets RSV bit k
		return fold.Tuple{n, errChoice(cl.M, fmt.Sprintf("ext%d.err", cl.Seq), fmt.Sprintf("ext%d-error", cl.Seq))}
	}
	m.Models["invoke:(io.Writer).Write"] = func(cl *fold.Call) fold.Val {
		s, ok := cl.Args[1].(fold.SliceV)
		if !ok {
			cl.M.Emit(fold.Effect{Kind: "call", Name: "dest.Write", Args: cl.Args, Note: "opaque"})
			return fold.Tuple{fold.Int{Lo: 0, Hi: fold.MaxInt64}, errChoice(cl.M, "dest.err", "dest-error")}
		}
		cl.M.Emit(fold.Effect{Kind: "call", Name: "dest.Write", Args: append([]fold.Val{cl.Args[0]}, cl.M.Elems(s)...)})
		return fold.Tuple{fold.K(s.Len), errChoice(cl.M, "dest.err", "dest-error")}
	}
	var cfg writerCfg
	var fin bool
	type rec struct {
		cfg writerCfg
		fin bool
		p   *fold.Path
	}
	var out []rec
	shapes := []struct{ raw, off, n int }{{16, 2, 0}, {16, 2, 5}, {16, 2, 14}, {16, 6, 0}, {16, 6, 4}, {16, 6, 10}, {140, 4, 130}, {140, 8, 126}}
	if c.Tier == "thorough" {
		// the 125/126 boundary from both sides, with the small and the large reservation, both masks
		shapes = append(shapes, []struct{ raw, off, n int }{{140, 4, 125}, {140, 4, 126}, {140, 8, 125}, {140, 8, 127}, {300, 4, 255}, {300, 4, 256}, {300, 8, 290}, {16, 2, 1}, {16, 6, 1}, {16, 2, 13}}...)
	}
	paths := m.Explore(f, func(mm *fold.Machine) []fold.Val {
		sh := shapes[mm.Choose("shape", len(shapes))]
		cfg = writerCfg{rawLen: sh.raw, offset: sh.off, n: sh.n, op: int64(1 + mm.Choose("op", 2)), fseq: mm.Choose("fseq", 3), nExt: mm.Choose("next", 3)}
		cfg.extra = int64(mm.Choose("extended", 2)) * 4
		cfg.client = sh.off == 6 || sh.off == 8
		fin = mm.Choose("fin", 2) == 1
		o, _ := newWriterObj(mm, L, cfg)
		return []fold.Val{fold.Ref{O: o}, fold.Bool(fin)}
	}, func(mm *fold.Machine, p *fold.Path) { out = append(out, rec{cfg: cfg, fin: fin, p: p}) })
	c.R.AddCells(len(paths))
	c.R.Paths += len(paths)
	var problems []string
	for _, p := range paths {
		if p.Abort != "" {
			problems = append(problems, "undecided: "+p.Abort)
		} else if p.Panic {
			problems = append(problems, "flushFragment panics: "+fold.Show(p.PanicV))
		}
	}
	for _, r := range out {
		cfg := r.cfg
		failedAt := 0
		for i := 1; i <= cfg.nExt; i++ {
			if r.p.Chose(fmt.Sprintf("ext%d.err", i)) > 0 {
				failedAt = i
				break
			}
		}
		writes := r.p.Calls("dest.Write")
		e := c.errName(r.p.Ret)
		if failedAt > 0 {
			if len(writes) != 0 || e != fmt.Sprintf("ext%d-error", failedAt) {
				problems = append(problems, "a rejecting extension must abort the fragment before anything is written ["+cfg.String()+"]")
			}
			continue
		}
		if len(writes) != 1 {
			problems = append(problems, fmt.Sprintf("%d writes to dest for one fragment [%s]", len(writes), cfg))
			continue
		}
		if fold.Show(writes[0].Args[0]) != "dest" {
			problems = append(problems, "fragment is not written to w.dest")
		}
		got := laneNames(writes[0].Args[1:])
		opc := cfg.op
		if cfg.fseq > 0 {
			opc = 0
		}
		rsv := int64(0)
		for i := 0; i < cfg.nExt; i++ {
			rsv |= 1 << uint(i)
		}
		b0 := opc | rsv<<4
		if r.fin {
			b0 |= 0x80
		}
		want := []string{fmt.Sprintf("%#02x", b0)}
		mbit := int64(0)
		if cfg.client {
			mbit = 0x80
		}
		if cfg.n <= 125 {
			want = append(want, fmt.Sprintf("%#02x", int64(cfg.n)|mbit))
		} else {
			want = append(want, fmt.Sprintf("%#02x", 126|mbit), fmt.Sprintf("%#02x", cfg.n>>8), fmt.Sprintf("%#02x", cfg.n&0xff))
		}
		if cfg.client {
			want = append(want, "k0", "k1", "k2", "k3")
		}
		for i := 0; i < cfg.n; i++ {
			if cfg.client {
				want = append(want, fmt.Sprintf("x(p%d,k0k1k2k3,0+%d)", i, i))
			} else {
				want = append(want, fmt.Sprintf("p%d", i))
			}
		}
		if strings.Join(got, " ") != strings.Join(want, " ") {
			g, w := strings.Join(got, " "), strings.Join(want, " ")
			if len(g) > 160 {
				g = g[:160] + "..."
			}
			if len(w) > 160 {
				w = w[:160] + "..."
			}
			problems = append(problems, fmt.Sprintf("fin=%v %s: wrote [%s], want [%s]", r.fin, cfg, g, w))
			continue
		}
		if (r.p.Chose("dest.err") > 0) != (e == "dest-error") {
			problems = append(problems, "destination error is not returned: "+e)
		}
		if !cfg.client && len(r.p.Calls("Cipher"))+len(r.p.Calls("NewMask")) > 0 {
			problems = append(problems, "server side masks a frame")
		}
	}
	c.verdict(rule, rule+"/flushFragment", c.P.FuncPos(f), uniq(problems), fmt.Sprintf("%d paths over %d buffer shapes x opcode x fseq x fin x 0-2 extensions: byte-exact frames", len(out), len(shapes)))
}

// ---- reservation: header space is sufficient at every buffer size ----

func writerReserveRules(c *Ctx, prop string) {
	rule := prop + ".writer-reserve"
	c.R.Rule(rule, 1, "for every buffer size and side, the reserved header space is at least the header size of the largest payload the buffer can hold, and headerSize() agrees with ws.HeaderSize")
	res := c.fn(rule, wsutil, "reserve")
	hs := c.fn(rule, ws, "HeaderSize")
	hsz := c.fn(rule, wsutil, "headerSize")
	if res == nil || hs == nil || hsz == nil {
		return
	}
	m := c.machine()
	dom := &fold.IntDom{Name: "len(raw)", Lo: 0, Hi: bigLen()}
	paths, err := m.ExploreCells(res, []*fold.IntDom{dom}, func(m *fold.Machine, cells []fold.Int) []fold.Val {
		return []fold.Val{fold.K(int64(1 + m.Choose("client", 2))), cells[0]}
	}, nil)
	if err != nil {
		c.R.Unknown(rule, rule+"/reserve", c.P.FuncPos(res), "fold failed: "+err.Error())
		return
	}
	c.R.AddCells(len(paths))
	var problems []string
	for _, p := range paths {
		if p.Abort != "" || p.Panic {
			problems = append(problems, "undecided: "+p.Abort+panicNote(p.Path))
			continue
		}
		off, ok := p.Ret.(fold.Int)
		if !ok || !off.IsConst() {
			problems = append(problems, "undecided: reserve does not fold to a constant on cell "+fold.Show(p.Cells[0]))
			continue
		}
		client := p.Chose("client") == 1
		maxPayload := p.Cells[0].Hi - off.Const()
		if maxPayload < 0 {
			continue // buffer too small: initBuf panics by contract
		}
		// header size of every payload length up to maxPayload
		m2 := c.machine()
		d2 := &fold.IntDom{Name: "Length", Lo: 0, Hi: maxPayload}
		hp, err := m2.ExploreCells(hs, []*fold.IntDom{d2}, func(m *fold.Machine, cells []fold.Int) []fold.Val {
			return []fold.Val{headerVal(true, 0, 1, client, nil, cells[0])}
		}, nil)
		if err != nil {
			problems = append(problems, "undecided: "+err.Error())
			continue
		}
		c.R.AddCells(len(hp))
		for _, q := range hp {
			if q.Abort != "" {
				problems = append(problems, "undecided: "+q.Abort)
				continue
			}
			need, _ := q.Ret.(fold.Int)
			if !need.IsConst() || need.Const() > off.Const() {
				problems = append(problems, fmt.Sprintf("client=%v len(raw)=%s: %d bytes reserved but a payload of %s bytes needs a %s-byte header", client, fold.Show(p.Cells[0]), off.Const(), fold.Show(q.Cells[0]), fold.Show(q.Ret)))
			}
		}
		// minimality at the top of the cell: the reservation is not larger than needed for a full buffer
	}
	c.verdict(rule, rule+"/reserve", c.P.FuncPos(res), uniq(problems), fmt.Sprintf("%d (side, size-cell) pairs: reserve >= HeaderSize(max payload)", len(paths)))

	// headerSize(s, n) == ws.HeaderSize({Length: n, Masked: client})
	m3 := c.machine()
	d3 := &fold.IntDom{Name: "n", Lo: 0, Hi: bigLen()}
	hp, err := m3.ExploreCells(hsz, []*fold.IntDom{d3}, func(m *fold.Machine, cells []fold.Int) []fold.Val {
		return []fold.Val{fold.K(int64(1 + m.Choose("client", 2))), cells[0]}
	}, nil)
	var p2 []string
	if err != nil {
		p2 = append(p2, "undecided: "+err.Error())
	}
	for _, q := range hp {
		if q.Abort != "" {
			p2 = append(p2, "undecided: "+q.Abort)
			continue
		}
		form := lengthForm(q.Cells[0])
		if form < 0 {
			p2 = append(p2, "cell straddles a length form: "+fold.Show(q.Cells[0]))
			continue
		}
		want := []int64{2, 4, 10}[form]
		if q.Chose("client") == 1 {
			want += 4
		}
		if fold.Show(q.Ret) != fmt.Sprint(want) {
			p2 = append(p2, fmt.Sprintf("headerSize(client=%v, %s) = %s, want %d", q.Chose("client") == 1, fold.Show(q.Cells[0]), fold.Show(q.Ret), want))
		}
	}
	c.R.AddCells(len(hp))
	c.verdict(rule, rule+"/headerSize", c.P.FuncPos(hsz), uniq(p2), "headerSize agrees with the RFC sizes on both sides")
}

// ---- method effect tables ----

func writerMethodRules(c *Ctx, prop string) {
	L := c.writerLayout(prop + ".writer")
	if L == nil {
		return
	}
	wantSticky := prop == "C16"
	flushModel := func(m *fold.Machine) {
		m.Models["(*"+wsutil+".Writer).flushFragment"] = func(cl *fold.Call) fold.Val {
			cl.M.Emit(fold.Effect{Kind: "call", Name: "flushFragment", Args: cl.Args[1:]})
			return errChoice(cl.M, fmt.Sprintf("emit%d.err", cl.Seq), "emit-error")
		}
	}
	type rec struct {
		cfg writerCfg
		p   *fold.Path
		fin writerFinal
	}
	explore := func(f *ssa.Function, m *fold.Machine, extra func(mm *fold.Machine, cfg writerCfg) []fold.Val) []rec {
		var out []rec
		var cfg writerCfg
		var obj *fold.Obj
		paths := m.Explore(f, func(mm *fold.Machine) []fold.Val {
			cfg = writerCfg{rawLen: 16, offset: 2, op: 2}
			cfg.client = mm.Choose("client", 2) == 1
			if cfg.client {
				cfg.offset = 6
			}
			cfg.n = []int{0, 4}[mm.Choose("n", 2)]
			cfg.dirty = mm.Choose("dirty", 2) == 1
			cfg.fseq = mm.Choose("fseq", 3)
			cfg.sticky = mm.Choose("sticky", 2) == 1
			cfg.nExt = 1
			cfg.extra = int64(mm.Choose("extended", 2)) * 4
			obj, _ = newWriterObj(mm, L, cfg)
			args := []fold.Val{fold.Ref{O: obj}}
			if extra != nil {
				args = append(args, extra(mm, cfg)...)
			}
			return args
		}, func(mm *fold.Machine, p *fold.Path) {
			out = append(out, rec{cfg: cfg, p: p, fin: writerFinalOf(mm, obj, L)})
		})
		c.R.AddCells(len(paths))
		c.R.Paths += len(paths)
		for _, p := range paths {
			if p.Abort != "" || p.Panic {
				out = append(out, rec{cfg: cfg, p: p})
			}
		}
		return out
	}

	// Flush
	if f := c.method(prop+".writer-flush", wsutil, "Writer", "Flush"); f != nil {
		rule := prop + ".writer-flush"
		if wantSticky {
			rule = prop + ".writer-sticky"
		}
		c.R.Rule(rule, 1, "")
		m := c.machine()
		flushModel(m)
		var problems []string
		for _, r := range explore(f, m, nil) {
			if r.p.Abort != "" || r.p.Panic {
				problems = append(problems, "undecided: "+r.p.Abort+panicNote(r.p))
				continue
			}
			e := c.errName(r.p.Ret)
			em := r.p.Calls("flushFragment")
			switch {
			case r.cfg.sticky:
				if len(em) != 0 || e != "sticky-error" {
					problems = append(problems, "Flush on a failed writer must send nothing and return the error ["+r.cfg.String()+"]: "+e)
				}
			case !r.cfg.dirty && r.cfg.n == 0:
				if len(em) != 0 || e != "nil" {
					problems = append(problems, "Flush with nothing written must emit nothing ["+r.cfg.String()+"]")
				}
			default:
				if len(em) != 1 || fold.Show(em[0].Args[0]) != "true" {
					problems = append(problems, "Flush must emit exactly one final fragment ["+r.cfg.String()+"]")
					continue
				}
				failed := r.p.Chose("emit1.err") > 0
				if failed != (e == "emit-error") || failed != (r.fin.err == "emit-error") {
					problems = append(problems, "Flush must store and return the emission error ["+r.cfg.String()+"]: ret="+e+" w.err="+r.fin.err)
				}
				if r.fin.n != "0" || r.fin.dirty != "false" || r.fin.fseq != "0" {
					problems = append(problems, fmt.Sprintf("Flush must end the message (n=%s dirty=%s fseq=%s) [%s]", r.fin.n, r.fin.dirty, r.fin.fseq, r.cfg))
				}
			}
		}
		c.verdict(rule, rule+"/Flush", c.P.FuncPos(f), uniq(problems), "effect table agrees")
	}
	// FlushFragment
	if f := c.method(prop+".writer-flush", wsutil, "Writer", "FlushFragment"); f != nil {
		rule := prop + ".writer-flush"
		if wantSticky {
			rule = prop + ".writer-sticky"
		}
		m := c.machine()
		flushModel(m)
		var problems []string
		for _, r := range explore(f, m, nil) {
			if r.p.Abort != "" || r.p.Panic {
				problems = append(problems, "undecided: "+r.p.Abort+panicNote(r.p))
				continue
			}
			e := c.errName(r.p.Ret)
			em := r.p.Calls("flushFragment")
			switch {
			case r.cfg.sticky:
				if len(em) != 0 || e != "sticky-error" {
					problems = append(problems, "FlushFragment on a failed writer must send nothing and return the error ["+r.cfg.String()+"]: "+e)
				}
			case r.cfg.n == 0:
				if len(em) != 0 || e != "nil" {
					problems = append(problems, "FlushFragment with an empty buffer must emit nothing ["+r.cfg.String()+"]")
				}
				// and count nothing: a fragment that was never sent must not turn the next frame
				// (the first of a message) into a continuation
				if r.fin.fseq != fmt.Sprint(r.cfg.fseq) || r.fin.n != "0" {
					problems = append(problems, fmt.Sprintf("FlushFragment with an empty buffer changes the writer (n=%s fseq=%s, was n=0 fseq=%d): no frame was sent, yet the next one is numbered as if one had been [%s]", r.fin.n, r.fin.fseq, r.cfg.fseq, r.cfg))
				}
			default:
				if len(em) != 1 || fold.Show(em[0].Args[0]) != "false" {
					problems = append(problems, "FlushFragment must emit exactly one non-final fragment ["+r.cfg.String()+"]")
					continue
				}
				failed := r.p.Chose("emit1.err") > 0
				if failed != (e == "emit-error") || failed != (r.fin.err == "emit-error") {
					problems = append(problems, "FlushFragment must store and return the emission error ["+r.cfg.String()+"]")
				}
				if r.fin.n != "0" || r.fin.fseq != fmt.Sprint(r.cfg.fseq+1) {
					problems = append(problems, fmt.Sprintf("FlushFragment must empty the buffer and count the fragment (n=%s fseq=%s) [%s]", r.fin.n, r.fin.fseq, r.cfg))
				}
				if r.cfg.dirty && r.fin.dirty != "true" {
					problems = append(problems, fmt.Sprintf("FlushFragment clears the dirty flag: a following Flush emits nothing, the message is left without its final frame and the next one starts as a continuation [%s]", r.cfg))
				}
			}
		}
		c.verdict(rule, rule+"/FlushFragment", c.P.FuncPos(f), uniq(problems), "effect table agrees")
	}
	// opCode
	if !wantSticky {
		if f := c.method(prop+".writer-flush", wsutil, "Writer", "opCode"); f != nil {
			rule := prop + ".writer-flush"
			m := c.machine()
			var problems []string
			for _, r := range explore(f, m, nil) {
				if r.p.Abort != "" || r.p.Panic {
					problems = append(problems, "undecided: "+r.p.Abort)
					continue
				}
				want := "2"
				if r.cfg.fseq > 0 {
					want = "0"
				}
				if fold.Show(r.p.Ret) != want {
					problems = append(problems, fmt.Sprintf("opCode() with fseq=%d is %s, want %s", r.cfg.fseq, fold.Show(r.p.Ret), want))
				}
			}
			c.verdict(rule, rule+"/opCode", c.P.FuncPos(f), uniq(problems), "first fragment carries the configured opcode, later ones OpContinuation")
		}
	}
	// WriteThrough
	if f := c.method(prop+".writer-writethrough", wsutil, "Writer", "WriteThrough"); f != nil {
		rule := prop + ".writer-writethrough"
		if wantSticky {
			rule = prop + ".writer-sticky"
		}
		c.R.Rule(rule, 1, "")
		errNotEmpty := c.globalErrName(rule, wsutil, "ErrNotEmpty")
		m := c.machine()
		addWriterLeafModels(m)
		m.Models["invoke:("+wsutil+".SendExtension).SetBits"] = func(cl *fold.Call) fold.Val {
			cl.M.Emit(fold.Effect{Kind: "call", Name: "SetBits", Args: cl.Args})
			h, _ := cl.Args[1].(fold.Struct)
			n := fold.Struct{F: append([]fold.Val{}, h.F...)}
			n.F[1] = fold.K(4)
			return fold.Tuple{n, errChoice(cl.M, "ext.err", "ext-error")}
		}
		m.Models[ws+".WriteFrame"] = func(cl *fold.Call) fold.Val {
			cl.M.Emit(fold.Effect{Kind: "call", Name: "WriteFrame", Args: cl.Args})
			return errChoice(cl.M, "emit1.err", "emit-error")
		}
		var problems []string
		for _, r := range explore(f, m, func(mm *fold.Machine, cfg writerCfg) []fold.Val {
			return []fold.Val{fold.SymSeq{Name: "p", Len: fold.Int{Lo: 0, Hi: bigLen(), Name: "len(p)"}}}
		}) {
			if r.p.Abort != "" || r.p.Panic {
				problems = append(problems, "undecided: "+r.p.Abort+panicNote(r.p))
				continue
			}
			ret, _ := r.p.Ret.(fold.Tuple)
			if len(ret) != 2 {
				problems = append(problems, "unexpected result shape")
				continue
			}
			n, e := ret[0], c.errName(ret[1])
			wf := r.p.Calls("WriteFrame")
			switch {
			case r.cfg.sticky:
				if len(wf) != 0 || e != "sticky-error" || fold.Show(n) != "0" {
					problems = append(problems, "WriteThrough on a failed writer must send nothing and return the error ["+r.cfg.String()+"]: "+e)
				}
			case r.cfg.n != 0:
				if len(wf) != 0 || e != errNotEmpty {
					problems = append(problems, "WriteThrough with buffered bytes must refuse ["+r.cfg.String()+"]: "+e)
				}
			case r.p.Chose("ext.err") > 0:
				if len(wf) != 0 || e != "ext-error" {
					problems = append(problems, "a rejecting extension must abort WriteThrough before anything is written")
				}
			default:
				if len(wf) != 1 || fold.Show(wf[0].Args[0]) != "dest" {
					problems = append(problems, "WriteThrough must write exactly one frame to w.dest ["+r.cfg.String()+"]")
					continue
				}
				fr, _ := wf[0].Args[1].(fold.Struct)
				if len(fr.F) != 2 {
					problems = append(problems, "WriteFrame argument is not a frame")
					continue
				}
				h, _ := fr.F[0].(fold.Struct)
				wantOp := "2"
				if r.cfg.fseq > 0 {
					wantOp = "0"
				}
				if len(h.F) != 6 || fold.Show(h.F[0]) != "false" || fold.Show(h.F[2]) != wantOp || intName(h.F[5]) != "len(p)" || fold.Show(h.F[1]) != "4" {
					problems = append(problems, fmt.Sprintf("WriteThrough header is %s, want Fin=false OpCode=%s Length=len(p) with the extension's bits [%s]", fold.Show(fr.F[0]), wantOp, r.cfg))
				}
				if r.cfg.client {
					cp := r.p.Calls("Cipher")
					okMask := fold.Show(h.F[3]) == "true" && len(cp) == 1 && isPooled(cp[0].Args[0]) && fold.Show(cp[0].Args[2]) == "0" &&
						strings.Join(laneNamesPlain(cp[0].Args[1].(fold.Arr).E), "") == "k0k1k2k3" && fold.Show(h.F[4]) == fold.Show(cp[0].Args[1])
					if !okMask || !isPooled(fr.F[1]) {
						problems = append(problems, "client WriteThrough must send a pooled copy masked with the header's own fresh key at offset 0; payload="+fold.Show(fr.F[1])+" header="+fold.Show(fr.F[0]))
					}
					// the copy must be filled from p before masking, and returned to the pool after the write
					var seq []string
					for _, ef := range r.p.Effects {
						switch {
						case ef.Kind == "copy" && isPooled(ef.Args[0]) && fold.Show(ef.Args[1]) == "p":
							seq = append(seq, "copy")
						case ef.Kind == "call" && (ef.Name == "Cipher" || ef.Name == "WriteFrame" || ef.Name == "pool.Put" || ef.Name == "pool.Get"):
							seq = append(seq, ef.Name)
						}
					}
					if strings.Join(seq, ",") != "pool.Get,copy,Cipher,WriteFrame,pool.Put" {
						problems = append(problems, "client WriteThrough order is ["+strings.Join(seq, ",")+"], want [pool.Get,copy,Cipher,WriteFrame,pool.Put]")
					}
				} else {
					if fold.Show(h.F[3]) != "false" || fold.Show(fr.F[1]) != "p" || len(r.p.Calls("Cipher")) != 0 {
						problems = append(problems, "server WriteThrough must send p unmasked")
					}
				}
				failed := r.p.Chose("emit1.err") > 0
				if failed != (e == "emit-error") || failed != (r.fin.err == "emit-error") {
					problems = append(problems, "WriteThrough must store and return the emission error: ret="+e+" w.err="+r.fin.err)
				}
				if !failed && intName(n) != "len(p)" || failed && fold.Show(n) != "0" {
					problems = append(problems, "WriteThrough must report len(p) bytes on success and 0 on failure, got "+fold.Show(n))
				}
				if r.fin.dirty != "true" || r.fin.fseq != fmt.Sprint(r.cfg.fseq+1) {
					problems = append(problems, "WriteThrough must mark the message dirty and count the fragment")
				}
			}
		}
		c.verdict(rule, rule+"/WriteThrough", c.P.FuncPos(f), uniq(problems), "effect table agrees")
	}
}
