package rules

import (
	"fmt"
	"strings"

	"golang.org/x/tools/go/ssa"

	"verif/wscheck/internal/fold"
)

func init() {
	register(&Property{
		ID:      "C12",
		Explain: "Structural clauses of the permessage-deflate plumbing, decided by FOLD and table checks. (1) Tail constants: compressionTail = 00 00 ff ff, compressionReadTail = 00 00 ff ff 01 00 00 ff ff (the first is a prefix of the second), the tail buffer holds 4 bytes and the reader suffix 9. (2) cbuf.Write, the tail-withholding proxy, is evaluated with symbolic byte lanes for every fill level 0..4 x write length 0..12: bytes forwarded to the destination followed by the withheld bytes are exactly the bytes written so far, and min(4, total) bytes are withheld. (3) wsflate.Writer: Write/Flush/Close test the sticky error first; Flush and Close run the compressor and then compare the withheld bytes with the tail constant, a mismatch becoming a sticky error. (4) suffixedReader.Read and ReadByte are siblings: source until EOF (swallowed once), then the suffix from the current position, then io.EOF - evaluated for every suffix position x buffer size. (5) Frame helpers: a non-final frame is refused before anything is written, payload and Header.Length come from the same buf.Bytes(), the compression bit is set/cleared through SetBit/UnsetBit whose result is used, an uncompressed frame is returned unchanged; CompressTo = Write, Flush, Close with every error returned. NOT decided: anything about DEFLATE streams themselves (that compress/flate output plus the tail inflates to the input, interoperability, window sizes, chunked inflation) - the core of the property is out of reach for this technique. pooled-memory-escape: no frame helper returns a payload that lives in a pooled buffer the helper itself puts back. SetBit / UnsetBit tables (C13.bits-table) are part of this check. reader-read: wsflate.Reader.Read hands on the decompressor's (n, err) unchanged - flate delivers the last bytes of a stream together with io.EOF - and returns a sticky error without reading. helper-siblings: the allocating helpers (Helper.CompressFrame / DecompressFrame) and the package-level shortcuts call their buffer-taking sibling exactly once on every path, with the caller's frame, and return its results (a shortcut in one sibling skips what the other checks); DecompressTo is NewReader(bytes.NewReader(p)), one io.Copy into w (which hands on bytes that arrive together with io.EOF), Close, first error returned - a hand-written copy loop is reported as undecided. The tail buffer is folded with failing destination writes: the first failure sticks, nothing follows it to the destination, a later success does not wipe it out.",
		Trusted: []string{"go/ssa + go/types", "the checker's abstract evaluator", "compress/flate (not analysed)"},
		Assume:  []string{"round trip / interoperability with an independent DEFLATE implementation is not decided"},
		Run:     runC12,
	})
}

func runC12(c *Ctx) {
	c12Tails(c)
	c12Cbuf(c)
	c12Writer(c)
	c12Suffixed(c)
	c12ReaderRead(c)
	c12Helpers(c)
	c12HelperSiblings(c)
	c18Flate(c)
	// a compressed frame must stay what it was: its payload may not live in recycled memory
	pooledEscapeRules(c, "C12")
	// the helpers mark frames through SetBit / UnsetBit
	if c.headerLayoutOK("C13.anchor") {
		c13RsvLayout(c)
		c13Bits(c)
	}
}

func constBytes(v fold.Val) (string, bool) {
	a, ok := v.(fold.Arr)
	if !ok {
		return "", false
	}
	var sb strings.Builder
	for _, e := range a.E {
		k, ok := e.(fold.Int)
		if !ok || !k.IsConst() {
			return "", false
		}
		fmt.Fprintf(&sb, "%02x", k.Const())
	}
	return sb.String(), true
}

func c12Tails(c *Ctx) {
	const rule = "C12.tail-constants"
	c.R.Rule(rule, 2, "the tail constants are the RFC 7692 7.2 bytes")
	for name, want := range map[string]string{"compressionTail": "0000ffff", "compressionReadTail": "0000ffff010000ffff"} {
		g := c.P.Global(wsflate, name)
		if g == nil {
			c.R.Unknown(rule, rule+"/anchor:"+name, "-", "constant table does not resolve")
			continue
		}
		v, ok := c.Ix.Init(g)
		got, ok2 := constBytes(v)
		if !ok || !ok2 {
			c.R.Unknown(rule, rule+"/"+name, c.P.Pos(g.Pos()), "initialiser is not a constant byte array")
			continue
		}
		c.R.Check(got == want, rule, rule+"/"+name, c.P.Pos(g.Pos()), name+" = "+got, name+" = "+got+", RFC 7692 says "+want)
	}
}

func c12Cbuf(c *Ctx) {
	const rule = "C12.cbuf-withholding"
	c.R.Rule(rule, 1, "cbuf.Write forwards everything but the last 4 bytes written so far, in order, and keeps those")
	cb := c.P.NamedType(wsflate, "cbuf")
	f := c.method(rule, wsflate, "cbuf", "Write")
	if cb == nil || f == nil {
		return
	}
	cst := structOf(cb)
	bBuf, bN, bDst, bErr := fieldIdx(cst, "buf", typeIs("[4]byte")), fieldIdx(cst, "n", typeIs("int")), fieldIdx(cst, "dst", typeIs("io.Writer")), fieldIdx(cst, "err", typeIs("error"))
	if bBuf < 0 || bN < 0 || bDst < 0 || bErr < 0 {
		c.R.Unknown(rule, rule+"/anchor:cbuf.fields", "-", "fields do not resolve")
		return
	}
	type job struct{ fill, n int }
	var jobs []job
	for fill := 0; fill <= 4; fill++ {
		maxN := 12
		if c.Tier == "thorough" {
			maxN = 48
		}
		for n := 0; n <= maxN; n++ {
			jobs = append(jobs, job{fill, n})
		}
	}
	res := make([][]string, len(jobs))
	parallel(len(jobs), func(j int) {
		fill, n := jobs[j].fill, jobs[j].n
		m := c.machine()
		var obj *fold.Obj
		var forwarded []string
		writes, failedAt := 0, 0 // destination writes on this path; which one failed (0: none)
		m.Models["invoke:(io.Writer).Write"] = func(cl *fold.Call) fold.Val {
			writes++
			// every write to the destination may fail
			if failedAt == 0 && cl.M.Choose(fmt.Sprintf("dst%d.err", writes), 2) == 1 {
				failedAt = writes
				return fold.Tuple{fold.K(0), fold.Sym{Name: "dst-error", NonNil: true}}
			}
			if s, ok := cl.Args[1].(fold.SliceV); ok {
				forwarded = append(forwarded, laneNamesPlain(cl.M.Elems(s))...)
				return fold.Tuple{fold.K(s.Len), fold.Nil{}}
			}
			forwarded = append(forwarded, "?"+fold.Show(cl.Args[1]))
			return fold.Tuple{fold.K(0), fold.Nil{}}
		}
		var problems []string
		ps := m.Explore(f, func(mm *fold.Machine) []fold.Val {
			forwarded = nil
			writes, failedAt = 0, 0
			s := fold.SymOfType("c", cb).(fold.Struct)
			b := make([]fold.Val, 4)
			for i := range b {
				if i < fill {
					b[i] = fold.Int{Lo: 0, Hi: 255, Name: fmt.Sprintf("o%d", i)}
				} else {
					b[i] = fold.Int{Lo: 0, Hi: 255, Name: fmt.Sprintf("junk%d", i)}
				}
			}
			s.F[bBuf] = fold.Arr{E: b}
			s.F[bN] = fold.K(int64(fill))
			s.F[bDst] = fold.Iface{V: fold.Sym{Name: "dst", NonNil: true}}
			s.F[bErr] = fold.Nil{}
			obj = mm.NewObj("c", s)
			el := make([]fold.Val, n)
			for i := range el {
				el[i] = fold.Int{Lo: 0, Hi: 255, Name: fmt.Sprintf("p%d", i)}
			}
			return []fold.Val{fold.Ref{O: obj}, mm.NewBytes("p", el)}
		}, func(mm *fold.Machine, p *fold.Path) {
			s, _ := mm.Load(fold.Ref{O: obj}).(fold.Struct)
			if failedAt > 0 {
				// the first failure sticks: nothing more goes to the destination (the stream would have
				// a hole), and the error is kept and returned - a later write that succeeds must not
				// wipe it out
				ret, _ := p.Ret.(fold.Tuple)
				if writes != failedAt {
					problems = append(problems, fmt.Sprintf("fill=%d write=%d: destination write %d failed and %d more followed: the output has a hole", fill, n, failedAt, writes-failedAt))
				}
				if fold.Show(s.F[bErr]) != "dst-error" || len(ret) != 2 || c.errName(ret[1]) != "dst-error" {
					problems = append(problems, fmt.Sprintf("fill=%d write=%d: destination write %d failed, but the error kept is %s and the one returned %s", fill, n, failedAt, fold.Show(s.F[bErr]), fold.Show(p.Ret)))
				}
				return
			}
			kn, _ := s.F[bN].(fold.Int)
			held := laneNamesPlain(s.F[bBuf].(fold.Arr).E)
			var all []string
			for i := 0; i < fill; i++ {
				all = append(all, fmt.Sprintf("o%d", i))
			}
			for i := 0; i < n; i++ {
				all = append(all, fmt.Sprintf("p%d", i))
			}
			wantHeld := len(all)
			if wantHeld > 4 {
				wantHeld = 4
			}
			if !kn.IsConst() || int(kn.Const()) != wantHeld {
				problems = append(problems, fmt.Sprintf("fill=%d write=%d: %s bytes withheld, want %d", fill, n, fold.Show(kn), wantHeld))
				return
			}
			got := append(append([]string{}, forwarded...), held[:wantHeld]...)
			if strings.Join(got, ",") != strings.Join(all, ",") {
				problems = append(problems, fmt.Sprintf("fill=%d write=%d: forwarded+withheld = [%s], bytes written = [%s]", fill, n, strings.Join(got, ","), strings.Join(all, ",")))
			}
			ret, _ := p.Ret.(fold.Tuple)
			if len(ret) == 2 && fold.Show(ret[0]) != fmt.Sprint(n) {
				problems = append(problems, fmt.Sprintf("reports %s bytes accepted for a write of %d", fold.Show(ret[0]), n))
			}
		})
		for _, p := range ps {
			if p.Abort != "" {
				problems = append(problems, fmt.Sprintf("undecided: fill=%d write=%d: %s", fill, n, p.Abort))
			} else if p.Panic {
				problems = append(problems, fmt.Sprintf("fill=%d write=%d: panics: %s", fill, n, fold.Show(p.PanicV)))
			}
		}
		res[j] = problems
	})
	var problems []string
	for _, r := range res {
		problems = append(problems, r...)
	}
	c.R.AddCells(len(jobs))
	c.verdict(rule, rule+"/cbuf.Write", c.P.FuncPos(f), uniq(problems), fmt.Sprintf("%d (fill, length) pairs", len(jobs)))
}

func c12Writer(c *Ctx) {
	const rule = "C12.writer-tail-check"
	c.R.Rule(rule, 3, "wsflate.Writer tests its sticky error first; Flush and Close verify the withheld tail after running the compressor")
	wn := c.P.NamedType(wsflate, "Writer")
	cb := c.P.NamedType(wsflate, "cbuf")
	if wn == nil || cb == nil {
		c.R.Unknown(rule, rule+"/anchor", "-", "types do not resolve")
		return
	}
	st := structOf(wn)
	iC, iCbuf, iErr := fieldIdx(st, "c", typeIs(wsflate+".Compressor")), fieldIdx(st, "cbuf", typeIs(wsflate+".cbuf")), fieldIdx(st, "err", typeIs("error"))
	bBuf := fieldIdx(structOf(cb), "buf", typeIs("[4]byte"))
	if iC < 0 || iCbuf < 0 || iErr < 0 || bBuf < 0 {
		c.R.Unknown(rule, rule+"/anchor:fields", "-", "fields do not resolve")
		return
	}
	for _, name := range []string{"Write", "Flush", "Close"} {
		f := c.method(rule, wsflate, "Writer", name)
		if f == nil {
			continue
		}
		m := c.machine()
		m.Models["fmt.Errorf"] = func(cl *fold.Call) fold.Val { return fold.Sym{Name: "tail-error", NonNil: true} }
		m.Models["invoke:("+wsflate+".Compressor).Write"] = func(cl *fold.Call) fold.Val {
			cl.M.Emit(fold.Effect{Kind: "call", Name: "c.Write", Args: cl.Args})
			return fold.Tuple{fold.Int{Lo: 0, Hi: 1 << 30, Name: "n"}, errChoice(cl.M, "op.err", "op-error")}
		}
		m.Models["invoke:(io.Writer).Write"] = m.Models["invoke:("+wsflate+".Compressor).Write"]
		m.Models["invoke:("+wsflate+".Compressor).Flush"] = func(cl *fold.Call) fold.Val {
			cl.M.Emit(fold.Effect{Kind: "call", Name: "c.Flush", Args: cl.Args})
			return errChoice(cl.M, "op.err", "op-error")
		}
		m.Models["invoke:(io.Closer).Close"] = func(cl *fold.Call) fold.Val {
			cl.M.Emit(fold.Effect{Kind: "call", Name: "c.Close", Args: cl.Args})
			return errChoice(cl.M, "op.err", "op-error")
		}
		var obj *fold.Obj
		var problems []string
		ps := m.Explore(f, func(mm *fold.Machine) []fold.Val {
			s := fold.SymOfType("w", wn).(fold.Struct)
			s.F[iC] = fold.Iface{V: fold.Sym{Name: "compressor", NonNil: true}}
			if mm.Choose("sticky", 2) == 1 {
				s.F[iErr] = fold.Sym{Name: "sticky-error", NonNil: true}
			} else {
				s.F[iErr] = fold.Nil{}
			}
			cbv := s.F[iCbuf].(fold.Struct)
			if mm.Choose("tail-ok", 2) == 1 {
				cbv.F[bBuf] = fold.Arr{E: []fold.Val{fold.K(0), fold.K(0), fold.K(255), fold.K(255)}}
			} else {
				cbv.F[bBuf] = fold.Arr{E: []fold.Val{fold.K(0), fold.K(0), fold.K(255), fold.K(254)}}
			}
			obj = mm.NewObj("w", s)
			args := []fold.Val{fold.Ref{O: obj}}
			if name == "Write" {
				args = append(args, fold.SymSeq{Name: "p", Len: fold.Int{Lo: 0, Hi: 1 << 30, Name: "len(p)"}})
			}
			return args
		}, func(mm *fold.Machine, p *fold.Path) {
			var e string
			if t, ok := p.Ret.(fold.Tuple); ok {
				e = c.errName(t[len(t)-1])
			} else {
				e = c.errName(p.Ret)
			}
			stored := c.errName(mm.Load(fold.Ref{O: obj, Path: []int{iErr}}))
			ops := len(p.Calls("c.Write")) + len(p.Calls("c.Flush")) + len(p.Calls("c.Close"))
			closable := p.Chose("assert(compressor,io.Closer)") != 0
			if p.Chose("sticky") == 1 {
				if ops != 0 || e != "sticky-error" {
					problems = append(problems, name+" on a failed writer must return the error without touching the compressor")
				}
				return
			}
			if name == "Close" && !closable {
				// nothing to close: only the tail is checked
			} else if ops != 1 {
				problems = append(problems, fmt.Sprintf("%s runs %d compressor operations", name, ops))
				return
			}
			if p.Chose("op.err") > 0 {
				if e != "op-error" || stored != "op-error" {
					problems = append(problems, name+" must return and keep the compressor's error: ret="+e+" stored="+stored)
				}
				return
			}
			if name == "Write" {
				if e != "nil" {
					problems = append(problems, "Write returns "+e)
				}
				return
			}
			if p.Chose("tail-ok") == 1 {
				if e != "nil" || stored != "nil" {
					problems = append(problems, name+" with the required tail must succeed: "+e)
				}
			} else if e != "tail-error" || stored != "tail-error" {
				problems = append(problems, name+": a compressor that does not end the flush with 00 00 ff ff must be reported and the error kept; ret="+e+" stored="+stored)
			}
		})
		for _, p := range ps {
			if p.Abort != "" || p.Panic {
				problems = append(problems, "undecided: "+p.Abort+panicNote(p))
			}
		}
		c.verdict(rule, rule+"/"+name, c.P.FuncPos(f), uniq(problems), "sticky error first; compressor op; tail verified (Flush/Close)")
	}
}

func c12Suffixed(c *Ctx) {
	const rule = "C12.suffixed-reader"
	c.R.Rule(rule, 2, "suffixedReader.Read and ReadByte: source until EOF (swallowed once), then the 9 suffix bytes from the current position, then io.EOF")
	sr := c.P.NamedType(wsflate, "suffixedReader")
	if sr == nil {
		c.R.Unknown(rule, rule+"/anchor", "-", "type does not resolve")
		return
	}
	sst := structOf(sr)
	sR, sPos, sSuf := fieldIdx(sst, "r", typeIs("io.Reader")), fieldIdx(sst, "pos", typeIs("int")), fieldIdx(sst, "suffix", typeIs("[9]byte"))
	if sR < 0 || sPos < 0 || sSuf < 0 {
		c.R.Unknown(rule, rule+"/anchor:fields", "-", "fields do not resolve")
		return
	}
	suffix := func() fold.Arr {
		a := fold.Arr{E: make([]fold.Val, 9)}
		for i := range a.E {
			a.E[i] = fold.Int{Lo: 0, Hi: 255, Name: fmt.Sprintf("s%d", i)}
		}
		return a
	}
	for _, name := range []string{"Read", "ReadByte"} {
		f := c.method(rule, wsflate, "suffixedReader", name)
		if f == nil {
			continue
		}
		m := c.machine()
		srcModel := func(cl *fold.Call) fold.Val {
			cl.M.Emit(fold.Effect{Kind: "call", Name: "src", Args: cl.Args})
			e := errChoice(cl.M, "src.err", "global:io.EOF", "src-error")
			if name == "Read" {
				return fold.Tuple{fold.Int{Lo: 0, Hi: 1 << 20, Name: "n"}, e}
			}
			return fold.Tuple{fold.Int{Lo: 0, Hi: 255, Name: "b"}, e}
		}
		m.Models["invoke:(io.Reader).Read"] = srcModel
		m.Models["invoke:(io.ByteReader).ReadByte"] = srcModel
		var obj *fold.Obj
		var problems []string
		sizes := []int{0, 1, 4, 16}
		ps := m.Explore(f, func(mm *fold.Machine) []fold.Val {
			s := fold.SymOfType("r", sr).(fold.Struct)
			if mm.Choose("source-left", 2) == 1 {
				s.F[sR] = fold.Iface{V: fold.Sym{Name: "source", NonNil: true}}
			} else {
				s.F[sR] = fold.Nil{}
			}
			s.F[sPos] = fold.K(int64(mm.Choose("pos", 11)))
			s.F[sSuf] = suffix()
			obj = mm.NewObj("r", s)
			args := []fold.Val{fold.Ref{O: obj}}
			if name == "Read" {
				n := sizes[mm.Choose("size", len(sizes))]
				el := make([]fold.Val, n)
				for i := range el {
					el[i] = fold.K(0)
				}
				args = append(args, mm.NewBytes("p", el))
			}
			return args
		}, func(mm *fold.Machine, p *fold.Path) {
			ret, _ := p.Ret.(fold.Tuple)
			if len(ret) != 2 {
				return
			}
			e := c.errName(ret[1])
			s, _ := mm.Load(fold.Ref{O: obj}).(fold.Struct)
			pos := p.Chose("pos")
			if p.Chose("source-left") == 1 {
				if p.Chose("assert(source,io.ByteReader)") == 0 && name == "ReadByte" {
					return // documented internal error: ReadByte without a ByteReader source
				}
				if len(p.Calls("src")) != 1 {
					problems = append(problems, name+" does not read the source while it lasts")
					return
				}
				switch p.Chose("src.err") {
				case 1:
					if e != "nil" || fold.Show(s.F[sR]) != "nil" {
						problems = append(problems, name+": the source's EOF must be swallowed and the source dropped, got err="+e+" r="+fold.Show(s.F[sR]))
					}
				case 2:
					if e != "src-error" {
						problems = append(problems, name+" loses the source's error")
					}
				default:
					if e != "nil" || fold.Show(s.F[sR]) == "nil" {
						problems = append(problems, name+" must pass source data through")
					}
				}
				if fold.Show(s.F[sPos]) != fmt.Sprint(pos) {
					problems = append(problems, name+" moves the suffix position while the source lasts")
				}
				return
			}
			if pos >= 9 {
				if e != "global:io.EOF" {
					problems = append(problems, fmt.Sprintf("%s at suffix position %d must return io.EOF, got %s", name, pos, e))
				}
				return
			}
			if e != "nil" {
				problems = append(problems, fmt.Sprintf("%s at suffix position %d returns %s", name, pos, e))
				return
			}
			if name == "ReadByte" {
				if intName(ret[0]) != fmt.Sprintf("s%d", pos) || fold.Show(s.F[sPos]) != fmt.Sprint(pos+1) {
					problems = append(problems, fmt.Sprintf("ReadByte at position %d yields %s and moves to %s", pos, fold.Show(ret[0]), fold.Show(s.F[sPos])))
				}
				return
			}
			size := sizes[p.Chose("size")]
			want := 9 - pos
			if size < want {
				want = size
			}
			if fold.Show(ret[0]) != fmt.Sprint(want) || fold.Show(s.F[sPos]) != fmt.Sprint(pos+want) {
				problems = append(problems, fmt.Sprintf("Read(%d bytes) at position %d returns %s and moves to %s, want %d", size, pos, fold.Show(ret[0]), fold.Show(s.F[sPos]), want))
			}
		})
		for _, p := range ps {
			if p.Abort != "" {
				problems = append(problems, "undecided: "+p.Abort)
			} else if p.Panic && !(name == "ReadByte" && p.Chose("assert(source,io.ByteReader)") == 0) {
				problems = append(problems, name+" panics: "+fold.Show(p.PanicV))
			}
		}
		c.R.AddCells(len(ps))
		c.verdict(rule, rule+"/"+name, c.P.FuncPos(f), uniq(problems), fmt.Sprintf("%d paths", len(ps)))
	}
}

func c12Helpers(c *Ctx) {
	const rule = "C12.frame-helpers"
	c.R.Rule(rule, 3, "Compress/DecompressFrameBuffer refuse non-final frames before writing, take payload and length from the same buf.Bytes(), set/clear the bit through SetBit/UnsetBit; CompressTo is Write, Flush, Close with every error returned")
	if !c.headerLayoutOK(rule) {
		return
	}
	frame := func(fin bool, rsv int64) fold.Struct {
		h := headerVal(fin, rsv, 1, false, nil, fold.Int{Lo: 0, Hi: bigLen(), Name: "Length"})
		return fold.Struct{F: []fold.Val{h, fold.SymSeq{Name: "payload", Len: fold.Int{Lo: 0, Hi: 1 << 30, Name: "len(payload)"}}}}
	}
	for _, name := range []string{"CompressFrameBuffer", "DecompressFrameBuffer"} {
		f := c.method(rule, wsflate, "Helper", name)
		if f == nil {
			continue
		}
		m := c.machine()
		m.Models["fmt.Errorf"] = func(cl *fold.Call) fold.Val { return fold.Sym{Name: "refused", NonNil: true} }
		m.Models["(*"+wsflate+".Helper).CompressTo"] = func(cl *fold.Call) fold.Val {
			cl.M.Emit(fold.Effect{Kind: "call", Name: "To", Args: cl.Args[1:]})
			return errChoice(cl.M, "to.err", "to-error")
		}
		m.Models["(*"+wsflate+".Helper).DecompressTo"] = m.Models["(*"+wsflate+".Helper).CompressTo"]
		m.Models["invoke:("+wsflate+".Buffer).Bytes"] = func(cl *fold.Call) fold.Val {
			cl.M.Emit(fold.Effect{Kind: "call", Name: "Bytes", Args: cl.Args})
			return fold.SymSeq{Name: fmt.Sprintf("bytes#%d", cl.Seq), Len: fold.Int{Lo: 0, Hi: 1 << 30, Name: fmt.Sprintf("len(bytes#%d)", cl.Seq)}}
		}
		var problems []string
		ps := m.Explore(f, func(mm *fold.Machine) []fold.Val {
			fin := mm.Choose("fin", 2) == 1
			rsv := int64(mm.Choose("rsv1", 2) * 4)
			return []fold.Val{fold.Ref{O: mm.NewObj("helper", fold.Sym{Name: "helper"})}, fold.Iface{V: fold.Sym{Name: "buf", NonNil: true}}, frame(fin, rsv)}
		}, func(mm *fold.Machine, p *fold.Path) {
			ret, _ := p.Ret.(fold.Tuple)
			if len(ret) != 2 {
				return
			}
			e := c.errName(ret[1])
			fr, _ := ret[0].(fold.Struct)
			if len(fr.F) != 2 {
				problems = append(problems, "result is not a frame")
				return
			}
			h, _ := fr.F[0].(fold.Struct)
			fin, rsv1 := p.Chose("fin") == 1, p.Chose("rsv1") == 1
			to := p.Calls("To")
			if !fin {
				if e != "refused" || len(to)+len(p.Calls("Bytes")) != 0 {
					problems = append(problems, name+": a non-final frame must be refused before anything is written: "+e)
				}
				return
			}
			if name == "DecompressFrameBuffer" && !rsv1 {
				if e != "nil" || len(to) != 0 || fold.Show(fr.F[1]) != "payload" || intName(h.F[5]) != "Length" || fold.Show(h.F[1]) != "0" {
					problems = append(problems, "an uncompressed frame must be returned unchanged")
				}
				return
			}
			if name == "CompressFrameBuffer" && rsv1 {
				// SetBit refuses a header that already has RSV1
				if len(to) == 1 && p.Chose("to.err") == 0 && e == "nil" {
					problems = append(problems, "a frame that already carries RSV1 is compressed again without error")
				}
				return
			}
			if len(to) != 1 || !strings.Contains(fold.Show(to[0].Args[0]), "buf") || fold.Show(to[0].Args[1]) != "payload" {
				problems = append(problems, name+": the payload is not (de)compressed into buf exactly once")
				return
			}
			if p.Chose("to.err") > 0 {
				if e != "to-error" {
					problems = append(problems, name+" loses the (de)compression error")
				}
				return
			}
			if e != "nil" {
				problems = append(problems, name+" returns "+e)
				return
			}
			pn := fold.Show(fr.F[1])
			if !strings.HasPrefix(pn, "bytes#") || intName(h.F[5]) != "len("+pn+")" {
				problems = append(problems, fmt.Sprintf("%s: payload is %s but Header.Length is %s: both must come from the same buf.Bytes()", name, pn, fold.Show(h.F[5])))
			}
			wantRsv := "4"
			if name == "DecompressFrameBuffer" {
				wantRsv = "0"
			}
			if fold.Show(h.F[1]) != wantRsv {
				problems = append(problems, name+": RSV after the helper is "+fold.Show(h.F[1])+", want "+wantRsv)
			}
		})
		for _, p := range ps {
			if p.Abort != "" || p.Panic {
				problems = append(problems, "undecided: "+p.Abort+panicNote(p))
			}
		}
		c.verdict(rule, rule+"/"+name, c.P.FuncPos(f), uniq(problems), "refuse non-final; one (de)compression; payload+length from one Bytes(); bit through SetBit/UnsetBit")
	}
	if f := c.method(rule, wsflate, "Helper", "CompressTo"); f != nil {
		m := c.machine()
		op := func(n string) fold.Model {
			return func(cl *fold.Call) fold.Val {
				cl.M.Emit(fold.Effect{Kind: "call", Name: n, Args: cl.Args})
				e := errChoice(cl.M, n+".err", n+"-error")
				if n == "Write" {
					return fold.Tuple{fold.Int{Lo: 0, Hi: 1 << 30}, e}
				}
				return e
			}
		}
		m.Models[wsflate+".NewWriter"] = func(cl *fold.Call) fold.Val {
			cl.M.Emit(fold.Effect{Kind: "call", Name: "NewWriter", Args: cl.Args})
			return fold.Ref{O: cl.M.NewObj("fw", fold.Sym{Name: "fw"})}
		}
		m.Models["(*"+wsflate+".Writer).Write"] = op("Write")
		m.Models["(*"+wsflate+".Writer).Flush"] = op("Flush")
		m.Models["(*"+wsflate+".Writer).Close"] = op("Close")
		var problems []string
		ps := m.Explore(f, func(mm *fold.Machine) []fold.Val {
			hn := c.P.NamedType(wsflate, "Helper")
			return []fold.Val{fold.Ref{O: mm.NewObj("helper", fold.SymOfType("h", hn))}, fold.Iface{V: fold.Sym{Name: "w", NonNil: true}}, fold.SymSeq{Name: "p", Len: fold.Int{Lo: 0, Hi: 1 << 30, Name: "len(p)"}}}
		}, func(mm *fold.Machine, p *fold.Path) {
			var seq []string
			for _, e := range p.Effects {
				if e.Kind == "call" {
					seq = append(seq, e.Name)
				}
			}
			want := []string{"NewWriter", "Write", "Flush", "Close"}
			wantErr := "nil"
			for i, n := range want[1:] {
				if p.Chose(n+".err") > 0 {
					want = want[:i+2]
					wantErr = n + "-error"
					break
				}
			}
			if strings.Join(seq, ",") != strings.Join(want, ",") || c.errName(p.Ret) != wantErr {
				problems = append(problems, fmt.Sprintf("CompressTo does [%s] -> %s, want [%s] -> %s", strings.Join(seq, ","), c.errName(p.Ret), strings.Join(want, ","), wantErr))
			}
			if w := p.Calls("Write"); len(w) == 1 && fold.Show(w[0].Args[1]) != "p" {
				problems = append(problems, "CompressTo does not write p")
			}
			if nw := p.Calls("NewWriter"); len(nw) == 1 && !strings.Contains(fold.Show(nw[0].Args[0]), ":w)") {
				problems = append(problems, "CompressTo does not compress into w")
			}
		})
		for _, p := range ps {
			if p.Abort != "" || p.Panic {
				problems = append(problems, "undecided: "+p.Abort+panicNote(p))
			}
		}
		c.verdict(rule, rule+"/CompressTo", c.P.FuncPos(f), uniq(problems), "NewWriter(w); Write(p); Flush; Close; first error returned")
	}
}

// c12HelperSiblings: the allocating helpers and the package-level shortcuts are their buffer
// taking siblings and nothing else - on every path exactly one call of the sibling, with the
// caller's frame, whose results are handed back (a fast path in one sibling that skips what the
// other one checks makes the two disagree); DecompressTo is NewReader(bytes.NewReader(p)),
// one library copy into w (which hands on the bytes that arrive together with io.EOF), Close.
func c12HelperSiblings(c *Ctx) {
	const rule = "C12.helper-siblings"
	c.R.Rule(rule, 7, "the allocating helpers / package shortcuts delegate to their *Buffer / *To sibling exactly once and return its results; DecompressTo is NewReader, one io.Copy, Close with every error returned")
	if !c.headerLayoutOK(rule) {
		return
	}
	frame := func(fin bool, rsv int64) fold.Struct {
		h := headerVal(fin, rsv, 1, false, nil, fold.Int{Lo: 0, Hi: bigLen(), Name: "Length"})
		return fold.Struct{F: []fold.Val{h, fold.SymSeq{Name: "payload", Len: fold.Int{Lo: 0, Hi: 1 << 30, Name: "len(payload)"}}}}
	}
	type deleg struct {
		method bool
		name   string
		callee string
	}
	H := "(*" + wsflate + ".Helper)."
	for _, d := range []deleg{
		{true, "CompressFrame", H + "CompressFrameBuffer"}, {true, "DecompressFrame", H + "DecompressFrameBuffer"},
		{false, "CompressFrame", H + "CompressFrame"}, {false, "DecompressFrame", H + "DecompressFrame"},
		{false, "CompressFrameBuffer", H + "CompressFrameBuffer"}, {false, "DecompressFrameBuffer", H + "DecompressFrameBuffer"},
	} {
		var f *ssa.Function
		key := rule + "/" + d.name
		if d.method {
			f = c.method(rule, wsflate, "Helper", d.name)
			key = rule + "/Helper." + d.name
		} else {
			f = c.fn(rule, wsflate, d.name)
		}
		if f == nil {
			continue
		}
		m := c.machine()
		m.Models[d.callee] = func(cl *fold.Call) fold.Val {
			cl.M.Emit(fold.Effect{Kind: "call", Name: "sibling", Args: cl.Args[1:]})
			return fold.Tuple{fold.Sym{Name: "sibling-frame"}, errChoice(cl.M, "sib.err", "sibling-error")}
		}
		var problems []string
		ps := m.Explore(f, func(mm *fold.Machine) []fold.Val {
			fin := mm.Choose("fin", 2) == 1
			rsv := int64(mm.Choose("rsv1", 2) * 4)
			var args []fold.Val
			if d.method {
				args = append(args, fold.Ref{O: mm.NewObj("helper", fold.Sym{Name: "helper"})})
			}
			if len(f.Params)-len(args) == 2 {
				args = append(args, fold.Iface{V: fold.Sym{Name: "buf", NonNil: true}})
			}
			return append(args, frame(fin, rsv))
		}, func(mm *fold.Machine, p *fold.Path) {
			desc := "[" + p.ChoiceString() + "]"
			sib := p.Calls("sibling")
			if len(sib) != 1 {
				problems = append(problems, fmt.Sprintf("%d calls of %s on a path, want exactly one (a shortcut that answers for the sibling skips what the sibling checks) %s", len(sib), d.callee, desc))
				return
			}
			fa, _ := sib[0].Args[len(sib[0].Args)-1].(fold.Struct)
			if len(fa.F) != 2 || fold.Show(fa.F[1]) != "payload" || fold.Show(fa.F[0]) != fold.Show(frame(p.Chose("fin") == 1, int64(p.Chose("rsv1")*4)).F[0]) {
				problems = append(problems, "the sibling is not given the caller's frame "+desc)
			}
			if !d.method && len(f.Params) == 2 && len(sib[0].Args) == 2 && nameOf(sib[0].Args[0]) != "buf" {
				problems = append(problems, "the sibling is not given the caller's buffer "+desc)
			}
			ret, _ := p.Ret.(fold.Tuple)
			wantE := "nil"
			if p.Chose("sib.err") > 0 {
				wantE = "sibling-error"
			}
			if len(ret) != 2 || fold.Show(ret[0]) != "sibling-frame" || c.errName(ret[1]) != wantE {
				problems = append(problems, "the sibling's results are not what is returned "+desc)
			}
		})
		for _, p := range ps {
			if p.Abort != "" || p.Panic {
				problems = append(problems, "undecided: "+p.Abort+panicNote(p))
			}
		}
		c.R.AddCells(len(ps))
		c.verdict(rule, key, c.P.FuncPos(f), uniq(problems), fmt.Sprintf("%d paths: one call of %s with the caller's frame, results returned", len(ps), d.callee))
	}
	if f := c.method(rule, wsflate, "Helper", "DecompressTo"); f != nil {
		m := c.machine()
		op := func(n string) fold.Model {
			return func(cl *fold.Call) fold.Val {
				cl.M.Emit(fold.Effect{Kind: "call", Name: n, Args: cl.Args})
				e := errChoice(cl.M, n+".err", n+"-error")
				if n == "Copy" {
					return fold.Tuple{fold.Int{Lo: 0, Hi: fold.MaxInt64, Name: "copied"}, e}
				}
				return e
			}
		}
		m.Models[wsflate+".NewReader"] = func(cl *fold.Call) fold.Val {
			cl.M.Emit(fold.Effect{Kind: "call", Name: "NewReader", Args: cl.Args})
			return fold.Ref{O: cl.M.NewObj("fr", fold.Sym{Name: "fr"})}
		}
		m.Models["bytes.NewReader"] = func(cl *fold.Call) fold.Val {
			return fold.Ref{O: cl.M.NewObj("bytesreader", fold.Sym{Name: "bytes.NewReader(" + fold.Show(cl.Args[0]) + ")"})}
		}
		m.Models["io.Copy"] = op("Copy")
		m.Models["io.CopyBuffer"] = op("Copy") // same contract, caller's scratch buffer
		m.Models["(*"+wsflate+".Reader).Close"] = op("Close")
		var problems []string
		ps := m.Explore(f, func(mm *fold.Machine) []fold.Val {
			hn := c.P.NamedType(wsflate, "Helper")
			return []fold.Val{fold.Ref{O: mm.NewObj("helper", fold.SymOfType("h", hn))}, fold.Iface{V: fold.Sym{Name: "w", NonNil: true}}, fold.SymSeq{Name: "p", Len: fold.Int{Lo: 0, Hi: 1 << 30, Name: "len(p)"}}}
		}, func(mm *fold.Machine, p *fold.Path) {
			var seq []string
			for _, e := range p.Effects {
				if e.Kind == "call" {
					seq = append(seq, e.Name)
				}
			}
			want := []string{"NewReader", "Copy", "Close"}
			wantErr := "nil"
			for i, n := range want[1:] {
				if p.Chose(n+".err") > 0 {
					want = want[:i+2]
					wantErr = n + "-error"
					break
				}
			}
			if strings.Join(seq, ",") != strings.Join(want, ",") || c.errName(p.Ret) != wantErr {
				problems = append(problems, fmt.Sprintf("DecompressTo does [%s] -> %s, want [%s] -> %s", strings.Join(seq, ","), c.errName(p.Ret), strings.Join(want, ","), wantErr))
			}
			if cp := p.Calls("Copy"); len(cp) == 1 && (!strings.Contains(fold.Show(cp[0].Args[0]), ":w)") || !strings.Contains(fold.Show(cp[0].Args[1]), "fr")) {
				problems = append(problems, "DecompressTo does not copy the decompressing reader into w")
			}
			if nr := p.Calls("NewReader"); len(nr) == 1 && !strings.Contains(fold.Show(mm.Load(derefArg(nr[0].Args[0]))), "bytes.NewReader(p)") {
				problems = append(problems, "DecompressTo does not decompress p")
			}
		})
		for _, p := range ps {
			if p.Abort != "" || p.Panic {
				problems = append(problems, "undecided: "+p.Abort+panicNote(p))
			}
		}
		c.R.AddCells(len(ps))
		c.verdict(rule, rule+"/DecompressTo", c.P.FuncPos(f), uniq(problems), "NewReader(bytes.NewReader(p)); io.Copy(w, reader); Close; first error returned")
	}
}

// derefArg returns the reference inside an interface or pointer argument.
func derefArg(v fold.Val) fold.Ref {
	if i, ok := v.(fold.Iface); ok {
		v = i.V
	}
	r, _ := v.(fold.Ref)
	return r
}

// c12ReaderRead folds wsflate.(*Reader).Read: without a sticky error it hands
// on exactly what the decompressor returned - the count together with the
// error (flate returns the last bytes of a stream in the same call as io.EOF) -
// and with a sticky error it returns that error and touches nothing.
func c12ReaderRead(c *Ctx) {
	const rule = "C12.reader-read"
	c.R.Rule(rule, 1, "wsflate.Reader.Read returns the decompressor's (n, err) unchanged; a sticky error is returned without reading")
	rn := c.P.NamedType(wsflate, "Reader")
	f := c.method(rule, wsflate, "Reader", "Read")
	if rn == nil || f == nil {
		return
	}
	st := structOf(rn)
	iD, iErr := fieldIdx(st, "d", typeIs(wsflate+".Decompressor")), fieldIdx(st, "err", typeIs("error"))
	if iD < 0 || iErr < 0 {
		c.R.Unknown(rule, rule+"/anchor:wsflate.Reader.fields", "-", "fields do not resolve")
		return
	}
	m := c.machine()
	m.OpaqueOK = true
	reads := 0
	m.Models["invoke:(io.Reader).Read"] = func(cl *fold.Call) fold.Val {
		reads++
		cl.M.Emit(fold.Effect{Kind: "call", Name: "d.Read", Args: cl.Args})
		n := fold.Int{Lo: 0, Hi: 1 << 20, Name: "dn"}
		return fold.Tuple{n, errChoice(cl.M, "d.err", "flate-error", "global:io.EOF")}
	}
	m.Models["invoke:("+wsflate+".Decompressor).Read"] = m.Models["invoke:(io.Reader).Read"]
	var problems []string
	ps := m.Explore(f, func(mm *fold.Machine) []fold.Val {
		reads = 0
		s := fold.SymOfType("r", rn).(fold.Struct)
		s.F[iD] = fold.Iface{V: fold.Sym{Name: "decompressor", NonNil: true}}
		if mm.Choose("sticky", 2) == 1 {
			s.F[iErr] = fold.Sym{Name: "sticky-error", NonNil: true}
		} else {
			s.F[iErr] = fold.Nil{}
		}
		return []fold.Val{fold.Ref{O: mm.NewObj("r", s)}, fold.SymSeq{Name: "p", Len: fold.Int{Lo: 0, Hi: 1 << 20, Name: "len(p)"}}}
	}, func(mm *fold.Machine, p *fold.Path) {
		ret, _ := p.Ret.(fold.Tuple)
		if len(ret) != 2 {
			problems = append(problems, "unexpected result shape")
			return
		}
		n, e := fold.Show(ret[0]), c.errName(ret[1])
		if p.Chose("sticky") == 1 {
			if reads != 0 || n != "0" || e != "sticky-error" {
				problems = append(problems, fmt.Sprintf("with a sticky error Read returns (%s, %s) after %d reads of the decompressor, want (0, sticky-error) and none", n, e, reads))
			}
			return
		}
		want := []string{"nil", "flate-error", "global:io.EOF"}[maxInt(p.Chose("d.err"), 0)]
		if reads != 1 {
			problems = append(problems, fmt.Sprintf("Read asks the decompressor %d times", reads))
		} else if !strings.Contains(n, "dn") || e != want {
			problems = append(problems, fmt.Sprintf("the decompressor returned (dn, %s), Read returns (%s, %s): bytes delivered together with an error - the last chunk before io.EOF - are lost", want, n, e))
		}
	})
	for _, p := range ps {
		if p.Abort != "" || p.Panic {
			problems = append(problems, "undecided: "+p.Abort+panicNote(p))
		}
	}
	c.R.AddCells(len(ps))
	c.verdict(rule, rule+"/Reader.Read", c.P.FuncPos(f), uniq(problems), fmt.Sprintf("%d paths", len(ps)))
}

func maxInt(a, b int) int {
	if a > b {
		return a
	}
	return b
}
