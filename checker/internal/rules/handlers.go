package rules

import (
	"fmt"
	"regexp"
	"strings"

	"golang.org/x/tools/go/ssa"

	"verif/wscheck/internal/fold"
)

type handlerIn struct {
	client     bool
	noCipher   bool
	lenCell    fold.Int
	extraState int64
}

func (h handlerIn) String() string {
	return fmt.Sprintf("client=%v DisableSrcCiphering=%v Length=%s", h.client, h.noCipher, fold.Show(h.lenCell))
}

// handlerMachine builds the machine shared by the three handlers.
func (c *Ctx) handlerMachine() *fold.Machine {
	m := c.machine()
	addWriterLeafModels(m)
	m.Models[ws+".WriteHeader"] = func(cl *fold.Call) fold.Val {
		cl.M.Emit(fold.Effect{Kind: "call", Name: "WriteHeader", Args: cl.Args})
		return errChoice(cl.M, "writeheader.err", "writeheader-error")
	}
	m.Models[ws+".WriteFrame"] = func(cl *fold.Call) fold.Val {
		cl.M.Emit(fold.Effect{Kind: "call", Name: "WriteFrame", Args: cl.Args})
		return errChoice(cl.M, "writeframe.err", "writeframe-error")
	}
	m.Models[wsutil+".NewControlWriterBuffer"] = func(cl *fold.Call) fold.Val {
		cl.M.Emit(fold.Effect{Kind: "call", Name: "NewControlWriterBuffer", Args: cl.Args})
		return fold.Ref{O: cl.M.NewObj("cw", fold.Sym{Name: "cw"})}
	}
	m.Models[wsutil+".NewControlWriter"] = func(cl *fold.Call) fold.Val {
		cl.M.Emit(fold.Effect{Kind: "call", Name: "NewControlWriter", Args: cl.Args})
		return fold.Ref{O: cl.M.NewObj("cw", fold.Sym{Name: "cw"})}
	}
	m.Models["(*"+wsutil+".ControlWriter).Write"] = func(cl *fold.Call) fold.Val {
		cl.M.Emit(fold.Effect{Kind: "call", Name: "cw.Write", Args: cl.Args})
		if cl.M.Choose("cwwrite.err", 2) == 1 {
			return fold.Tuple{fold.K(0), fold.Sym{Name: "cwwrite-error", NonNil: true}}
		}
		return fold.Tuple{fold.LenOf(cl.Args[1]), fold.Nil{}}
	}
	m.Models["(*"+wsutil+".ControlWriter).Flush"] = func(cl *fold.Call) fold.Val {
		cl.M.Emit(fold.Effect{Kind: "call", Name: "cw.Flush", Args: cl.Args})
		return errChoice(cl.M, "cwflush.err", "cwflush-error")
	}
	copyModel := func(name string, srcIdx int, bounded func(cl *fold.Call) string) fold.Model {
		return func(cl *fold.Call) fold.Val {
			cl.M.Emit(fold.Effect{Kind: "call", Name: name, Args: cl.Args, Note: bounded(cl)})
			// the copy fails with an error of the source / destination, or (CopyN) with io.EOF when the
			// source ends before the announced length
			return fold.Tuple{fold.Int{Lo: 0, Hi: fold.MaxInt64, Name: fmt.Sprintf("copied#%d", cl.Seq)}, errChoice(cl.M, "copy.err", "copy-error", "global:io.EOF")}
		}
	}
	none := func(cl *fold.Call) string { return "" }
	m.Models["io.Copy"] = copyModel("io.Copy", 1, none)
	m.Models["io.CopyBuffer"] = copyModel("io.CopyBuffer", 1, none)
	m.Models["io.CopyN"] = copyModel("io.CopyN", 1, func(cl *fold.Call) string { return "limit=" + intName(cl.Args[2]) })
	m.Models["io.ReadFull"] = func(cl *fold.Call) fold.Val {
		cl.M.Emit(fold.Effect{Kind: "call", Name: "io.ReadFull", Args: cl.Args})
		return fold.Tuple{fold.Int{Lo: 0, Hi: fold.MaxInt64}, errChoice(cl.M, "readfull.err", "readfull-error")}
	}
	m.Models["io.LimitReader"] = func(cl *fold.Call) fold.Val {
		return fold.Iface{V: fold.Sym{Name: "limit(" + fold.Show(cl.Args[0]) + "," + intName(cl.Args[1]) + ")", NonNil: true}}
	}
	m.Models[ws+".CheckCloseFrameData"] = func(cl *fold.Call) fold.Val {
		cl.M.Emit(fold.Effect{Kind: "call", Name: "CheckCloseFrameData", Args: cl.Args})
		return errChoice(cl.M, "closecheck.err", "closecheck-error")
	}
	m.Models["invoke:(error).Error"] = func(cl *fold.Call) fold.Val {
		l := fold.Int{Lo: 0, Hi: 1 << 20, Name: "len(errtext)"}
		if c.errTextLen != nil {
			l = *c.errTextLen
		}
		return fold.SymSeq{Name: "errtext", Len: l, IsStr: true}
	}
	addBinaryModels(m)
	return m
}

func controlHandlerVal(c *Ctx, rule string, in handlerIn) (fold.Struct, bool) {
	n := c.P.NamedType(wsutil, "ControlHandler")
	st := structOf(n)
	if st == nil {
		c.R.Unknown(rule, rule+"/anchor:wsutil.ControlHandler", "-", "type does not resolve")
		return fold.Struct{}, false
	}
	iSrc, iDst, iState, iDis := fieldIdx(st, "Src", nil), fieldIdx(st, "Dst", nil), fieldIdx(st, "State", nil), fieldIdx(st, "DisableSrcCiphering", nil)
	if iSrc < 0 || iDst < 0 || iState < 0 || iDis < 0 {
		c.R.Unknown(rule, rule+"/anchor:wsutil.ControlHandler.fields", "-", "fields do not resolve")
		return fold.Struct{}, false
	}
	v := fold.SymOfType("c", n).(fold.Struct)
	v.F[iSrc] = fold.Iface{V: fold.Sym{Name: "Src", NonNil: true}}
	v.F[iDst] = fold.Iface{V: fold.Sym{Name: "Dst", NonNil: true}}
	s := int64(1)
	if in.client {
		s = 2
	}
	v.F[iState] = fold.K(s | in.extraState)
	v.F[iDis] = fold.Bool(in.noCipher)
	return v, true
}

func maskLanes() fold.Arr {
	return fold.Arr{E: []fold.Val{fold.Int{Lo: 0, Hi: 255, Name: "m0"}, fold.Int{Lo: 0, Hi: 255, Name: "m1"}, fold.Int{Lo: 0, Hi: 255, Name: "m2"}, fold.Int{Lo: 0, Hi: 255, Name: "m3"}}}
}

// srcOf unwraps a reader value and tells whether it is the handler's Src,
// unmasked with the frame's key, limited to the announced length.
type srcInfo struct {
	isSrc, ciphered, limited bool
	desc                     string
}

func (c *Ctx) srcOf(mm *fold.Machine, v fold.Val, L *readerLayout) srcInfo {
	info := srcInfo{desc: fold.Show(v)}
	for depth := 0; depth < 4; depth++ {
		if i, ok := v.(fold.Iface); ok {
			v = i.V
		}
		switch x := v.(type) {
		case fold.Sym:
			if x.Name == "Src" {
				info.isSrc = true
				return info
			}
			if strings.HasPrefix(x.Name, "limit(") {
				info.limited = strings.HasSuffix(x.Name, ",Length)")
				inner := strings.TrimPrefix(x.Name, "limit(")
				if strings.HasPrefix(inner, "Src,") || strings.HasPrefix(inner, "iface(<nil>:Src)") || strings.Contains(inner, ":Src)") {
					info.isSrc = true
				}
				if strings.Contains(inner, "cipherreader") || strings.Contains(inner, "CipherReader") {
					info.ciphered = true
					info.isSrc = true
				}
				return info
			}
			return info
		case fold.Ref:
			// a *CipherReader built by NewCipherReader
			cr, ok := mm.Load(fold.Ref{O: x.O}).(fold.Struct)
			if !ok || len(cr.F) != 3 {
				return info
			}
			if a, ok := cr.F[L.crMask].(fold.Arr); ok && strings.Join(laneNamesPlain(a.E), "") == "m0m1m2m3" && fold.Show(cr.F[L.crPos]) == "0" {
				info.ciphered = true
			}
			v = cr.F[L.crR]
		default:
			return info
		}
	}
	return info
}

func handlerRules(c *Ctx, prop string) {
	L := c.readerLayout(prop + ".handler")
	if L == nil {
		return
	}
	lengthDom := func() *fold.IntDom { return &fold.IntDom{Name: "Length", Lo: 0, Hi: fold.MaxInt64, Cuts: []int64{1}} }
	type rec struct {
		in  handlerIn
		p   *fold.Path
		src map[int]srcInfo // effect index -> source info of reading calls
	}
	run := func(rule, name string) ([]rec, *ssa.Function, bool) {
		f := c.method(rule, wsutil, "ControlHandler", name)
		if f == nil {
			return nil, nil, false
		}
		m := c.handlerMachine()
		var in handlerIn
		var out []rec
		dom := lengthDom()
		edom := &fold.IntDom{Name: "len(errtext)", Lo: 0, Hi: 1 << 20}
		doms := []*fold.IntDom{dom}
		if name == "HandleClose" {
			doms = append(doms, edom)
		}
		defer func() { c.errTextLen = nil }()
		paths, err := m.ExploreCells(f, doms, func(mm *fold.Machine, cells []fold.Int) []fold.Val {
			if len(cells) > 1 {
				l := cells[1]
				c.errTextLen = &l
			}
			in = handlerIn{client: mm.Choose("client", 2) == 1, noCipher: mm.Choose("nocipher", 2) == 1, lenCell: cells[0]}
			cv, _ := controlHandlerVal(c, rule, in)
			op := map[string]int64{"HandlePing": 9, "HandlePong": 10, "HandleClose": 8}[name]
			return []fold.Val{cv, headerVal(true, 0, op, !in.client, maskLanes(), cells[0])}
		}, func(mm *fold.Machine, cells []fold.Int, p *fold.Path) {
			r := rec{in: in, p: p, src: map[int]srcInfo{}}
			for i, e := range p.Effects {
				if e.Kind != "call" {
					continue
				}
				switch e.Name {
				case "io.Copy", "io.CopyBuffer", "io.CopyN":
					r.src[i] = c.srcOf(mm, e.Args[1], L)
				case "io.ReadFull":
					r.src[i] = c.srcOf(mm, e.Args[0], L)
				}
			}
			out = append(out, r)
		})
		ok := true
		if err != nil {
			c.R.Unknown(rule, rule+"/"+name, c.P.FuncPos(f), "fold failed: "+err.Error())
			ok = false
		}
		c.R.AddCells(len(paths))
		final := map[*fold.Path]bool{}
		for _, p := range paths {
			final[p.Path] = true
		}
		var fin []rec
		for _, r := range out {
			if final[r.p] {
				fin = append(fin, r)
			}
		}
		for _, p := range paths {
			if p.Abort != "" {
				fin = append(fin, rec{in: handlerIn{lenCell: p.Cells[0]}, p: p.Path})
			}
		}
		return fin, f, ok
	}
	// shared checks on a record: allocation bounded, reads bounded
	common := func(r rec, problems *[]string) {
		for _, e := range r.p.Effects {
			if e.Kind == "call" && e.Name == "pool.Get" {
				sz, _ := e.Args[0].(fold.Int)
				if sz.Top || sz.Hi > 125+14 {
					*problems = append(*problems, fmt.Sprintf("allocation sized by the announced length without a bound: pool.Get(%s) [%s]", fold.Show(sz), r.in))
				}
			}
			if e.Kind == "alloc" {
				sz, _ := e.Args[0].(fold.Int)
				if sz.Top || sz.Hi > 125+14 {
					*problems = append(*problems, fmt.Sprintf("allocation sized by the announced length without a bound: make(%s) [%s]", fold.Show(sz), r.in))
				}
			}
			if e.Kind == "bounds" && e.Note != "proven" {
				*problems = append(*problems, "index or slice not proven in range: "+e.String()+" ["+r.in.String()+"]")
			}
		}
		if r.p.Panic {
			*problems = append(*problems, "handler panics: "+fold.Show(r.p.PanicV)+" ["+r.in.String()+"]")
		}
	}
	readsBounded := func(r rec, problems *[]string, what string) {
		for i, e := range r.p.Effects {
			si, ok := r.src[i]
			if !ok {
				continue
			}
			bounded := false
			switch e.Name {
			case "io.CopyN":
				bounded = e.Note == "limit=Length"
			case "io.ReadFull":
				l := fold.LenOf(e.Args[1])
				bounded = l.In == 1 && l.Off == 0 || l.IsConst() && r.in.lenCell.IsConst() && l.Const() == r.in.lenCell.Const()
			default:
				bounded = si.limited
				// io.Copy from a limited reader ends silently when the source ends early: the
				// handler must compare the copied count with the announced length itself
				if bounded && c.errName(r.p.Ret) == "nil" && r.p.Chose("copy.err") == 0 {
					compared := false
					for _, ch := range r.p.Choices {
						if strings.Contains(ch.Key, "copied#") {
							compared = true
						}
					}
					if !compared {
						*problems = append(*problems, what+" drains the payload with "+e.Name+" from a limited reader and never looks at the count: a control frame cut inside its payload is handled as if it were complete (io.CopyN reports the early end)")
					}
				}
			}
			if !bounded {
				*problems = append(*problems, fmt.Sprintf("%s reads the source with %s until EOF instead of exactly the announced %s bytes (what follows the control frame on the connection is consumed)", what, e.Name, "Length"))
			}
			if !si.isSrc {
				*problems = append(*problems, what+" does not read from c.Src: "+si.desc)
			}
			wantCipher := !r.in.client && !r.in.noCipher
			if si.ciphered != wantCipher {
				*problems = append(*problems, fmt.Sprintf("%s: source unmasking=%v, want %v [%s]", what, si.ciphered, wantCipher, r.in))
			}
		}
	}

	// ---- ping ----
	{
		rule := prop + ".handler-ping"
		c.R.Rule(rule, 1, "a ping is answered by exactly one final pong with the same payload, masked iff client, reading exactly Length bytes of the source")
		recs, f, ok := run(rule, "HandlePing")
		if f != nil && ok {
			var problems []string
			for _, r := range recs {
				if r.p.Abort != "" {
					problems = append(problems, "undecided: "+r.p.Abort)
					continue
				}
				common(r, &problems)
				if r.p.Panic {
					continue
				}
				e := c.errName(r.p.Ret)
				wh := r.p.Calls("WriteHeader")
				if r.in.lenCell.Hi == 0 {
					if len(wh) != 1 || len(r.p.Effects) != 1 {
						problems = append(problems, "empty ping must be answered by exactly one header-only pong")
						continue
					}
					h, _ := wh[0].Args[1].(fold.Struct)
					if fold.Show(wh[0].Args[0]) == "" || len(h.F) != 6 || fold.Show(h.F[0]) != "true" || fold.Show(h.F[2]) != "10" || fold.Show(h.F[3]) != fmt.Sprint(r.in.client) || fold.Show(h.F[5]) != "0" || fold.Show(h.F[1]) != "0" {
						problems = append(problems, "empty pong header is "+fold.Show(wh[0].Args[1])+" ["+r.in.String()+"]")
					}
					if (r.p.Chose("writeheader.err") > 0) != (e == "writeheader-error") {
						problems = append(problems, "pong write error is lost")
					}
					continue
				}
				if r.in.lenCell.Lo > 125 {
					// outside the handler's contract; must not panic or allocate (checked in common)
					continue
				}
				readsBounded(r, &problems, "HandlePing")
				cw := r.p.Calls("NewControlWriterBuffer")
				if len(cw) != 1 || fold.Show(cw[0].Args[2]) != "10" {
					problems = append(problems, "pong is not written through a pong ControlWriter ["+r.in.String()+"]")
					continue
				}
				wantState := "1"
				if r.in.client {
					wantState = "2"
				}
				if fold.Show(cw[0].Args[1]) != wantState || !strings.Contains(fold.Show(cw[0].Args[0]), "Dst") {
					problems = append(problems, "pong writer is not built from c.Dst and c.State")
				}
				copied := 0
				for i := range r.src {
					ef := r.p.Effects[i]
					if strings.HasPrefix(ef.Name, "io.Copy") {
						copied++
						if _, ok := isObjRef(ef.Args[0]); !ok {
							problems = append(problems, "ping payload is not copied into the pong writer")
						}
					}
				}
				if copied != 1 {
					problems = append(problems, fmt.Sprintf("ping payload is copied %d times", copied))
				}
				failed := r.p.Chose("copy.err") > 0
				fl := r.p.Calls("cw.Flush")
				if failed {
					want := []string{"", "copy-error", "global:io.EOF"}[r.p.Chose("copy.err")]
					if len(fl) != 0 || (e != want && !(want == "global:io.EOF" && e == "global:io.ErrUnexpectedEOF")) {
						problems = append(problems, "a failed payload copy (error, or the source ending before the announced length) must be returned without sending a pong: got "+e+fmt.Sprintf(" after %d flushes", len(fl)))
					}
					continue
				}
				if len(fl) != 1 {
					problems = append(problems, "pong is not flushed exactly once")
				}
				// the pooled buffer holds the payload plus the header of the pong that is sent
				// (masked iff this side is the client), not of the ping that was received
				for _, g := range r.p.Calls("pool.Get") {
					sz, _ := g.Args[0].(fold.Int)
					wantOff := int64(2)
					if r.in.client {
						wantOff = 6
					}
					switch {
					case sz.In == 1 && sz.Off == wantOff:
					case sz.IsConst() && r.in.lenCell.IsConst() && sz.Const() == r.in.lenCell.Const()+wantOff:
					default:
						problems = append(problems, fmt.Sprintf("pong buffer is %s bytes, want Length+%d (payload plus the header of the reply, masked=%v) [%s]", fold.Show(sz), wantOff, r.in.client, r.in))
					}
				}
				if (r.p.Chose("cwflush.err") > 0) != (e == "cwflush-error") {
					problems = append(problems, "pong flush error is lost: "+e)
				}
				// pool discipline
				if g, p := len(r.p.Calls("pool.Get")), len(r.p.Calls("pool.Put")); g != p {
					problems = append(problems, fmt.Sprintf("pooled buffer: %d Get, %d Put", g, p))
				}
			}
			c.verdict(rule, rule+"/HandlePing", c.P.FuncPos(f), uniq(problems), fmt.Sprintf("%d paths", len(recs)))
		}
	}
	// ---- pong ----
	{
		rule := prop + ".handler-pong"
		c.R.Rule(rule, 1, "a pong is discarded: nothing is written, exactly Length bytes of the source are consumed")
		recs, f, ok := run(rule, "HandlePong")
		if f != nil && ok {
			var problems []string
			for _, r := range recs {
				if r.p.Abort != "" {
					problems = append(problems, "undecided: "+r.p.Abort)
					continue
				}
				common(r, &problems)
				if r.p.Panic {
					continue
				}
				for _, e := range r.p.Effects {
					if e.Kind == "call" && (e.Name == "WriteHeader" || e.Name == "WriteFrame" || strings.HasPrefix(e.Name, "cw.") || strings.HasPrefix(e.Name, "NewControlWriter")) {
						problems = append(problems, "a pong must not be answered: "+e.Name)
					}
					for _, a := range e.Args {
						if e.Kind == "call" && e.Name != "pool.Get" && strings.Contains(fold.Show(a), "Dst") {
							problems = append(problems, "HandlePong touches c.Dst in "+e.Name)
						}
					}
				}
				if r.in.lenCell.Hi == 0 {
					if len(r.p.Effects) != 0 || c.errName(r.p.Ret) != "nil" {
						problems = append(problems, "empty pong must be a no-op")
					}
					continue
				}
				if r.in.lenCell.Lo > 125 {
					continue
				}
				readsBounded(rec{in: handlerIn{client: r.in.client, noCipher: true, lenCell: r.in.lenCell}, p: r.p, src: r.src}, &problems, "HandlePong")
				if len(r.src) != 1 {
					problems = append(problems, fmt.Sprintf("pong payload is consumed by %d reads", len(r.src)))
				}
				if (r.p.Chose("copy.err") > 0) != (c.errName(r.p.Ret) == "copy-error") && (r.p.Chose("readfull.err") > 0) != (c.errName(r.p.Ret) == "readfull-error") {
					problems = append(problems, "source error is lost")
				}
				if g, p := len(r.p.Calls("pool.Get")), len(r.p.Calls("pool.Put")); g != p {
					problems = append(problems, fmt.Sprintf("pooled buffer: %d Get, %d Put", g, p))
				}
			}
			c.verdict(rule, rule+"/HandlePong", c.P.FuncPos(f), uniq(problems), fmt.Sprintf("%d paths", len(recs)))
		}
	}
	// ---- close ----
	{
		rule := prop + ".handler-close"
		c.R.Rule(rule, 1, "a close is answered by one close frame: header-only for an empty one, the received status code for a valid one, a protocol-error close for an invalid one; the caller gets ClosedError{code, reason} or the protocol error")
		recs, f, ok := run(rule, "HandleClose")
		ce := c.P.NamedType(wsutil, "ClosedError")
		if f != nil && ok && ce != nil {
			var problems []string
			for _, r := range recs {
				if r.p.Abort != "" {
					problems = append(problems, "undecided: "+r.p.Abort)
					continue
				}
				common(r, &problems)
				if r.p.Panic {
					continue
				}
				e := c.errName(r.p.Ret)
				closedErr := func() (code, reason string, ok bool) {
					i, isI := r.p.Ret.(fold.Iface)
					if !isI {
						return "", "", false
					}
					s, isS := i.V.(fold.Struct)
					if !isS || len(s.F) != 2 || !strings.Contains(fold.Show(i), "ClosedError") {
						return "", "", false
					}
					cs := fold.Show(s.F[0])
					if k, ok := s.F[0].(fold.Int); ok && !k.IsConst() {
						cs = k.Name
					}
					return cs, fold.Show(s.F[1]), true
				}
				if r.in.lenCell.Hi == 0 {
					wh := r.p.Calls("WriteHeader")
					if len(wh) != 1 {
						problems = append(problems, "empty close must be answered by one header-only close")
						continue
					}
					h, _ := wh[0].Args[1].(fold.Struct)
					if len(h.F) != 6 || fold.Show(h.F[0]) != "true" || fold.Show(h.F[2]) != "8" || fold.Show(h.F[3]) != fmt.Sprint(r.in.client) || fold.Show(h.F[5]) != "0" {
						problems = append(problems, "empty close reply header is "+fold.Show(wh[0].Args[1]))
					}
					if r.p.Chose("writeheader.err") > 0 {
						if e != "writeheader-error" {
							problems = append(problems, "close reply write error is lost")
						}
						continue
					}
					code, _, okc := closedErr()
					if !okc || code != "1005" {
						problems = append(problems, "empty close must be reported as ClosedError{1005}: "+e)
					}
					continue
				}
				if r.in.lenCell.Lo > 125 {
					continue
				}
				readsBounded(r, &problems, "HandleClose")
				if r.p.Chose("readfull.err") > 0 {
					if e != "readfull-error" || len(r.p.Calls("WriteFrame"))+len(r.p.Calls("cw.Flush")) != 0 {
						problems = append(problems, "a failed payload read must be returned without replying")
					}
					continue
				}
				chk := r.p.Calls("CheckCloseFrameData")
				short := r.in.lenCell.Hi < 2
				if len(chk) != 1 {
					problems = append(problems, "the received code and reason are not validated with CheckCloseFrameData ["+r.in.String()+"]")
					continue
				}
				codeArg := fold.Show(chk[0].Args[0])
				if k, ok := chk[0].Args[0].(fold.Int); ok && !k.IsConst() {
					codeArg = k.Name
				}
				if short && codeArg != "0" || !short && !pooledRe.MatchString(strings.TrimPrefix(codeArg, "be16(")) {
					problems = append(problems, "the validated code is "+codeArg+", not the first two payload bytes ["+r.in.String()+"]")
				}
				if r.p.Chose("closecheck.err") > 0 {
					// protocol error reply
					wf := r.p.Calls("WriteFrame")
					if e != "closecheck-error" {
						problems = append(problems, "the protocol error is not returned to the caller: "+e)
					}
					if len(wf) != 1 || !strings.Contains(fold.Show(wf[0].Args[0]), "Dst") {
						problems = append(problems, "an invalid close must be answered by one protocol-error close frame")
						continue
					}
					fr, _ := wf[0].Args[1].(fold.Struct)
					h, _ := fr.F[0].(fold.Struct)
					if len(h.F) != 6 || fold.Show(h.F[0]) != "true" || fold.Show(h.F[2]) != "8" {
						problems = append(problems, "protocol-error reply is not a final close frame: "+fold.Show(fr.F[0]))
						continue
					}
					pl := fold.LenOf(fr.F[1])
					hl, _ := h.F[5].(fold.Int)
					if pl.Top || pl.Hi > 125 || fold.Show(hl) != fold.Show(pl) {
						problems = append(problems, "protocol-error reply: header length "+fold.Show(hl)+" vs payload "+fold.Show(pl))
					}
					put := r.p.Calls("bePut16")
					if len(put) != 1 || fold.Show(put[0].Args[1]) != "1002" && fold.Show(put[0].Args[1]) != "1007" {
						problems = append(problems, "protocol-error reply does not carry status 1002 (or 1007)")
					}
					cp := r.p.Calls("Cipher")
					if r.in.client {
						okMask := fold.Show(h.F[3]) == "true" && len(cp) == 1 && fold.Show(cp[0].Args[2]) == "0" && fold.Show(h.F[4]) == fold.Show(cp[0].Args[1]) &&
							fold.Show(cp[0].Args[0]) == fold.Show(fr.F[1])
						if !okMask {
							problems = append(problems, "client protocol-error close: the frame that is written has Masked="+fold.Show(h.F[3])+" while its payload was ciphered "+fmt.Sprint(len(cp))+" time(s) - the result of the masking helper is not the frame sent")
						}
					} else if fold.Show(h.F[3]) != "false" || len(cp) != 0 {
						problems = append(problems, "server protocol-error close must not be masked")
					}
					continue
				}
				// valid close: echo the code
				cw := r.p.Calls("NewControlWriterBuffer")
				wantState := "1"
				if r.in.client {
					wantState = "2"
				}
				if len(cw) != 1 || fold.Show(cw[0].Args[2]) != "8" || fold.Show(cw[0].Args[1]) != wantState || !strings.Contains(fold.Show(cw[0].Args[0]), "Dst") {
					problems = append(problems, "close reply is not written through a close ControlWriter on c.Dst with c.State")
					continue
				}
				ww := r.p.Calls("cw.Write")
				if len(ww) != 1 {
					problems = append(problems, "close reply payload is not written exactly once")
					continue
				}
				arg := fold.Show(ww[0].Args[1])
				al := fold.LenOf(ww[0].Args[1])
				if !isPooledPrefix(ww[0].Args[1]) || al.Top || al.Lo < 2 {
					problems = append(problems, "close reply payload is "+arg+", not a prefix of the received payload covering the status code")
				}
				if r.p.Chose("cwwrite.err") > 0 {
					if e != "cwwrite-error" {
						problems = append(problems, "close reply write error is lost")
					}
					continue
				}
				if len(r.p.Calls("cw.Flush")) != 1 {
					problems = append(problems, "close reply is not flushed")
					continue
				}
				if r.p.Chose("cwflush.err") > 0 {
					if e != "cwflush-error" {
						problems = append(problems, "close reply flush error is lost")
					}
					continue
				}
				code, reason, okc := closedErr()
				if short && okc && code == "0" && reason == `""` {
					continue // a payload shorter than 2 bytes parses as "no code"
				}
				if !okc || !pooledRe.MatchString(strings.TrimPrefix(code, "be16(")) || !pooledRe.MatchString(strings.TrimPrefix(reason, "string(")) {
					problems = append(problems, "the caller must get ClosedError{received code, copy of the reason}: "+e)
				}
			}
			c.verdict(rule, rule+"/HandleClose", c.P.FuncPos(f), uniq(problems), fmt.Sprintf("%d paths", len(recs)))
		}
	}
}

// unusedResultRules: the result of a functional-update helper must be used.
func unusedResultRules(c *Ctx, prop string) {
	rule := prop + ".functional-update-result-used"
	c.R.Rule(rule, 5, "the result of MaskFrame*/UnmaskFrame*/State.Set/State.Clear/SetBit/UnsetBit/SetBits/UnsetBits is the updated value: discarding it means the update did not happen")
	targets := map[string]bool{}
	for _, n := range []string{"MaskFrame", "MaskFrameWith", "MaskFrameInPlace", "MaskFrameInPlaceWith", "UnmaskFrame", "UnmaskFrameInPlace", "NewMask", "NewFrame", "NewCloseFrameBody"} {
		targets[ws+"."+n] = true
	}
	for _, n := range []string{"SetBit", "UnsetBit"} {
		targets[wsflate+"."+n] = true
	}
	targets["("+ws+".State).Set"] = true
	targets["("+ws+".State).Clear"] = true
	targets["(*"+wsflate+".MessageState).SetBits"] = true
	targets["(*"+wsflate+".MessageState).UnsetBits"] = true
	n := 0
	for _, fn := range c.P.AllModuleFuncs() {
		for _, b := range fn.Blocks {
			for _, in := range b.Instrs {
				call, ok := in.(*ssa.Call)
				if !ok {
					continue
				}
				callee := call.Call.StaticCallee()
				name := ""
				if callee != nil {
					name = callee.String()
				} else if call.Call.IsInvoke() {
					mn := call.Call.Method.Name()
					if mn == "SetBits" || mn == "UnsetBits" {
						name = "invoke:" + mn
						targets[name] = true
					}
				}
				if !targets[name] {
					continue
				}
				n++
				key := fmt.Sprintf("%s/%s->%s", rule, fn.String(), shortName(name))
				used := false
				for _, r := range *call.Referrers() {
					if _, dbg := r.(*ssa.DebugRef); !dbg {
						used = true
					}
				}
				if used {
					c.R.OK(rule, key, c.P.Pos(call.Pos()), "result used")
				} else {
					c.R.Fail(rule, key, c.P.Pos(call.Pos()), "result of "+shortName(name)+" is discarded in "+fn.String()+": the frame/state that is used afterwards is the one from before the update")
				}
			}
		}
	}
	c.R.Sites += n
}

func shortName(s string) string {
	s = strings.ReplaceAll(s, "github.com/gobwas/ws/", "")
	s = strings.ReplaceAll(s, "github.com/gobwas/", "")
	return s
}

var pooledRe = regexp.MustCompile(`^pooled#\d+\[`)

// isPooledPrefix reports whether v is a slice of the pooled buffer that
// starts at its first byte.
func isPooledPrefix(v fold.Val) bool {
	switch s := v.(type) {
	case fold.SliceV:
		return strings.HasPrefix(s.O.Name, "pooled#") && s.Lo == 0
	case fold.SymSeq:
		return regexp.MustCompile(`^pooled#\d+(\[:[^\]]*\])?$`).MatchString(s.Name)
	}
	return false
}
