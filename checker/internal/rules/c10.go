package rules

func init() {
	register(&Property{
		ID:      "C10",
		Explain: "FOLD of the client handshake. ws.Dialer.Upgrade is evaluated on scripted responses (status-line forms 1.1/1.2/1.0/2.0 with 101, 1.1 200, malformed; header lists: none, the three mandatory headers in two orders, each missing, each kind alone, with protocol/extension/other/duplicate-protocol headers, a line without colon) with every comparison and callback as a free atom and every read/flush able to fail; the outcome of each path is compared with the reference of RFC 6455 4.1: success exactly for HTTP/1.x (x>=1), 101, Upgrade websocket, Connection upgrade and an accept value verified against the very nonce buffer that was initialised and written into the request; a subprotocol header is judged by its own value against the requested list (a second header cannot ride on the first one's match); errors name the first broken rule; the pooled reader is returned exactly when the handshake succeeded with bytes buffered, otherwise put back. The request text is folded against the RFC template for every combination of protocols / extensions / extra headers / Host override; the status code accepted as 101 is literally the three bytes \"101\" (folded over byte cells of tokens of 0-4 bytes); asciiToInt accepts exactly digits; the accept computation is sha1(nonce ++ GUID) in base64. config-read-only: no store reaches memory that belongs to the Dialer (its Extensions, Protocols, TLSConfig ...), traced through matchSelectedExtensions and every other callee by whole-module may-write summaries. nonce-randomness: initNonce is folded with the random source as named byte lanes: the key is the base64 encoding of 16 distinct random bytes. extra-headers-writer: HandshakeHeaderHTTP.WriteTo delegates to net/http's Header.Write (all values of a multi-valued key). OnHeader and the match of a Sec-WebSocket-Extensions value against the offer must be consulted on every path on which they apply (a path that never asked is a violation). The dialer's configured subprotocols, extensions, extra headers and Host override are the arguments of the request writer; every Sec-WebSocket-Extensions line of the response is matched against the configured offer and adds to what the earlier lines selected, and the extensions returned are the last match's result. The address dialed is what hostport makes of the URL's Host with :80 / :443 (dial-connection-ownership runs here); readLine is folded on chunking scripts. watcher-protocol (C20) runs here: a handshake that completed while the context was being cancelled is reported as the context's error (the watcher has poisoned the connection's deadline), never as success.",
		Trusted: []string{"go/ssa + go/types", "the checker's abstract evaluator", "net/url.ParseRequestURI, httphead option parsing, crypto/sha1, encoding/base64, math/rand (not analysed)"},
		Assume:  []string{"URL parsing, IPv6 literal forms beyond the bracket rule and httphead's option grammar are not decided"},
		Run: func(c *Ctx) {
			dialerUpgradeRules(c, "C10")
			statusLineRules(c, "C10")
			asciiToIntRules(c, "C10")
			requestWriterRules(c, "C10")
			acceptRules(c, "C10")
			c17Selection(c)
			parserHelperRules(c, "C10")
			configReadOnlyRules(c, "C10")
			nonceRules(c, "C10")
			headerWriterRules(c, "C10")
			// the response head is taken apart by readLine
			readLineRules(c, "C10")
			// where the dialer connects to: host and port of the URL, defaults 80 / 443
			c20DialConn(c)
			// a handshake that ended while the context was being cancelled is not a success: the
			// watcher has poisoned the connection's deadline
			c20Watcher(c)
		},
	})
}
