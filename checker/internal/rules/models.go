package rules

import (
	"fmt"
	"regexp"
	"strings"

	"verif/wscheck/internal/fold"
)

// Byte-lane intrinsics for encoding/binary: a multi-byte store of a named
// value v writes the lanes be16(v).0, be16(v).1 ...; a multi-byte load of
// exactly those lanes gives v back. Constant values are handled concretely.

var laneRe = regexp.MustCompile(`^(be|le)(16|32|64)\((.*)\)\.(\d+)$`)

func putLanes(cl *fold.Call, order string, width int) fold.Val {
	m := cl.M
	b, ok := cl.Args[1].(fold.SliceV)
	v, _ := cl.Args[2].(fold.Int)
	n := width / 8
	cl.M.Emit(fold.Effect{Kind: "call", Name: order + "Put" + fmt.Sprint(width), Args: []fold.Val{cl.Args[1], cl.Args[2]}})
	if !ok {
		// opaque destination: bounds obligation only
		l := fold.LenOf(cl.Args[1])
		if l.Top || l.Lo < int64(n) {
			m.Emit(fold.Effect{Kind: "bounds", Name: "put" + fmt.Sprint(width), Args: []fold.Val{cl.Args[1]}, Note: "unproven"})
		}
		return nil
	}
	if b.Len < int64(n) {
		m.Emit(fold.Effect{Kind: "bounds", Name: "put" + fmt.Sprint(width), Args: []fold.Val{cl.Args[1]}, Note: "violated"})
		return nil
	}
	for i := 0; i < n; i++ {
		var lane fold.Val
		pos := i // big endian: byte i holds bits (n-1-i)*8
		shift := uint((n - 1 - i) * 8)
		if order == "le" {
			shift = uint(i * 8)
		}
		if v.IsConst() {
			lane = fold.K(int64((uint64(v.Const()) >> shift) & 0xff))
		} else if v.L != nil && int(shift/8) < len(v.L) {
			nm := v.L[shift/8]
			var x int64
			if _, err := fmt.Sscanf(nm, "%d", &x); err == nil && fmt.Sprint(x) == nm {
				lane = fold.K(x)
			} else {
				lane = fold.Int{Lo: 0, Hi: 255, Name: nm}
			}
		} else {
			name := v.Name
			if name == "" {
				name = "?"
			}
			lane = fold.Int{Lo: 0, Hi: 255, Name: fmt.Sprintf("%s%d(%s).%d", order, width, name, pos)}
		}
		m.SetElem(b, int64(i), lane)
	}
	return nil
}

func getLanes(cl *fold.Call, order string, width int) fold.Val {
	m := cl.M
	n := width / 8
	hi := int64(1)<<uint(width) - 1
	top := width == 64
	cl.M.Emit(fold.Effect{Kind: "call", Name: order + "Get" + fmt.Sprint(width), Args: []fold.Val{cl.Args[1]}})
	b, ok := cl.Args[1].(fold.SliceV)
	if !ok {
		l := fold.LenOf(cl.Args[1])
		if l.Top || l.Lo < int64(n) {
			m.Emit(fold.Effect{Kind: "bounds", Name: "get" + fmt.Sprint(width), Args: []fold.Val{cl.Args[1]}, Note: "unproven"})
		}
		name := fmt.Sprintf("%s%d(%s)", order, width, fold.Show(cl.Args[1]))
		if top {
			return fold.Int{Top: true, Name: name}
		}
		return fold.Int{Lo: 0, Hi: hi, Name: name}
	}
	if b.Len < int64(n) {
		m.Emit(fold.Effect{Kind: "bounds", Name: "get" + fmt.Sprint(width), Args: []fold.Val{cl.Args[1]}, Note: "violated"})
		return fold.Int{Top: true}
	}
	el := m.Elems(fold.SliceV{O: b.O, Path: b.Path, Lo: b.Lo, Len: int64(n), Cap: int64(n)})
	allConst := true
	var u uint64
	var names []string
	for i, e := range el {
		k, _ := e.(fold.Int)
		if k.IsConst() {
			shift := uint((n - 1 - i) * 8)
			if order == "le" {
				shift = uint(i * 8)
			}
			u |= uint64(k.Const()&0xff) << shift
			names = append(names, fmt.Sprint(k.Const()))
		} else {
			allConst = false
			nm := k.Name
			if nm == "" {
				nm = "?"
			}
			names = append(names, nm)
		}
	}
	if allConst {
		return fold.K(int64(u))
	}
	// round trip of a put of the same order and width
	var src string
	round := true
	for i, nm := range names {
		mm := laneRe.FindStringSubmatch(nm)
		if mm == nil || mm[1] != order || mm[2] != fmt.Sprint(width) || mm[4] != fmt.Sprint(i) {
			round = false
			break
		}
		if i == 0 {
			src = mm[3]
		} else if src != mm[3] {
			round = false
			break
		}
	}
	name := fmt.Sprintf("%s%d(%s)", order, width, strings.Join(names, ","))
	if round {
		name = src
	}
	// little-endian byte lanes of the loaded word
	lanes := make([]string, n)
	for i, nm := range names {
		if order == "le" {
			lanes[i] = nm
		} else {
			lanes[n-1-i] = nm
		}
	}
	if top {
		return fold.Int{Top: true, Name: name, L: lanes}
	}
	return fold.Int{Lo: 0, Hi: hi, Name: name, L: lanes}
}

// addBinaryModels installs the lane intrinsics.
func addBinaryModels(m *fold.Machine) {
	for _, o := range []struct{ recv, order string }{{"bigEndian", "be"}, {"littleEndian", "le"}} {
		o := o
		for _, w := range []int{16, 32, 64} {
			w := w
			m.Models[fmt.Sprintf("(encoding/binary.%s).PutUint%d", o.recv, w)] = func(cl *fold.Call) fold.Val { return putLanes(cl, o.order, w) }
			m.Models[fmt.Sprintf("(encoding/binary.%s).Uint%d", o.recv, w)] = func(cl *fold.Call) fold.Val { return getLanes(cl, o.order, w) }
		}
	}
}

// errChoice forks over a declared set of error outcomes; index 0 is nil.
// names[i] (i>0) are either "global:pkg.Name" identities or free names.
func errChoice(m *fold.Machine, key string, names ...string) fold.Val {
	k := m.Choose(key, len(names)+1)
	if k == 0 {
		return fold.Nil{}
	}
	return fold.Sym{Name: names[k-1], NonNil: true}
}

// laneNames renders the elements of a byte slice.
func laneNames(el []fold.Val) []string {
	out := make([]string, len(el))
	for i, e := range el {
		switch k := e.(type) {
		case fold.Int:
			if k.IsConst() {
				out[i] = fmt.Sprintf("%#02x", k.Const())
			} else if k.Name != "" {
				out[i] = k.Name
			} else {
				out[i] = "?"
			}
		default:
			out[i] = fold.Show(e)
		}
	}
	return out
}
