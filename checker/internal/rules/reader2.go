package rules

import (
	"fmt"
	"go/types"
	"strings"

	"verif/wscheck/internal/fold"
)

// newReaderObj builds a wsutil.Reader receiver with recognisable field values.
func newReaderObj(mm *fold.Machine, L *readerLayout, frag bool, checkUTF8 bool, frame fold.Val, utf8State int64) *fold.Obj {
	st := fold.SymOfType("r", L.named).(fold.Struct)
	st.F[L.source] = fold.Sym{Name: "Source", NonNil: true}
	state := int64(1)
	if frag {
		state |= 8
	}
	st.F[L.state] = fold.K(state)
	st.F[L.skip] = fold.Bool(false)
	st.F[L.checkUTF8] = fold.Bool(checkUTF8)
	// configuration: recognisable values, so that a reset that drops one of them shows
	st.F[L.exts] = fold.Sym{Name: "cfg-extensions", NonNil: true}
	st.F[L.maxFrame] = fold.Int{Lo: 1, Hi: fold.MaxInt64, Name: "cfg-maxframe"}
	st.F[L.onCont] = fold.Sym{Name: "cfg-oncontinuation", NonNil: true}
	st.F[L.onInter] = fold.Sym{Name: "cfg-onintermediate", NonNil: true}
	st.F[L.opCode] = fold.K(1)
	st.F[L.frame] = frame
	st.F[L.raw] = fold.Struct{F: []fold.Val{fold.Sym{Name: "Source", NonNil: true}, fold.Int{Lo: 1, Hi: fold.MaxInt64, Name: "N"}}}
	u := st.F[L.utf8].(fold.Struct)
	uSet(u, L.utf8SourceP, fold.Sym{Name: "utf8-source", NonNil: true})
	uSet(u, L.utf8StateP, fold.K(utf8State))
	uSet(u, L.utf8CodepP, fold.K(5))
	uSet(u, L.utf8AcceptedP, fold.Int{Lo: 0, Hi: fold.MaxInt64, Name: "accepted"})
	st.F[L.cr] = fold.Nil{}
	return mm.NewObj("reader", st)
}

type readerFinal struct {
	rawR, rawN, frame, state, opCode, utf8Source, utf8State, utf8Accepted string
	config                                                                string // the configuration fields, rendered
}

// readerConfigWant is what newReaderObj puts into the configuration fields.
func readerConfigWant(checkUTF8 bool) string {
	return fmt.Sprintf("Source skip=false checkUTF8=%v cfg-extensions cfg-maxframe cfg-oncontinuation cfg-onintermediate", checkUTF8)
}

func readFinal(mm *fold.Machine, recv *fold.Obj, L *readerLayout) readerFinal {
	ld := func(path ...int) string { return fold.Show(mm.Load(fold.Ref{O: recv, Path: path})) }
	return readerFinal{
		rawR: ld(L.raw, 0), rawN: ld(L.raw, 1), frame: ld(L.frame), state: ld(L.state), opCode: ld(L.opCode),
		utf8Source: ld(uPath(L.utf8, L.utf8SourceP)...), utf8State: ld(uPath(L.utf8, L.utf8StateP)...), utf8Accepted: ld(uPath(L.utf8, L.utf8AcceptedP)...),
		config: fmt.Sprintf("%s skip=%s checkUTF8=%s %s %s %s %s", nameOf(mm.Load(fold.Ref{O: recv, Path: []int{L.source}})), ld(L.skip), ld(L.checkUTF8),
			nameOf(mm.Load(fold.Ref{O: recv, Path: []int{L.exts}})), nameOf(mm.Load(fold.Ref{O: recv, Path: []int{L.maxFrame}})),
			nameOf(mm.Load(fold.Ref{O: recv, Path: []int{L.onCont}})), nameOf(mm.Load(fold.Ref{O: recv, Path: []int{L.onInter}}))),
	}
}

// readerReadRules folds Reader.Read and compares it with the reference table.
func readerReadRules(c *Ctx, prop string) {
	rule := prop + ".reader-read-table"
	c.R.Rule(rule, 1, "Reader.Read: data while bytes remain; (n,nil)+resetFragment at the end of a non-final fragment; io.EOF+reset only at the end of the final one; early EOF => ErrUnexpectedEOF; invalid UTF-8 => ErrInvalidUTF8 and never io.EOF")
	L := c.readerLayout(rule)
	f := c.method(rule, wsutil, "Reader", "Read")
	if L == nil || f == nil {
		return
	}
	errNoAdvance := c.globalErrName(rule, wsutil, "ErrNoFrameAdvance")
	errUTF8 := c.globalErrName(rule, wsutil, "ErrInvalidUTF8")
	errUTF8Val := c.globalVal(rule, wsutil, "ErrInvalidUTF8")
	m := c.machine()
	var recv *fold.Obj
	type inT struct {
		frameNil, frag, checkUTF8, valid bool
		nfErr, nfFrameNil                bool
		nfCtl                            bool // the header NextFrame returns is a control frame's
		nfFinal, nfEmpty                 bool // the next data frame is the final one / has no payload
		rdErr                            int  // 0 nil 1 EOF 2 other
		left                             bool
	}
	var cur inT
	type res struct {
		in  inT
		p   *fold.Path
		fin readerFinal
	}
	var out []res
	m.Models["(*"+wsutil+".Reader).NextFrame"] = func(cl *fold.Call) fold.Val {
		mm := cl.M
		mm.Emit(fold.Effect{Kind: "call", Name: "NextFrame", Args: cl.Args})
		cur.nfErr = mm.Choose("nf.err", 2) == 1
		if cur.nfErr {
			// the refused header is returned together with the error; it may be a control frame's
			cur.nfCtl = mm.Choose("nf.ctl", 2) == 1
			op := int64(0)
			if cur.nfCtl {
				op = 9
			}
			return fold.Tuple{headerVal(cur.nfCtl, 0, op, false, nil, fold.Int{Lo: 0, Hi: fold.MaxInt64, Name: "hdr.Length"}), fold.Sym{Name: "nf-error", NonNil: true}}
		}
		cur.nfFrameNil = mm.Choose("nf.framenil", 2) == 1
		if cur.nfFrameNil {
			// an intermediate control frame was handled inside NextFrame
			return fold.Tuple{headerVal(true, 0, 9, false, nil, fold.K(0)), fold.Nil{}}
		}
		mm.Store(fold.Ref{O: recv, Path: []int{L.frame}}, fold.Iface{T: types.Typ[types.Invalid], V: fold.Sym{Name: "next-frame", NonNil: true}})
		cur.nfFinal = mm.Choose("nf.final", 2) == 1
		cur.nfEmpty = mm.Choose("nf.empty", 2) == 1
		var length fold.Val = fold.Int{Lo: 1, Hi: fold.MaxInt64, Name: "hdr.Length"}
		rawN := fold.Ref{O: recv, Path: []int{L.raw, 1}}
		if cur.nfEmpty {
			length = fold.K(0)
			mm.Store(rawN, fold.K(0))
		}
		if cur.nfFinal {
			mm.Store(fold.Ref{O: recv, Path: []int{L.state}}, fold.K(1)) // NextFrame clears the fragmented bit
		}
		return fold.Tuple{headerVal(cur.nfFinal, 0, 0, false, nil, length.(fold.Int)), fold.Nil{}}
	}
	m.Models["invoke:(io.Reader).Read"] = func(cl *fold.Call) fold.Val {
		mm := cl.M
		mm.Emit(fold.Effect{Kind: "call", Name: "frame.Read", Args: cl.Args})
		cur.rdErr = mm.Choose("rd.err", 4)
		cur.left = mm.Choose("rd.left", 2) == 1
		rawN := fold.Ref{O: recv, Path: []int{L.raw, 1}}
		if cur.left {
			mm.Store(rawN, fold.Int{Lo: 1, Hi: fold.MaxInt64, Name: "left"})
		} else {
			mm.Store(rawN, fold.K(0))
		}
		var e fold.Val = fold.Nil{}
		switch cur.rdErr {
		case 1:
			e = fold.Sym{Name: "global:io.EOF", NonNil: true}
		case 2:
			e = fold.Sym{Name: "read-error", NonNil: true}
		case 3:
			// the validator in front of the frame refuses the bytes it has just read: n is the
			// count it reports together with its own error
			e = errUTF8Val
		}
		return fold.Tuple{fold.Int{Lo: 0, Hi: fold.MaxInt64, Name: "n"}, e}
	}
	paths := m.Explore(f, func(mm *fold.Machine) []fold.Val {
		cur = inT{}
		cur.frameNil = mm.Choose("framenil", 2) == 1
		cur.frag = mm.Choose("frag", 2) == 1
		cur.checkUTF8 = mm.Choose("checkutf8", 2) == 1
		cur.valid = mm.Choose("valid", 2) == 1
		var frame fold.Val = fold.Nil{}
		if !cur.frameNil {
			frame = fold.Iface{T: types.Typ[types.Invalid], V: fold.Sym{Name: "cur-frame", NonNil: true}}
		}
		st := int64(24)
		if cur.valid {
			st = 0
		}
		recv = newReaderObj(mm, L, cur.frag, cur.checkUTF8, frame, st)
		return []fold.Val{fold.Ref{O: recv}, fold.SymSeq{Name: "p", Len: fold.Int{Lo: 0, Hi: fold.MaxInt64, Name: "len(p)"}}}
	}, func(mm *fold.Machine, p *fold.Path) {
		out = append(out, res{in: cur, p: p, fin: readFinal(mm, recv, L)})
	})
	c.R.AddCells(len(paths))
	c.R.Paths += len(paths)
	var problems []string
	for _, p := range paths {
		if p.Abort != "" || p.Panic {
			problems = append(problems, "undecided: "+p.Abort+panicNote(p))
		}
	}
	utf8St := func(in inT) string {
		if in.valid {
			return "0"
		}
		return "24"
	}
	for _, r := range out {
		in := r.in
		ret, _ := r.p.Ret.(fold.Tuple)
		if len(ret) != 2 {
			problems = append(problems, "unexpected result shape")
			continue
		}
		n, e := fold.Show(ret[0]), c.errName(ret[1])
		desc := fmt.Sprintf("[frame=nil:%v fragmented=%v checkUTF8=%v valid=%v nfErr=%v nfFrameNil=%v rdErr=%d left=%v]", in.frameNil, in.frag, in.checkUTF8, in.valid, in.nfErr, in.nfFrameNil, in.rdErr, in.left)
		nf := r.p.Calls("NextFrame")
		rd := r.p.Calls("frame.Read")
		advanced := in.frameNil && in.frag && !in.nfErr && !in.nfFrameNil && len(nf) == 1
		effFrag := in.frag
		if advanced && in.nfFinal {
			effFrag = false // the frame NextFrame moved to is the final one
		}
		desc += fmt.Sprintf("[next: ctl=%v final=%v empty=%v]", in.nfCtl, in.nfFinal, in.nfEmpty)
		unchanged := r.fin.state == fmt.Sprint(func() int64 {
			if effFrag {
				return 9
			}
			return 1
		}()) && r.fin.opCode == "1" && r.fin.utf8State == utf8St(in)
		if in.frameNil {
			if !in.frag {
				if e != errNoAdvance || len(nf)+len(rd) != 0 {
					problems = append(problems, "Read without NextFrame must return ErrNoFrameAdvance "+desc+": "+e)
				}
				continue
			}
			if len(nf) != 1 {
				problems = append(problems, "Read between fragments must advance with NextFrame "+desc)
				continue
			}
			if in.nfErr {
				if e != "nf-error" || n != "0" || len(rd) != 0 {
					problems = append(problems, "NextFrame error must be returned with n=0 "+desc+": "+e)
				}
				continue
			}
			if in.nfFrameNil {
				if e != "nil" || n != "0" || len(rd) != 0 {
					problems = append(problems, "after an intermediate control frame Read must return (0,nil) "+desc+": ("+n+","+e+")")
				}
				continue
			}
		} else if len(nf) != 0 {
			problems = append(problems, "Read advances to another frame while one is being read "+desc)
			continue
		}
		if len(rd) == 0 && advanced && in.nfEmpty {
			// not reading an empty frame is fine: it counts as a read of nothing that hit the end of the frame
			in.rdErr, in.left = 1, false
			n = "n"
			if fold.Show(ret[0]) != "0" {
				problems = append(problems, "an empty frame that was not read is reported with "+fold.Show(ret[0])+" bytes "+desc)
			}
		} else if len(rd) != 1 || fold.Show(rd[0].Args[1]) != "p" {
			problems = append(problems, "payload is not read with exactly one frame.Read(p) "+desc)
			continue
		}
		switch {
		case in.rdErr == 3:
			if e != errUTF8 || !(n == "n" || strings.HasPrefix(n, "n[")) {
				problems = append(problems, "an invalid-UTF-8 error of the frame reader must be returned with the count that came with it "+desc+": ("+n+","+e+")")
			}
		case in.rdErr == 2:
			if e != "read-error" || !strings.HasPrefix(n, "n") {
				problems = append(problems, "transport error must be returned as is "+desc+": "+e)
			}
			if !unchanged {
				problems = append(problems, "transport error must not reset the reader "+desc)
			}
		case in.rdErr == 0 && in.left:
			if e != "nil" || !strings.HasPrefix(n, "n") || !unchanged || r.fin.frame == "nil" {
				problems = append(problems, "mid-frame read must return (n,nil) and keep the frame "+desc+": ("+n+","+e+") frame="+r.fin.frame)
			}
		case in.left: // EOF with bytes outstanding
			if e != "global:io.ErrUnexpectedEOF" {
				problems = append(problems, "EOF with payload bytes outstanding must be io.ErrUnexpectedEOF "+desc+": "+e)
			}
		case effFrag:
			if e != "nil" || !strings.HasPrefix(n, "n") {
				problems = append(problems, "end of a non-final fragment must return (n,nil) "+desc+": ("+n+","+e+")")
			}
			if r.fin.frame != "nil" || r.fin.rawN != "0" || r.fin.utf8Source != "nil" {
				problems = append(problems, "end of a non-final fragment must drop the frame reader (resetFragment) "+desc)
			}
			if r.fin.utf8State != utf8St(in) || r.fin.opCode != "1" {
				problems = append(problems, "end of a non-final fragment must keep the UTF-8 state and message opcode "+desc)
			}
		case in.checkUTF8 && !in.valid:
			if e != errUTF8 {
				problems = append(problems, "invalid UTF-8 at the end of the message must be ErrInvalidUTF8 "+desc+": "+e)
			}
			if strings.HasPrefix(n, "n") {
				problems = append(problems, "invalid UTF-8 at the end of the message is reported together with the full byte count "+n+" instead of the validated prefix: io.ReadFull (used by ReadMessage) drops an error that arrives with the last requested byte, so the message would be returned as complete "+desc)
			}
		default:
			if e != "global:io.EOF" || !strings.HasPrefix(n, "n") {
				problems = append(problems, "end of the final fragment must return (n, io.EOF) "+desc+": ("+n+","+e+")")
			}
			if r.fin.config != readerConfigWant(in.checkUTF8) {
				problems = append(problems, "the end-of-message reset changes the reader's configuration: "+r.fin.config+" (a limit or callback that is silently gone after the first message) "+desc)
			}
			if r.fin.frame != "nil" || r.fin.rawN != "0" || r.fin.utf8State != "0" || r.fin.utf8Accepted != "0" || r.fin.utf8Source != "nil" || r.fin.opCode != "0" {
				problems = append(problems, fmt.Sprintf("end of message must reset the reader (frame=%s raw.N=%s utf8.state=%s accepted=%s opCode=%s) %s", r.fin.frame, r.fin.rawN, r.fin.utf8State, r.fin.utf8Accepted, r.fin.opCode, desc))
			}
		}
	}
	c.verdict(rule, rule+"/Read", c.P.FuncPos(f), uniq(problems), fmt.Sprintf("%d paths agree with the reference table", len(out)))
}

// readerDiscardRules folds Reader.Discard.
func readerDiscardRules(c *Ctx, prop string) {
	rule := prop + ".reader-discard"
	c.R.Rule(rule, 1, "Reader.Discard drains the raw limited reader of every remaining fragment, fails if a payload is cut short or the transport fails, and resets the reader")
	L := c.readerLayout(rule)
	f := c.method(rule, wsutil, "Reader", "Discard")
	if L == nil || f == nil {
		return
	}
	m := c.machine()
	var recv *fold.Obj
	type step struct {
		drain int // 0 full, 1 cut, 2 error
	}
	type res struct {
		p      *fold.Path
		fin    readerFinal
		frag0  bool
		n0     bool // the current frame was already consumed (raw.N == 0)
		drains []int
		nf     []int // 0 ok->still fragmented, 1 ok->final, 2 err
		recv   *fold.Obj
	}
	var out []res
	var cur res
	m.Models["io.Copy"] = func(cl *fold.Call) fold.Val {
		mm := cl.M
		mm.Emit(fold.Effect{Kind: "call", Name: "io.Copy", Args: cl.Args})
		k := mm.Choose(fmt.Sprintf("drain%d", cl.Seq), 3)
		cur.drains = append(cur.drains, k)
		rawN := fold.Ref{O: recv, Path: []int{L.raw, 1}}
		switch k {
		case 0:
			mm.Store(rawN, fold.K(0))
			return fold.Tuple{fold.Int{Lo: 0, Hi: fold.MaxInt64}, fold.Nil{}}
		case 1:
			mm.Store(rawN, fold.Int{Lo: 1, Hi: fold.MaxInt64, Name: "left"})
			return fold.Tuple{fold.Int{Lo: 0, Hi: fold.MaxInt64}, fold.Nil{}}
		}
		mm.Store(rawN, fold.Int{Lo: 1, Hi: fold.MaxInt64, Name: "left"})
		return fold.Tuple{fold.Int{Lo: 0, Hi: fold.MaxInt64}, fold.Sym{Name: "drain-error", NonNil: true}}
	}
	m.Models["(*"+wsutil+".Reader).NextFrame"] = func(cl *fold.Call) fold.Val {
		mm := cl.M
		mm.Emit(fold.Effect{Kind: "call", Name: "NextFrame", Args: cl.Args})
		n := 4
		if cl.Seq >= 3 {
			n = 2 // bound the exploration: the third frame is final or fails
		}
		k := mm.Choose(fmt.Sprintf("nf%d", cl.Seq), n)
		if n == 2 {
			k++
		}
		cur.nf = append(cur.nf, k)
		h := headerVal(k == 1, 0, 0, false, nil, fold.K(3))
		switch k {
		case 3:
			// an intermediate control frame was handled inside NextFrame: final header, message still open
			ch := headerVal(true, 0, 9, false, nil, fold.K(0))
			mm.Store(fold.Ref{O: recv, Path: []int{L.raw, 1}}, fold.K(0))
			return fold.Tuple{ch, fold.Nil{}}
		case 0:
			mm.Store(fold.Ref{O: recv, Path: []int{L.raw, 1}}, fold.Int{Lo: 1, Hi: fold.MaxInt64, Name: "N2"})
			return fold.Tuple{h, fold.Nil{}}
		case 1:
			mm.Store(fold.Ref{O: recv, Path: []int{L.state}}, fold.K(1))
			mm.Store(fold.Ref{O: recv, Path: []int{L.raw, 1}}, fold.Int{Lo: 1, Hi: fold.MaxInt64, Name: "N2"})
			return fold.Tuple{h, fold.Nil{}}
		}
		return fold.Tuple{h, fold.Sym{Name: "nf-error", NonNil: true}}
	}
	paths := m.Explore(f, func(mm *fold.Machine) []fold.Val {
		cur = res{}
		cur.frag0 = mm.Choose("frag", 2) == 1
		cur.n0 = mm.Choose("consumed", 2) == 1
		recv = newReaderObj(mm, L, cur.frag0, true, fold.Iface{T: types.Typ[types.Invalid], V: fold.Sym{Name: "cur-frame", NonNil: true}}, 24)
		if cur.n0 {
			// e.g. Read delivered the last byte and found the UTF-8 state invalid: nothing is left
			// to skip, but the reader was deliberately not reset
			mm.Store(fold.Ref{O: recv, Path: []int{L.raw, 1}}, fold.K(0))
		}
		return []fold.Val{fold.Ref{O: recv}}
	}, func(mm *fold.Machine, p *fold.Path) {
		cur.p = p
		cur.recv = recv
		cur.fin = readFinal(mm, recv, L)
		out = append(out, cur)
	})
	c.R.AddCells(len(paths))
	c.R.Paths += len(paths)
	var problems []string
	for _, p := range paths {
		if p.Abort != "" || p.Panic {
			problems = append(problems, "undecided: "+p.Abort+panicNote(p))
		}
	}
	for _, r := range out {
		e := c.errName(r.p.Ret)
		desc := fmt.Sprintf("[fragmented=%v consumed=%v drains=%v nextframes=%v]", r.frag0, r.n0, r.drains, r.nf)
		// every drain must be io.Copy(_, &r.raw)
		for _, cp := range r.p.Calls("io.Copy") {
			if !refTo(cp.Args[1], r.recv, L.raw) {
				problems = append(problems, "Discard drains "+fold.Show(cp.Args[1])+" instead of the raw limited reader")
			}
		}
		if len(r.drains) == 0 {
			if r.n0 && !r.frag0 {
				// nothing to drain is fine; the reader must still be reset
				if e != "nil" {
					problems = append(problems, "Discard of a consumed message returns "+e+" "+desc)
				}
				if r.fin.frame != "nil" || r.fin.rawN != "0" || r.fin.utf8State != "0" || r.fin.opCode != "0" {
					problems = append(problems, "Discard of a message whose bytes were all read leaves the reader without reset(): the UTF-8 state of the rejected message leaks into the next one "+desc)
				}
				continue
			}
			problems = append(problems, "Discard does not drain the current frame "+desc)
			continue
		}
		// reference walk
		want := "nil"
		frag := r.frag0
		di, ni := 0, 0
	walk:
		for {
			if di >= len(r.drains) {
				problems = append(problems, "Discard stops before draining a fragment "+desc)
				break
			}
			switch r.drains[di] {
			case 1:
				want = "non-nil"
				break walk
			case 2:
				want = "drain-error"
				break walk
			}
			di++
			if !frag {
				break
			}
			if ni >= len(r.nf) {
				problems = append(problems, "Discard stops although the message has more fragments "+desc)
				break
			}
			k := r.nf[ni]
			ni++
			if k == 2 {
				want = "nf-error"
				break
			}
			frag = k == 0 || k == 3
		}
		if want == "non-nil" && prop != "C16" {
			continue // truncated payloads are C16's subject
		}
		switch want {
		case "non-nil":
			if e == "nil" {
				problems = append(problems, "payload cut short while discarding (source ended with bytes outstanding) but Discard returns nil "+desc)
			}
		default:
			if e != want {
				problems = append(problems, "Discard returns "+e+", want "+want+" "+desc)
			}
		}
		if r.fin.frame != "nil" || r.fin.rawN != "0" || r.fin.utf8State != "0" || r.fin.opCode != "0" {
			problems = append(problems, "Discard leaves the reader without reset() "+desc)
		}
		if r.fin.config != readerConfigWant(true) {
			problems = append(problems, "Discard changes the reader's configuration: "+r.fin.config+" "+desc)
		}
		// the fragmentation state is NextFrame's alone: Discard (and the reset it ends with) leaves it
		// as the last header set it - after a failure in the middle of a message the reader still
		// knows it is inside one, so the end of the stream is not taken for a clean one
		wantState := "1"
		if r.frag0 {
			wantState = "9"
		}
		for _, k := range r.nf {
			if k == 1 {
				wantState = "1"
			}
		}
		if r.fin.state != wantState {
			problems = append(problems, fmt.Sprintf("Discard leaves State=%s, the headers seen so far make it %s: the reader forgets that it is inside a fragmented message %s", r.fin.state, wantState, desc))
		}
	}
	c.verdict(rule, rule+"/Discard", c.P.FuncPos(f), uniq(problems), fmt.Sprintf("%d paths", len(out)))
}

// nameOf is the symbolic name of a value (its rendering if it has none).
func nameOf(v fold.Val) string {
	switch x := v.(type) {
	case fold.Sym:
		return x.Name
	case fold.Int:
		if x.Name != "" {
			return x.Name
		}
	case fold.Iface:
		return nameOf(x.V)
	}
	return fold.Show(v)
}
