// Package rules holds the per-property static rules.
package rules

import (
	"fmt"
	"go/types"
	"sort"
	"strings"
	"unicode"

	"golang.org/x/tools/go/ssa"

	"verif/wscheck/internal/fold"
	"verif/wscheck/internal/load"
	"verif/wscheck/internal/report"
)

// Ctx is handed to every rule.
type Ctx struct {
	P    *load.Program
	R    *report.Report
	Tier string
	Ix   *fold.InitIndex

	errTextLen *fold.Int
	cacheNF    []nfPath
	cacheNFL   *readerLayout
	ownerMap   map[string]string
	callersOf  map[string]map[string]bool
	notHelper  map[string]bool
	fb         foldBounds
	pwCache    map[*ssa.Parameter]string
	retAlias   map[*ssa.Function]map[int]bool
}

// Property describes one property check.
type Property struct {
	ID        string
	Technique string
	Explain   string
	Trusted   []string
	Assume    []string
	Run       func(c *Ctx)
	// Configs restricts the build configurations of the thorough tier
	// (nil = all three).
	Configs []string
}

var Registry = map[string]*Property{}

func register(p *Property) { Registry[p.ID] = p }

// IDs returns the registered property ids in order.
func IDs() []string {
	var ids []string
	for id := range Registry {
		ids = append(ids, id)
	}
	sort.Strings(ids)
	return ids
}

const (
	ws      = load.PkgWS
	wsutil  = load.PkgWSUtil
	wsflate = load.PkgWSFlate
)

// fn resolves a function anchor or records an undecided obligation.
func (c *Ctx) fn(rule, pkg, name string) *ssa.Function {
	f := c.P.Func(pkg, name)
	if f == nil || f.Blocks == nil {
		c.R.Unknown(rule, rule+"/anchor:"+shortPkg(pkg)+"."+name, "-", "anchor function "+pkg+"."+name+" does not resolve any more")
		return nil
	}
	c.R.Func(f.String())
	return f
}

// method resolves a method anchor or records an undecided obligation.
func (c *Ctx) method(rule, pkg, typ, name string) *ssa.Function {
	f := c.P.Method(pkg, typ, name)
	if f == nil || f.Blocks == nil {
		c.R.Unknown(rule, rule+"/anchor:"+shortPkg(pkg)+"."+typ+"."+name, "-", "anchor method "+pkg+"."+typ+"."+name+" does not resolve any more")
		return nil
	}
	c.R.Func(f.String())
	return f
}

func shortPkg(p string) string {
	if i := strings.LastIndexByte(p, '/'); i >= 0 {
		return p[i+1:]
	}
	return p
}

// machine returns a fold machine with the default models.
func (c *Ctx) machine() *fold.Machine {
	m := &fold.Machine{
		OnExplored: c.noteExploration,
		Prog:       c.P.Prog,
		GlobalInit: c.Ix.Init,
		Models:     map[string]fold.Model{},
		Inline: func(fn *ssa.Function) bool {
			if load.InModule(fn) {
				return true
			}
			if fn.Synthetic != "" && fn.Blocks != nil { // wrappers, bound methods, thunks
				return true
			}
			if pk := fn.Package(); pk != nil {
				switch pk.Pkg.Path() {
				case "encoding/binary":
					return strings.Contains(fn.String(), "Endian)")
				}
			}
			return false
		},
	}
	// the two unsafe casts are views of the same bytes
	m.Models[ws+".btsToString"] = func(cl *fold.Call) fold.Val {
		switch s := cl.Args[0].(type) {
		case fold.SymSeq:
			s.IsStr = true
			return s
		case fold.SliceV:
			el := cl.M.Elems(s)
			bs := make([]byte, len(el))
			for i, e := range el {
				k, ok := e.(fold.Int)
				if !ok || !k.IsConst() {
					return fold.SymSeq{Name: "view(" + fold.Show(s) + ")", Len: fold.K(s.Len), IsStr: true}
				}
				bs[i] = byte(k.Const())
			}
			return fold.Str(bs)
		case fold.Nil:
			return fold.Str("")
		}
		return fold.SymSeq{Name: "view(" + fold.Show(cl.Args[0]) + ")", Len: fold.LenOf(cl.Args[0]), IsStr: true}
	}
	m.Models[ws+".strToBytes"] = func(cl *fold.Call) fold.Val {
		switch s := cl.Args[0].(type) {
		case fold.SymSeq:
			s.IsStr = false
			return s
		case fold.Str:
			el := make([]fold.Val, len(s))
			for i := range el {
				el[i] = fold.K(int64(s[i]))
			}
			return cl.M.NewBytes("strbytes", el)
		}
		return fold.SymSeq{Name: "view(" + fold.Show(cl.Args[0]) + ")", Len: fold.LenOf(cl.Args[0])}
	}
	m.Models["unicode/utf8.ValidString"] = func(cl *fold.Call) fold.Val {
		return fold.Bool(cl.M.Atom("utf8valid(" + fold.Show(cl.Args[0]) + ")"))
	}
	addPureByteModels(m)
	return m
}

// addPureByteModels gives the side-effect free predicates and searches of
// bytes / strings their exact meaning on concrete arguments, so that a helper
// may be rewritten with them without a fold losing track; on symbolic
// arguments they fork (predicates) or return any position (searches). Rules
// that need names for such outcomes install their own models afterwards.
func addPureByteModels(m *fold.Machine) {
	pred := func(name string, f func(a, b string) bool) {
		model := func(cl *fold.Call) fold.Val {
			a, ok1 := concreteBytes(cl.M, cl.Args[0])
			b, ok2 := concreteBytes(cl.M, cl.Args[1])
			if ok1 && ok2 {
				return fold.Bool(f(string(a), string(b)))
			}
			return fold.Bool(cl.M.Atom(fmt.Sprintf("%s(%s,%s)#%d", name, fold.Show(cl.Args[0]), fold.Show(cl.Args[1]), cl.Seq)))
		}
		m.Models["bytes."+name] = model
		m.Models["strings."+name] = model
	}
	pred("Equal", func(a, b string) bool { return a == b })
	pred("HasPrefix", strings.HasPrefix)
	pred("HasSuffix", strings.HasSuffix)
	pred("Contains", strings.Contains)
	pred("EqualFold", strings.EqualFold)
	delete(m.Models, "strings.Equal")
	search := func(name string, f func(a, b string) int) {
		model := func(cl *fold.Call) fold.Val {
			a, ok1 := concreteBytes(cl.M, cl.Args[0])
			b, ok2 := concreteBytes(cl.M, cl.Args[1])
			if ok1 && ok2 {
				return fold.K(int64(f(string(a), string(b))))
			}
			l := fold.LenOf(cl.Args[0])
			hi := l.Hi
			if l.Top {
				hi = fold.MaxInt64
			}
			return fold.Int{Lo: -1, Hi: hi, Name: fmt.Sprintf("%s#%d", name, cl.Seq)}
		}
		m.Models["bytes."+name] = model
		m.Models["strings."+name] = model
	}
	search("Index", strings.Index)
	search("LastIndex", strings.LastIndex)
	searchByte := func(name string, f func(a string, c byte) int) {
		model := func(cl *fold.Call) fold.Val {
			a, ok := concreteBytes(cl.M, cl.Args[0])
			ch, isInt := cl.Args[1].(fold.Int)
			if ok && isInt && ch.IsConst() {
				return fold.K(int64(f(string(a), byte(ch.Const()))))
			}
			l := fold.LenOf(cl.Args[0])
			hi := l.Hi
			if l.Top {
				hi = fold.MaxInt64
			}
			return fold.Int{Lo: -1, Hi: hi, Name: fmt.Sprintf("%s#%d", name, cl.Seq)}
		}
		m.Models["bytes."+name] = model
		m.Models["strings."+name] = model
	}
	searchByte("IndexByte", strings.IndexByte)
	searchByte("LastIndexByte", strings.LastIndexByte)
	// trimming functions on concrete contents: the result is a view of the same memory
	trim := func(name string, cut func(a, arg string) (left, right int), hasArg bool) {
		model := func(cl *fold.Call) fold.Val {
			a, ok := concreteBytes(cl.M, cl.Args[0])
			arg := ""
			if ok && hasArg {
				var b []byte
				b, ok = concreteBytes(cl.M, cl.Args[1])
				arg = string(b)
			}
			if !ok {
				cl.M.Emit(fold.Effect{Kind: "call", Name: name, Args: cl.Args})
				l := fold.LenOf(cl.Args[0])
				hi := l.Hi
				if l.Top {
					hi = fold.MaxInt64
				}
				return fold.SymSeq{Name: fmt.Sprintf("%s(%s)", name, fold.Show(cl.Args[0])), Len: fold.Int{Lo: 0, Hi: hi}}
			}
			left, right := cut(string(a), arg)
			switch v := cl.Args[0].(type) {
			case fold.SliceV:
				v.Lo += int64(left)
				v.Len -= int64(left + right)
				v.Cap -= int64(left)
				return v
			case fold.Str:
				return fold.Str(string(a)[left : len(a)-right])
			}
			return fold.Str(string(a)[left : len(a)-right])
		}
		m.Models["bytes."+name] = model
		m.Models["strings."+name] = model
	}
	trim("TrimRight", func(a, cs string) (int, int) { return 0, len(a) - len(strings.TrimRight(a, cs)) }, true)
	trim("TrimLeft", func(a, cs string) (int, int) { return len(a) - len(strings.TrimLeft(a, cs)), 0 }, true)
	trim("Trim", func(a, cs string) (int, int) {
		l := len(a) - len(strings.TrimLeft(a, cs))
		return l, len(a) - l - len(strings.Trim(a, cs))
	}, true)
	trim("TrimSuffix", func(a, sfx string) (int, int) { return 0, len(a) - len(strings.TrimSuffix(a, sfx)) }, true)
	trim("TrimPrefix", func(a, pfx string) (int, int) { return len(a) - len(strings.TrimPrefix(a, pfx)), 0 }, true)
	trim("TrimSpace", func(a, _ string) (int, int) {
		l := len(a) - len(strings.TrimLeftFunc(a, unicode.IsSpace))
		return l, len(a) - l - len(strings.TrimSpace(a))
	}, false)
}

// globalVal returns the value a load of the global yields in the evaluator.
func (c *Ctx) globalVal(rule, pkg, name string) fold.Val {
	g := c.P.Global(pkg, name)
	if g == nil {
		c.R.Unknown(rule, rule+"/anchor:"+shortPkg(pkg)+"."+name, "-", "anchor variable "+pkg+"."+name+" does not resolve any more")
		return fold.Sym{Name: "missing:" + name}
	}
	if v, ok := c.Ix.Init(g); ok {
		return v
	}
	return fold.Sym{Name: "global:" + g.Pkg.Pkg.Name() + "." + g.Name(), NonNil: true}
}

// errName maps an error value returned by folded code to a readable name.
func (c *Ctx) errName(v fold.Val) string {
	switch x := v.(type) {
	case fold.Nil:
		return "nil"
	case fold.Iface:
		return types.TypeString(x.T, func(p *types.Package) string { return p.Name() }) + ":" + fold.Show(x.V)
	case fold.Sym:
		return x.Name
	}
	return fold.Show(v)
}

// asErrIface wraps a global's value the way `return ErrX` does.
func (c *Ctx) globalErrName(rule, pkg, name string) string {
	g := c.P.Global(pkg, name)
	if g == nil {
		c.R.Unknown(rule, rule+"/anchor:"+shortPkg(pkg)+"."+name, "-", "anchor variable "+pkg+"."+name+" does not resolve any more")
		return "missing:" + name
	}
	elem := g.Type().(*types.Pointer).Elem()
	v := c.globalVal(rule, pkg, name)
	if types.IsInterface(elem) {
		return c.errName(v)
	}
	return c.errName(fold.Iface{T: elem, V: v})
}

// abortSummary turns aborted paths into one undecided obligation.
func abortSummary[T any](paths []T, get func(T) *fold.Path) (n int, first string) {
	for _, p := range paths {
		if a := get(p).Abort; a != "" {
			n++
			if first == "" {
				first = a
			}
		}
	}
	return
}

func sprintf(f string, a ...any) string { return fmt.Sprintf(f, a...) }
