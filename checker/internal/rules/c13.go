package rules

import (
	"fmt"
	"sort"
	"strings"

	"golang.org/x/tools/go/ssa"

	"verif/wscheck/internal/fold"
)

func init() {
	register(&Property{
		ID:      "C13",
		Explain: "FOLD: wsflate.MessageState.SetBits / UnsetBits and the helpers SetBit, UnsetBit, IsCompressed are evaluated over Rsv(0..7) x OpCode(0..15) x compressed and compared with the RFC 7692 section 6 table: RSV1 is set iff first data frame of a compressed message, never on continuation or control frames; on receipt the state is updated only by a first data frame, RSV1 elsewhere is a protocol error, RSV2/RSV3 and all other header fields pass through. ws.Rsv / RsvBits / Rsv1..3 are folded against the bit layout. Wiring: the fragmenting writer's two emission paths apply every SendExtension to the header they then write (shared with C06), and Reader.NextFrame applies every RecvExtension after the header check and aborts on error before the payload reader is installed (shared with C05). Which frame is the first of a message is decided by the writer's fseq, so the Reset/ResetOp field tables (C18.writer-reset) are part of this check. protocol-error-kind: ErrUnexpectedCompressionBit is a ws.ProtocolError. The suffixed reader fold (C12) and the writer method tables are part of this check. The whole wsflate writer / reader plumbing (tail constants, cbuf, writer tail check, helpers, resets) is part of this check. Discard and Read tables run here: RSV1 on a later fragment of a message that is being skipped surfaces from Discard. The reader's own header decoder (decode-table) and the helper-siblings rule of C12 run here: the RSV bits the extension sees are the ones on the wire, and DecompressFrame refuses what DecompressFrameBuffer refuses.",
		Trusted: []string{"go/ssa + go/types", "the checker's abstract evaluator"},
		Assume:  []string{"Rsv <= 7, OpCode <= 15"},
		Run:     runC13,
	})
}

func runC13(c *Ctx) {
	if !c.headerLayoutOK("C13.anchor") {
		return
	}
	c13RsvLayout(c)
	c13Bits(c)
	// wiring
	writerEmissionRules(c, "C13")
	readerNextFrameRules(c, "C13")
	// the first-fragment decision depends on fseq, which the resets must clear
	c18Writer(c)
	// a compressed message reaches the decompressor through the suffixed reader
	c12Suffixed(c)
	writerMethodRules(c, "C13")
	protocolErrorKindRules(c, "C13")
	// the compressed round trip runs through the whole wsflate writer / reader plumbing
	c12Tails(c)
	c12Cbuf(c)
	c12Writer(c)
	c12Helpers(c)
	c12HelperSiblings(c)
	c18Flate(c)
	// RSV1 on a later fragment of a message that is being skipped surfaces from Discard
	readerDiscardRules(c, "C13")
	readerReadRules(c, "C13")
	// the RSV bits the extension sees are the ones the reader's own header decoder produced
	c01Decoder(c, "C13.decode-table", c.method("C13.decode-table", wsutil, "Reader", "readHeader"), true)
}

func c13RsvLayout(c *Ctx) {
	const rule = "C13.rsv-layout"
	c.R.Rule(rule, 5, "ws.Rsv, ws.RsvBits, Header.Rsv1/2/3 agree with the 3-bit layout RSV1=4, RSV2=2, RSV3=1")
	if f := c.fn(rule, ws, "Rsv"); f != nil {
		m := c.machine()
		paths := m.Explore(f, func(m *fold.Machine) []fold.Val {
			return []fold.Val{fold.Bool(m.Choose("r1", 2) == 1), fold.Bool(m.Choose("r2", 2) == 1), fold.Bool(m.Choose("r3", 2) == 1)}
		}, nil)
		var problems []string
		for _, p := range paths {
			if p.Abort != "" {
				problems = append(problems, "undecided: "+p.Abort)
				continue
			}
			want := int64(p.Chose("r1"))*4 + int64(p.Chose("r2"))*2 + int64(p.Chose("r3"))
			if fold.Show(p.Ret) != fmt.Sprint(want) {
				problems = append(problems, fmt.Sprintf("Rsv(%d,%d,%d)=%s want %d", p.Chose("r1"), p.Chose("r2"), p.Chose("r3"), fold.Show(p.Ret), want))
			}
		}
		c.R.AddCells(len(paths))
		c.verdict(rule, rule+"/Rsv", c.P.FuncPos(f), problems, "8 cells")
	}
	if f := c.fn(rule, ws, "RsvBits"); f != nil {
		m := c.machine()
		paths := m.Explore(f, func(m *fold.Machine) []fold.Val { return []fold.Val{fold.K(int64(m.Choose("rsv", 8)))} }, nil)
		var problems []string
		for _, p := range paths {
			if p.Abort != "" {
				problems = append(problems, "undecided: "+p.Abort)
				continue
			}
			r := p.Chose("rsv")
			want := fmt.Sprintf("(%v, %v, %v)", r&4 != 0, r&2 != 0, r&1 != 0)
			if fold.Show(p.Ret) != want {
				problems = append(problems, fmt.Sprintf("RsvBits(%d)=%s want %s", r, fold.Show(p.Ret), want))
			}
		}
		c.R.AddCells(len(paths))
		c.verdict(rule, rule+"/RsvBits", c.P.FuncPos(f), problems, "8 cells")
	}
	for i, name := range []string{"Rsv1", "Rsv2", "Rsv3"} {
		f := c.method(rule, ws, "Header", name)
		if f == nil {
			continue
		}
		bit := []int{4, 2, 1}[i]
		m := c.machine()
		paths := m.Explore(f, func(m *fold.Machine) []fold.Val {
			return []fold.Val{headerVal(true, int64(m.Choose("rsv", 8)), 1, false, nil, fold.K(0))}
		}, nil)
		var problems []string
		for _, p := range paths {
			if p.Abort != "" {
				problems = append(problems, "undecided: "+p.Abort)
				continue
			}
			want := fmt.Sprint(p.Chose("rsv")&bit != 0)
			if fold.Show(p.Ret) != want {
				problems = append(problems, fmt.Sprintf("%s(rsv=%d)=%s want %s", name, p.Chose("rsv"), fold.Show(p.Ret), want))
			}
		}
		c.R.AddCells(len(paths))
		c.verdict(rule, rule+"/"+name, c.P.FuncPos(f), problems, "8 cells")
	}
}

type bitsCase struct {
	rsv, op    int
	compressed bool
}

func distinctiveHeader(rsv, op int) fold.Struct {
	mask := fold.Arr{E: []fold.Val{fold.Int{Lo: 0, Hi: 255, Name: "m0"}, fold.Int{Lo: 0, Hi: 255, Name: "m1"}, fold.Int{Lo: 0, Hi: 255, Name: "m2"}, fold.Int{Lo: 0, Hi: 255, Name: "m3"}}}
	h := headerVal(true, int64(rsv), int64(op), true, mask, fold.Int{Lo: 0, Hi: fold.MaxInt64, Name: "Length"})
	h.F[0] = fold.Sym{Name: "Fin"}
	h.F[3] = fold.Sym{Name: "Masked"}
	return h
}

// sameExceptRsv reports whether out equals the distinctive header built from
// (rsv, op) with Rsv replaced by wantRsv.
func sameExceptRsv(out fold.Val, wantRsv, op int) bool {
	want := distinctiveHeader(wantRsv, op)
	return fold.Show(out) == fold.Show(want)
}

func c13Bits(c *Ctx) {
	const rule = "C13.bits-table"
	c.R.Rule(rule, 5, "SetBits/UnsetBits/SetBit/UnsetBit/IsCompressed decide exactly the RFC 7692 section 6 table")
	errBit := c.globalErrName(rule, wsflate, "ErrUnexpectedCompressionBit")
	firstData := func(op int) bool { return op&8 == 0 && op != 0 }

	run := func(name string, f *ssa.Function, withState bool, check func(bc bitsCase, p *fold.Path, finalCompressed string) string) {
		if f == nil {
			return
		}
		m := c.machine()
		var final string
		var st *fold.Obj
		paths := m.Explore(f, func(m *fold.Machine) []fold.Val {
			rsv, op := m.Choose("rsv", 8), m.Choose("op", 16)
			h := distinctiveHeader(rsv, op)
			if !withState {
				return []fold.Val{h}
			}
			comp := m.Choose("compressed", 2) == 1
			st = m.NewObj("state", fold.Struct{F: []fold.Val{fold.Bool(comp)}})
			return []fold.Val{fold.Ref{O: st}, h}
		}, func(m *fold.Machine, p *fold.Path) {
			final = ""
			if withState {
				final = fold.Show(m.Load(fold.Ref{O: st, Path: []int{0}}))
			}
			p.Effects = append(p.Effects, fold.Effect{Kind: "final", Name: final})
		})
		c.R.AddCells(len(paths))
		var problems []string
		for _, p := range paths {
			bc := bitsCase{rsv: p.Chose("rsv"), op: p.Chose("op"), compressed: p.Chose("compressed") == 1}
			if p.Abort != "" || p.Panic {
				problems = append(problems, "undecided: "+p.Abort+panicNote(p))
				continue
			}
			fin := ""
			for _, e := range p.Effects {
				if e.Kind == "final" {
					fin = e.Name
				}
			}
			if msg := check(bc, p, fin); msg != "" {
				problems = append(problems, fmt.Sprintf("%s(rsv=%d op=%#x compressed=%v): %s", name, bc.rsv, bc.op, bc.compressed, msg))
			}
		}
		c.verdict(rule, rule+"/"+name, c.P.FuncPos(f), problems, fmt.Sprintf("%d cells agree with RFC 7692 section 6", len(paths)))
	}

	setRef := func(bc bitsCase, hdr fold.Val, err fold.Val) string {
		r1 := bc.rsv&4 != 0
		switch {
		case r1:
			if c.errName(err) != errBit {
				return "RSV1 already set must be an error, got " + c.errName(err)
			}
		case firstData(bc.op) && bc.compressed:
			if c.errName(err) != "nil" || !sameExceptRsv(hdr, bc.rsv|4, bc.op) {
				return "first data frame of a compressed message must get RSV1 and nothing else: " + fold.Show(hdr) + " err=" + c.errName(err)
			}
		default:
			if c.errName(err) != "nil" || !sameExceptRsv(hdr, bc.rsv, bc.op) {
				return "header must pass unchanged: " + fold.Show(hdr) + " err=" + c.errName(err)
			}
		}
		return ""
	}
	run("SetBits", c.method(rule, wsflate, "MessageState", "SetBits"), true, func(bc bitsCase, p *fold.Path, fin string) string {
		ret, _ := p.Ret.(fold.Tuple)
		if len(ret) != 2 {
			return "unexpected result shape"
		}
		if fin != fmt.Sprint(bc.compressed) {
			return "SetBits must not change the message state"
		}
		return setRef(bc, ret[0], ret[1])
	})
	run("SetBit", c.fn(rule, wsflate, "SetBit"), false, func(bc bitsCase, p *fold.Path, fin string) string {
		ret, _ := p.Ret.(fold.Tuple)
		if len(ret) != 2 {
			return "unexpected result shape"
		}
		bc.compressed = true
		return setRef(bc, ret[0], ret[1])
	})
	unsetRef := func(bc bitsCase, hdr fold.Val, err fold.Val) (wasSet bool, msg string) {
		r1 := bc.rsv&4 != 0
		switch {
		case firstData(bc.op):
			if c.errName(err) != "nil" || !sameExceptRsv(hdr, bc.rsv&^4, bc.op) {
				return r1, "first data frame: RSV1 must be cleared, other bits untouched: " + fold.Show(hdr) + " err=" + c.errName(err)
			}
			return r1, ""
		case r1:
			if c.errName(err) != errBit {
				return false, "RSV1 on a continuation/control frame must be a protocol error, got " + c.errName(err)
			}
			return false, ""
		default:
			if c.errName(err) != "nil" || !sameExceptRsv(hdr, bc.rsv, bc.op) {
				return false, "header must pass unchanged: " + fold.Show(hdr)
			}
			return false, ""
		}
	}
	run("UnsetBits", c.method(rule, wsflate, "MessageState", "UnsetBits"), true, func(bc bitsCase, p *fold.Path, fin string) string {
		ret, _ := p.Ret.(fold.Tuple)
		if len(ret) != 2 {
			return "unexpected result shape"
		}
		was, msg := unsetRef(bc, ret[0], ret[1])
		if msg != "" {
			return msg
		}
		wantState := bc.compressed
		if firstData(bc.op) {
			wantState = was
		}
		if fin != fmt.Sprint(wantState) {
			return fmt.Sprintf("message state is %s, want %v (only a first data frame may update it)", fin, wantState)
		}
		return ""
	})
	run("UnsetBit", c.fn(rule, wsflate, "UnsetBit"), false, func(bc bitsCase, p *fold.Path, fin string) string {
		ret, _ := p.Ret.(fold.Tuple)
		if len(ret) != 3 {
			return "unexpected result shape"
		}
		was, msg := unsetRef(bc, ret[0], ret[2])
		if msg != "" {
			return msg
		}
		if c.errName(ret[2]) == "nil" && fold.Show(ret[1]) != fmt.Sprint(was) {
			return "wasSet=" + fold.Show(ret[1]) + ", want " + fmt.Sprint(was)
		}
		return ""
	})
	run("IsCompressed", c.fn(rule, wsflate, "IsCompressed"), false, func(bc bitsCase, p *fold.Path, fin string) string {
		ret, _ := p.Ret.(fold.Tuple)
		if len(ret) != 2 {
			return "unexpected result shape"
		}
		r1 := bc.rsv&4 != 0
		wantErr := !firstData(bc.op) && r1
		if wantErr != (c.errName(ret[1]) != "nil") {
			return "error=" + c.errName(ret[1])
		}
		if !wantErr && fold.Show(ret[0]) != fmt.Sprint(firstData(bc.op) && r1) {
			return "reports " + fold.Show(ret[0])
		}
		return ""
	})
}

// protocolErrorKindRules: the refusals the RFC classes as protocol errors are
// values of type ws.ProtocolError (that is how a caller tells a peer's protocol
// violation, to be answered with close code 1002, from an I/O failure). Checked
// on the initialisers: the value stored into each of these package variables is
// an interface made from a ws.ProtocolError.
func protocolErrorKindRules(c *Ctx, prop string) {
	rule := prop + ".protocol-error-kind"
	c.R.Rule(rule, 10, "ErrProtocol* and ErrUnexpectedCompressionBit are ws.ProtocolError values")
	pe := c.P.NamedType(ws, "ProtocolError")
	if pe == nil {
		c.R.Unknown(rule, rule+"/anchor:ws.ProtocolError", "-", "type does not resolve")
		return
	}
	type gv struct{ pkg, name string }
	var want []gv
	if sp := c.P.SSA[ws]; sp != nil {
		for name, m := range sp.Members {
			if _, ok := m.(*ssa.Global); ok && strings.HasPrefix(name, "ErrProtocol") {
				want = append(want, gv{ws, name})
			}
		}
	}
	want = append(want, gv{wsflate, "ErrUnexpectedCompressionBit"})
	sort.Slice(want, func(i, j int) bool { return want[i].name < want[j].name })
	for _, w := range want {
		g := c.P.Global(w.pkg, w.name)
		key := rule + "/" + shortPkg(w.pkg) + "." + w.name
		if g == nil {
			c.R.Unknown(rule, key, "-", "variable does not resolve")
			continue
		}
		kind := "never initialised"
		// go/ssa keeps no referrers for globals: look at the stores of the package initialiser
		if sp := c.P.SSA[w.pkg]; sp != nil {
			if init := sp.Func("init"); init != nil {
				for _, b := range init.Blocks {
					for _, in := range b.Instrs {
						st, ok := in.(*ssa.Store)
						if !ok || st.Addr != ssa.Value(g) {
							continue
						}
						if mi, ok := st.Val.(*ssa.MakeInterface); ok {
							kind = mi.X.Type().String()
						} else {
							// a variable of the concrete type, or an interface whose dynamic type is not visible
							kind = st.Val.Type().String()
						}
					}
				}
			}
		}
		if kind == pe.String() {
			c.R.OK(rule, key, c.P.Pos(g.Pos()), "initialised with a ws.ProtocolError")
		} else {
			c.R.Fail(rule, key, c.P.Pos(g.Pos()), "this refusal is no longer a ws.ProtocolError (dynamic type "+kind+"): callers that answer protocol violations with close code 1002 take it for another kind of failure")
		}
	}
}
