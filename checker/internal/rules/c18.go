package rules

import (
	"fmt"
	"go/types"
	"strings"

	"verif/wscheck/internal/fold"
)

func init() {
	register(&Property{
		ID:      "C18",
		Explain: "FOLD of every reset point started from a fully dirty object (every field holding a recognisable stale value: buffered bytes, a sticky error, attached extensions, flushing disabled, another side, a mid-sequence UTF-8 state, a stream position) and compared field by field with what the constructor produces for the same arguments: wsutil.Writer.Reset vs NewWriterBuffer (header reservation re-derived for the new side), ResetOp (stores exactly op/n/dirty/fseq and keeps extensions and the flush mode), the GetWriter/PutWriter pool cycle (reuse branch resets before handing out, Put resets before pooling), wsflate.Writer.Reset / Reader.Reset (error cleared, tail buffer / suffix position cleared, compressor re-targeted through Reset or the constructor), Extension.Reset, CipherReader/CipherWriter.Reset, UTF8Reader.Reset, and the message reader's reset()/resetFragment() at message end (shared with C04). A field that survives a reset with its stale value is reported with the field's name. NOT decided: equivalence after arbitrary histories (a grown buffer is kept on purpose), compressor internals behind the optional Reset interfaces. What NextFrame installs for the next message (cipher reader reset to position 0, UTF-8 reader, state) does not depend on the previous message; CipherReader/Writer.Reset and cbuf.reset are part of this check. caller-slices-not-written: a reset scrubs the object, not the caller's slice attached to it (no element store into Writer.extensions or an exported slice field). The flate resets are folded from a failed state and from one that looks clean (no error, nothing withheld): the compressor is re-targeted either way. UTF8Reader.Reset is compared with a new reader for a source and for nil. The SetBits / UnsetBits tables (C13.bits-table) run here: the per-message state of the compression extension is reused from message to message, and a first data frame without RSV1 clears what the previous message left.",
		Trusted: []string{"go/ssa + go/types", "the checker's abstract evaluator"},
		Run:     runC18,
	})
}

func runC18(c *Ctx) {
	c18Writer(c)
	c18Flate(c)
	c18Small(c)
	c14Reset(c) // Extension.Reset (rule id C14.reset is reported under this property too)
	readerReadRules(c, "C18")
	readerDiscardRules(c, "C18")
	// what NextFrame installs for the next message must not depend on the previous one
	readerNextFrameRules(c, "C18")
	c02Streams(c)
	c12Cbuf(c)
	// a reset scrubs the object, not what the caller attached to it
	callerSliceRules(c, "C18")
	// the per-message state of the compression extension is reused from message to message: a
	// first data frame without RSV1 must clear what the previous message left
	c13Bits(c)
}

func fieldNames(st *types.Struct) []string {
	out := make([]string, st.NumFields())
	for i := range out {
		out[i] = st.Field(i).Name()
	}
	return out
}

func c18Writer(c *Ctx) {
	const rule = "C18.writer-reset"
	c.R.Rule(rule, 4, "Writer.Reset leaves the writer as NewWriterBuffer would; ResetOp stores exactly op/n/dirty/fseq; GetWriter/PutWriter reset on both sides of the pool")
	L := c.writerLayout(rule)
	reset := c.method(rule, wsutil, "Writer", "Reset")
	ctor := c.fn(rule, wsutil, "NewWriterBuffer")
	if L == nil || reset == nil || ctor == nil {
		return
	}
	names := fieldNames(L.st)
	render := func(mm *fold.Machine, o *fold.Obj) []string {
		s, _ := mm.Load(fold.Ref{O: o}).(fold.Struct)
		out := make([]string, len(s.F))
		for i, f := range s.F {
			switch v := f.(type) {
			case fold.SliceV:
				if i == L.exts {
					out[i] = fmt.Sprintf("len=%d", v.Len)
				} else {
					out[i] = fmt.Sprintf("raw[%d:%d]", v.Lo, v.Lo+v.Len)
				}
			case fold.Nil:
				if i == L.exts {
					out[i] = "len=0"
				} else {
					out[i] = "nil"
				}
			default:
				out[i] = fold.Show(f)
			}
		}
		return out
	}
	for _, newClient := range []bool{false, true} {
		newState := int64(1)
		if newClient {
			newState = 2
		}
		// dirty object: other side, so the reservation must change
		var resetFields, ctorFields []string
		var problems []string
		m := c.machine()
		var obj *fold.Obj
		ps := m.Explore(reset, func(mm *fold.Machine) []fold.Val {
			cfg := writerCfg{rawLen: 16, offset: 6, client: true, n: 5, dirty: true, fseq: 2, sticky: true, noFlush: true, nExt: 2, op: 9}
			if newClient {
				cfg.offset, cfg.client = 2, false
			}
			obj, _ = newWriterObj(mm, L, cfg)
			return []fold.Val{fold.Ref{O: obj}, fold.Iface{V: fold.Sym{Name: "newdest", NonNil: true}}, fold.K(newState), fold.K(1)}
		}, func(mm *fold.Machine, p *fold.Path) { resetFields = render(mm, obj) })
		for _, p := range ps {
			if p.Abort != "" || p.Panic {
				problems = append(problems, "undecided: "+p.Abort+panicNote(p))
			}
		}
		m2 := c.machine()
		ps2 := m2.Explore(ctor, func(mm *fold.Machine) []fold.Val {
			el := make([]fold.Val, 16)
			for i := range el {
				el[i] = fold.K(0)
			}
			raw := mm.NewBytes("raw", el)
			return []fold.Val{fold.Iface{V: fold.Sym{Name: "newdest", NonNil: true}}, fold.K(newState), fold.K(1), raw}
		}, func(mm *fold.Machine, p *fold.Path) {
			if r, ok := p.Ret.(fold.Ref); ok {
				ctorFields = render(mm, r.O)
			}
		})
		for _, p := range ps2 {
			if p.Abort != "" || p.Panic {
				problems = append(problems, "undecided: "+p.Abort+panicNote(p))
			}
		}
		if len(problems) == 0 && (len(resetFields) != len(ctorFields) || len(resetFields) == 0) {
			problems = append(problems, "undecided: could not render writer fields")
		}
		for i := range resetFields {
			if len(problems) > 0 || i >= len(ctorFields) {
				break
			}
			if i == L.raw {
				continue // the buffer itself is kept on purpose
			}
			if resetFields[i] != ctorFields[i] {
				problems = append(problems, fmt.Sprintf("after Reset field %q is %s, a new writer has %s", names[i], resetFields[i], ctorFields[i]))
			}
		}
		c.verdict(rule, fmt.Sprintf("%s/Reset(client=%v)", rule, newClient), c.P.FuncPos(reset), uniq(problems), "every field equals a freshly constructed writer's")
	}
	// ResetOp
	if f := c.method(rule, wsutil, "Writer", "ResetOp"); f != nil {
		var problems []string
		// from every combination of leftovers: bytes buffered or not, dirty or not (ReadFrom flushes
		// fragments without marking the message dirty), fragments sent or not, failed or not
		for _, nbuf := range []int{0, 5} {
			for _, dirty := range []bool{false, true} {
				for _, fseq := range []int{0, 2} {
					for _, sticky := range []bool{false, true} {
						cfg := writerCfg{rawLen: 16, offset: 6, client: true, n: nbuf, dirty: dirty, fseq: fseq, sticky: sticky, noFlush: true, nExt: 2, op: 9}
						m := c.machine()
						var obj *fold.Obj
						var before, after []string
						ps := m.Explore(f, func(mm *fold.Machine) []fold.Val {
							obj, _ = newWriterObj(mm, L, cfg)
							before = render(mm, obj)
							return []fold.Val{fold.Ref{O: obj}, fold.K(1)}
						}, func(mm *fold.Machine, p *fold.Path) { after = render(mm, obj) })
						for _, p := range ps {
							if p.Abort != "" || p.Panic {
								problems = append(problems, "undecided: "+p.Abort)
							}
						}
						want := map[int]string{L.op: "1", L.n: "0", L.dirty: "false", L.fseq: "0"}
						for i := range after {
							if len(before) != len(after) {
								break
							}
							if w, ok := want[i]; ok {
								if after[i] != w {
									problems = append(problems, fmt.Sprintf("ResetOp leaves %q = %s, want %s [%s]", names[i], after[i], w, cfg))
								}
							} else if after[i] != before[i] {
								problems = append(problems, fmt.Sprintf("ResetOp changes %q (%s -> %s) although it documents keeping it (a sticky error that disappears lets the next message be written into a failed connection) [%s]", names[i], before[i], after[i], cfg))
							}
						}
					}
				}
			}
		}
		c.verdict(rule, rule+"/ResetOp", c.P.FuncPos(f), uniq(problems), "stores op, n, dirty, fseq and nothing else, from every combination of leftovers")
	}
	// SetExtensions / DisableFlush: the setters replace, they do not accumulate
	if f := c.method(rule, wsutil, "Writer", "SetExtensions"); f != nil {
		var problems []string
		for _, had := range []int{0, 2} {
			for _, give := range []int{0, 1, 2} {
				had, give := had, give
				m := c.machine()
				var obj *fold.Obj
				ps := m.Explore(f, func(mm *fold.Machine) []fold.Val {
					obj, _ = newWriterObj(mm, L, writerCfg{rawLen: 16, offset: 2, nExt: had, op: 1})
					el := make([]fold.Val, give)
					for i := range el {
						el[i] = fold.Sym{Name: fmt.Sprintf("new-ext%d", i+1), NonNil: true}
					}
					var xs fold.Val = fold.Nil{}
					if give > 0 {
						xs = fold.SliceV{O: mm.NewObj("xs", fold.Arr{E: el}), Len: int64(give), Cap: int64(give)}
					}
					return []fold.Val{fold.Ref{O: obj}, xs}
				}, func(mm *fold.Machine, p *fold.Path) {
					got := "nil"
					if s, ok := mm.Load(fold.Ref{O: obj, Path: []int{L.exts}}).(fold.SliceV); ok {
						var ns []string
						for _, e := range mm.Elems(s) {
							ns = append(ns, nameOf(e))
						}
						got = strings.Join(ns, ",")
					}
					var wantN []string
					for i := 0; i < give; i++ {
						wantN = append(wantN, fmt.Sprintf("new-ext%d", i+1))
					}
					want := strings.Join(wantN, ",")
					if give == 0 {
						if got != "nil" && got != "" {
							problems = append(problems, fmt.Sprintf("SetExtensions() with no arguments leaves the extensions %s attached", got))
						}
					} else if got != want {
						problems = append(problems, fmt.Sprintf("after SetExtensions(%s) on a writer that had %d extensions the writer runs [%s]: extensions set earlier keep touching the reserved bits (and a compression state attached twice refuses its own bit)", want, had, got))
					}
				})
				for _, p := range ps {
					if p.Abort != "" || p.Panic {
						problems = append(problems, "undecided: "+p.Abort+panicNote(p))
					}
				}
			}
		}
		c.verdict(rule, rule+"/SetExtensions", c.P.FuncPos(f), uniq(problems), "replaces the attached extensions")
	}
	// pool cycle
	if f := c.fn(rule, wsutil, "GetWriter"); f != nil {
		m := c.machine()
		var obj *fold.Obj
		var problems []string
		m.Models["(*github.com/gobwas/pool.Pool).Get"] = func(cl *fold.Call) fold.Val {
			cl.M.Emit(fold.Effect{Kind: "call", Name: "pool.Get", Args: cl.Args[1:]})
			if cl.M.Choose("pooled", 2) == 1 {
				return fold.Tuple{fold.Iface{T: types.NewPointer(L.named), V: fold.Ref{O: obj}}, fold.K(16)}
			}
			return fold.Tuple{fold.Nil{}, fold.K(16)}
		}
		m.Models["(*"+wsutil+".Writer).Reset"] = func(cl *fold.Call) fold.Val {
			cl.M.Emit(fold.Effect{Kind: "call", Name: "Reset", Args: cl.Args})
			return nil
		}
		m.Models[wsutil+".NewWriterBufferSize"] = func(cl *fold.Call) fold.Val {
			cl.M.Emit(fold.Effect{Kind: "call", Name: "NewWriterBufferSize", Args: cl.Args})
			return fold.Ref{O: cl.M.NewObj("fresh", fold.Sym{Name: "fresh"})}
		}
		ps := m.Explore(f, func(mm *fold.Machine) []fold.Val {
			obj, _ = newWriterObj(mm, L, writerCfg{rawLen: 16, offset: 2, n: 3, dirty: true, sticky: true})
			return []fold.Val{fold.Iface{V: fold.Sym{Name: "dest", NonNil: true}}, fold.K(2), fold.K(1), fold.Int{Lo: 0, Hi: 1 << 20, Name: "n"}}
		}, func(mm *fold.Machine, p *fold.Path) {
			if p.Chose("pooled") == 1 {
				rs := p.Calls("Reset")
				if len(rs) != 1 || !refTo(rs[0].Args[0], obj) || !strings.Contains(fold.Show(rs[0].Args[1]), "dest") || fold.Show(rs[0].Args[2]) != "2" || fold.Show(rs[0].Args[3]) != "1" {
					problems = append(problems, "a writer taken from the pool is handed out without Reset(dest, state, op)")
				}
				if !refTo(p.Ret, obj) {
					problems = append(problems, "the pooled writer is not the one returned")
				}
			} else {
				nw := p.Calls("NewWriterBufferSize")
				if len(nw) != 1 || !strings.Contains(fold.Show(nw[0].Args[0]), "dest") || fold.Show(nw[0].Args[1]) != "2" || fold.Show(nw[0].Args[2]) != "1" {
					problems = append(problems, "an empty pool must construct a new writer for (dest, state, op)")
				}
			}
		})
		for _, p := range ps {
			if p.Abort != "" || p.Panic {
				problems = append(problems, "undecided: "+p.Abort+panicNote(p))
			}
		}
		c.verdict(rule, rule+"/GetWriter", c.P.FuncPos(f), uniq(problems), "reuse branch resets before returning")
	}
	if f := c.fn(rule, wsutil, "PutWriter"); f != nil {
		m := c.machine()
		var obj *fold.Obj
		var problems []string
		m.Models["(*github.com/gobwas/pool.Pool).Put"] = func(cl *fold.Call) fold.Val {
			cl.M.Emit(fold.Effect{Kind: "call", Name: "pool.Put", Args: cl.Args[1:]})
			return nil
		}
		m.Models["(*"+wsutil+".Writer).Reset"] = func(cl *fold.Call) fold.Val {
			cl.M.Emit(fold.Effect{Kind: "call", Name: "Reset", Args: cl.Args})
			return nil
		}
		ps := m.Explore(f, func(mm *fold.Machine) []fold.Val {
			obj, _ = newWriterObj(mm, L, writerCfg{rawLen: 16, offset: 2, n: 3, dirty: true, sticky: true})
			return []fold.Val{fold.Ref{O: obj}}
		}, func(mm *fold.Machine, p *fold.Path) {
			var seq []string
			for _, e := range p.Effects {
				if e.Kind == "call" {
					seq = append(seq, e.Name)
				}
			}
			if strings.Join(seq, ",") != "Reset,pool.Put" {
				problems = append(problems, "PutWriter must Reset the writer and then put it into the pool, does ["+strings.Join(seq, ",")+"]")
				return
			}
			if !refTo(p.Calls("pool.Put")[0].Args[0], obj) {
				problems = append(problems, "a different object is pooled")
			}
		})
		for _, p := range ps {
			if p.Abort != "" || p.Panic {
				problems = append(problems, "undecided: "+p.Abort+panicNote(p))
			}
		}
		c.verdict(rule, rule+"/PutWriter", c.P.FuncPos(f), uniq(problems), "Reset then Put")
	}
}

func c18Small(c *Ctx) {
	const rule = "C18.small-resets"
	c.R.Rule(rule, 1, "UTF8Reader.Reset clears everything a new reader has cleared")
	L := c.readerLayout(rule)
	un := c.P.NamedType(wsutil, "UTF8Reader")
	f := c.method(rule, wsutil, "UTF8Reader", "Reset")
	ctor := c.fn(rule, wsutil, "NewUTF8Reader")
	if L == nil || un == nil || f == nil || ctor == nil {
		return
	}
	names := fieldNames(structOf(un))
	var problems []string
	// with a source, and with nil (detach): a nil source has no meaning of its own
	for _, srcVal := range []fold.Val{fold.Iface{V: fold.Sym{Name: "src", NonNil: true}}, fold.Nil{}} {
		srcVal := srcVal
		var got, want []string
		m := c.machine()
		var obj *fold.Obj
		ps := m.Explore(f, func(mm *fold.Machine) []fold.Val {
			s := fold.SymOfType("u", un).(fold.Struct)
			uSet(s, L.utf8SourceP, fold.Iface{V: fold.Sym{Name: "old", NonNil: true}})
			uSet(s, L.utf8StateP, fold.K(24))
			uSet(s, L.utf8CodepP, fold.K(5))
			uSet(s, L.utf8AcceptedP, fold.K(3))
			obj = mm.NewObj("u", s)
			return []fold.Val{fold.Ref{O: obj}, srcVal}
		}, func(mm *fold.Machine, p *fold.Path) {
			s, _ := mm.Load(fold.Ref{O: obj}).(fold.Struct)
			for _, f := range s.F {
				got = append(got, fold.Show(f))
			}
		})
		ps2 := c.machine().Explore(ctor, func(mm *fold.Machine) []fold.Val {
			return []fold.Val{srcVal}
		}, nil)
		for _, p := range append(ps, ps2...) {
			if p.Abort != "" || p.Panic {
				problems = append(problems, "undecided: "+p.Abort)
			}
		}
		// constructor result
		m3 := c.machine()
		m3.Explore(ctor, func(mm *fold.Machine) []fold.Val {
			return []fold.Val{srcVal}
		}, func(mm *fold.Machine, p *fold.Path) {
			if r, ok := p.Ret.(fold.Ref); ok {
				s, _ := mm.Load(fold.Ref{O: r.O}).(fold.Struct)
				for _, f := range s.F {
					want = append(want, fold.Show(f))
				}
			}
		})
		if len(problems) == 0 && (len(got) != len(want) || len(got) == 0) {
			problems = append(problems, "undecided: could not render fields")
		}
		for i := range got {
			if len(problems) > 0 {
				break
			}
			if got[i] != want[i] {
				problems = append(problems, fmt.Sprintf("after Reset(%s) field %q is %s, a new UTF8Reader has %s", fold.Show(srcVal), names[i], got[i], want[i]))
			}
		}
	}
	c.verdict(rule, rule+"/UTF8Reader.Reset", c.P.FuncPos(f), uniq(problems), "every field equals a new reader's")
}

func c18Flate(c *Ctx) {
	const rule = "C18.flate-reset"
	c.R.Rule(rule, 2, "wsflate.Writer.Reset / Reader.Reset clear the sticky error and the tail/suffix state and re-target the (de)compressor")
	// Writer
	wn := c.P.NamedType(wsflate, "Writer")
	cb := c.P.NamedType(wsflate, "cbuf")
	if f := c.method(rule, wsflate, "Writer", "Reset"); f != nil && wn != nil && cb != nil {
		st := structOf(wn)
		iCtor, iC, iCbuf, iErr := fieldIdx(st, "ctor", nil), fieldIdx(st, "c", typeIs(wsflate+".Compressor")), fieldIdx(st, "cbuf", typeIs(wsflate+".cbuf")), fieldIdx(st, "err", typeIs("error"))
		cst := structOf(cb)
		bBuf, bN, bDst, bErr := fieldIdx(cst, "buf", typeIs("[4]byte")), fieldIdx(cst, "n", typeIs("int")), fieldIdx(cst, "dst", typeIs("io.Writer")), fieldIdx(cst, "err", typeIs("error"))
		if iCtor < 0 || iC < 0 || iCbuf < 0 || iErr < 0 || bBuf < 0 || bN < 0 || bDst < 0 || bErr < 0 {
			c.R.Unknown(rule, rule+"/anchor:wsflate.Writer.fields", "-", "fields do not resolve")
		} else {
			m := c.machine()
			var obj *fold.Obj
			var problems []string
			m.Models["callback:ctor"] = func(cl *fold.Call) fold.Val {
				cl.M.Emit(fold.Effect{Kind: "call", Name: "ctor", Args: cl.Args})
				return fold.Iface{V: fold.Sym{Name: "new-compressor", NonNil: true}}
			}
			m.Models["invoke:("+wsflate+".WriteResetter).Reset"] = func(cl *fold.Call) fold.Val {
				cl.M.Emit(fold.Effect{Kind: "call", Name: "c.Reset", Args: cl.Args})
				return nil
			}
			ps := m.Explore(f, func(mm *fold.Machine) []fold.Val {
				s := fold.SymOfType("w", wn).(fold.Struct)
				s.F[iCtor] = fold.Sym{Name: "ctor", NonNil: true}
				if mm.Choose("resettable", 2) == 1 {
					s.F[iC] = fold.Iface{V: fold.Sym{Name: "old-compressor", NonNil: true}}
				} else {
					s.F[iC] = fold.Nil{}
				}
				// whatever happened before: a failed writer with withheld bytes, or one that looks
				// untouched (no error, nothing withheld - the compressor may still hold input of a
				// message that was never flushed)
				clean := mm.Choose("looks-clean", 2) == 1
				s.F[iErr] = fold.Sym{Name: "old-error", NonNil: true}
				cbv := fold.SymOfType("cbuf", cb).(fold.Struct)
				cbv.F[bBuf] = fold.Arr{E: []fold.Val{fold.K(1), fold.K(2), fold.K(3), fold.K(4)}}
				cbv.F[bN] = fold.K(3)
				cbv.F[bDst] = fold.Iface{V: fold.Sym{Name: "old-dest", NonNil: true}}
				cbv.F[bErr] = fold.Sym{Name: "old-cbuf-error", NonNil: true}
				if clean {
					s.F[iErr] = fold.Nil{}
					cbv.F[bBuf] = fold.Arr{E: []fold.Val{fold.K(0), fold.K(0), fold.K(0), fold.K(0)}}
					cbv.F[bN] = fold.K(0)
					cbv.F[bErr] = fold.Nil{}
				}
				s.F[iCbuf] = cbv
				obj = mm.NewObj("w", s)
				return []fold.Val{fold.Ref{O: obj}, fold.Iface{V: fold.Sym{Name: "dest", NonNil: true}}}
			}, func(mm *fold.Machine, p *fold.Path) {
				s, _ := mm.Load(fold.Ref{O: obj}).(fold.Struct)
				if fold.Show(s.F[iErr]) != "nil" {
					problems = append(problems, "Reset keeps the sticky error: every later Write/Flush fails")
				}
				problems = append(problems, otherFieldsZero(st, s, "wsflate.Writer", iCtor, iC, iCbuf, iErr, fieldIdx(st, "dest", typeIs("io.Writer")))...)
				if cbs, ok := s.F[iCbuf].(fold.Struct); ok {
					problems = append(problems, otherFieldsZero(cst, cbs, "wsflate.cbuf", bBuf, bN, bDst, bErr)...)
				}
				cbv, _ := s.F[iCbuf].(fold.Struct)
				if fold.Show(cbv.F[bN]) != "0" || fold.Show(cbv.F[bBuf]) != "[0,0,0,0]" {
					problems = append(problems, "Reset keeps withheld tail bytes of the previous message: "+fold.Show(cbv.F[bBuf])+" n="+fold.Show(cbv.F[bN]))
				}
				if fold.Show(cbv.F[bErr]) != "nil" {
					problems = append(problems, "Reset keeps the tail buffer's error")
				}
				if !strings.Contains(fold.Show(cbv.F[bDst]), ":dest)") {
					problems = append(problems, "Reset does not redirect output to the new destination: "+fold.Show(cbv.F[bDst]))
				}
				// compressor must be (re)targeted at &w.cbuf
				target := false
				for _, e := range p.Effects {
					if e.Kind == "call" && (e.Name == "ctor" || e.Name == "c.Reset") {
						for _, a := range e.Args {
							if refTo(a, obj, iCbuf) {
								target = true
							}
						}
					}
				}
				// type assertion on an opaque compressor forks: either branch must retarget
				if !target {
					problems = append(problems, "the compressor is neither Reset nor re-created on the tail buffer")
				}
			})
			for _, p := range ps {
				if p.Abort != "" || p.Panic {
					problems = append(problems, "undecided: "+p.Abort+panicNote(p))
				}
			}
			c.verdict(rule, rule+"/Writer.Reset", c.P.FuncPos(f), uniq(problems), "err, tail buffer cleared; destination and compressor re-targeted")
		}
	}
	// Reader
	rn := c.P.NamedType(wsflate, "Reader")
	sr := c.P.NamedType(wsflate, "suffixedReader")
	if f := c.method(rule, wsflate, "Reader", "Reset"); f != nil && rn != nil && sr != nil {
		st := structOf(rn)
		iSrc, iCtor, iD, iSr, iErr := fieldIdx(st, "src", typeIs("io.Reader")), fieldIdx(st, "ctor", nil), fieldIdx(st, "d", typeIs(wsflate+".Decompressor")), fieldIdx(st, "sr", typeIs(wsflate+".suffixedReader")), fieldIdx(st, "err", typeIs("error"))
		sst := structOf(sr)
		sR, sPos := fieldIdx(sst, "r", typeIs("io.Reader")), fieldIdx(sst, "pos", typeIs("int"))
		if iSrc < 0 || iCtor < 0 || iD < 0 || iSr < 0 || iErr < 0 || sR < 0 || sPos < 0 {
			c.R.Unknown(rule, rule+"/anchor:wsflate.Reader.fields", "-", "fields do not resolve")
			return
		}
		m := c.machine()
		var obj *fold.Obj
		var problems []string
		m.Models["callback:ctor"] = func(cl *fold.Call) fold.Val {
			cl.M.Emit(fold.Effect{Kind: "call", Name: "ctor", Args: cl.Args})
			return fold.Iface{V: fold.Sym{Name: "new-decompressor", NonNil: true}}
		}
		m.Models["invoke:("+wsflate+".ReadResetter).Reset"] = func(cl *fold.Call) fold.Val {
			cl.M.Emit(fold.Effect{Kind: "call", Name: "d.Reset", Args: cl.Args})
			return nil
		}
		ps := m.Explore(f, func(mm *fold.Machine) []fold.Val {
			s := fold.SymOfType("r", rn).(fold.Struct)
			s.F[iCtor] = fold.Sym{Name: "ctor", NonNil: true}
			if mm.Choose("resettable", 2) == 1 {
				s.F[iD] = fold.Iface{V: fold.Sym{Name: "old-decompressor", NonNil: true}}
			} else {
				s.F[iD] = fold.Nil{}
			}
			s.F[iErr] = fold.Sym{Name: "old-error", NonNil: true}
			s.F[iSrc] = fold.Iface{V: fold.Sym{Name: "old-src", NonNil: true}}
			sv := s.F[iSr].(fold.Struct)
			// the previous source was abandoned before its end and is of another kind than the new one
			sv.F[sR] = fold.Iface{V: fold.Sym{Name: "stale-src", NonNil: true}}
			sv.F[sPos] = fold.K(9)
			obj = mm.NewObj("r", s)
			return []fold.Val{fold.Ref{O: obj}, fold.Iface{V: fold.Sym{Name: "src", NonNil: true}}}
		}, func(mm *fold.Machine, p *fold.Path) {
			s, _ := mm.Load(fold.Ref{O: obj}).(fold.Struct)
			if fold.Show(s.F[iErr]) != "nil" {
				problems = append(problems, "Reset keeps the sticky error")
			}
			problems = append(problems, otherFieldsZero(st, s, "wsflate.Reader", iSrc, iCtor, iD, iSr, iErr)...)
			sv, _ := s.F[iSr].(fold.Struct)
			if fold.Show(sv.F[sPos]) != "0" {
				problems = append(problems, "Reset keeps the suffix position "+fold.Show(sv.F[sPos])+": the next message is not followed by the deflate tail")
			}
			if !strings.Contains(fold.Show(sv.F[sR]), ":src)") {
				problems = append(problems, "Reset does not read from the new source: "+fold.Show(sv.F[sR]))
			}
			target := false
			for _, e := range p.Effects {
				if e.Kind == "call" && (e.Name == "ctor" || e.Name == "d.Reset") {
					for _, a := range e.Args {
						if r, ok := isObjRefAny(a); ok && r == obj {
							target = true
						}
					}
				}
			}
			if !target {
				problems = append(problems, "the decompressor is neither Reset nor re-created on the suffixed reader")
			}
			// the view handed to the decompressor (with or without ReadByte) must be chosen from the new source
			onNew, onOld := false, false
			for _, ch := range p.Choices {
				if strings.HasPrefix(ch.Key, "assert(src,") {
					onNew = true
				}
				if strings.HasPrefix(ch.Key, "assert(stale-src,") {
					onOld = true
				}
			}
			if onOld || !onNew {
				problems = append(problems, "the ByteReader view of the suffixed reader is chosen before the new source is installed (decided on the previous source): a decompressor may call ReadByte on a source that has none")
			}
		})
		for _, p := range ps {
			if p.Abort != "" || p.Panic {
				problems = append(problems, "undecided: "+p.Abort+panicNote(p))
			}
		}
		c.verdict(rule, rule+"/Reader.Reset", c.P.FuncPos(f), uniq(problems), "err, suffix position cleared; source and decompressor re-targeted")
	}
}

// isObjRefAny returns the object a (possibly interior) pointer points into.
func isObjRefAny(v fold.Val) (*fold.Obj, bool) {
	if i, ok := v.(fold.Iface); ok {
		v = i.V
	}
	r, ok := v.(fold.Ref)
	if !ok {
		return nil, false
	}
	return r.O, true
}

// otherFieldsZero: a reset is compared field by field for the fields the rule
// knows; every other unexported field (a cache or counter added later) must be
// back at its zero value, or the reset object differs from a new one.
func otherFieldsZero(st *types.Struct, v fold.Struct, typ string, known ...int) []string {
	skip := map[int]bool{}
	for _, k := range known {
		skip[k] = true
	}
	var out []string
	for i := 0; i < st.NumFields() && i < len(v.F); i++ {
		if skip[i] || st.Field(i).Exported() {
			continue
		}
		if got, want := fold.Show(v.F[i]), fold.Show(fold.Zero(st.Field(i).Type())); got != want {
			out = append(out, fmt.Sprintf("Reset leaves field %q of %s as it was (%s): a reused object differs from a new one", st.Field(i).Name(), typ, got))
		}
	}
	return out
}
