package rules

import (
	"fmt"
	"go/types"
	"strings"

	"verif/wscheck/internal/fold"
)

var cliScripts = [][]int{
	{},
	{hUpgrade, hConnection, hAccept},
	{hAccept, hConnection, hUpgrade},
	{hConnection, hAccept},
	{hUpgrade, hAccept},
	{hUpgrade, hConnection},
	{hUpgrade}, {hConnection}, {hAccept}, {hProtocol}, {hExtensions}, {hOther}, {hMalformed},
	{hUpgrade, hConnection, hAccept, hProtocol, hExtensions, hOther},
	{hUpgrade, hConnection, hAccept, hExtensions, hExtensions},
	{hUpgrade, hConnection, hAccept, hProtocol, hProtocol},
	{hProtocol, hUpgrade, hConnection, hAccept},
}

// dialerUpgradeRules folds ws.Dialer.Upgrade over scripted responses.
func dialerUpgradeRules(c *Ctx, prop string) {
	rule := prop + ".dialer-decision-table"
	c.R.Rule(rule, 1, "Dialer.Upgrade succeeds exactly for HTTP/1.x (x>=1) 101 with Upgrade: websocket, Connection: upgrade and the accept value of the nonce it sent; a subprotocol must be one it requested (judged per header), extensions must match; buffered post-handshake bytes are handed over exactly on success")
	f := c.method(rule, ws, "Dialer", "Upgrade")
	dn := c.P.NamedType(ws, "Dialer")
	if f == nil || dn == nil {
		return
	}
	dst := structOf(dn)
	errs := map[string]string{}
	for _, n := range []string{"ErrHandshakeBadProtocol", "ErrHandshakeBadUpgrade", "ErrHandshakeBadConnection", "ErrHandshakeBadSecAccept",
		"ErrHandshakeBadSubProtocol", "ErrMalformedResponse"} {
		errs[n] = c.globalErrName(rule, ws, n)
	}
	type rec struct {
		script int
		p      *fold.Path
	}
	results := make([][]rec, len(cliScripts))
	parallel(len(cliScripts), func(si int) {
		script := cliScripts[si]
		m := c.machine()
		m.MaxPaths = 500000
		addCompareAtoms(m)
		var nonceObj *fold.Obj
		pool := func(name string, ret fold.Val) {
			m.Models["github.com/gobwas/pool/pbufio."+name] = func(cl *fold.Call) fold.Val {
				cl.M.Emit(fold.Effect{Kind: "call", Name: name, Args: cl.Args})
				return ret
			}
		}
		pool("GetReader", fold.Sym{Name: "br", NonNil: true})
		pool("GetWriter", fold.Sym{Name: "bw", NonNil: true})
		pool("PutReader", nil)
		pool("PutWriter", nil)
		m.Models[ws+".initNonce"] = func(cl *fold.Call) fold.Val {
			cl.M.Emit(fold.Effect{Kind: "call", Name: "initNonce", Args: cl.Args})
			if s, ok := cl.Args[0].(fold.SliceV); ok {
				nonceObj = s.O
				for i := int64(0); i < s.Len; i++ {
					cl.M.SetElem(s, i, fold.Int{Lo: 0, Hi: 255, Name: fmt.Sprintf("nonce%d", i)})
				}
			}
			return nil
		}
		m.Models[ws+".httpWriteUpgradeRequest"] = func(cl *fold.Call) fold.Val {
			cl.M.Emit(fold.Effect{Kind: "call", Name: "WriteRequest", Args: cl.Args})
			return nil
		}
		m.Models["(*bufio.Writer).Flush"] = func(cl *fold.Call) fold.Val {
			cl.M.Emit(fold.Effect{Kind: "call", Name: "Flush", Args: cl.Args})
			return errChoice(cl.M, "flush.err", "flush-error")
		}
		m.Models["(*bufio.Reader).Buffered"] = func(cl *fold.Call) fold.Val {
			if len(cl.Args) > 0 {
				if _, isNil := cl.Args[0].(fold.Nil); isNil {
					// (*bufio.Reader)(nil).Buffered() dereferences the receiver
					cl.M.Emit(fold.Effect{Kind: "call", Name: "nil-reader-used"})
				}
			}
			cl.M.Emit(fold.Effect{Kind: "call", Name: "Buffered", Args: cl.Args})
			if cl.M.Choose("buffered", 2) == 1 {
				return fold.Int{Lo: 1, Hi: 1 << 20, Name: "buffered"}
			}
			return fold.K(0)
		}
		m.Models[ws+".readLine"] = func(cl *fold.Call) fold.Val {
			mm := cl.M
			mm.Emit(fold.Effect{Kind: "call", Name: "readLine", Args: cl.Args})
			if cl.Seq > len(script)+2 {
				mm.Emit(fold.Effect{Kind: "call", Name: "readLine-past-blank-line"})
				return fold.Tuple{fold.Nil{}, fold.Sym{Name: "script-exhausted", NonNil: true}}
			}
			if mm.Choose(fmt.Sprintf("line%d.err", cl.Seq), 2) == 1 {
				return fold.Tuple{fold.SymSeq{Name: "partial", Len: fold.Range(0, 100)}, fold.Sym{Name: fmt.Sprintf("line%d-error", cl.Seq), NonNil: true}}
			}
			if cl.Seq == 1 {
				return fold.Tuple{fold.SymSeq{Name: "statusline", Len: fold.Range(1, 1<<20)}, fold.Nil{}}
			}
			idx := cl.Seq - 2
			if idx >= len(script) {
				return fold.Tuple{fold.SymSeq{Name: "blank", Len: fold.K(0)}, fold.Nil{}}
			}
			return fold.Tuple{fold.SymSeq{Name: fmt.Sprintf("line:%d", idx), Len: fold.Range(1, 1<<20)}, fold.Nil{}}
		}
		m.Models[ws+".httpParseResponseLine"] = func(cl *fold.Call) fold.Val {
			k := cl.M.Choose("statusline", 6) // 0: 1.1 101; 1: 1.2 101; 2: 1.0 101; 3: 2.0 101; 4: 1.1 200; 5: malformed
			maj, min, st := int64(1), int64(1), int64(101)
			switch k {
			case 1:
				min = 2
			case 2:
				min = 0
			case 3:
				maj, min = 2, 0
			case 4:
				st = 200
			}
			resp := fold.Struct{F: []fold.Val{fold.K(maj), fold.K(min), fold.K(st), fold.SymSeq{Name: "reason", Len: fold.Range(0, 100)}}}
			if k == 5 {
				return fold.Tuple{resp, fold.Sym{Name: errs["ErrMalformedResponse"], NonNil: true}}
			}
			return fold.Tuple{resp, fold.Nil{}}
		}
		m.Models[ws+".httpParseHeaderLine"] = func(cl *fold.Call) fold.Val {
			mm := cl.M
			name := fold.Show(cl.Args[0])
			var idx int
			fmt.Sscanf(name, "line:%d", &idx)
			if !strings.HasPrefix(name, "line:") || idx >= len(script) || script[idx] == hMalformed {
				return fold.Tuple{fold.Nil{}, fold.Nil{}, fold.Bool(false)}
			}
			return fold.Tuple{constBytesVal(mm, hsCanonical[script[idx]]), fold.SymSeq{Name: fmt.Sprintf("v%d", idx), Len: fold.Int{Lo: 0, Hi: 1 << 20, Name: fmt.Sprintf("len(v%d)", idx)}}, fold.Bool(true)}
		}
		m.Models[ws+".checkAcceptFromNonce"] = func(cl *fold.Call) fold.Val {
			same := "other-buffer"
			if s, ok := cl.Args[1].(fold.SliceV); ok && s.O == nonceObj && s.Lo == 0 && s.Len == 24 {
				same = "sent-nonce"
			}
			cl.M.Emit(fold.Effect{Kind: "call", Name: "checkAccept", Args: []fold.Val{cl.Args[0], fold.Str(same)}})
			return fold.Bool(cl.M.Atom("accept-ok(" + fold.Show(cl.Args[0]) + ")"))
		}
		m.Models[ws+".matchSelectedExtensions"] = func(cl *fold.Call) fold.Val {
			cl.M.Emit(fold.Effect{Kind: "call", Name: "matchExtensions", Args: cl.Args})
			return fold.Tuple{fold.SymSeq{Name: fmt.Sprintf("matched-exts#%d", cl.Seq), Len: fold.Range(0, 10)}, errChoice(cl.M, fmt.Sprintf("match#%d.err", cl.Seq), "match-error")}
		}
		m.Models["callback:OnHeader"] = func(cl *fold.Call) fold.Val {
			cl.M.Emit(fold.Effect{Kind: "call", Name: "OnHeader", Args: cl.Args})
			return errChoice(cl.M, fmt.Sprintf("OnHeader#%d.err", cl.Seq), "OnHeader-error")
		}
		m.Models["callback:OnStatusError"] = func(cl *fold.Call) fold.Val {
			cl.M.Emit(fold.Effect{Kind: "call", Name: "OnStatusError", Args: cl.Args})
			return nil
		}
		for _, n := range []string{"bytes.NewReader", "strings.NewReader", "io.MultiReader"} {
			n := n
			m.Models[n] = func(cl *fold.Call) fold.Val { return fold.Iface{V: fold.Sym{Name: n, NonNil: true}} }
		}
		var out []rec
		eps := m.Explore(f, func(mm *fold.Machine) []fold.Val {
			nonceObj = nil
			d := fold.SymOfType("d", dn).(fold.Struct)
			for i := 0; i < dst.NumFields(); i++ {
				fld := dst.Field(i)
				switch fld.Name() {
				case "Protocols":
					pe := []fold.Val{fold.Str("p0"), fold.Str("p1")}
					d.F[i] = fold.SliceV{O: mm.NewObj("protocols", fold.Arr{E: pe}), Len: 2, Cap: 2}
				case "ReadBufferSize", "WriteBufferSize", "Timeout":
					d.F[i] = fold.K(0)
				default:
					switch fld.Type().Underlying().(type) {
					case *types.Signature, *types.Interface, *types.Pointer:
						d.F[i] = fold.Sym{Name: fld.Name()}
					}
				}
			}
			return []fold.Val{d, fold.Iface{V: fold.Sym{Name: "conn", NonNil: true}}, fold.Sym{Name: "url", NonNil: true}}
		}, func(mm *fold.Machine, p *fold.Path) { out = append(out, rec{script: si, p: p}) })
		for _, p := range eps {
			if p.Abort != "" || p.Panic {
				out = append(out, rec{script: si, p: p})
			}
		}
		results[si] = out
	})
	var all []rec
	for _, r := range results {
		all = append(all, r...)
	}
	c.R.AddCells(len(all))
	c.R.Paths += len(all)
	var problems []string
	var stale []string
	succ := 0
	for _, r := range all {
		p := r.p
		if p.Abort != "" || p.Panic {
			problems = append(problems, "undecided: "+p.Abort+panicNote(p))
			continue
		}
		for _, su := range staleUses(p, p.Ret) {
			// OnStatusError is documented to receive the status line bytes while they are valid
			if !strings.Contains(su, "OnStatusError") {
				stale = append(stale, su)
			}
		}
		script := cliScripts[r.script]
		ret, _ := p.Ret.(fold.Tuple)
		if len(ret) != 3 {
			problems = append(problems, "unexpected result shape")
			continue
		}
		gotErr := c.errName(ret[2])
		wantErr, wantProto := cliReference(p, script, errs)
		desc := fmt.Sprintf("[status line %d; headers %s; %s]", p.Chose("statusline"), scriptName(script), atomSummaryAll(p))
		if len(p.Calls("readLine-past-blank-line")) > 0 {
			problems = append(problems, "the header loop reads past the blank line "+desc)
			continue
		}
		if len(p.Calls("nil-reader-used")) > 0 {
			problems = append(problems, "the clean-up calls Buffered() on a nil reader (the named result was set to nil before the deferred function ran): the dialer panics on this response "+desc)
			continue
		}
		if gotErr != wantErr {
			if wantErr == "nil" {
				problems = append(problems, "a valid response is refused with "+gotErr+" "+desc)
			} else if gotErr == "nil" {
				problems = append(problems, "the handshake succeeds although the response must be refused with "+wantErr+" "+desc)
			} else {
				problems = append(problems, "refusal reports "+gotErr+", the first broken rule is "+wantErr+" "+desc)
			}
			continue
		}
		// request: nonce initialised, written, flushed - before reading
		var seq []string
		for _, e := range p.Effects {
			if e.Kind == "call" {
				switch e.Name {
				case "initNonce", "WriteRequest", "Flush", "readLine":
					seq = append(seq, e.Name)
				}
			}
		}
		js := strings.Join(seq, ",")
		if !strings.HasPrefix(js, "initNonce,WriteRequest,Flush") {
			problems = append(problems, "the request is not (fresh nonce, write, flush) before anything is read: "+js)
		}
		if wr := p.Calls("WriteRequest"); len(wr) == 1 {
			if s, ok := wr[0].Args[2].(fold.SliceV); !ok || s.Len != 24 || len(p.Calls("initNonce")) != 1 {
				problems = append(problems, "the request is not written with the freshly initialised 24-byte nonce")
			} else if in := p.Calls("initNonce")[0]; fold.Show(in.Args[0]) != fold.Show(wr[0].Args[2]) {
				problems = append(problems, "the nonce written differs from the one initialised")
			}
			if fold.Show(wr[0].Args[0]) != "bw" || fold.Show(wr[0].Args[1]) != "url" {
				problems = append(problems, "the request is not written for the given URL to the pooled writer")
			}
			// the configuration reaches the request writer: subprotocols, extensions, extra headers, Host override
			if len(wr[0].Args) == 7 {
				for i, want := range []string{"protocols", "Extensions", "Header", "Host"} {
					if got := fold.Show(wr[0].Args[3+i]); !strings.Contains(got, want) {
						problems = append(problems, fmt.Sprintf("the request is written with %s where the dialer's configured %s belongs", got, want))
					}
				}
			} else {
				problems = append(problems, fmt.Sprintf("undecided: httpWriteUpgradeRequest takes %d arguments (bw, url, nonce, protocols, extensions, header, host expected)", len(wr[0].Args)))
			}
		}
		for _, ca := range p.Calls("checkAccept") {
			if fold.Show(ca.Args[1]) != `"sent-nonce"` {
				problems = append(problems, "Sec-WebSocket-Accept is not verified against the nonce that was sent")
			}
		}
		// post-handshake bytes and pool discipline
		buffered := p.Chose("buffered") == 1
		cnt := map[string]int{}
		last := ""
		afterPut := ""
		for _, e := range p.Effects {
			if e.Kind == "call" {
				if strings.HasPrefix(last, "Put") && !strings.HasPrefix(e.Name, "Put") && e.Name != "Buffered" && afterPut == "" {
					afterPut = e.Name + " after " + last
				}
				cnt[e.Name]++
				last = e.Name
			}
		}
		if afterPut != "" {
			problems = append(problems, "a pooled handshake buffer is put back while the handshake still runs ("+afterPut+") "+desc)
		}
		brRet := fold.Show(ret[0])
		if gotErr == "nil" && buffered {
			if brRet != "br" || cnt["PutReader"] != 0 {
				problems = append(problems, "bytes the server sent after the response head are lost: reader returned="+brRet+" PutReader calls="+fmt.Sprint(cnt["PutReader"])+" "+desc)
			}
		} else if p.Chose("flush.err") != 1 || true {
			if brRet != "nil" || cnt["PutReader"] != 1 {
				problems = append(problems, fmt.Sprintf("the pooled reader must be put back and not returned (returned=%s, PutReader=%d) %s", brRet, cnt["PutReader"], desc))
			}
		}
		if cnt["GetReader"] != 1 || cnt["GetWriter"] != 1 || cnt["PutWriter"] != 1 {
			problems = append(problems, fmt.Sprintf("pooled buffers: GetReader=%d GetWriter=%d PutWriter=%d", cnt["GetReader"], cnt["GetWriter"], cnt["PutWriter"]))
		}
		if !(strings.HasPrefix(last, "Put") || last == "Buffered") {
			problems = append(problems, "a pooled buffer is used after it was put back ("+last+")")
		}
		// extensions: every Sec-WebSocket-Extensions line is matched against the configured offer and
		// adds to what the earlier lines selected; what is returned is the result of the last match
		me := p.Calls("matchExtensions")
		for k, e := range me {
			if len(e.Args) != 3 {
				continue
			}
			if got := fold.Show(e.Args[1]); !strings.Contains(got, "Extensions") {
				problems = append(problems, "the server's extensions are matched against "+got+" instead of the dialer's offer "+desc)
			}
			prev := "nil"
			if k > 0 {
				prev = fmt.Sprintf("matched-exts#%d", k)
			}
			empty := false
			switch v := e.Args[2].(type) {
			case fold.Nil:
				empty = true
			case fold.SliceV:
				empty = v.Len == 0
			case fold.SymSeq:
				empty = v.Nil || v.Len.IsConst() && v.Len.Const() == 0
			}
			if got := fold.Show(e.Args[2]); !(k == 0 && empty) && !strings.Contains(got, prev) {
				problems = append(problems, fmt.Sprintf("extension header line %d is matched into %s instead of what the earlier lines selected (%s): the extensions of all but the last line are lost %s", k+1, got, prev, desc))
			}
		}
		if gotErr == "nil" && len(me) > 0 {
			if hs, ok := ret[1].(fold.Struct); ok && len(hs.F) == 2 {
				if got, want := fold.Show(hs.F[1]), fmt.Sprintf("matched-exts#%d", len(me)); !strings.Contains(got, want) {
					problems = append(problems, "the extensions returned are "+got+", the server selected "+want+" "+desc)
				}
			}
		}
		if gotErr == "nil" {
			succ++
			hs, _ := ret[1].(fold.Struct)
			if len(hs.F) == 2 && fold.Show(hs.F[0]) != wantProto {
				problems = append(problems, "returned subprotocol is "+fold.Show(hs.F[0])+", the server selected "+wantProto+" "+desc)
			}
		}
	}
	if succ == 0 {
		problems = append(problems, "undecided: no success path")
	}
	lrule := prop + ".handshake-buffer-lifetime"
	c.R.Rule(lrule, 1, "no slice of a response line is used after a later line was read into the same pooled buffer, and none is returned")
	c.verdict(lrule, lrule+"/Dialer.Upgrade", c.P.FuncPos(f), uniq(stale), fmt.Sprintf("%d paths: every view of a line dies before the next readLine", len(all)))
	c.R.Sample(map[string]any{"rule": rule, "scripts": len(cliScripts), "paths": len(all), "success_paths": succ})
	c.verdict(rule, rule+"/Dialer.Upgrade", c.P.FuncPos(f), uniq(problems), fmt.Sprintf("%d paths over %d scripted responses; %d succeed", len(all), len(cliScripts), succ))
}

// cliReference: RFC 6455 4.1 client-side validation as stated in the property.
func cliReference(p *fold.Path, script []int, errs map[string]string) (wantErr, proto string) {
	proto = `""`
	if p.Chose("flush.err") == 1 {
		return "flush-error", proto
	}
	if p.Chose("line1.err") == 1 {
		return "line1-error", proto
	}
	switch p.Chose("statusline") {
	case 5:
		return errs["ErrMalformedResponse"], proto
	case 2, 3:
		return errs["ErrHandshakeBadProtocol"], proto
	case 4:
		return "ws.StatusError:200", proto
	}
	seen := map[int]bool{}
	hdrSeq, matchSeq := 0, 0
	for idx := 0; idx <= len(script); idx++ {
		if p.Chose(fmt.Sprintf("line%d.err", idx+2)) == 1 {
			return fmt.Sprintf("line%d-error", idx+2), proto
		}
		if idx == len(script) {
			break
		}
		atom := func(op, s string) bool { return p.Chose(fmt.Sprintf("%s(v%d,%q)", op, idx, s)) == 1 }
		switch script[idx] {
		case hMalformed:
			return errs["ErrMalformedResponse"], proto
		case hUpgrade:
			seen[hUpgrade] = true
			if !atom("Equal", "websocket") && !atom("EqualFold", "websocket") {
				return errs["ErrHandshakeBadUpgrade"], proto
			}
		case hConnection:
			seen[hConnection] = true
			if !atom("Equal", "Upgrade") && !atom("EqualFold", "Upgrade") {
				return errs["ErrHandshakeBadConnection"], proto
			}
		case hAccept:
			seen[hAccept] = true
			if p.Chose(fmt.Sprintf("accept-ok(v%d)", idx)) != 1 {
				return errs["ErrHandshakeBadSecAccept"], proto
			}
		case hProtocol:
			matched := ""
			for _, want := range []string{"p0", "p1"} {
				if p.Chose(fmt.Sprintf("eq(string(v%d),%q)", idx, want)) == 1 {
					matched = want
					break
				}
			}
			if matched == "" {
				return errs["ErrHandshakeBadSubProtocol"], proto
			}
			proto = fmt.Sprintf("%q", matched)
		case hExtensions:
			// the path must have asked: one that did not gives the same outcome to a response
			// naming an extension that was never offered
			matchSeq++
			switch r := p.Chose(fmt.Sprintf("match#%d.err", matchSeq)); {
			case r > 0:
				return "match-error", proto
			case r == -1:
				return fmt.Sprintf("(the Sec-WebSocket-Extensions value v%d is never matched against the offer on this path)", idx), proto
			}
		case hOther:
			switch p.Chose("isnil(OnHeader)") {
			case 0:
				hdrSeq++
				switch r := p.Chose(fmt.Sprintf("OnHeader#%d.err", hdrSeq)); {
				case r > 0:
					return "OnHeader-error", proto
				case r == -1:
					return fmt.Sprintf("(OnHeader is set but not called for header v%d on this path)", idx), proto
				}
			case -1:
				return fmt.Sprintf("(the outcome does not depend on whether OnHeader is set, although header v%d is one it must see)", idx), proto
			}
		}
	}
	switch {
	case !seen[hUpgrade]:
		return errs["ErrHandshakeBadUpgrade"], proto
	case !seen[hConnection]:
		return errs["ErrHandshakeBadConnection"], proto
	case !seen[hAccept]:
		return errs["ErrHandshakeBadSecAccept"], proto
	}
	return "nil", proto
}
