package rules

func init() {
	register(&Property{
		ID:      "C05",
		Explain: "FOLD of wsutil.(*Reader).NextFrame: the method is evaluated abstractly on every combination of header-read outcome (nil / io.EOF / other), Fin, opcode class, Masked, fragmentation state, side, SkipHeaderCheck, CheckUTF8, previous message opcode, cipher reader present or not, 0-2 receive extensions (each accepting or rejecting), MaxFrameSize (0, negative, positive with the announced length above or below it), and callbacks present / failing, with ws.CheckHeader as an atom that accepts or rejects. For every path the rules compare the final reader state and the call trace with the reference: nothing is installed (raw, frame, State, opCode, utf8 untouched) and a non-nil error is returned unless the header was read, CheckHeader(hdr as decoded, r.State as it is now) accepted it (or SkipHeaderCheck), and the size gate passed; an oversized frame yields ErrFrameTooLarge before any payload access; io.EOF while fragmented becomes io.ErrUnexpectedEOF; extensions run after the checks and their rejection aborts before the frame reader is stored. Together with C03's exact CheckHeader table and C04's state table this is the RFC fragmentation automaton. The header the gates see is the one (*Reader).readHeader decodes: its decode table (all 65536 first-two-byte values) is part of this check, as is the Discard fold (a violation in a later fragment surfaces from Discard). The Read table (with the header NextFrame returns varying over control / final / empty) and the protocol-error-kind rule (every ErrProtocol* and ErrUnexpectedCompressionBit is a ws.ProtocolError) are part of this check. The helpers (readData, ReadMessage) are part of this check: a violation in a later frame surfaces from them too. helper-nextreader: NextReader checks the header against exactly the state it was given.",
		Trusted: []string{"go/ssa + go/types", "the checker's abstract evaluator", "ws.CheckHeader's own table is decided under C03"},
		Assume:  []string{"delivery of the frames before the offending one is C04's (undecided) history part"},
		Run: func(c *Ctx) {
			readerNextFrameRules(c, "C05")
			// the framing rules themselves: NextFrame delegates them to ws.CheckHeader
			c03CheckHeader(c)
			// the header the checks see is the one readHeader decodes
			c01Decoder(c, "C05.decode-table", c.method("C05.decode-table", wsutil, "Reader", "readHeader"), true)
			// a violation in a later fragment must surface from Discard as well
			readerDiscardRules(c, "C05")
			readerReadRules(c, "C05")
			protocolErrorKindRules(c, "C05")
			// a violation in a later frame must surface from the helpers as well
			helperReadDataRules(c, "C05")
			helperReadMessageRules(c, "C05")
			helperNextReaderRules(c, "C05")
		},
	})
}
