package rules

// writerEmissionRules: both emission paths of the fragmenting writer apply the
// send extensions to the header they write.
func writerEmissionRules(c *Ctx, prop string) {
	writerFlushFragmentRules(c, prop)
	writerMethodRules(c, prop)
}
