package rules

func writerEmissionRules(c *Ctx, prop string) {}
