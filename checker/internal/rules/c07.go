package rules

import (
	"fmt"
	"go/types"
	"regexp"
	"sort"
	"strings"

	"golang.org/x/tools/go/ssa"

	"verif/wscheck/internal/fold"
)

func init() {
	register(&Property{
		ID:      "C07",
		Explain: "(1) The UTF-8 automaton is extracted by folding wsutil.decode itself over (state, byte) for every reachable state and all 256 byte values, with the utf8d table read through its (write-once) initialiser, and is proven language-equivalent to a reference DFA for Unicode Table 3-7 (no overlongs, no surrogates, nothing above U+10FFFF) by exhaustive product construction; the reject state is absorbing and coincides with the reference's dead state; every table index is in range. A change to the table or to the index arithmetic changes the extracted automaton. (2) UTF8Reader.Read is folded for 0..3 bytes read with decode as an uninterpreted step: the step is applied to p[0..n) in order with the carried (state, codep), state is written back on both exits, a reject returns ErrInvalidUTF8. Valid() is 'state == accept'. (3) Wiring in wsutil.Reader (folds shared with C04): the validating reader is installed iff CheckUTF8 and (text frame or continuation of a text message), control frames do not touch it, the DFA state survives fragment boundaries (resetFragment) and is cleared per message (reset), and validity is tested exactly at the end of the final fragment, where an invalid message yields ErrInvalidUTF8 and never io.EOF. When the message ends in an invalid state Read must report the validated prefix, not the full count (io.ReadFull, used by ReadMessage, drops an error that arrives with the last requested byte); UTF8Reader.Read must refresh Accepted() on every call, also when nothing was read. Discard and the helpers are part of this check (the automaton state must not survive a discarded message; readData / ReadMessage start from a pristine Reader). From the accepting state a shortcut for plain ASCII is allowed, but every byte that is not fed to the automaton must occur in a condition decided on the path (byte lanes are tracked through word loads and masks). The step function is taken in either shape: decode(state, codep, b) (codep, state), or the single function over a {state, codep} struct that reads utf8d (a value-receiver method such as next(b)). OnContinuation is handed the reader chain installed for Read (a callback that consumes the fragment passes through the validator). UTF8Reader.Reset returns every field to a new reader's value (C18.small-resets runs here). The Read table includes the outcome in which the validator in front of the frame refuses the bytes just read: Read returns that very count with ErrInvalidUTF8 (not a count remembered from an earlier call).",
		Trusted: []string{"go/ssa + go/types", "the checker's abstract evaluator", "the reference DFA written in the checker from Unicode Table 3-7"},
		Assume:  []string{"the Accepted() bookkeeping and the interplay with transport errors are not decided"},
		Run: func(c *Ctx) {
			c07DFA(c)
			c07Read(c)
			readerNextFrameRules(c, "C07")
			readerReadRules(c, "C07")
			// the automaton state must not survive a discarded message or a reused reader
			readerDiscardRules(c, "C07")
			helperReadDataRules(c, "C07")
			helperReadMessageRules(c, "C07")
			helperNextReaderRules(c, "C07")
			// the standalone validating reader reused through Reset starts in the accepting state again
			c18Small(c)
		},
	})
}

// reference DFA states
const (
	rACC = iota
	rC1
	rC2
	rC3
	rE0
	rED
	rF0
	rF4
	rREJ
)

func refStep(s int, b int) int {
	cont := b >= 0x80 && b <= 0xBF
	switch s {
	case rACC:
		switch {
		case b <= 0x7F:
			return rACC
		case b >= 0xC2 && b <= 0xDF:
			return rC1
		case b == 0xE0:
			return rE0
		case b >= 0xE1 && b <= 0xEC, b == 0xEE, b == 0xEF:
			return rC2
		case b == 0xED:
			return rED
		case b == 0xF0:
			return rF0
		case b >= 0xF1 && b <= 0xF3:
			return rC3
		case b == 0xF4:
			return rF4
		}
		return rREJ
	case rC1:
		if cont {
			return rACC
		}
	case rC2:
		if cont {
			return rC1
		}
	case rC3:
		if cont {
			return rC2
		}
	case rE0:
		if b >= 0xA0 && b <= 0xBF {
			return rC1
		}
	case rED:
		if b >= 0x80 && b <= 0x9F {
			return rC1
		}
	case rF0:
		if b >= 0x90 && b <= 0xBF {
			return rC2
		}
	case rF4:
		if b >= 0x80 && b <= 0x8F {
			return rC2
		}
	}
	return rREJ
}

func c07DFA(c *Ctx) {
	const rule = "C07.dfa-equivalence"
	c.R.Rule(rule, 1, "the automaton computed by decode over utf8d accepts exactly valid UTF-8")
	sf := c.utf8Step(rule)
	if sf == nil {
		return
	}
	f := sf.fn
	accept, okA := c.constInt(rule, wsutil, "utf8Accept")
	reject, okR := c.constInt(rule, wsutil, "utf8Reject")
	if !okA || !okR {
		return
	}
	// write-once check of the table is part of C19; here the initialiser is read.
	m := c.machine()
	step := map[[2]int64]int64{}
	cells := 0
	eval := func(state int64) (map[int]int64, string) {
		out := map[int]int64{}
		var curState int64 = state
		paths := m.Explore(f, func(mm *fold.Machine) []fold.Val {
			b := mm.Choose("b", 256)
			return sf.args(fold.K(curState), fold.Int{Lo: 0, Hi: 1<<32 - 1, Name: "codep"}, fold.K(int64(b)))
		}, nil)
		cells += len(paths)
		for _, p := range paths {
			if p.Abort != "" || p.Panic {
				return nil, fmt.Sprintf("state %d byte %#x: %s%s", state, p.Chose("b"), p.Abort, panicNote(p))
			}
			_, nsv, okShape := sf.result(p.Ret)
			if !okShape {
				return nil, "unexpected result shape"
			}
			ns, ok := nsv.(fold.Int)
			if !ok || !ns.IsConst() {
				return nil, fmt.Sprintf("state %d byte %#x: next state does not fold to a constant (%s)", state, p.Chose("b"), fold.Show(nsv))
			}
			out[p.Chose("b")] = ns.Const()
		}
		return out, ""
	}
	type pair struct {
		impl int64
		ref  int
	}
	seen := map[pair]bool{{accept, rACC}: true}
	work := []pair{{accept, rACC}}
	implStates := map[int64]bool{}
	var problems []string
	cache := map[int64]map[int]int64{}
	for len(work) > 0 && len(problems) < 5 {
		pr := work[0]
		work = work[1:]
		implStates[pr.impl] = true
		tr, ok := cache[pr.impl]
		if !ok {
			var msg string
			tr, msg = eval(pr.impl)
			if msg != "" {
				problems = append(problems, "undecided: "+msg)
				break
			}
			cache[pr.impl] = tr
		}
		for b := 0; b < 256; b++ {
			ni := tr[b]
			step[[2]int64{pr.impl, int64(b)}] = ni
			nr := refStep(pr.ref, b)
			if (ni == accept) != (nr == rACC) {
				problems = append(problems, fmt.Sprintf("after a prefix reaching (impl state %d / reference %s), byte %#02x: implementation is accepting=%v, UTF-8 says %v", pr.impl, refName(pr.ref), b, ni == accept, nr == rACC))
			}
			if (ni == reject) != (nr == rREJ) {
				problems = append(problems, fmt.Sprintf("(impl state %d / reference %s), byte %#02x: implementation rejects=%v, UTF-8 prefix is dead=%v", pr.impl, refName(pr.ref), b, ni == reject, nr == rREJ))
			}
			np := pair{ni, nr}
			if !seen[np] {
				seen[np] = true
				work = append(work, np)
			}
		}
	}
	c.R.AddCells(cells)
	var st []string
	for s := range implStates {
		st = append(st, fmt.Sprint(s))
	}
	sort.Strings(st)
	c.R.Sample(map[string]any{"rule": rule, "product_states": len(seen), "implementation_states": st, "transitions_folded": cells})
	c.verdict(rule, rule+"/decode+utf8d", c.P.FuncPos(f), uniq(problems), fmt.Sprintf("%d product states, %d folded transitions, 0 mismatches", len(seen), cells))
}

func refName(s int) string {
	return []string{"ACC", "C1", "C2", "C3", "E0", "ED", "F0", "F4", "REJ"}[s]
}

// constInt reads a package-level integer constant.
func (c *Ctx) constInt(rule, pkg, name string) (int64, bool) {
	sp := c.P.SSA[pkg]
	if sp != nil {
		if nc, ok := sp.Members[name].(interface{ Name() string }); ok {
			_ = nc
		}
		if k := sp.Const(name); k != nil && k.Value != nil {
			return k.Value.Int64(), true
		}
	}
	c.R.Unknown(rule, rule+"/anchor:"+shortPkg(pkg)+"."+name, "-", "constant "+name+" does not resolve")
	return 0, false
}

func c07Read(c *Ctx) {
	const rule = "C07.utf8reader-read"
	c.R.Rule(rule, 2, "UTF8Reader.Read steps the automaton over exactly the bytes read, in order, with the carried state, and writes the state back; Valid() is state == accept")
	f := c.method(rule, wsutil, "UTF8Reader", "Read")
	L := c.readerLayout(rule)
	un := c.P.NamedType(wsutil, "UTF8Reader")
	if f == nil || L == nil || un == nil {
		return
	}
	errUTF8 := c.globalErrName(rule, wsutil, "ErrInvalidUTF8")
	m := c.machine()
	var recv *fold.Obj
	var n int
	type rec struct {
		n      int
		p      *fold.Path
		state  string
		codep  string
		kinds  []int // per decoded byte: 0 accept, 1 reject, 2 other
		srcErr int
		acc    string // u.accepted after the call
	}
	var out []rec
	var cur rec
	m.Models["invoke:(io.Reader).Read"] = func(cl *fold.Call) fold.Val {
		mm := cl.M
		mm.Emit(fold.Effect{Kind: "call", Name: "Source.Read", Args: cl.Args})
		cur.srcErr = mm.Choose("src.err", 3)
		var e fold.Val = fold.Nil{}
		switch cur.srcErr {
		case 1:
			e = fold.Sym{Name: "global:io.EOF", NonNil: true}
		case 2:
			e = fold.Sym{Name: "src-error", NonNil: true}
		}
		if s, ok := cl.Args[1].(fold.SliceV); ok {
			for i := int64(0); i < s.Len; i++ {
				mm.SetElem(s, i, fold.Int{Lo: 0, Hi: 255, Name: fmt.Sprintf("b%d", i)})
			}
		}
		return fold.Tuple{fold.K(int64(n)), e}
	}
	step := c.utf8Step(rule)
	if step == nil {
		return
	}
	m.Models[step.key] = func(cl *fold.Call) fold.Val {
		mm := cl.M
		mm.Emit(fold.Effect{Kind: "call", Name: "decode", Args: step.in(cl.Args)})
		k := mm.Choose(fmt.Sprintf("step%d", cl.Seq), 3)
		cur.kinds = append(cur.kinds, k)
		st := []int64{0, 12, 24}[k]
		return step.out(fold.Int{Lo: 0, Hi: 1<<32 - 1, Name: fmt.Sprintf("codep%d", cl.Seq)}, fold.K(st))
	}
	paths := m.Explore(f, func(mm *fold.Machine) []fold.Val {
		cur = rec{}
		n = mm.Choose("n", 4)
		cur.n = n
		s := fold.SymOfType("u", un).(fold.Struct)
		uSet(s, L.utf8SourceP, fold.Iface{V: fold.Sym{Name: "Source", NonNil: true}})
		uSet(s, L.utf8StateP, fold.K(36))
		uSet(s, L.utf8CodepP, fold.Int{Lo: 0, Hi: 1<<32 - 1, Name: "codep0"})
		uSet(s, L.utf8AcceptedP, fold.K(77))
		recv = mm.NewObj("u", s)
		el := make([]fold.Val, 4)
		for i := range el {
			el[i] = fold.K(0)
		}
		return []fold.Val{fold.Ref{O: recv}, mm.NewBytes("p", el)}
	}, func(mm *fold.Machine, p *fold.Path) {
		cur.p = p
		cur.state = fold.Show(mm.Load(fold.Ref{O: recv, Path: L.utf8StateP}))
		if k, ok := mm.Load(fold.Ref{O: recv, Path: L.utf8CodepP}).(fold.Int); ok {
			cur.codep = k.Name
		}
		cur.acc = fold.Show(mm.Load(fold.Ref{O: recv, Path: L.utf8AcceptedP}))
		out = append(out, cur)
	})
	c.R.AddCells(len(paths))
	c.R.Paths += len(paths)
	var problems []string
	for _, p := range paths {
		if p.Abort != "" || p.Panic {
			problems = append(problems, "undecided: "+p.Abort+panicNote(p))
		}
	}
	for _, r := range out {
		ret, _ := r.p.Ret.(fold.Tuple)
		if len(ret) != 2 {
			continue
		}
		e := c.errName(ret[1])
		steps := r.p.Calls("decode")
		rejectAt := -1
		for i, k := range r.kinds {
			if k == 1 {
				rejectAt = i
				break
			}
		}
		wantSteps := r.n
		if rejectAt >= 0 {
			wantSteps = rejectAt + 1
		}
		if len(steps) != wantSteps {
			problems = append(problems, fmt.Sprintf("%d bytes read, %d automaton steps (reject at %d)", r.n, len(steps), rejectAt))
			continue
		}
		prevState, prevCodep := "36", "codep0"
		for i, s := range steps {
			cp := ""
			if k, ok := s.Args[1].(fold.Int); ok {
				cp = k.Name
			}
			bn := ""
			if k, ok := s.Args[2].(fold.Int); ok {
				bn = k.Name
			}
			if fold.Show(s.Args[0]) != prevState || cp != prevCodep || bn != fmt.Sprintf("b%d", i) {
				problems = append(problems, fmt.Sprintf("step %d is decode(%s,%s,%s), want decode(%s,%s,b%d): bytes must be fed in order with the carried state", i, fold.Show(s.Args[0]), cp, bn, prevState, prevCodep, i))
			}
			prevState = fmt.Sprint([]int64{0, 12, 24}[r.kinds[i]])
			prevCodep = fmt.Sprintf("codep%d", i+1)
		}
		// the validated prefix of this call: up to and including the last byte that completed a sequence
		accepted := 0
		for i, k := range r.kinds {
			if k == 1 {
				break
			}
			if k == 0 {
				accepted = i + 1
			}
		}
		if rejectAt >= 0 {
			if e != errUTF8 {
				problems = append(problems, "a rejected byte must return ErrInvalidUTF8, got "+e)
			}
			if fold.Show(ret[0]) != fmt.Sprint(accepted) {
				problems = append(problems, fmt.Sprintf("a rejected byte must be reported with the validated prefix %d, got %s", accepted, fold.Show(ret[0])))
			}
			if r.state != "12" {
				problems = append(problems, "after a reject the stored state is "+r.state+", so Valid() may turn true again")
			}
			continue
		}
		if r.state != prevState || (wantSteps > 0 && r.codep != prevCodep) {
			problems = append(problems, fmt.Sprintf("state written back is (%s,%s), want (%s,%s)", r.state, r.codep, prevState, prevCodep))
		}
		if r.acc != fmt.Sprint(accepted) {
			problems = append(problems, fmt.Sprintf("after reading %d bytes Accepted() is %s, want %d (a stale count from an earlier call makes Reader.Read report more bytes than it read)", r.n, r.acc, accepted))
		}
		wantErr := []string{"nil", "global:io.EOF", "src-error"}[r.srcErr]
		if e != wantErr || fold.Show(ret[0]) != fmt.Sprint(r.n) {
			problems = append(problems, fmt.Sprintf("returns (%s,%s), want (%d,%s)", fold.Show(ret[0]), e, r.n, wantErr))
		}
	}
	c.verdict(rule, rule+"/Read", c.P.FuncPos(f), uniq(problems), fmt.Sprintf("%d paths (0-3 bytes x step outcomes x source outcome)", len(out)))

	// longer reads: whatever block-wise shortcut the loop takes, every byte must go through the automaton
	{
		var lp []string
		lens := []int{7, 8, 9, 15, 16, 17, 24, 25, 33}
		if c.Tier == "thorough" {
			lens = lens[:0]
			for i := 1; i <= 72; i++ {
				lens = append(lens, i)
			}
		}
		for _, nn := range lens {
			nn := nn
			m2 := c.machine()
			addBinaryModels(m2)
			m2.Models["invoke:(io.Reader).Read"] = func(cl *fold.Call) fold.Val {
				if s, ok := cl.Args[1].(fold.SliceV); ok {
					for i := int64(0); i < s.Len; i++ {
						cl.M.SetElem(s, i, fold.Int{Lo: 0, Hi: 255, Name: fmt.Sprintf("b%d", i)})
					}
				}
				return fold.Tuple{fold.K(int64(nn)), fold.Nil{}}
			}
			m2.Models[step.key] = func(cl *fold.Call) fold.Val {
				cl.M.Emit(fold.Effect{Kind: "call", Name: "decode", Args: step.in(cl.Args)})
				return step.out(fold.Int{Lo: 0, Hi: 1<<32 - 1, Name: fmt.Sprintf("codep%d", cl.Seq)}, fold.K(24)) // mid-sequence state throughout
			}
			ps := m2.Explore(f, func(mm *fold.Machine) []fold.Val {
				s := fold.SymOfType("u", un).(fold.Struct)
				uSet(s, L.utf8SourceP, fold.Iface{V: fold.Sym{Name: "Source", NonNil: true}})
				uSet(s, L.utf8StateP, fold.K(36))
				uSet(s, L.utf8CodepP, fold.Int{Lo: 0, Hi: 1<<32 - 1, Name: "codep0"})
				uSet(s, L.utf8AcceptedP, fold.K(0))
				el := make([]fold.Val, nn+3)
				for i := range el {
					el[i] = fold.K(0)
				}
				return []fold.Val{fold.Ref{O: mm.NewObj("u", s)}, mm.NewBytes("p", el)}
			}, nil)
			for _, p := range ps {
				if p.Abort != "" || p.Panic {
					lp = append(lp, fmt.Sprintf("undecided: read of %d bytes: %s%s", nn, p.Abort, panicNote(p)))
					continue
				}
				steps := p.Calls("decode")
				if len(steps) != nn {
					lp = append(lp, fmt.Sprintf("a read of %d bytes in a mid-sequence state feeds only %d bytes to the automaton: bytes are skipped without looking at the carried state", nn, len(steps)))
					continue
				}
				for i, st := range steps {
					if k, ok := st.Args[2].(fold.Int); !ok || k.Name != fmt.Sprintf("b%d", i) {
						lp = append(lp, fmt.Sprintf("read of %d bytes: step %d does not consume byte %d", nn, i, i))
						break
					}
				}
			}
			c.R.AddCells(len(ps))
		}
		// the same reads from the accepting state: a shortcut for plain ASCII may leave bytes out of
		// the automaton, but only bytes it has looked at - every byte that is not fed to decode must
		// occur in a condition decided on the path
		for _, nn := range lens {
			nn := nn
			m3 := c.machine()
			addBinaryModels(m3)
			m3.Models["invoke:(io.Reader).Read"] = func(cl *fold.Call) fold.Val {
				if s, ok := cl.Args[1].(fold.SliceV); ok {
					for i := int64(0); i < s.Len; i++ {
						cl.M.SetElem(s, i, fold.Int{Lo: 0, Hi: 255, Name: fmt.Sprintf("b%d", i)})
					}
				}
				return fold.Tuple{fold.K(int64(nn)), fold.Nil{}}
			}
			m3.Models[step.key] = func(cl *fold.Call) fold.Val {
				cl.M.Emit(fold.Effect{Kind: "call", Name: "decode", Args: step.in(cl.Args)})
				return step.out(fold.Int{Lo: 0, Hi: 1<<32 - 1, Name: fmt.Sprintf("codep%d", cl.Seq)}, fold.K(0))
			}
			ps := m3.Explore(f, func(mm *fold.Machine) []fold.Val {
				s := fold.SymOfType("u", un).(fold.Struct)
				uSet(s, L.utf8SourceP, fold.Iface{V: fold.Sym{Name: "Source", NonNil: true}})
				uSet(s, L.utf8StateP, fold.K(0))
				uSet(s, L.utf8CodepP, fold.K(0))
				uSet(s, L.utf8AcceptedP, fold.K(0))
				el := make([]fold.Val, nn+3)
				for i := range el {
					el[i] = fold.K(0)
				}
				return []fold.Val{fold.Ref{O: mm.NewObj("u", s)}, mm.NewBytes("p", el)}
			}, nil)
			for _, p := range ps {
				if p.Abort != "" || p.Panic {
					lp = append(lp, fmt.Sprintf("undecided: read of %d bytes from the accepting state: %s%s", nn, p.Abort, panicNote(p)))
					continue
				}
				fed := map[string]bool{}
				for _, st := range p.Calls("decode") {
					if k, ok := st.Args[2].(fold.Int); ok {
						fed[k.Name] = true
					}
				}
				var conds []string
				for _, ch := range p.Choices {
					conds = append(conds, ch.Key)
				}
				all := strings.Join(conds, " ")
				for i := 0; i < nn; i++ {
					b := fmt.Sprintf("b%d", i)
					if fed[b] {
						continue
					}
					if !regexp.MustCompile(`\b` + b + `\b`).MatchString(all) {
						lp = append(lp, fmt.Sprintf("read of %d bytes from the accepting state: byte %d is neither fed to the automaton nor examined by any condition on the path - a lead byte there goes unnoticed", nn, i))
						break
					}
				}
			}
			c.R.AddCells(len(ps))
		}
		c.verdict(rule, rule+"/Read-long", c.P.FuncPos(f), uniq(lp), "reads of 7..33 bytes: one automaton step per byte, in order; no byte escapes both the automaton and the path conditions")
	}

	if v := c.method(rule, wsutil, "UTF8Reader", "Valid"); v != nil {
		m2 := c.machine()
		var p2 []string
		for _, st := range []int64{0, 12, 24, 36} {
			st := st
			ps := m2.Explore(v, func(mm *fold.Machine) []fold.Val {
				s := fold.SymOfType("u", un).(fold.Struct)
				uSet(s, L.utf8StateP, fold.K(st))
				return []fold.Val{fold.Ref{O: mm.NewObj("u", s)}}
			}, nil)
			for _, p := range ps {
				if p.Abort != "" {
					p2 = append(p2, "undecided: "+p.Abort)
				} else if fold.Show(p.Ret) != fmt.Sprint(st == 0) {
					p2 = append(p2, fmt.Sprintf("Valid() with state %d is %s", st, fold.Show(p.Ret)))
				}
			}
		}
		c.verdict(rule, rule+"/Valid", c.P.FuncPos(v), p2, "Valid() == (state == utf8Accept)")
	}
	_ = strings.Join
}

// utf8Step is the step function of the UTF-8 automaton in the shape the rules
// talk about - (state, codep, byte) -> (codep, state) - whatever shape the code
// gives it: the plain function decode(state, codep, b) (codep, state), or a
// function / value-receiver method over a struct that holds state and codep
// and returns that struct.
type utf8StepFn struct {
	fn             *ssa.Function
	key            string
	structForm     bool
	st             *types.Struct
	iState, iCodep int
}

func (c *Ctx) utf8Step(rule string) *utf8StepFn {
	isU32 := func(t types.Type) bool {
		b, ok := t.Underlying().(*types.Basic)
		return ok && b.Kind() == types.Uint32
	}
	isByte := func(t types.Type) bool {
		b, ok := t.Underlying().(*types.Basic)
		return ok && (b.Kind() == types.Uint8 || b.Kind() == types.Byte)
	}
	classify := func(f *ssa.Function) *utf8StepFn {
		if f == nil || f.Blocks == nil {
			return nil
		}
		ps, rs := f.Params, f.Signature.Results()
		if len(ps) == 3 && isU32(ps[0].Type()) && isU32(ps[1].Type()) && isByte(ps[2].Type()) && rs.Len() == 2 && isU32(rs.At(0).Type()) && isU32(rs.At(1).Type()) {
			return &utf8StepFn{fn: f, key: fold.CanonFuncName(f)}
		}
		if len(ps) == 2 && isByte(ps[1].Type()) && rs.Len() == 1 && types.Identical(ps[0].Type(), rs.At(0).Type()) {
			if st, ok := ps[0].Type().Underlying().(*types.Struct); ok {
				iS, iC := fieldIdx(st, "state", nil), fieldIdx(st, "codep", nil)
				if iS >= 0 && iC >= 0 && isU32(st.Field(iS).Type()) && isU32(st.Field(iC).Type()) {
					return &utf8StepFn{fn: f, key: fold.CanonFuncName(f), structForm: true, st: st, iState: iS, iCodep: iC}
				}
			}
		}
		return nil
	}
	if f := c.P.Func(wsutil, "decode"); f != nil {
		if s := classify(f); s != nil {
			return s
		}
	}
	// the function that reads the transition table
	g := c.P.Global(wsutil, "utf8d")
	var cands []*ssa.Function
	if g != nil {
		for _, fn := range c.P.AllModuleFuncs() {
			if fn.Synthetic != "" || fn.Name() == "init" {
				continue
			}
			uses := false
			for _, b := range fn.Blocks {
				for _, in := range b.Instrs {
					for _, op := range in.Operands(nil) {
						if *op == ssa.Value(g) {
							uses = true
						}
					}
				}
			}
			if uses {
				cands = append(cands, fn)
			}
		}
	}
	if len(cands) == 1 {
		if s := classify(cands[0]); s != nil {
			c.R.Note("the UTF-8 step function is %s (it is the only function that reads utf8d)", cands[0].String())
			return s
		}
	}
	c.R.Unknown(rule, rule+"/anchor:wsutil.decode", "-", "the step function of the UTF-8 automaton is not recognisable: neither decode(state, codep, b) (codep, state) nor a single function over a {state, codep} struct reads utf8d")
	return nil
}

func (s *utf8StepFn) args(state, codep, b fold.Val) []fold.Val {
	if !s.structForm {
		return []fold.Val{state, codep, b}
	}
	v := fold.Struct{F: make([]fold.Val, s.st.NumFields())}
	for i := range v.F {
		v.F[i] = fold.Zero(s.st.Field(i).Type())
	}
	v.F[s.iState], v.F[s.iCodep] = state, codep
	return []fold.Val{v, b}
}

// in gives the arguments of a call as (state, codep, byte).
func (s *utf8StepFn) in(a []fold.Val) []fold.Val {
	if !s.structForm {
		return a
	}
	if len(a) == 2 {
		if v, ok := a[0].(fold.Struct); ok && len(v.F) > s.iState && len(v.F) > s.iCodep {
			return []fold.Val{v.F[s.iState], v.F[s.iCodep], a[1]}
		}
	}
	return []fold.Val{fold.Sym{Name: "?"}, fold.Sym{Name: "?"}, fold.Sym{Name: "?"}}
}

func (s *utf8StepFn) out(codep, state fold.Val) fold.Val {
	if !s.structForm {
		return fold.Tuple{codep, state}
	}
	v := fold.Struct{F: make([]fold.Val, s.st.NumFields())}
	for i := range v.F {
		v.F[i] = fold.Zero(s.st.Field(i).Type())
	}
	v.F[s.iState], v.F[s.iCodep] = state, codep
	return v
}

func (s *utf8StepFn) result(r fold.Val) (codep, state fold.Val, ok bool) {
	if !s.structForm {
		t, isT := r.(fold.Tuple)
		if !isT || len(t) != 2 {
			return nil, nil, false
		}
		return t[0], t[1], true
	}
	v, isS := r.(fold.Struct)
	if !isS || len(v.F) <= s.iState || len(v.F) <= s.iCodep {
		return nil, nil, false
	}
	return v.F[s.iCodep], v.F[s.iState], true
}
