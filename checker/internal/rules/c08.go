package rules

func init() {
	register(&Property{
		ID:      "C08",
		Explain: "FOLD of the control-frame machinery. ControlWriter: Write is evaluated over (bytes already written) x len(p) cells - a write that would pass 125 bytes fails with ErrControlOverflow before reaching the inner writer, and the counter compared with the limit must advance by what the inner writer accepted and be cleared by Flush (a guard on a field that is never stored is dead); both constructors give limit <= 125 and <= the inner buffer for every buffer length. Handlers: HandlePing / HandlePong / HandleClose and closeWithProtocolError are evaluated over Length cells x side x ciphering x every I/O outcome; the reply tables (pong with the same payload, nothing for a pong, close echoing the code / empty close / protocol-error close, ClosedError or protocol error to the caller, masked iff client with the result of the functional mask helpers actually used, source reads bounded by the announced length) are compared with the reference. Functional-update results (MaskFrame*, UnmaskFrame*, State.Set/Clear, SetBits...) must be used everywhere in the module. The validity of the close code is delegated to CheckCloseFrameData, whose exact table (C03.closecode-table) is part of this check. The reader installed for an intermediate control frame is the unmasking one (NextFrame install / drain groups). The pong buffer is Length plus the header of the reply (masked iff client); a payload copy that fails, or ends early with io.EOF, is returned without sending a pong. CipherReader (C02.stream-wrappers) and the helpers that route control frames to the handlers are part of this check: every control message collected by ReadMessage has its own payload buffer. The control frames the handlers see passed the CheckHeader table (run here); the control writer sits on Writer.Write / Flush, whose tables run here too (no frame before Flush, one final frame then). returned-closures-read-only runs here: the handler function ControlFrameHandler hands out serves every control frame of a connection and must not remember the reader of an earlier one.",
		Trusted: []string{"go/ssa + go/types", "the checker's abstract evaluator", "ws.Cipher (C02), ws.WriteHeader layout (C01), Writer tables (C06)"},
		Run: func(c *Ctx) {
			controlWriterRules(c, "C08")
			handlerRules(c, "C08")
			unusedResultRules(c, "C08")
			// HandleClose relies on CheckCloseFrameData for the validity of the code
			c03CloseData(c)
			// what the handlers read is what NextFrame installs (unmasked, limited to the frame)
			readerNextFrameRules(c, "C08")
			c02Streams(c)
			// control frames are routed to the handlers by these helpers
			helperReadDataRules(c, "C08")
			helperReadMessageRules(c, "C08")
			// the control frames the handlers see passed CheckHeader first (125-byte limit, final, masking)
			c03CheckHeader(c)
			// the control writer sits on Writer.Write / Flush: no frame leaves before Flush, one final frame then
			writerMethodRules(c, "C08")
			writerWriteRules(c, "C08")
			// the handler function ControlFrameHandler hands out serves every control frame of the
			// connection: it must not remember the reader of an earlier one
			c19ReturnedClosures(c)
		},
	})
}
