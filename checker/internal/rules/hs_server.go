package rules

import (
	"fmt"
	"go/types"
	"regexp"
	"strings"

	"verif/wscheck/internal/fold"
)

// header kinds of the scripted requests / responses
const (
	hHost = iota
	hUpgrade
	hConnection
	hVersion
	hKey
	hProtocol
	hExtensions
	hOther
	hAccept
	hMalformed
)

var hsCanonical = map[int]string{
	hHost: "Host", hUpgrade: "Upgrade", hConnection: "Connection", hVersion: "Sec-Websocket-Version",
	hKey: "Sec-Websocket-Key", hProtocol: "Sec-Websocket-Protocol", hExtensions: "Sec-Websocket-Extensions",
	hOther: "X-Other", hAccept: "Sec-Websocket-Accept",
}

func constBytesVal(m *fold.Machine, s string) fold.SliceV {
	el := make([]fold.Val, len(s))
	for i := range el {
		el[i] = fold.K(int64(s[i]))
	}
	return m.NewBytes("const", el)
}

// bytesStr renders a byte slice argument: the constant string it holds, or
// its symbolic name.
func bytesStr(m *fold.Machine, v fold.Val) string {
	switch s := v.(type) {
	case fold.SliceV:
		el := m.Elems(s)
		b := make([]byte, len(el))
		for i, e := range el {
			k, ok := e.(fold.Int)
			if !ok || !k.IsConst() {
				return fold.Show(v)
			}
			b[i] = byte(k.Const())
		}
		return fmt.Sprintf("%q", string(b))
	case fold.Str:
		return fmt.Sprintf("%q", string(s))
	case fold.SymSeq:
		return s.Name
	}
	return fold.Show(v)
}

// addCompareAtoms models the byte/string comparison helpers as named atoms.
func addCompareAtoms(m *fold.Machine) {
	atom := func(op string) fold.Model {
		return func(cl *fold.Call) fold.Val {
			a, b := bytesStr(cl.M, cl.Args[0]), bytesStr(cl.M, cl.Args[1])
			if strings.HasPrefix(a, `"`) && strings.HasPrefix(b, `"`) {
				// both constant: the comparison is decided
				as, bs := strings.Trim(a, `"`), strings.Trim(b, `"`)
				switch op {
				case "Equal":
					return fold.Bool(as == bs)
				case "EqualFold":
					return fold.Bool(strings.EqualFold(as, bs))
				case "HasToken":
					if as == "" {
						return fold.Bool(false)
					}
				}
			}
			return fold.Bool(cl.M.Atom(op + "(" + a + "," + b + ")"))
		}
	}
	m.Models["bytes.Equal"] = atom("Equal")
	m.Models["bytes.EqualFold"] = atom("EqualFold")
	m.Models["strings.EqualFold"] = atom("EqualFold")
	m.Models[ws+".btsHasToken"] = atom("HasToken")
	m.Models[ws+".strHasToken"] = atom("HasToken")
}

type srvScript []int

var srvScripts = []srvScript{
	{},
	{hHost, hUpgrade, hConnection, hVersion, hKey},
	{hUpgrade, hConnection, hVersion, hKey},
	{hHost, hConnection, hVersion, hKey},
	{hHost, hUpgrade, hVersion, hKey},
	{hHost, hUpgrade, hConnection, hKey},
	{hHost, hUpgrade, hConnection, hVersion},
	{hHost}, {hUpgrade}, {hConnection}, {hVersion}, {hKey}, {hProtocol}, {hExtensions}, {hOther}, {hMalformed},
	{hKey, hVersion, hConnection, hUpgrade, hHost},
	{hHost, hUpgrade, hOther, hConnection, hVersion, hKey, hProtocol, hExtensions},
	{hHost, hUpgrade, hConnection, hVersion, hKey, hExtensions, hExtensions},
	{hHost, hUpgrade, hConnection, hVersion, hKey, hProtocol, hProtocol},
}

type srvOutcome struct {
	kind string // "transport", "noresponse", "error", "upgrade"
	err  string
}

// serverUpgraderRules folds ws.Upgrader.Upgrade over scripted requests.
func serverUpgraderRules(c *Ctx, prop string) {
	rule := prop + ".upgrader-decision-table"
	c.R.Rule(rule, 1, "Upgrader.Upgrade: success exactly for GET, HTTP/1.x (x>=1), the five mandatory headers each with a valid value, no objecting callback; every failure after the request line is answered with the error response of the first broken rule and never with 101; transport errors are returned as they are")
	f := c.method(rule, ws, "Upgrader", "Upgrade")
	un := c.P.NamedType(ws, "Upgrader")
	if f == nil || un == nil {
		return
	}
	ust := structOf(un)
	c.rejectionField("header")
	errs := map[string]string{}
	for _, n := range []string{"ErrHandshakeBadProtocol", "ErrHandshakeBadMethod", "ErrHandshakeBadHost", "ErrHandshakeBadUpgrade", "ErrHandshakeBadConnection",
		"ErrHandshakeBadSecKey", "ErrHandshakeBadSecVersion", "ErrHandshakeUpgradeRequired", "ErrMalformedRequest"} {
		errs[n] = c.globalErrName(rule, ws, n)
	}
	type rec struct {
		script int
		p      *fold.Path
		reqk   int
		lines  int
	}
	nScripts := len(srvScripts)
	results := make([][]rec, nScripts)
	parallel(nScripts, func(si int) {
		script := srvScripts[si]
		m := c.machine()
		m.MaxPaths = 500000
		addCompareAtoms(m)
		var cur rec
		m.Models["github.com/gobwas/pool/pbufio.GetReader"] = func(cl *fold.Call) fold.Val {
			cl.M.Emit(fold.Effect{Kind: "call", Name: "GetReader", Args: cl.Args})
			return fold.Sym{Name: "br", NonNil: true}
		}
		m.Models["github.com/gobwas/pool/pbufio.GetWriter"] = func(cl *fold.Call) fold.Val {
			cl.M.Emit(fold.Effect{Kind: "call", Name: "GetWriter", Args: cl.Args})
			return fold.Sym{Name: "bw", NonNil: true}
		}
		m.Models["github.com/gobwas/pool/pbufio.PutReader"] = func(cl *fold.Call) fold.Val {
			cl.M.Emit(fold.Effect{Kind: "call", Name: "PutReader", Args: cl.Args})
			return nil
		}
		m.Models["github.com/gobwas/pool/pbufio.PutWriter"] = func(cl *fold.Call) fold.Val {
			cl.M.Emit(fold.Effect{Kind: "call", Name: "PutWriter", Args: cl.Args})
			return nil
		}
		m.Models[ws+".readLine"] = func(cl *fold.Call) fold.Val {
			mm := cl.M
			mm.Emit(fold.Effect{Kind: "call", Name: "readLine", Args: cl.Args})
			cur.lines = cl.Seq
			if cl.Seq > len(script)+2 {
				mm.Emit(fold.Effect{Kind: "call", Name: "readLine-past-blank-line"})
				return fold.Tuple{fold.Nil{}, fold.Sym{Name: "script-exhausted", NonNil: true}}
			}
			if mm.Choose(fmt.Sprintf("line%d.err", cl.Seq), 2) == 1 {
				return fold.Tuple{fold.SymSeq{Name: "partial", Len: fold.Range(0, 100)}, fold.Sym{Name: fmt.Sprintf("line%d-error", cl.Seq), NonNil: true}}
			}
			if cl.Seq == 1 {
				return fold.Tuple{fold.SymSeq{Name: "reqline", Len: fold.Range(1, 1<<20)}, fold.Nil{}}
			}
			idx := cl.Seq - 2
			if idx >= len(script) {
				return fold.Tuple{fold.SymSeq{Name: "blank", Len: fold.K(0)}, fold.Nil{}}
			}
			return fold.Tuple{fold.SymSeq{Name: fmt.Sprintf("line:%d", idx), Len: fold.Range(1, 1<<20)}, fold.Nil{}}
		}
		m.Models[ws+".httpParseRequestLine"] = func(cl *fold.Call) fold.Val {
			mm := cl.M
			cur.reqk = mm.Choose("reqline", 7)
			// 0: GET 1.1; 1: GET 1.2; 2: GET 1.0; 3: GET 2.0; 4: POST 1.1; 5: malformed; 6: GET 0.9
			maj, min, method := int64(1), int64(1), "GET"
			switch cur.reqk {
			case 1:
				min = 2
			case 2:
				min = 0
			case 3:
				maj, min = 2, 0
			case 4:
				method = "POST"
			case 6:
				maj, min = 0, 9
			}
			req := fold.Struct{F: []fold.Val{constBytesVal(mm, method), fold.SymSeq{Name: "uri", Len: fold.Range(1, 1<<20)}, fold.K(maj), fold.K(min)}}
			if cur.reqk == 5 {
				return fold.Tuple{req, fold.Sym{Name: errs["ErrMalformedRequest"], NonNil: true}}
			}
			return fold.Tuple{req, fold.Nil{}}
		}
		m.Models[ws+".httpParseHeaderLine"] = func(cl *fold.Call) fold.Val {
			mm := cl.M
			name := fold.Show(cl.Args[0])
			var idx int
			fmt.Sscanf(name, "line:%d", &idx)
			if !strings.HasPrefix(name, "line:") || idx >= len(script) {
				return fold.Tuple{fold.Nil{}, fold.Nil{}, fold.Bool(false)}
			}
			k := script[idx]
			if k == hMalformed {
				return fold.Tuple{fold.Nil{}, fold.Nil{}, fold.Bool(false)}
			}
			l := fold.Int{Lo: 0, Hi: 1 << 20, Name: fmt.Sprintf("len(v%d)", idx)}
			if k == hKey {
				if mm.Choose(fmt.Sprintf("key%d.len24", idx), 2) == 1 {
					l = fold.K(24)
				} else {
					l = fold.Range(25, 1<<20)
				}
			}
			return fold.Tuple{constBytesVal(mm, hsCanonical[k]), fold.SymSeq{Name: fmt.Sprintf("v%d", idx), Len: l}, fold.Bool(true)}
		}
		cb := func(name string, results func(cl *fold.Call, e fold.Val) fold.Val) {
			m.Models["callback:"+name] = func(cl *fold.Call) fold.Val {
				cl.M.Emit(fold.Effect{Kind: "call", Name: name, Args: cl.Args})
				e := errChoice(cl.M, fmt.Sprintf("%s#%d.err", name, cl.Seq), name+"-error")
				return results(cl, e)
			}
		}
		cb("OnRequest", func(cl *fold.Call, e fold.Val) fold.Val { return e })
		cb("OnHost", func(cl *fold.Call, e fold.Val) fold.Val { return e })
		cb("OnHeader", func(cl *fold.Call, e fold.Val) fold.Val { return e })
		cb("OnBeforeUpgrade", func(cl *fold.Call, e fold.Val) fold.Val {
			return fold.Tuple{fold.Iface{V: fold.Sym{Name: "extra-header", NonNil: true}}, e}
		})
		sel := func(name string) fold.Model {
			return func(cl *fold.Call) fold.Val {
				cl.M.Emit(fold.Effect{Kind: "call", Name: name, Args: cl.Args})
				k := cl.M.Choose(fmt.Sprintf("%s#%d", name, cl.Seq), 3) // 0 none, 1 selected, 2 malformed
				switch k {
				case 1:
					return fold.Tuple{fold.Str(fmt.Sprintf("proto%d", cl.Seq)), fold.Bool(true)}
				case 2:
					return fold.Tuple{fold.Str(""), fold.Bool(false)}
				}
				return fold.Tuple{fold.Str(""), fold.Bool(true)}
			}
		}
		m.Models[ws+".btsSelectProtocol"] = sel("selectProtocol")
		m.Models["callback:ProtocolCustom"] = sel("ProtocolCustom")
		extN := 0 // extension selections made so far on this path (reset by the setup)
		m.Models[ws+".negotiateExtensions"] = func(cl *fold.Call) fold.Val {
			cl.M.Emit(fold.Effect{Kind: "call", Name: "negotiateExtensions", Args: cl.Args})
			extN++
			return fold.Tuple{fold.SymSeq{Name: fmt.Sprintf("exts#%d", extN), Len: fold.Range(0, 10)}, errChoice(cl.M, "negotiate.err", "negotiate-error")}
		}
		extSel := func(name string) fold.Model {
			return func(cl *fold.Call) fold.Val {
				cl.M.Emit(fold.Effect{Kind: "call", Name: name, Args: cl.Args})
				extN++
				return fold.Tuple{fold.SymSeq{Name: fmt.Sprintf("exts#%d", extN), Len: fold.Range(0, 10)}, fold.Bool(cl.M.Choose(name+".ok", 2) == 1)}
			}
		}
		m.Models[ws+".btsSelectExtensions"] = extSel("selectExtensions")
		m.Models["callback:ExtensionCustom"] = extSel("ExtensionCustom")
		m.Models[ws+".httpWriteResponseError"] = func(cl *fold.Call) fold.Val {
			cl.M.Emit(fold.Effect{Kind: "call", Name: "WriteError", Args: cl.Args})
			return nil
		}
		m.Models[ws+".httpWriteResponseUpgrade"] = func(cl *fold.Call) fold.Val {
			a := append([]fold.Val{}, cl.Args...)
			if s, ok := a[1].(fold.SliceV); ok {
				a[1] = fold.Str(strings.Join(laneNamesPlain(cl.M.Elems(s)), ","))
			}
			cl.M.Emit(fold.Effect{Kind: "call", Name: "WriteUpgrade", Args: a})
			return nil
		}
		m.Models["(*bufio.Writer).Flush"] = func(cl *fold.Call) fold.Val {
			cl.M.Emit(fold.Effect{Kind: "call", Name: "Flush", Args: cl.Args})
			return errChoice(cl.M, fmt.Sprintf("flush%d.err", cl.Seq), "flush-error")
		}
		var out []rec
		eps := m.Explore(f, func(mm *fold.Machine) []fold.Val {
			cur = rec{script: si}
			extN = 0
			u := fold.SymOfType("u", un).(fold.Struct)
			for i := 0; i < ust.NumFields(); i++ {
				fld := ust.Field(i)
				switch fld.Type().Underlying().(type) {
				case *types.Signature:
					u.F[i] = fold.Sym{Name: fld.Name()} // nullable callback
				case *types.Interface:
					u.F[i] = fold.Sym{Name: fld.Name()}
				case *types.Basic:
					u.F[i] = fold.K(0)
				}
			}
			return []fold.Val{u, fold.Iface{V: fold.Sym{Name: "conn", NonNil: true}}}
		}, func(mm *fold.Machine, p *fold.Path) {
			cur.p = p
			out = append(out, cur)
		})
		for _, p := range eps {
			if p.Abort != "" || p.Panic {
				out = append(out, rec{script: si, p: p})
			}
		}
		results[si] = out
	})
	var all []rec
	for _, r := range results {
		all = append(all, r...)
	}
	c.R.AddCells(len(all))
	c.R.Paths += len(all)
	var problems []string
	var stale []string
	successes := 0
	for _, r := range all {
		p := r.p
		if p.Abort != "" || p.Panic {
			problems = append(problems, "undecided: "+p.Abort+panicNote(p))
			continue
		}
		stale = append(stale, staleUses(p, p.Ret)...)
		script := srvScripts[r.script]
		want := srvReference(c, p, script, errs)
		ret, _ := p.Ret.(fold.Tuple)
		if len(ret) != 2 {
			problems = append(problems, "unexpected result shape")
			continue
		}
		gotErr := c.errName(ret[1])
		we := p.Calls("WriteError")
		wu := p.Calls("WriteUpgrade")
		desc := fmt.Sprintf("[request %s; headers %s; %s]", reqKindName(p.Chose("reqline")), scriptName(script), atomSummary(p))
		if len(p.Calls("readLine-past-blank-line")) > 0 {
			problems = append(problems, "the header loop reads past the blank line "+desc)
			continue
		}
		switch want.kind {
		case "unconsulted":
			problems = append(problems, want.err+" "+desc)
			continue
		case "transport", "noresponse":
			if len(we)+len(wu) != 0 || gotErr != want.err {
				problems = append(problems, fmt.Sprintf("a failing read / unparsable request line must be returned as is without a response: got err=%s, %d error responses, %d upgrades, want err=%s %s", gotErr, len(we), len(wu), want.err, desc))
			}
		case "error":
			if len(wu) != 0 {
				problems = append(problems, "101 Switching Protocols is written although the request must be refused with "+want.err+" "+desc)
				continue
			}
			if len(we) != 1 {
				problems = append(problems, fmt.Sprintf("a refused request must be answered with exactly one error response (got %d) %s", len(we), desc))
				continue
			}
			if gotErr != want.err || c.errName(we[0].Args[1]) != want.err {
				problems = append(problems, fmt.Sprintf("refusal reports %s (response built for %s), the first broken rule is %s %s", gotErr, c.errName(we[0].Args[1]), want.err, desc))
			}
			if fold.Show(we[0].Args[0]) != "bw" {
				problems = append(problems, "the error response is not written to the pooled writer")
			}
			// status code: the rejection's code, or 500
			code := we[0].Args[2]
			rejected := false
			for _, ch := range p.Choices {
				if strings.HasPrefix(ch.Key, "assert(") && strings.Contains(ch.Key, "ConnectionRejectedError") && ch.Opt == 1 {
					rejected = true
				}
			}
			cs := fold.Show(code)
			if !rejected && cs != "500" {
				problems = append(problems, "a plain error must be answered with status 500, got "+cs)
			}
			if rejected && cs != "500" && !strings.Contains(cs, "."+c.rejectionField("code")) {
				problems = append(problems, "the status code is not the rejection's code: "+cs)
			}
			if why := statusCodeProblem(p, code); why != "" {
				problems = append(problems, why+" "+desc)
			}
			for _, why := range rejectionProblems(p, gotErr, we[0]) {
				problems = append(problems, why+" "+desc)
			}
			if len(p.Calls("Flush")) != 1 {
				problems = append(problems, "the error response is not flushed "+desc)
			}
		case "upgrade":
			successes++
			if len(we) != 0 || len(wu) != 1 {
				problems = append(problems, fmt.Sprintf("a compliant request must be answered with exactly one 101 response (got %d upgrades, %d errors) %s", len(wu), len(we), desc))
				continue
			}
			if fold.Show(wu[0].Args[0]) != "bw" {
				problems = append(problems, "the 101 response is not written to the pooled writer")
			}
			// accept key input: the nonce is the copy of the received key value
			keyIdx := -1
			for i, k := range script {
				if k == hKey {
					keyIdx = i
				}
			}
			nonce := fold.Show(wu[0].Args[1])
			wantNonce := make([]string, 24)
			for i := range wantNonce {
				wantNonce[i] = fmt.Sprintf("v%d[%d]", keyIdx, i)
			}
			if nonce != fmt.Sprintf("%q", strings.Join(wantNonce, ",")) {
				problems = append(problems, "the Sec-WebSocket-Accept input is not the 24 bytes of the received key: "+nonce)
			}
			fl := p.Calls("Flush")
			if len(fl) != 1 {
				problems = append(problems, "the 101 response is not flushed exactly once")
			} else if (p.Chose("flush1.err") > 0) != (gotErr == "flush-error") {
				problems = append(problems, "the flush error of the 101 response is not returned: "+gotErr)
			}
			// handshake result
			hs, _ := ret[0].(fold.Struct)
			if len(hs.F) == 2 {
				wantProto := `""`
				for i := 1; i <= 3; i++ {
					for _, nm := range []string{"selectProtocol", "ProtocolCustom"} {
						if p.Chose(fmt.Sprintf("%s#%d", nm, i)) == 1 && wantProto == `""` {
							wantProto = fmt.Sprintf("%q", fmt.Sprintf("proto%d", i))
						}
					}
				}
				if fold.Show(hs.F[0]) != wantProto {
					problems = append(problems, "returned subprotocol is "+fold.Show(hs.F[0])+", the first accepted one is "+wantProto+" "+desc)
				}
				whs, _ := wu[0].Args[2].(fold.Struct)
				if len(whs.F) == 2 && fold.Show(whs.F[0]) != fold.Show(hs.F[0]) {
					problems = append(problems, "the subprotocol sent differs from the one returned")
				}
				for _, why := range extensionAccumulation(p, hs.F[1]) {
					problems = append(problems, why+" "+desc)
				}
				if len(whs.F) == 2 && fold.Show(whs.F[1]) != fold.Show(hs.F[1]) {
					problems = append(problems, "the extensions sent ("+fold.Show(whs.F[1])+") differ from the ones returned ("+fold.Show(hs.F[1])+") "+desc)
				}
			}
		}
		// pool discipline on every path
		var pool []string
		last := ""
		afterPut := ""
		for _, e := range p.Effects {
			if e.Kind != "call" {
				continue
			}
			switch e.Name {
			case "GetReader", "GetWriter", "PutReader", "PutWriter":
				pool = append(pool, e.Name)
			}
			// what the callbacks returned and what is still to be written may point into the pooled
			// buffers (the Custom selectors are documented as zero-copy): nothing but the other Put
			// may follow a Put
			if len(pool) > 0 && strings.HasPrefix(pool[len(pool)-1], "Put") && !strings.HasPrefix(e.Name, "Put") && afterPut == "" {
				afterPut = e.Name + " after " + pool[len(pool)-1]
			}
			last = e.Name
		}
		cnt := map[string]int{}
		for _, s := range pool {
			cnt[s]++
		}
		if cnt["GetReader"] != 1 || cnt["GetWriter"] != 1 || cnt["PutReader"] != 1 || cnt["PutWriter"] != 1 {
			problems = append(problems, fmt.Sprintf("pooled buffers: %v (each Get needs exactly one Put on every path)", pool))
		} else if !strings.HasPrefix(last, "Put") {
			problems = append(problems, "a pooled buffer is used after it was put back ("+last+" after Put)")
		} else if afterPut != "" {
			problems = append(problems, "a pooled handshake buffer is put back while the handshake still runs ("+afterPut+"): values that point into it - the request's header values, the results of the zero-copy selectors - are used after another connection may have taken it "+desc)
		}
	}
	if successes == 0 {
		problems = append(problems, "undecided: no scripted request reaches the success path")
	}
	lrule := prop + ".handshake-buffer-lifetime"
	c.R.Rule(lrule, 1, "no slice of a handshake line is used after a later line was read into the same pooled buffer, and none is returned")
	c.verdict(lrule, lrule+"/Upgrader.Upgrade", c.P.FuncPos(f), uniq(stale), fmt.Sprintf("%d paths: every view of a line dies before the next readLine", len(all)))
	c.R.Sample(map[string]any{"rule": rule, "scripts": len(srvScripts), "paths": len(all), "success_paths": successes})
	c.verdict(rule, rule+"/Upgrader.Upgrade", c.P.FuncPos(f), uniq(problems), fmt.Sprintf("%d paths over %d scripted requests; %d reach 101", len(all), len(srvScripts), successes))
}

func reqKindName(k int) string {
	if k < 0 {
		return "unread"
	}
	return []string{"GET 1.1", "GET 1.2", "GET 1.0", "GET 2.0", "POST 1.1", "malformed", "GET 0.9"}[k]
}

func scriptName(s []int) string {
	var n []string
	for _, k := range s {
		if k == hMalformed {
			n = append(n, "<no colon>")
		} else {
			n = append(n, hsCanonical[k])
		}
	}
	return "[" + strings.Join(n, ", ") + "]"
}

func atomSummary(p *fold.Path) string {
	var s []string
	for _, c := range p.Choices {
		if strings.HasPrefix(c.Key, "Equal") || strings.HasPrefix(c.Key, "HasToken") || strings.Contains(c.Key, ".err") || strings.Contains(c.Key, "len24") || strings.HasPrefix(c.Key, "isnil") {
			s = append(s, fmt.Sprintf("%s=%d", c.Key, c.Opt))
		}
	}
	return strings.Join(s, " ")
}

// srvReference computes the expected outcome of the server handshake from the
// script and the atoms of the path (RFC 6455 4.2.1 as stated in the property).
func srvReference(c *Ctx, p *fold.Path, script srvScript, errs map[string]string) srvOutcome {
	if p.Chose("line1.err") == 1 {
		return srvOutcome{"transport", "line1-error"}
	}
	reqk := p.Chose("reqline")
	if reqk == 5 {
		return srvOutcome{"noresponse", errs["ErrMalformedRequest"]}
	}
	err := ""
	switch reqk {
	case 2, 3, 6:
		err = errs["ErrHandshakeBadProtocol"]
	case 4:
		err = errs["ErrHandshakeBadMethod"]
	}
	// A path stands for every configuration that agrees with the atoms it asked. Where a
	// callback applies, the outcome has to depend on it: a path that never asked whether the
	// callback is set (or never asked for the result of a callback that is set) gives the same
	// outcome to the configuration in which it objects and to the one in which it is absent.
	miss := ""
	isSet := func(name string) bool {
		switch p.Chose("isnil(" + name + ")") {
		case 0:
			return true
		case -1:
			if miss == "" {
				miss = "the outcome of this path does not depend on whether " + name + " is set, although it applies here (a configuration in which it objects must be refused)"
			}
		}
		return false
	}
	asked := func(key, name string) int {
		r := p.Chose(key)
		if r == -1 && miss == "" {
			miss = name + " is set and applies here, but it is not consulted on this path"
		}
		return r
	}
	cbSeq := map[string]int{}
	callErr := func(name string) bool {
		if !isSet(name) {
			return false
		}
		cbSeq[name]++
		return asked(fmt.Sprintf("%s#%d.err", name, cbSeq[name]), name) > 0
	}
	if err == "" && callErr("OnRequest") {
		err = "OnRequest-error"
	}
	if miss != "" {
		return srvOutcome{"unconsulted", miss}
	}
	seen := map[int]bool{}
	proto := false
	atom := func(op string, idx int, s string) bool {
		return p.Chose(fmt.Sprintf("%s(v%d,%q)", op, idx, s)) == 1
	}
	selSeq := 0
	for idx := 0; err == "" && idx <= len(script); idx++ {
		if p.Chose(fmt.Sprintf("line%d.err", idx+2)) == 1 {
			return srvOutcome{"transport", fmt.Sprintf("line%d-error", idx+2)}
		}
		if idx == len(script) {
			break
		}
		k := script[idx]
		switch k {
		case hMalformed:
			err = errs["ErrMalformedRequest"]
		case hHost:
			seen[hHost] = true
			if callErr("OnHost") {
				err = "OnHost-error"
			}
		case hUpgrade:
			seen[hUpgrade] = true
			if !atom("Equal", idx, "websocket") && !atom("EqualFold", idx, "websocket") {
				err = errs["ErrHandshakeBadUpgrade"]
			}
		case hConnection:
			seen[hConnection] = true
			if !atom("Equal", idx, "Upgrade") && !atom("HasToken", idx, "upgrade") {
				err = errs["ErrHandshakeBadConnection"]
			}
		case hVersion:
			seen[hVersion] = true
			if !atom("Equal", idx, "13") {
				err = errs["ErrHandshakeUpgradeRequired"]
			}
		case hKey:
			seen[hKey] = true
			if p.Chose(fmt.Sprintf("key%d.len24", idx)) != 1 {
				err = errs["ErrHandshakeBadSecKey"]
			}
		case hProtocol:
			if proto {
				break
			}
			custom := isSet("ProtocolCustom")
			plain := !custom && isSet("Protocol")
			if custom || plain {
				selSeq++
				name := "selectProtocol"
				if custom {
					name = "ProtocolCustom"
				}
				// sequence numbers are per model; both start at 1
				n := 0
				for i := 1; i <= 3; i++ {
					if p.Chose(fmt.Sprintf("%s#%d", name, i)) >= 0 {
						n = i
					}
				}
				_ = n
				r := asked(fmt.Sprintf("%s#%d", name, selSeq), name)
				if r == 1 {
					proto = true
				}
				if r == 2 {
					err = errs["ErrMalformedRequest"]
				}
			}
		case hExtensions:
			if isSet("Negotiate") {
				if asked("negotiate.err", "Negotiate") > 0 {
					err = "negotiate-error"
				}
			} else if miss == "" {
				custom := isSet("ExtensionCustom")
				plain := !custom && isSet("Extension")
				if custom && asked("ExtensionCustom.ok", "ExtensionCustom") == 0 || plain && asked("selectExtensions.ok", "Extension") == 0 {
					err = errs["ErrMalformedRequest"]
				}
			}
		case hOther:
			if callErr("OnHeader") {
				err = "OnHeader-error"
			}
		}
		if miss != "" {
			return srvOutcome{"unconsulted", miss}
		}
	}
	if err == "" {
		switch {
		case !seen[hHost]:
			err = errs["ErrHandshakeBadHost"]
		case !seen[hUpgrade]:
			err = errs["ErrHandshakeBadUpgrade"]
		case !seen[hConnection]:
			err = errs["ErrHandshakeBadConnection"]
		case !seen[hVersion]:
			err = errs["ErrHandshakeBadSecVersion"]
		case !seen[hKey]:
			err = errs["ErrHandshakeBadSecKey"]
		default:
			if callErr("OnBeforeUpgrade") {
				err = "OnBeforeUpgrade-error"
			}
			if miss != "" {
				return srvOutcome{"unconsulted", miss}
			}
		}
	}
	if err != "" {
		return srvOutcome{"error", err}
	}
	return srvOutcome{"upgrade", ""}
}

var lineNameRe = regexp.MustCompile(`^(reqline|statusline|uri|reason|line:\d+|v\d+)(\[.*\])?$`)

// staleUses scans a handshake path for values that alias a line buffer and are
// used after a later readLine (which recycles the bufio buffer), or returned.
func staleUses(p *fold.Path, ret fold.Val) []string {
	var out []string
	lines := 0
	alias := func(v fold.Val) (string, int, bool) {
		s, ok := v.(fold.SymSeq)
		if !ok {
			return "", 0, false
		}
		mm := lineNameRe.FindStringSubmatch(s.Name)
		if mm == nil {
			return "", 0, false
		}
		// which readLine produced it
		switch {
		case mm[1] == "reqline" || mm[1] == "statusline" || mm[1] == "uri" || mm[1] == "reason":
			return s.Name, 1, true
		default:
			var idx int
			if strings.HasPrefix(mm[1], "line:") {
				fmt.Sscanf(mm[1], "line:%d", &idx)
			} else {
				fmt.Sscanf(mm[1], "v%d", &idx)
			}
			return s.Name, idx + 2, true
		}
	}
	var walk func(v fold.Val, f func(fold.Val))
	walk = func(v fold.Val, f func(fold.Val)) {
		f(v)
		switch x := v.(type) {
		case fold.Struct:
			for _, e := range x.F {
				walk(e, f)
			}
		case fold.Tuple:
			for _, e := range x {
				walk(e, f)
			}
		case fold.Iface:
			walk(x.V, f)
		}
	}
	for _, e := range p.Effects {
		if e.Kind == "call" && e.Name == "readLine" {
			lines++
			continue
		}
		if e.Kind != "call" {
			continue
		}
		for _, a := range e.Args {
			walk(a, func(v fold.Val) {
				if name, born, ok := alias(v); ok && born < lines {
					out = append(out, fmt.Sprintf("%s (read by line %d) is passed to %s after line %d was read into the same buffer", name, born, e.Name, lines))
				}
			})
		}
	}
	walk(ret, func(v fold.Val) {
		if name, _, ok := alias(v); ok {
			out = append(out, name+" (a view of the pooled read buffer) is returned to the caller")
		}
	})
	return out
}

// statusCodeProblem checks the status code handed to the error response: a
// constant must be a real status, a rejection's own code may only be used on a
// path that has established that it is not zero (a rejection built without
// RejectionStatus has none; the response would start "HTTP/1.1 0").
func statusCodeProblem(p *fold.Path, code fold.Val) string {
	k, ok := code.(fold.Int)
	if !ok {
		return "undecided: status code of the error response is " + fold.Show(code)
	}
	if k.IsConst() {
		if k.Const() < 100 || k.Const() > 599 {
			return fmt.Sprintf("the error response is written with status %d", k.Const())
		}
		return ""
	}
	if !k.Top && k.Lo >= 100 {
		return ""
	}
	name := k.Name
	for _, ch := range p.Choices {
		if name == "" || !strings.Contains(ch.Key, name) {
			continue
		}
		switch {
		case strings.Contains(ch.Key, "==0)") && ch.Opt == 0,
			strings.Contains(ch.Key, "!=0)") && ch.Opt == 1,
			strings.Contains(ch.Key, ">0)") && ch.Opt == 1,
			strings.Contains(ch.Key, "<=0)") && ch.Opt == 0:
			return ""
		}
	}
	return "a rejection without a status (code 0) is answered with status 0 instead of 500: the code " + fold.Show(code) + " is used without a zero test"
}

// rejectionProblems: the error response has to depend on whether the error is
// a rejection (a path that never asked answers a rejection carrying its own
// status and headers like a plain error), and a rejection's headers go out
// with it, after the configured ones.
func rejectionProblems(p *fold.Path, gotErr string, we fold.Effect) []string {
	var out []string
	name := strings.TrimPrefix(gotErr, "ws.")
	asked := -1
	for _, ch := range p.Choices {
		if strings.HasPrefix(ch.Key, "assert("+gotErr+",") && strings.Contains(ch.Key, "ConnectionRejectedError") {
			asked = ch.Opt
		}
	}
	if asked == -1 {
		return []string{"the error response for " + name + " does not depend on whether the error is a rejection: its status and extra headers are not looked at on this path"}
	}
	if len(we.Args) < 4 {
		return out
	}
	cl, ok := we.Args[3].(fold.Closure)
	if !ok || len(cl.Bind) != 1 {
		return append(out, "undecided: the header writer of the error response is "+fold.Show(we.Args[3]))
	}
	arr, ok := cl.Bind[0].(fold.Arr)
	if !ok || len(arr.E) != 2 {
		return append(out, "undecided: the header writer of the error response is bound to "+fold.Show(cl.Bind[0]))
	}
	first, second := fold.Show(arr.E[0]), fold.Show(arr.E[1])
	if !strings.Contains(first, "Header") && !(p.Chose("isnil(Header)") == 1 && strings.Contains(first, "nil")) {
		out = append(out, "the configured extra headers are not the first thing the error response writes after the status line: "+first)
	}
	if asked == 1 && !(strings.Contains(second, gotErr) && strings.Contains(second, rejHeaderField)) {
		out = append(out, "the headers of the rejection "+name+" are not written with the error response: "+second)
	}
	if asked == 0 && !strings.Contains(second, "nil") {
		out = append(out, "an error that is not a rejection is answered with extra headers "+second)
	}
	return out
}

// extensionAccumulation: every Sec-WebSocket-Extensions line adds to what the
// earlier lines selected, and what is returned is the result of the last
// selection (the accumulator is the second argument of all three selectors).
func extensionAccumulation(p *fold.Path, final fold.Val) []string {
	var out []string
	k := 0
	for _, e := range p.Effects {
		if e.Kind != "call" || !(e.Name == "negotiateExtensions" || e.Name == "selectExtensions" || e.Name == "ExtensionCustom") || len(e.Args) < 2 {
			continue
		}
		k++
		empty := false
		switch v := e.Args[1].(type) {
		case fold.Nil:
			empty = true
		case fold.SliceV:
			empty = v.Len == 0
		case fold.SymSeq:
			empty = v.Nil || v.Len.IsConst() && v.Len.Const() == 0
		}
		prev := fmt.Sprintf("exts#%d", k-1)
		if got := fold.Show(e.Args[1]); !(k == 1 && empty) && !(k > 1 && strings.Contains(got, prev)) {
			out = append(out, fmt.Sprintf("extension header line %d is selected into %s instead of what the earlier lines selected: the extensions of all but the last line are lost", k, got))
		}
	}
	if k > 0 {
		if got, want := fold.Show(final), fmt.Sprintf("exts#%d", k); !strings.Contains(got, want) {
			out = append(out, "the extensions returned are "+got+", the last selection gave "+want)
		}
	}
	return out
}

// rejHeaderField is the current name of ConnectionRejectedError's field that
// the frozen tree calls "header" (set by rejectionField on first use).
var rejHeaderField = "header"

// rejectionField resolves a field of ConnectionRejectedError by its frozen name
// and returns the name it has now (fields may be renamed).
func (c *Ctx) rejectionField(frozen string) string {
	if rn := c.P.NamedType(ws, "ConnectionRejectedError"); rn != nil {
		st := structOf(rn)
		if i := fieldIdx(st, "header", nil); i >= 0 {
			rejHeaderField = st.Field(i).Name()
		}
		if i := fieldIdx(st, frozen, nil); i >= 0 {
			return st.Field(i).Name()
		}
	}
	return frozen
}
