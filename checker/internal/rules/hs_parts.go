package rules

import (
	"fmt"
	"go/ast"
	"go/token"
	"go/types"
	"golang.org/x/tools/go/ssa"
	"math"
	"math/big"
	"strings"

	"verif/wscheck/internal/fold"
	"verif/wscheck/internal/load"
)

// byte cells used to enumerate tokens symbolically
type byteCell struct {
	lo, hi int64
	name   string
	digit  bool
}

var tokenCells = func() []byteCell {
	// digits split as '0', '1', '2'..'9'; everything else in 16-aligned blocks so
	// that nibble tests are decided for a whole cell
	cells := []byteCell{{'0', '0', "'0'", true}, {'1', '1', "'1'", true}, {'2', '9', "'2'..'9'", true}, {':', '?', "':'..'?'", false}}
	for hi := int64(0); hi < 16; hi++ {
		if hi == 3 {
			continue
		}
		cells = append(cells, byteCell{hi << 4, hi<<4 | 15, fmt.Sprintf("%#02x..%#02x", hi<<4, hi<<4|15), false})
	}
	return cells
}()

// number of leading cells that are used for the longest tokens
const tokenCellsCore = 4

// asciiToIntRules: the number parser accepts exactly decimal digits and yields
// their decimal value.
func asciiToIntRules(c *Ctx, prop string) {
	rule := prop + ".ascii-digits"
	c.R.Rule(rule, 1, "asciiToInt accepts exactly the bytes '0'..'9' and yields the decimal value")
	f := c.fn(rule, ws, "asciiToInt")
	if f == nil {
		return
	}
	m := c.machine()
	m.Models["fmt.Errorf"] = func(cl *fold.Call) fold.Val { return fold.Sym{Name: "not-a-number", NonNil: true} }
	var problems []string
	total := 0
	for n := 1; n <= 4; n++ {
		n := n
		var cells []int
		paths := m.Explore(f, func(mm *fold.Machine) []fold.Val {
			cells = make([]int, n)
			el := make([]fold.Val, n)
			for i := range el {
				nc := len(tokenCells)
				if n >= 4 {
					nc = tokenCellsCore
				}
				cells[i] = mm.Choose(fmt.Sprintf("b%d", i), nc)
				bc := tokenCells[cells[i]]
				el[i] = fold.Int{Lo: bc.lo, Hi: bc.hi}
			}
			return []fold.Val{mm.NewBytes("tok", el)}
		}, nil)
		total += len(paths)
		for _, p := range paths {
			var desc []string
			allDigits := true
			var lo, hi int64
			for i := 0; i < n; i++ {
				bc := tokenCells[p.Chose(fmt.Sprintf("b%d", i))]
				desc = append(desc, bc.name)
				if !bc.digit {
					allDigits = false
				}
				lo = lo*10 + (bc.lo - '0')
				hi = hi*10 + (bc.hi - '0')
			}
			d := "[" + strings.Join(desc, " ") + "]"
			if p.Abort != "" || p.Panic {
				problems = append(problems, "undecided: "+d+": "+p.Abort+panicNote(p))
				continue
			}
			ret, _ := p.Ret.(fold.Tuple)
			if len(ret) != 2 {
				continue
			}
			ok := c.errName(ret[1]) == "nil"
			if ok != allDigits {
				problems = append(problems, fmt.Sprintf("token %s: accepted=%v, but it %s a decimal number", d, ok, map[bool]string{true: "is", false: "is not"}[allDigits]))
				continue
			}
			if ok {
				v, _ := ret[0].(fold.Int)
				if v.Top || v.Lo != lo || v.Hi != hi {
					problems = append(problems, fmt.Sprintf("token %s: value %s, decimal value is [%d..%d]", d, fold.Show(v), lo, hi))
				}
			}
		}
	}
	// long tokens around the overflow boundaries: a value that does not fit an int is an error,
	// also when the wrapped result happens to be a small positive number
	long := []string{"0", "00000000000000000000001", "2147483647", "2147483648", "4294967295", "4294967296", "4294967297", "42949672960", "42949672961",
		"9223372036854775807", "9223372036854775808", "9223372036854775809", "18446744073709551615", "18446744073709551616",
		"18446744073709551617", "36893488147419103233", "99999999999999999999", "184467440737095516160", "184467440737095516161"}
	maxInt := new(big.Int).SetInt64(math.MaxInt64)
	if fold.IntSize == 32 {
		maxInt.SetInt64(math.MaxInt32)
	}
	for _, tok := range long {
		tok := tok
		ps := m.Explore(f, func(mm *fold.Machine) []fold.Val {
			el := make([]fold.Val, len(tok))
			for i := range el {
				el[i] = fold.K(int64(tok[i]))
			}
			return []fold.Val{mm.NewBytes("tok", el)}
		}, nil)
		total += len(ps)
		want, _ := new(big.Int).SetString(tok, 10)
		fits := want.Cmp(maxInt) <= 0
		for _, p := range ps {
			if p.Abort != "" || p.Panic {
				problems = append(problems, "undecided: token "+tok+": "+p.Abort+panicNote(p))
				continue
			}
			ret, _ := p.Ret.(fold.Tuple)
			if len(ret) != 2 {
				continue
			}
			ok := c.errName(ret[1]) == "nil"
			switch {
			case ok && !fits:
				problems = append(problems, fmt.Sprintf("token %s does not fit an int but is accepted as %s (wrap-around)", tok, fold.Show(ret[0])))
			case !ok && fits:
				problems = append(problems, "token "+tok+" fits an int but is refused")
			case ok && fold.Show(ret[0]) != want.String():
				problems = append(problems, fmt.Sprintf("token %s parsed as %s", tok, fold.Show(ret[0])))
			}
		}
	}
	c.R.AddCells(total)
	c.verdict(rule, rule+"/asciiToInt", c.P.FuncPos(f), uniq(problems), fmt.Sprintf("%d token cells of 1-4 bytes and %d long tokens around the overflow boundaries", total, len(long)))
}

// statusLineRules: the status code accepted as 101 is literally "101".
func statusLineRules(c *Ctx, prop string) {
	rule := prop + ".status-literal-101"
	c.R.Rule(rule, 1, "httpParseResponseLine yields status 101 only for the token \"101\"; non-numeric or malformed tokens are errors")
	f := c.fn(rule, ws, "httpParseResponseLine")
	if f == nil {
		return
	}
	m := c.machine()
	m.Models["fmt.Errorf"] = func(cl *fold.Call) fold.Val { return fold.Sym{Name: "not-a-number", NonNil: true} }
	var problems []string
	total := 0
	for n := 0; n <= 4; n++ {
		n := n
		m.Models[ws+".bsplit3"] = func(cl *fold.Call) fold.Val {
			mm := cl.M
			el := make([]fold.Val, n)
			for i := range el {
				nc := len(tokenCells)
				if n >= 4 {
					nc = tokenCellsCore
				}
				bc := tokenCells[mm.Choose(fmt.Sprintf("b%d", i), nc)]
				el[i] = fold.Int{Lo: bc.lo, Hi: bc.hi}
			}
			var tok fold.Val = mm.NewBytes("status", el)
			if n == 0 {
				tok = fold.Nil{}
			}
			return fold.Tuple{fold.SymSeq{Name: "proto", Len: fold.Range(0, 100)}, tok, fold.SymSeq{Name: "reason", Len: fold.Range(0, 100)}}
		}
		m.Models[ws+".httpParseVersion"] = func(cl *fold.Call) fold.Val {
			if cl.M.Choose("version.ok", 2) == 1 {
				return fold.Tuple{fold.K(1), fold.K(1), fold.Bool(true)}
			}
			return fold.Tuple{fold.K(0), fold.K(0), fold.Bool(false)}
		}
		paths := m.Explore(f, func(mm *fold.Machine) []fold.Val {
			return []fold.Val{fold.SymSeq{Name: "line", Len: fold.Range(0, 1<<20)}}
		}, nil)
		total += len(paths)
		for _, p := range paths {
			var desc []string
			lit := n == 3
			allDigits := n > 0
			for i := 0; i < n; i++ {
				k := p.Chose(fmt.Sprintf("b%d", i))
				if k < 0 {
					desc = append(desc, "?")
					lit = false
					continue
				}
				bc := tokenCells[k]
				desc = append(desc, bc.name)
				if !bc.digit {
					allDigits = false
				}
				if lit && !(bc.name == []string{"'1'", "'0'", "'1'"}[i]) {
					lit = false
				}
			}
			d := "[" + strings.Join(desc, " ") + "]"
			if p.Abort != "" || p.Panic {
				problems = append(problems, "undecided: status token "+d+": "+p.Abort+panicNote(p))
				continue
			}
			ret, _ := p.Ret.(fold.Tuple)
			if len(ret) != 2 {
				continue
			}
			ok := c.errName(ret[1]) == "nil"
			if p.Chose("version.ok") == 0 {
				if ok {
					problems = append(problems, "a malformed HTTP version in the status line is accepted")
				}
				continue
			}
			if ok && !allDigits {
				problems = append(problems, "status token "+d+" is not a number but the status line parses")
			}
			if !ok {
				continue
			}
			resp, _ := ret[0].(fold.Struct)
			if len(resp.F) < 3 {
				continue
			}
			st, _ := resp.F[2].(fold.Int)
			may101 := st.Top || (st.Lo <= 101 && 101 <= st.Hi)
			if may101 && !lit {
				problems = append(problems, "status token "+d+" (not the literal \"101\") can be reported as status 101")
			}
			if lit && !(st.IsConst() && st.Const() == 101) {
				problems = append(problems, "the token \"101\" is reported as "+fold.Show(st))
			}
		}
	}
	c.R.AddCells(total)
	c.verdict(rule, rule+"/httpParseResponseLine", c.P.FuncPos(f), uniq(problems), fmt.Sprintf("%d status-token cells of 0-4 bytes", total))
}

// readLineRules: chunking independence of the handshake line reader.
func readLineRules(c *Ctx, prop string) {
	rule := prop + ".readline-chunking"
	c.R.Rule(rule, 1, "readLine returns the same bytes however bufio splits the line: partial chunks are copied before the next ReadSlice, the terminator \\n or \\r\\n is trimmed, a read error is returned")
	f := c.fn(rule, ws, "readLine")
	if f == nil {
		return
	}
	bufFull := c.P.Global("bufio", "ErrBufferFull")
	if bufFull == nil {
		c.R.Unknown(rule, rule+"/anchor:bufio.ErrBufferFull", "-", "does not resolve")
		return
	}
	type chunk struct {
		bytes string // 'x' = payload byte, 'r' = \r, 'n' = \n
		err   string // "", "full", "eof"
	}
	scripts := [][]chunk{
		{{"xxn", ""}}, {{"xxrn", ""}}, {{"n", ""}}, {{"rn", ""}}, {{"rrn", ""}},
		{{"xx", "full"}, {"xn", ""}}, {{"xx", "full"}, {"rn", ""}}, {{"xr", "full"}, {"n", ""}},
		{{"xx", "full"}, {"xx", "full"}, {"xrn", ""}},
		{{"xx", "eof"}}, {{"xx", "full"}, {"x", "eof"}}, {{"", "eof"}},
	}
	var problems []string
	for si, sc := range scripts {
		sc := sc
		m := c.machine()
		var chunkObjs []*fold.Obj
		m.Models["(*bufio.Reader).ReadSlice"] = func(cl *fold.Call) fold.Val {
			mm := cl.M
			i := cl.Seq - 1
			if i >= len(sc) {
				return fold.Tuple{fold.Nil{}, fold.Sym{Name: "script-exhausted", NonNil: true}}
			}
			if fold.Show(cl.Args[1]) != "10" {
				mm.Emit(fold.Effect{Kind: "call", Name: "wrong-delimiter", Args: cl.Args[1:]})
			}
			// the previous chunk's memory is overwritten by this read
			for _, o := range chunkObjs {
				if a, ok := o.V.(fold.Arr); ok {
					for k := range a.E {
						a.E[k] = fold.Int{Lo: 0, Hi: 255, Name: "CLOBBERED"}
					}
				}
			}
			el := make([]fold.Val, len(sc[i].bytes))
			for k, ch := range sc[i].bytes {
				switch ch {
				case 'r':
					el[k] = fold.K('\r')
				case 'n':
					el[k] = fold.K('\n')
				default:
					el[k] = fold.K(int64('A' + i*8 + k)) // distinct payload bytes, none of them a terminator
				}
			}
			s := mm.NewBytes("chunk", el)
			chunkObjs = append(chunkObjs, s.O)
			var e fold.Val = fold.Nil{}
			switch sc[i].err {
			case "full":
				e = mm.Load(fold.Ref{O: mm.GlobalObj(bufFull)})
			case "eof":
				e = fold.Sym{Name: "global:io.EOF", NonNil: true}
			}
			var v fold.Val = s
			if len(el) == 0 {
				v = fold.Nil{}
			}
			return fold.Tuple{v, e}
		}
		paths := m.Explore(f, func(mm *fold.Machine) []fold.Val {
			chunkObjs = nil
			return []fold.Val{fold.Sym{Name: "br", NonNil: true}}
		}, func(mm *fold.Machine, p *fold.Path) {
			ret, _ := p.Ret.(fold.Tuple)
			if len(ret) != 2 {
				return
			}
			var want []string
			all := ""
			for i, ch := range sc {
				for k, b := range ch.bytes {
					all += string(b)
					switch b {
					case 'r':
						want = append(want, "13")
					case 'n':
						want = append(want, "10")
					default:
						want = append(want, fmt.Sprint('A'+i*8+k))
					}
				}
			}
			last := sc[len(sc)-1]
			wantErr := "nil"
			if last.err == "eof" {
				wantErr = "global:io.EOF"
			} else {
				if strings.HasSuffix(all, "rn") {
					want = want[:len(want)-2]
				} else {
					want = want[:len(want)-1]
				}
			}
			var got []string
			switch s := ret[0].(type) {
			case fold.SliceV:
				got = laneNamesPlain(mm.Elems(s))
			case fold.Nil:
			default:
				got = []string{fold.Show(ret[0])}
			}
			d := fmt.Sprintf("script %d %v", si, sc)
			if c.errName(ret[1]) != wantErr {
				problems = append(problems, d+": error "+c.errName(ret[1])+", want "+wantErr)
			}
			if strings.Join(got, ",") != strings.Join(want, ",") {
				problems = append(problems, fmt.Sprintf("%s: line is [%s], want [%s] (a CLOBBERED byte means a partial chunk was not copied before the next read)", d, strings.Join(got, ","), strings.Join(want, ",")))
			}
			if len(p.Calls("wrong-delimiter")) > 0 {
				problems = append(problems, "ReadSlice is not asked for '\\n'")
			}
		})
		for _, p := range paths {
			if p.Abort != "" || p.Panic {
				problems = append(problems, fmt.Sprintf("undecided: script %d: %s%s", si, p.Abort, panicNote(p)))
			}
		}
		c.R.AddCells(len(paths))
	}
	c.verdict(rule, rule+"/readLine", c.P.FuncPos(f), uniq(problems), fmt.Sprintf("%d chunking scripts", len(scripts)))
}

// acceptRules: Sec-WebSocket-Accept = base64(sha1(key + GUID)).
func acceptRules(c *Ctx, prop string) {
	rule := prop + ".accept-computation"
	c.R.Rule(rule, 2, "the accept value is base64(sha1(nonce ++ \"258EAFA5-E914-47DA-95CA-C5AB0DC85B11\")) with 24-byte nonce and 28-byte result; checkAcceptFromNonce compares exactly that")
	const guid = "258EAFA5-E914-47DA-95CA-C5AB0DC85B11"
	f := c.fn(rule, ws, "initAcceptFromNonce")
	if f == nil {
		return
	}
	mk := func() *fold.Machine {
		m := c.machine()
		m.Models["crypto/sha1.Sum"] = func(cl *fold.Call) fold.Val {
			a := []fold.Val{}
			if s, ok := cl.Args[0].(fold.SliceV); ok {
				a = append(a, fold.Str(strings.Join(laneNamesPlain(cl.M.Elems(s)), ",")))
			} else {
				a = append(a, cl.Args[0])
			}
			cl.M.Emit(fold.Effect{Kind: "call", Name: "sha1.Sum", Args: a})
			el := make([]fold.Val, 20)
			for i := range el {
				el[i] = fold.Int{Lo: 0, Hi: 255, Name: fmt.Sprintf("sha%d", i)}
			}
			return fold.Arr{E: el}
		}
		m.Models["(*encoding/base64.Encoding).Encode"] = func(cl *fold.Call) fold.Val {
			src := fold.Show(cl.Args[2])
			if s, ok := cl.Args[2].(fold.SliceV); ok {
				src = strings.Join(laneNamesPlain(cl.M.Elems(s)), ",")
			}
			cl.M.Emit(fold.Effect{Kind: "call", Name: "base64.Encode", Args: []fold.Val{cl.Args[0], cl.Args[1], fold.Str(src)}})
			if d, ok := cl.Args[1].(fold.SliceV); ok {
				for i := int64(0); i < d.Len; i++ {
					cl.M.SetElem(d, i, fold.Int{Lo: 0, Hi: 255, Name: fmt.Sprintf("b64(%d)", i)})
				}
			}
			return nil
		}
		return m
	}
	m := mk()
	var problems []string
	var acceptBuf fold.SliceV
	ps := m.Explore(f, func(mm *fold.Machine) []fold.Val {
		ael := make([]fold.Val, 28)
		for i := range ael {
			ael[i] = fold.K(0)
		}
		nel := make([]fold.Val, 24)
		for i := range nel {
			nel[i] = fold.Int{Lo: 0, Hi: 255, Name: fmt.Sprintf("n%d", i)}
		}
		acceptBuf = mm.NewBytes("accept", ael)
		return []fold.Val{acceptBuf, mm.NewBytes("nonce", nel)}
	}, func(mm *fold.Machine, p *fold.Path) {
		sum := p.Calls("sha1.Sum")
		var want []string
		for i := 0; i < 24; i++ {
			want = append(want, fmt.Sprintf("n%d", i))
		}
		for i := 0; i < len(guid); i++ {
			want = append(want, fmt.Sprint(int(guid[i])))
		}
		if len(sum) != 1 || strings.Trim(fold.Show(sum[0].Args[0]), `"`) != strings.Join(want, ",") {
			problems = append(problems, "the hashed bytes are not the 24 nonce bytes followed by the RFC 6455 GUID")
		}
		enc := p.Calls("base64.Encode")
		var sha []string
		for i := 0; i < 20; i++ {
			sha = append(sha, fmt.Sprintf("sha%d", i))
		}
		if len(enc) != 1 || strings.Trim(fold.Show(enc[0].Args[2]), `"`) != strings.Join(sha, ",") || !strings.Contains(fold.Show(enc[0].Args[0]), "StdEncoding") {
			problems = append(problems, "the accept value is not base64.StdEncoding of the 20 hash bytes")
		} else if d, ok := enc[0].Args[1].(fold.SliceV); !ok || d.O != acceptBuf.O || d.Len != 28 {
			problems = append(problems, "the encoded hash is not written into the 28-byte accept buffer")
		}
	})
	for _, p := range ps {
		if p.Abort != "" || p.Panic {
			problems = append(problems, "undecided: "+p.Abort+panicNote(p))
		}
	}
	c.verdict(rule, rule+"/initAcceptFromNonce", c.P.FuncPos(f), uniq(problems), "sha1(nonce ++ GUID), base64 into 28 bytes")
	// wrong sizes panic only on programmer error: both constants must match the encodings
	ns, ok1 := c.constInt(rule, ws, "nonceSize")
	as, ok2 := c.constInt(rule, ws, "acceptSize")
	nk, ok3 := c.constInt(rule, ws, "nonceKeySize")
	if ok1 && ok2 && ok3 {
		c.R.Check(nk == 16 && ns == (nk+2)/3*4 && as == (20+2)/3*4, rule, rule+"/sizes", "-", "nonceKeySize=16, nonceSize=24, acceptSize=28", fmt.Sprintf("nonceKeySize=%d nonceSize=%d acceptSize=%d do not match 16 / base64(16) / base64(20)", nk, ns, as))
	}
	if g := c.fn(rule, ws, "checkAcceptFromNonce"); g != nil {
		m := mk()
		m.Models[ws+".initAcceptFromNonce"] = func(cl *fold.Call) fold.Val {
			cl.M.Emit(fold.Effect{Kind: "call", Name: "initAccept", Args: cl.Args})
			if d, ok := cl.Args[0].(fold.SliceV); ok {
				for i := int64(0); i < d.Len; i++ {
					cl.M.SetElem(d, i, fold.Int{Lo: 0, Hi: 255, Name: fmt.Sprintf("expect%d", i)})
				}
			}
			return nil
		}
		m.Models["bytes.Equal"] = func(cl *fold.Call) fold.Val {
			cl.M.Emit(fold.Effect{Kind: "call", Name: "bytes.Equal", Args: cl.Args})
			return fold.Bool(cl.M.Choose("equal", 2) == 1)
		}
		var p2 []string
		dom := &fold.IntDom{Name: "len(accept)", Lo: 0, Hi: 1 << 20}
		paths, err := m.ExploreCells(g, []*fold.IntDom{dom}, func(mm *fold.Machine, cells []fold.Int) []fold.Val {
			return []fold.Val{fold.SymSeq{Name: "accept", Len: cells[0]}, fold.SymSeq{Name: "nonce", Len: fold.K(24)}}
		}, nil)
		if err != nil {
			p2 = append(p2, "undecided: "+err.Error())
		}
		for _, p := range paths {
			if p.Abort != "" || p.Panic {
				p2 = append(p2, "undecided: "+p.Abort+panicNote(p.Path))
				continue
			}
			l := p.Cells[0]
			is28 := l.Lo == 28 && l.Hi == 28
			got := fold.Show(p.Ret) == "true"
			want := is28 && p.Chose("equal") == 1
			if got != want {
				p2 = append(p2, fmt.Sprintf("len(accept)=%s equal=%d: result %v, want %v", fold.Show(l), p.Chose("equal"), got, want))
			}
			if is28 {
				ia := p.Calls("initAccept")
				eq := p.Calls("bytes.Equal")
				if len(ia) != 1 || fold.Show(ia[0].Args[1]) != "nonce" || len(eq) != 1 {
					p2 = append(p2, "the expected value is not computed from the nonce that was sent")
				} else {
					a0, a1 := fold.Show(eq[0].Args[0]), fold.Show(eq[0].Args[1])
					if !(a0 == "accept" && strings.HasPrefix(a1, "make") || a1 == "accept" && strings.HasPrefix(a0, "make")) {
						p2 = append(p2, "the received accept value is not compared with the computed one: "+a0+" vs "+a1)
					}
				}
			}
		}
		c.verdict(rule, rule+"/checkAcceptFromNonce", c.P.FuncPos(g), uniq(p2), "true iff 28 bytes equal to the value derived from the sent nonce")
	}
}

// textOf concatenates what a folded writer function wrote to the bufio.Writer.
func addTextWriterModels(m *fold.Machine) {
	m.Models["(*bufio.Writer).WriteString"] = func(cl *fold.Call) fold.Val {
		cl.M.Emit(fold.Effect{Kind: "text", Name: "w", Args: []fold.Val{cl.Args[1]}})
		return fold.Tuple{fold.LenOf(cl.Args[1]), fold.Nil{}}
	}
	m.Models["(*bufio.Writer).Write"] = func(cl *fold.Call) fold.Val {
		var v fold.Val = cl.Args[1]
		if s, ok := v.(fold.SliceV); ok {
			v = fold.Str(strings.Trim(bytesStr(cl.M, s), `"`))
		}
		cl.M.Emit(fold.Effect{Kind: "text", Name: "w", Args: []fold.Val{v}})
		return fold.Tuple{fold.LenOf(cl.Args[1]), fold.Nil{}}
	}
	m.Models["(*bufio.Writer).WriteByte"] = func(cl *fold.Call) fold.Val {
		k, _ := cl.Args[1].(fold.Int)
		cl.M.Emit(fold.Effect{Kind: "text", Name: "w", Args: []fold.Val{fold.Str(string(rune(k.Const())))}})
		return fold.Nil{}
	}
}

func textOf(p *fold.Path) string {
	var sb strings.Builder
	for _, e := range p.Effects {
		if e.Kind != "text" {
			continue
		}
		switch v := e.Args[0].(type) {
		case fold.Str:
			sb.WriteString(string(v))
		case fold.SymSeq:
			sb.WriteString("<" + v.Name + ">")
		default:
			sb.WriteString("<" + fold.Show(v) + ">")
		}
	}
	return sb.String()
}

// requestWriterRules: the upgrade request is a well-formed HTTP/1.1 GET.
func requestWriterRules(c *Ctx, prop string) {
	rule := prop + ".request-writer"
	c.R.Rule(rule, 1, "httpWriteUpgradeRequest writes GET <request-uri> HTTP/1.1, Host, Upgrade: websocket, Connection: Upgrade, Sec-WebSocket-Version: 13, Sec-WebSocket-Key: <nonce>, the configured protocols / extensions / extra headers, and the blank line - in that order, each once")
	f := c.fn(rule, ws, "httpWriteUpgradeRequest")
	if f == nil {
		return
	}
	m := c.machine()
	addTextWriterModels(m)
	m.Models["(*net/url.URL).RequestURI"] = func(cl *fold.Call) fold.Val {
		return fold.SymSeq{Name: "request-uri", Len: fold.Range(1, 1<<20), IsStr: true}
	}
	m.Models["github.com/gobwas/httphead.WriteOptions"] = func(cl *fold.Call) fold.Val {
		cl.M.Emit(fold.Effect{Kind: "text", Name: "w", Args: []fold.Val{fold.SymSeq{Name: "options", IsStr: true}}})
		return fold.Tuple{fold.K(0), fold.Nil{}}
	}
	m.Models["invoke:(io.WriterTo).WriteTo"] = func(cl *fold.Call) fold.Val {
		cl.M.Emit(fold.Effect{Kind: "text", Name: "w", Args: []fold.Val{fold.SymSeq{Name: "extra-headers", IsStr: true}}})
		return fold.Tuple{fold.K(0), fold.Nil{}}
	}
	urlT := derefType(f.Params[1].Type())
	ust := structOf(urlT)
	iHost := fieldIdx(ust, "Host", nil)
	var problems []string
	ps := m.Explore(f, func(mm *fold.Machine) []fold.Val {
		u := fold.SymOfType("u", urlT).(fold.Struct)
		u.F[iHost] = fold.SymSeq{Name: "url-host", Len: fold.Range(1, 1<<20), IsStr: true}
		nel := make([]fold.Val, 24)
		for i := range nel {
			nel[i] = fold.Int{Lo: 0, Hi: 255, Name: fmt.Sprintf("n%d", i)}
		}
		np := mm.Choose("protocols", 3)
		var protos fold.Val = fold.Nil{}
		if np > 0 {
			pe := make([]fold.Val, np)
			for i := range pe {
				pe[i] = fold.SymSeq{Name: fmt.Sprintf("proto%d", i), Len: fold.Range(1, 100), IsStr: true}
			}
			protos = fold.SliceV{O: mm.NewObj("protos", fold.Arr{E: pe}), Len: int64(np), Cap: int64(np)}
		}
		var exts fold.Val = fold.Nil{}
		if mm.Choose("extensions", 2) == 1 {
			exts = fold.SymSeq{Name: "exts", Len: fold.Range(1, 10)}
		}
		var hdr fold.Val = fold.Nil{}
		if mm.Choose("header", 2) == 1 {
			hdr = fold.Iface{V: fold.Sym{Name: "hdr", NonNil: true}}
		}
		var host fold.Val = fold.Str("")
		if mm.Choose("hostoverride", 2) == 1 {
			host = fold.SymSeq{Name: "host-override", Len: fold.Range(1, 100), IsStr: true}
		}
		return []fold.Val{fold.Sym{Name: "bw", NonNil: true}, fold.Ref{O: mm.NewObj("url", u)}, mm.NewBytes("nonce", nel), protos, exts, hdr, host}
	}, func(mm *fold.Machine, p *fold.Path) {
		got := textOf(p)
		host := "<url-host>"
		if p.Chose("hostoverride") == 1 {
			host = "<host-override>"
		}
		want := "GET <request-uri> HTTP/1.1\r\nHost: " + host + "\r\nUpgrade: websocket\r\nConnection: Upgrade\r\nSec-WebSocket-Version: 13\r\nSec-WebSocket-Key: <view(nonce)>\r\n"
		switch p.Chose("protocols") {
		case 1:
			want += "Sec-WebSocket-Protocol: <proto0>\r\n"
		case 2:
			want += "Sec-WebSocket-Protocol: <proto0>, <proto1>\r\n"
		}
		if p.Chose("extensions") == 1 {
			want += "Sec-WebSocket-Extensions: <options>\r\n"
		}
		if p.Chose("header") == 1 {
			want += "<extra-headers>"
		}
		want += "\r\n"
		g := got
		// the nonce is written through an unsafe string view of the 24 bytes
		for _, alt := range []string{"<view(nonce#", "<string(nonce#"} {
			if i := strings.Index(g, alt); i >= 0 {
				if j := strings.Index(g[i:], ">"); j >= 0 {
					g = g[:i] + "<view(nonce)>" + g[i+j+1:]
				}
			}
		}
		if g != want {
			problems = append(problems, fmt.Sprintf("request text is %q, want %q", g, want))
		}
	})
	for _, p := range ps {
		if p.Abort != "" || p.Panic {
			problems = append(problems, "undecided: "+p.Abort+panicNote(p))
		}
	}
	c.R.AddCells(len(ps))
	c.verdict(rule, rule+"/httpWriteUpgradeRequest", c.P.FuncPos(f), uniq(problems), fmt.Sprintf("%d configurations: request text equals the RFC template", len(ps)))
}

// responseWriterRules: the 101 response text and the error response pairing.
func responseWriterRules(c *Ctx, prop string) {
	rule := prop + ".response-writers"
	c.R.Rule(rule, 2, "httpWriteResponseUpgrade writes the 101 head, Sec-WebSocket-Accept of the given nonce, protocol, extensions, extra headers and the blank line; every precomputed error body is the text of the error it is paired with")
	if f := c.fn(rule, ws, "httpWriteResponseUpgrade"); f != nil {
		m := c.machine()
		addTextWriterModels(m)
		m.Models[ws+".writeAccept"] = func(cl *fold.Call) fold.Val {
			cl.M.Emit(fold.Effect{Kind: "text", Name: "w", Args: []fold.Val{fold.SymSeq{Name: "accept(" + fold.Show(cl.Args[1]) + ")", IsStr: true}}})
			return fold.Tuple{fold.K(28), fold.Nil{}}
		}
		m.Models["github.com/gobwas/httphead.WriteOptions"] = func(cl *fold.Call) fold.Val {
			cl.M.Emit(fold.Effect{Kind: "text", Name: "w", Args: []fold.Val{fold.SymSeq{Name: "options", IsStr: true}}})
			return fold.Tuple{fold.K(0), fold.Nil{}}
		}
		m.Models["callback:header"] = func(cl *fold.Call) fold.Val {
			cl.M.Emit(fold.Effect{Kind: "text", Name: "w", Args: []fold.Val{fold.SymSeq{Name: "extra-headers", IsStr: true}}})
			return fold.Tuple{fold.K(0), fold.Nil{}}
		}
		var problems []string
		ps := m.Explore(f, func(mm *fold.Machine) []fold.Val {
			var proto fold.Val = fold.Str("")
			if mm.Choose("proto", 2) == 1 {
				proto = fold.SymSeq{Name: "proto", Len: fold.Range(1, 100), IsStr: true}
			}
			var exts fold.Val = fold.Nil{}
			if mm.Choose("exts", 2) == 1 {
				exts = fold.SymSeq{Name: "exts", Len: fold.Range(1, 10)}
			}
			var hdr fold.Val = fold.Nil{}
			if mm.Choose("header", 2) == 1 {
				hdr = fold.Sym{Name: "header", NonNil: true}
			}
			return []fold.Val{fold.Sym{Name: "bw", NonNil: true}, fold.SymSeq{Name: "nonce", Len: fold.K(24)}, fold.Struct{F: []fold.Val{proto, exts}}, hdr}
		}, func(mm *fold.Machine, p *fold.Path) {
			want := "HTTP/1.1 101 Switching Protocols\r\nUpgrade: websocket\r\nConnection: Upgrade\r\nSec-WebSocket-Accept: <accept(nonce)>\r\n"
			if p.Chose("proto") == 1 {
				want += "Sec-WebSocket-Protocol: <proto>\r\n"
			}
			if p.Chose("exts") == 1 {
				want += "Sec-WebSocket-Extensions: <options>\r\n"
			}
			if p.Chose("header") == 1 {
				want += "<extra-headers>"
			}
			want += "\r\n"
			if got := textOf(p); got != want {
				problems = append(problems, fmt.Sprintf("101 response text is %q, want %q", got, want))
			}
		})
		for _, p := range ps {
			if p.Abort != "" || p.Panic {
				problems = append(problems, "undecided: "+p.Abort+panicNote(p))
			}
		}
		c.verdict(rule, rule+"/httpWriteResponseUpgrade", c.P.FuncPos(f), uniq(problems), "101 response text equals the RFC template")
	}
	// pairing of precomputed error tails: AST of the switch in httpWriteResponseError
	fe := c.fn(rule, ws, "httpWriteResponseError")
	if fe == nil {
		return
	}
	// status line of the error response: the code that was asked for, whatever it is (a callback
	// may reject with a redirect as well as with a 4xx/5xx)
	{
		heads := map[int64]string{400: "textHeadBadRequest", 500: "textHeadInternalServerError", 426: "textHeadUpgradeRequired"}
		var p4 []string
		for _, code := range []int64{101, 200, 302, 307, 399, 400, 401, 403, 426, 499, 500, 503, 599} {
			code := code
			m := c.machine()
			addTextWriterModels(m)
			m.Models[ws+".writeStatusText"] = func(cl *fold.Call) fold.Val {
				cl.M.Emit(fold.Effect{Kind: "call", Name: "writeStatusText", Args: cl.Args[1:]})
				return nil
			}
			m.Models[ws+".writeErrorText"] = func(cl *fold.Call) fold.Val { return nil }
			ps := m.Explore(fe, func(mm *fold.Machine) []fold.Val {
				return []fold.Val{fold.Sym{Name: "bw", NonNil: true}, fold.Iface{V: fold.Sym{Name: "callback-error", NonNil: true}}, fold.K(code), fold.Nil{}}
			}, func(mm *fold.Machine, p *fold.Path) {
				first := ""
				for _, e := range p.Effects {
					if e.Kind == "text" {
						first = "text:" + fold.Show(e.Args[0])
						break
					}
					if e.Kind == "call" && e.Name == "writeStatusText" {
						first = "status:" + fold.Show(e.Args[0])
						break
					}
				}
				if h, ok := heads[code]; ok {
					if !strings.Contains(first, h) && first != "status:"+fmt.Sprint(code) {
						p4 = append(p4, fmt.Sprintf("an error response with status %d starts with %s", code, first))
					}
				} else if first != "status:"+fmt.Sprint(code) {
					p4 = append(p4, fmt.Sprintf("an error response with status %d starts with %s: the status the callback asked for is not the one sent", code, first))
				}
			})
			for _, p := range ps {
				if p.Abort != "" || p.Panic {
					p4 = append(p4, "undecided: "+p.Abort+panicNote(p))
				}
			}
		}
		c.verdict(rule, rule+"/error-status-line", c.P.FuncPos(fe), uniq(p4), "the status line carries the requested code for 13 codes from 101 to 599")
	}
	pk := c.P.ByPath[ws]
	tailOf := map[string]string{} // text var -> error ident it was generated from
	for _, file := range pk.Syntax {
		for _, d := range file.Decls {
			gd, ok := d.(*ast.GenDecl)
			if !ok {
				continue
			}
			for _, sp := range gd.Specs {
				vs, ok := sp.(*ast.ValueSpec)
				if !ok || len(vs.Values) != len(vs.Names) {
					continue
				}
				for i, n := range vs.Names {
					if call, ok := vs.Values[i].(*ast.CallExpr); ok {
						if id, ok := call.Fun.(*ast.Ident); ok && id.Name == "errorText" && len(call.Args) == 1 {
							if a, ok := call.Args[0].(*ast.Ident); ok {
								tailOf[n.Name] = a.Name
							}
						}
					}
				}
			}
		}
	}
	var problems []string
	pairs := 0
	used := map[string]bool{}
	recognised := map[*ast.Ident]bool{}
	// pair records "under the guard err == errName the text variable textID is written"
	pair := func(errName string, body ast.Node) {
		// any mention of a precomputed text under the guard: written directly, returned to the
		// writer by a helper, assigned to the variable that is written afterwards
		ast.Inspect(body, func(n ast.Node) bool {
			arg, ok := n.(*ast.Ident)
			if !ok {
				return true
			}
			src, known := tailOf[arg.Name]
			if !known {
				return true
			}
			if _, isVar := pk.TypesInfo.Uses[arg].(*types.Var); !isVar {
				return true
			}
			pairs++
			used[arg.Name] = true
			recognised[arg] = true
			if src != errName {
				problems = append(problems, fmt.Sprintf("case %s uses %s, which is the text of %s", errName, arg.Name, src))
			}
			return true
		})
	}
	errIdent := func(e ast.Expr) string {
		if id, ok := e.(*ast.Ident); ok && strings.HasPrefix(id.Name, "Err") {
			return id.Name
		}
		return ""
	}
	// the dispatch may be a switch, an if chain or a table, in any function of the package
	for _, file := range pk.Syntax {
		ast.Inspect(file, func(n ast.Node) bool {
			switch x := n.(type) {
			case *ast.CaseClause:
				if len(x.List) == 1 {
					if en := errIdent(x.List[0]); en != "" {
						for _, st := range x.Body {
							pair(en, st)
						}
					}
				}
			case *ast.IfStmt:
				if be, ok := x.Cond.(*ast.BinaryExpr); ok && be.Op == token.EQL {
					en := errIdent(be.Y)
					if en == "" {
						en = errIdent(be.X)
					}
					if en != "" {
						pair(en, x.Body)
					}
				}
			case *ast.KeyValueExpr:
				if en := errIdent(x.Key); en != "" {
					if v, ok := x.Value.(*ast.Ident); ok {
						if src, known := tailOf[v.Name]; known {
							pairs++
							used[v.Name] = true
							recognised[v] = true
							if src != en {
								problems = append(problems, fmt.Sprintf("table entry %s maps to %s, which is the text of %s", en, v.Name, src))
							}
						}
					}
				}
			}
			return true
		})
		// every other use of a precomputed text is outside a recognised dispatch
		ast.Inspect(file, func(n ast.Node) bool {
			if vs, ok := n.(*ast.ValueSpec); ok {
				for _, v := range vs.Values {
					ast.Inspect(v, func(m ast.Node) bool {
						if id, ok := m.(*ast.Ident); ok {
							recognised[id] = true
						}
						return true
					})
				}
				for _, nm := range vs.Names {
					recognised[nm] = true
				}
			}
			if id, ok := n.(*ast.Ident); ok && !recognised[id] {
				if _, known := tailOf[id.Name]; known {
					if _, isVar := pk.TypesInfo.Uses[id].(*types.Var); isVar {
						problems = append(problems, fmt.Sprintf("undecided: %s is used at %s outside a recognised dispatch on the error value", id.Name, c.P.Pos(id.Pos())))
					}
				}
			}
			return true
		})
	}
	for t, e := range tailOf {
		if !used[t] {
			problems = append(problems, fmt.Sprintf("the precomputed text %s of %s is never written", t, e))
		}
	}
	if pairs < 5 {
		problems = append(problems, fmt.Sprintf("undecided: only %d error/text pairs recognised in httpWriteResponseError", pairs))
	}
	c.verdict(rule, rule+"/error-text-pairing", c.P.FuncPos(fe), uniq(problems), fmt.Sprintf("%d precomputed bodies belong to their errors", pairs))
	// writeErrorText: Content-Length is the length of the body it writes
	if f := c.fn(rule, ws, "writeErrorText"); f != nil {
		m := c.machine()
		addTextWriterModels(m)
		m.Models["invoke:(error).Error"] = func(cl *fold.Call) fold.Val {
			return fold.SymSeq{Name: "body", Len: fold.Int{Lo: 0, Hi: 1 << 20, Name: "len(body)"}, IsStr: true}
		}
		m.Models["strconv.Itoa"] = func(cl *fold.Call) fold.Val {
			return fold.SymSeq{Name: "itoa(" + intName(cl.Args[0]) + ")", IsStr: true}
		}
		var p3 []string
		ps := m.Explore(f, func(mm *fold.Machine) []fold.Val {
			return []fold.Val{fold.Sym{Name: "bw", NonNil: true}, fold.Iface{V: fold.Sym{Name: "err", NonNil: true}}}
		}, func(mm *fold.Machine, p *fold.Path) {
			want := "Content-Length: <itoa(len(body))>\r\n\r\n<body>"
			if got := textOf(p); got != want {
				p3 = append(p3, fmt.Sprintf("error body text is %q, want %q", got, want))
			}
		})
		for _, p := range ps {
			if p.Abort != "" || p.Panic {
				p3 = append(p3, "undecided: "+p.Abort+panicNote(p))
			}
		}
		c.verdict(rule, rule+"/writeErrorText", c.P.FuncPos(f), uniq(p3), "Content-Length is the length of the body that follows")
	}
}

// negotiateExtensionsRules folds ws.negotiateExtensions over scripted option
// lists (1-3 extensions, with or without a parameter, well-formed or not) and
// every outcome of the user's Negotiate callback (accept / decline / reject,
// the same for the same extension): the callback sees the extensions in
// order, nothing is negotiated after a rejection, the rejection is what is
// returned, a malformed header is ErrMalformedRequest.
func negotiateExtensionsRules(c *Ctx, prop string) {
	rule := prop + ".negotiate-extensions"
	c.R.Rule(rule, 1, "negotiateExtensions offers every extension once, in order, stops at the first rejection and returns it")
	f := c.fn(rule, ws, "negotiateExtensions")
	if f == nil {
		return
	}
	malformed := c.globalErrName(rule, ws, "ErrMalformedRequest")
	m := c.machine()
	type ev struct {
		name    string
		outcome int // 0 accept 1 decline 2 reject
	}
	var calls []ev
	var nOpts int
	var wellformed bool
	m.Models["github.com/gobwas/httphead.ScanOptions"] = func(cl *fold.Call) fold.Val {
		mm := cl.M
		seq := func(n string) fold.SymSeq { return fold.SymSeq{Name: n, Len: fold.Range(1, 100), NonNil: true} }
		nOpts = 1 + mm.Choose("options", 3)
		for i := 0; i < nOpts; i++ {
			name := seq(fmt.Sprintf("ext%d", i+1))
			var r fold.Val
			if mm.Choose(fmt.Sprintf("ext%d.param", i+1), 2) == 1 {
				r = mm.CallValue(cl.Args[1], []fold.Val{fold.K(int64(i)), name, seq("attr"), seq("val")}, 1)
			} else {
				r = mm.CallValue(cl.Args[1], []fold.Val{fold.K(int64(i)), name, fold.Nil{}, fold.Nil{}}, 1)
			}
			if k, ok := r.(fold.Int); ok && k.IsConst() && k.Const() == 1 { // ControlBreak
				return fold.Bool(true)
			}
		}
		wellformed = mm.Choose("wellformed", 2) == 1
		return fold.Bool(wellformed)
	}
	m.Models["(github.com/gobwas/httphead.Option).Size"] = func(cl *fold.Call) fold.Val {
		o, _ := cl.Args[0].(fold.Struct)
		if len(o.F) > 0 {
			if _, isNil := o.F[0].(fold.Nil); isNil {
				return fold.K(0)
			}
			if s, ok := o.F[0].(fold.SymSeq); ok && s.Name == "declined" {
				return fold.K(0)
			}
		}
		return fold.Int{Lo: 1, Hi: 1 << 20}
	}
	m.Models["(*github.com/gobwas/httphead.Parameters).Set"] = func(cl *fold.Call) fold.Val { return nil }
	m.Models["callback:f"] = func(cl *fold.Call) fold.Val {
		mm := cl.M
		o, _ := cl.Args[0].(fold.Struct)
		name := "?"
		if len(o.F) > 0 {
			name = fold.Show(o.F[0])
			if s, ok := o.F[0].(fold.SymSeq); ok {
				name = s.Name
			}
		}
		k := mm.Choose("f("+name+")", 3)
		calls = append(calls, ev{name, k})
		res := fold.Struct{F: append([]fold.Val{}, o.F...)}
		switch k {
		case 1:
			res.F[0] = fold.SymSeq{Name: "declined", Len: fold.K(0)}
			return fold.Tuple{res, fold.Nil{}}
		case 2:
			return fold.Tuple{res, fold.Sym{Name: "rejected(" + name + ")", NonNil: true}}
		}
		return fold.Tuple{res, fold.Nil{}}
	}
	var problems []string
	paths := m.Explore(f, func(mm *fold.Machine) []fold.Val {
		calls = nil
		wellformed = true
		return []fold.Val{fold.SymSeq{Name: "header", Len: fold.Range(0, 1<<20)}, fold.Nil{}, fold.Sym{Name: "f", NonNil: true}}
	}, func(mm *fold.Machine, p *fold.Path) {
		ret, _ := p.Ret.(fold.Tuple)
		if len(ret) != 2 {
			problems = append(problems, "unexpected result shape")
			return
		}
		e := c.errName(ret[1])
		var names []string
		for _, cl := range calls {
			names = append(names, fmt.Sprintf("%s:%d", cl.name, cl.outcome))
		}
		desc := fmt.Sprintf("[%d extensions, callback calls %v, wellformed=%v]", nOpts, names, wellformed)
		// reference walk
		rejected := ""
		next := 1
		for _, cl := range calls {
			if rejected != "" {
				// after a rejection only the rejected extension itself may be offered again
				if cl.name != rejected {
					problems = append(problems, "an extension is negotiated after another one was rejected "+desc)
				}
				continue
			}
			if cl.name != fmt.Sprintf("ext%d", next) {
				problems = append(problems, "extensions are not offered to the callback once each, in order "+desc)
				break
			}
			next++
			if cl.outcome == 2 {
				rejected = cl.name
			}
		}
		switch {
		case rejected != "":
			if e != "rejected("+rejected+")" {
				problems = append(problems, "the callback's rejection is lost: negotiateExtensions returns "+e+" "+desc)
			}
		case !wellformed:
			if e != malformed {
				problems = append(problems, "a malformed header must be ErrMalformedRequest, got "+e+" "+desc)
			}
		default:
			if e != "nil" {
				problems = append(problems, "unexpected error "+e+" "+desc)
			}
			if next-1 != nOpts {
				problems = append(problems, fmt.Sprintf("%d of %d extensions were offered to the callback %s", next-1, nOpts, desc))
			}
		}
	})
	for _, p := range paths {
		if p.Abort != "" || p.Panic {
			problems = append(problems, "undecided: "+p.Abort+panicNote(p))
		}
	}
	c.R.AddCells(len(paths))
	c.verdict(rule, rule+"/negotiateExtensions", c.P.FuncPos(f), uniq(problems), fmt.Sprintf("%d paths", len(paths)))
}

// nonceRules folds ws.initNonce: the Sec-WebSocket-Key is the base64 encoding
// of 16 bytes each of which comes from the random source - every byte its own
// draw (no byte constant, none a copy of another).
func nonceRules(c *Ctx, prop string) {
	rule := prop + ".nonce-randomness"
	c.R.Rule(rule, 1, "initNonce encodes 16 bytes that all come from the random source")
	f := c.fn(rule, ws, "initNonce")
	if f == nil {
		return
	}
	m := c.machine()
	addBinaryModels(m)
	draws := 0
	fill := func(cl *fold.Call, idx int) fold.Val {
		if s, ok := cl.Args[idx].(fold.SliceV); ok {
			draws++
			for i := int64(0); i < s.Len; i++ {
				cl.M.SetElem(s, i, fold.Int{Lo: 0, Hi: 255, Name: fmt.Sprintf("rnd%d.%d", draws, i)})
			}
			return fold.Tuple{fold.K(s.Len), errChoice(cl.M, "rand.err", "rand-error")}
		}
		return fold.Tuple{fold.K(0), fold.Sym{Name: "rand-error", NonNil: true}}
	}
	m.Models["math/rand.Read"] = func(cl *fold.Call) fold.Val { return fill(cl, 0) }
	m.Models["crypto/rand.Read"] = func(cl *fold.Call) fold.Val { return fill(cl, 0) }
	m.Models["io.ReadFull"] = func(cl *fold.Call) fold.Val { return fill(cl, 1) }
	word := func(bytes int) fold.Model {
		return func(cl *fold.Call) fold.Val {
			draws++
			lanes := make([]string, bytes)
			for i := range lanes {
				lanes[i] = fmt.Sprintf("rnd%d.%d", draws, i)
			}
			v := fold.Int{Top: bytes == 8, Lo: 0, Hi: 1<<uint(8*bytes) - 1, Name: fmt.Sprintf("rnd%d", draws), L: lanes}
			if bytes == 8 {
				v.Lo, v.Hi = 0, 0
			}
			return v
		}
	}
	for _, pk := range []string{"math/rand", "math/rand/v2"} {
		m.Models[pk+".Uint64"] = word(8)
		m.Models[pk+".Int63"] = word(8)
		m.Models[pk+".Uint32"] = word(4)
		m.Models[pk+".Int31"] = word(4)
	}
	m.Models["fmt.Sprintf"] = func(cl *fold.Call) fold.Val { return fold.Str("rand read error") }
	var src []string
	encodes := 0
	m.Models["(*encoding/base64.Encoding).Encode"] = func(cl *fold.Call) fold.Val {
		encodes++
		if s, ok := cl.Args[2].(fold.SliceV); ok {
			src = laneNamesPlain(cl.M.Elems(s))
		} else {
			src = []string{"?" + fold.Show(cl.Args[2])}
		}
		dst := "?"
		if d, ok := cl.Args[1].(fold.SliceV); ok {
			dst = d.O.Name
		}
		cl.M.Emit(fold.Effect{Kind: "call", Name: "base64", Args: []fold.Val{fold.Str(dst)}})
		return nil
	}
	var problems []string
	paths := m.Explore(f, func(mm *fold.Machine) []fold.Val {
		draws, encodes, src = 0, 0, nil
		el := make([]fold.Val, 24)
		for i := range el {
			el[i] = fold.K(0)
		}
		return []fold.Val{mm.NewBytes("nonce", el)}
	}, func(mm *fold.Machine, p *fold.Path) {
		if p.Chose("rand.err") > 0 {
			return // the random source failed: initNonce panics, nothing is sent
		}
		if encodes != 1 {
			problems = append(problems, fmt.Sprintf("the key is base64-encoded %d times", encodes))
			return
		}
		if len(src) != 16 {
			problems = append(problems, fmt.Sprintf("the key is made from %d bytes, RFC 6455 4.1 asks for 16", len(src)))
			return
		}
		seen := map[string]bool{}
		for i, n := range src {
			if !strings.HasPrefix(n, "rnd") {
				problems = append(problems, fmt.Sprintf("byte %d of the key is %s, not a random byte: the key is no longer 16 random bytes", i, n))
				return
			}
			if seen[n] {
				problems = append(problems, fmt.Sprintf("byte %d of the key repeats the random byte %s", i, n))
				return
			}
			seen[n] = true
		}
	})
	for _, p := range paths {
		if p.Abort != "" {
			problems = append(problems, "undecided: "+p.Abort)
		}
	}
	c.verdict(rule, rule+"/initNonce", c.P.FuncPos(f), uniq(problems), "16 distinct random bytes are encoded into the caller's buffer")
}

// headerWriterRules: HandshakeHeaderHTTP.WriteTo renders the extra headers by
// handing the whole header to net/http's own writer (every value of every key,
// canonical syntax). A hand-written replacement is not followed: undecided.
func headerWriterRules(c *Ctx, prop string) {
	rule := prop + ".extra-headers-writer"
	c.R.Rule(rule, 1, "HandshakeHeaderHTTP.WriteTo writes the complete http.Header (all values of every key)")
	f := c.method(rule, ws, "HandshakeHeaderHTTP", "WriteTo")
	if f == nil {
		return
	}
	delegates := false
	for _, b := range f.Blocks {
		for _, in := range b.Instrs {
			ci, ok := in.(ssa.CallInstruction)
			if !ok {
				continue
			}
			cal := ci.Common().StaticCallee()
			if cal == nil {
				continue
			}
			if n := cal.String(); n == "(net/http.Header).Write" || n == "(net/http.Header).WriteSubset" {
				// the receiver of the call must be the method's own receiver (converted)
				if len(ci.Common().Args) > 0 {
					v := ci.Common().Args[0]
					for {
						if ct, ok := v.(*ssa.ChangeType); ok {
							v = ct.X
							continue
						}
						break
					}
					if len(f.Params) > 0 && v == ssa.Value(f.Params[0]) {
						delegates = true
					}
				}
			}
		}
	}
	if delegates {
		c.R.OK(rule, rule+"/WriteTo", c.P.FuncPos(f), "delegates to (net/http.Header).Write on the receiver")
	} else {
		c.R.Unknown(rule, rule+"/WriteTo", c.P.FuncPos(f), "the extra headers are no longer written by net/http's Header.Write: whether every value of a multi-valued key (two Cookie lines, several X-Forwarded-For values) still reaches the peer is not decided")
	}
}

// builtinStatusRules folds the package initialiser of ws and reads the values
// the built-in handshake errors have afterwards: each is a rejection carrying
// the status the property names (and 426 carries Sec-WebSocket-Version: 13).
func builtinStatusRules(c *Ctx, prop string) {
	rule := prop + ".builtin-error-statuses"
	c.R.Rule(rule, 9, "after package initialisation every built-in handshake error is a *ConnectionRejectedError with the status RFC 6455 / the property names: 505 bad protocol, 405 bad method, 400 bad header or malformed request, 426 + Sec-WebSocket-Version: 13 for a wrong version")
	pk := c.P.ByPath[ws]
	rn := c.P.NamedType(ws, "ConnectionRejectedError")
	if pk == nil || rn == nil {
		c.R.Unknown(rule, rule+"/anchor", "-", "package ws / ConnectionRejectedError do not resolve")
		return
	}
	var initFn *ssa.Function
	for _, sp := range c.P.ModulePkgs() {
		if sp.Pkg.Path() == ws {
			initFn = sp.Func("init")
		}
	}
	if initFn == nil {
		c.R.Unknown(rule, rule+"/anchor:init", "-", "package initialiser of ws not found")
		return
	}
	rst := structOf(rn)
	iCode, iHeader := fieldIdx(rst, "code", nil), fieldIdx(rst, "header", nil)
	if iCode < 0 || iHeader < 0 {
		c.R.Unknown(rule, rule+"/anchor:fields", "-", "ConnectionRejectedError.code / .header do not resolve")
		return
	}
	want := []struct {
		name   string
		code   int64
		header string
	}{
		{"ErrHandshakeBadProtocol", 505, ""}, {"ErrHandshakeBadMethod", 405, ""},
		{"ErrHandshakeBadHost", 400, ""}, {"ErrHandshakeBadUpgrade", 400, ""}, {"ErrHandshakeBadConnection", 400, ""},
		{"ErrHandshakeBadSecKey", 400, ""}, {"ErrHandshakeBadSecVersion", 400, ""}, {"ErrMalformedRequest", 400, ""},
		{"ErrHandshakeUpgradeRequired", 426, "Sec-WebSocket-Version: 13\r\n"},
	}
	m := c.machine()
	m.OpaqueOK = true
	// Of everything package initialisation calls, only the functions that build or fill a
	// rejection are followed (their signature or body mentions ConnectionRejectedError, or they
	// call such a function); every other call is an opaque effect.
	mentions := func(t types.Type) bool {
		return strings.Contains(types.TypeString(t, nil), rn.String())
	}
	builds := map[*ssa.Function]bool{}
	funcs := c.P.AllModuleFuncs()
	for _, fn := range funcs {
		if mentions(fn.Signature) {
			builds[fn] = true
			continue
		}
		for _, b := range fn.Blocks {
			for _, in := range b.Instrs {
				if v, ok := in.(ssa.Value); ok && mentions(v.Type()) {
					builds[fn] = true
				}
			}
		}
	}
	for changed := true; changed; {
		changed = false
		for _, fn := range funcs {
			if builds[fn] {
				continue
			}
			for _, b := range fn.Blocks {
				for _, in := range b.Instrs {
					var callee *ssa.Function
					switch x := in.(type) {
					case ssa.CallInstruction:
						callee = x.Common().StaticCallee()
					case *ssa.MakeClosure:
						callee, _ = x.Fn.(*ssa.Function)
					}
					if callee != nil && builds[callee] && !builds[fn] {
						builds[fn] = true
						changed = true
					}
				}
			}
		}
	}
	m.Inline = func(fn *ssa.Function) bool {
		return fn == initFn || load.InModule(fn) && builds[fn] && fn.Name() != "init"
	}
	// the functions that are not followed and write through none of their parameters (may-write
	// summaries of the whole module) leave their arguments as they are
	pw := c.paramWrites()
	for _, fn := range funcs {
		if builds[fn] || fn.Blocks == nil || fn.Parent() != nil {
			continue
		}
		readOnly := true
		for _, p := range fn.Params {
			if pw[p] != "" {
				readOnly = false
			}
		}
		if readOnly {
			m.Models[fold.CanonFuncName(fn)] = func(cl *fold.Call) fold.Val { return cl.M.FreshResults(cl) }
		}
	}
	m.GlobalInit = func(g *ssa.Global) (fold.Val, bool) {
		if strings.HasPrefix(g.Name(), "init$guard") {
			return fold.Bool(false), true
		}
		return nil, false // every other variable has the value the initialiser stores
	}
	got := map[string]string{}
	hdr := map[string]string{}
	differ := map[string]bool{}
	set := func(mp map[string]string, k, v string) {
		if old, ok := mp[k]; ok && old != v {
			differ[k] = true
		}
		mp[k] = v
	}
	paths := m.Explore(initFn, func(mm *fold.Machine) []fold.Val { return nil }, func(mm *fold.Machine, p *fold.Path) {
		for _, w := range want {
			g := c.P.Global(ws, w.name)
			if g == nil {
				continue
			}
			v := mm.Load(fold.Ref{O: mm.GlobalObj(g)})
			if i, ok := v.(fold.Iface); ok {
				v = i.V
			}
			r, ok := v.(fold.Ref)
			if !ok {
				set(got, w.name, "not a pointer to a rejection: "+fold.Show(v))
				continue
			}
			sv, ok := mm.Load(r).(fold.Struct)
			if !ok || len(sv.F) <= iCode || len(sv.F) <= iHeader {
				set(got, w.name, "not a rejection value: "+fold.Show(mm.Load(r)))
				continue
			}
			set(got, w.name, fold.Show(sv.F[iCode]))
			h := sv.F[iHeader]
			if i, ok := h.(fold.Iface); ok {
				h = i.V
			}
			set(hdr, w.name, fold.Show(h))
		}
	})
	c.R.AddCells(len(paths))
	c.R.Paths += len(paths)
	c.R.Func(initFn.String())
	undecided := ""
	for _, p := range paths {
		if p.Abort != "" || p.Panic {
			undecided = "undecided: " + p.Abort + panicNote(p)
		}
	}
	for _, w := range want {
		key := rule + "/" + w.name
		g := c.P.Global(ws, w.name)
		if g == nil {
			c.R.Unknown(rule, key, "-", "anchor variable ws."+w.name+" does not resolve any more")
			continue
		}
		pos := c.P.Pos(g.Pos())
		if undecided != "" {
			c.R.Unknown(rule, key, pos, undecided)
			continue
		}
		var problems []string
		if differ[w.name] {
			problems = append(problems, "undecided: the value of "+w.name+" differs between the paths of package initialisation")
		}
		if got[w.name] != fmt.Sprint(w.code) {
			problems = append(problems, fmt.Sprintf("%s carries status %s, the property names %d", w.name, got[w.name], w.code))
		}
		if w.header != "" && hdr[w.name] != fmt.Sprintf("%q", w.header) {
			problems = append(problems, fmt.Sprintf("%s carries the extra header %s, want %q", w.name, hdr[w.name], w.header))
		}
		c.verdict(rule, key, pos, problems, fmt.Sprintf("status %d%s", w.code, map[bool]string{true: " with " + strings.TrimSpace(w.header), false: ""}[w.header != ""]))
	}
}

// httpGetHeaderRules folds ws.httpGetHeader, through which HTTPUpgrader reads
// every request header: like textproto.MIMEHeader.Get it returns the first
// value of the field as it is, or "" - never something assembled from several
// lines (two 11-character Sec-WebSocket-Key lines are not a 24-character key).
func httpGetHeaderRules(c *Ctx, prop string) {
	rule := prop + ".http-get-header"
	c.R.Rule(rule, 1, "httpGetHeader returns the first value of the field unchanged, or the empty string when there is none")
	f := c.fn(rule, ws, "httpGetHeader")
	if f == nil {
		return
	}
	m := c.machine()
	m.OpaqueOK = true
	n := 0
	m.MapLookup = func(mm *fold.Machine, mp, key fold.Val, commaOk bool) (fold.Val, bool) {
		if n == 0 {
			return fold.Nil{}, true
		}
		el := make([]fold.Val, n)
		for i := range el {
			el[i] = fold.SymSeq{Name: fmt.Sprintf("value%d", i), Len: fold.Int{Lo: 0, Hi: 1 << 20, Name: fmt.Sprintf("len(value%d)", i)}, IsStr: true}
		}
		return fold.SliceV{O: mm.NewObj("values", fold.Arr{E: el}), Len: int64(n), Cap: int64(n)}, true
	}
	var problems []string
	paths := m.Explore(f, func(mm *fold.Machine) []fold.Val {
		n = mm.Choose("values", 4)
		var h fold.Val = fold.Sym{Name: "header-map", NonNil: true}
		if mm.Choose("nilmap", 2) == 1 {
			h, n = fold.Nil{}, 0
		}
		return []fold.Val{h, fold.SymSeq{Name: "key", Len: fold.Range(1, 64), IsStr: true}}
	}, func(mm *fold.Machine, p *fold.Path) {
		got := fold.Show(p.Ret)
		want := `""`
		if n > 0 {
			want = "value0"
		}
		if got != want {
			problems = append(problems, fmt.Sprintf("with %d values for the field httpGetHeader returns %s, want %s: a value put together from several header lines passes checks none of the lines passes", n, got, want))
		}
	})
	for _, p := range paths {
		if p.Abort != "" || p.Panic {
			problems = append(problems, "undecided: "+p.Abort+panicNote(p))
		}
	}
	c.R.AddCells(len(paths))
	c.verdict(rule, rule+"/httpGetHeader", c.P.FuncPos(f), uniq(problems), fmt.Sprintf("%d paths: nil map, 0-3 values", len(paths)))
}
