package rules

import (
	"fmt"
	"strings"

	"verif/wscheck/internal/fold"
)

// httpUpgraderRules folds ws.HTTPUpgrader.Upgrade and compares it with the
// same reference as the zero-copy upgrader (sibling agreement).
func httpUpgraderRules(c *Ctx, prop string) {
	rule := prop + ".httpupgrader-decision-table"
	c.R.Rule(rule, 1, "HTTPUpgrader.Upgrade succeeds exactly for GET, HTTP/1.x (x>=1), Host, Upgrade: websocket, Connection with the upgrade token, a 24-byte key and version 13; every refusal names a rule that is broken; no 101 on failure")
	c.rejectionField("header")
	f := c.method(rule, ws, "HTTPUpgrader", "Upgrade")
	hu := c.P.NamedType(ws, "HTTPUpgrader")
	if f == nil || hu == nil {
		return
	}
	reqT := f.Params[1].Type() // *http.Request
	errs := map[string]string{}
	for _, n := range []string{"ErrHandshakeBadProtocol", "ErrHandshakeBadMethod", "ErrHandshakeBadHost", "ErrHandshakeBadUpgrade", "ErrHandshakeBadConnection",
		"ErrHandshakeBadSecKey", "ErrHandshakeBadSecVersion", "ErrHandshakeUpgradeRequired", "ErrMalformedRequest"} {
		errs[n] = c.globalErrName(rule, ws, n)
	}
	rst := structOf(derefType(reqT))
	if rst == nil {
		c.R.Unknown(rule, rule+"/anchor:http.Request", "-", "request type does not resolve")
		return
	}
	fMethod, fMajor, fMinor, fHost, fHeader := fieldIdx(rst, "Method", nil), fieldIdx(rst, "ProtoMajor", nil), fieldIdx(rst, "ProtoMinor", nil), fieldIdx(rst, "Host", nil), fieldIdx(rst, "Header", nil)
	if fMethod < 0 || fMajor < 0 || fMinor < 0 || fHost < 0 || fHeader < 0 {
		c.R.Unknown(rule, rule+"/anchor:http.Request.fields", "-", "fields do not resolve")
		return
	}
	type rec struct {
		cells []fold.Int
		p     *fold.Path
	}
	m := c.machine()
	addCompareAtoms(m)
	m.Models[ws+".hijack"] = func(cl *fold.Call) fold.Val {
		cl.M.Emit(fold.Effect{Kind: "call", Name: "hijack", Args: cl.Args})
		if cl.M.Choose("hijack.err", 2) == 1 {
			return fold.Tuple{fold.Nil{}, fold.Nil{}, fold.Sym{Name: "hijack-error", NonNil: true}}
		}
		rw := cl.M.NewObj("rw", fold.Struct{F: []fold.Val{fold.Sym{Name: "br", NonNil: true}, fold.Sym{Name: "bw", NonNil: true}}})
		return fold.Tuple{fold.Iface{V: fold.Sym{Name: "conn", NonNil: true}}, fold.Ref{O: rw}, fold.Nil{}}
	}
	m.Models[ws+".httpError"] = func(cl *fold.Call) fold.Val {
		cl.M.Emit(fold.Effect{Kind: "call", Name: "httpError", Args: cl.Args})
		return nil
	}
	m.Models[ws+".httpGetHeader"] = func(cl *fold.Call) fold.Val {
		mm := cl.M
		key := strings.Trim(fold.Show(cl.Args[1]), `"`)
		short := map[string]string{"Upgrade": "upgrade", "Connection": "connection", "Sec-Websocket-Key": "key", "Sec-Websocket-Version": "version"}[key]
		if short == "" {
			mm.Emit(fold.Effect{Kind: "call", Name: "unexpected-header-key", Args: cl.Args[1:]})
			return fold.Str("")
		}
		if mm.Choose(short+".present", 2) == 0 {
			return fold.Str("")
		}
		l := fold.Int{Lo: 1, Hi: 1 << 20, Name: "len(" + short + ")"}
		if short == "key" {
			if mm.Choose("key.len24", 2) == 1 {
				l = fold.K(24)
			} else {
				l = fold.Int{Lo: 25, Hi: 1 << 20, Name: "len(key)"}
			}
		}
		return fold.SymSeq{Name: short, Len: l, IsStr: true}
	}
	m.MapLookup = func(mm *fold.Machine, mp, key fold.Val, commaOk bool) (fold.Val, bool) {
		k := strings.Trim(fold.Show(key), `"`)
		n := mm.Choose("values("+k+")", 3)
		if n == 0 {
			return fold.Nil{}, true
		}
		el := make([]fold.Val, n)
		for i := range el {
			el[i] = fold.SymSeq{Name: fmt.Sprintf("%s#%d", k, i), Len: fold.Int{Lo: 1, Hi: 1 << 20, Name: fmt.Sprintf("len(%s#%d)", k, i)}, IsStr: true}
		}
		return fold.SliceV{O: mm.NewObj("values", fold.Arr{E: el}), Len: int64(n), Cap: int64(n)}, true
	}
	m.Models[ws+".strSelectProtocol"] = func(cl *fold.Call) fold.Val {
		cl.M.Emit(fold.Effect{Kind: "call", Name: "selectProtocol", Args: cl.Args})
		switch cl.M.Choose(fmt.Sprintf("select#%d", cl.Seq), 3) {
		case 1:
			return fold.Tuple{fold.Str(fmt.Sprintf("proto%d", cl.Seq)), fold.Bool(true)}
		case 2:
			return fold.Tuple{fold.Str(""), fold.Bool(false)}
		}
		return fold.Tuple{fold.Str(""), fold.Bool(true)}
	}
	m.Models[ws+".negotiateExtensions"] = func(cl *fold.Call) fold.Val {
		cl.M.Emit(fold.Effect{Kind: "call", Name: "negotiateExtensions", Args: cl.Args})
		return fold.Tuple{fold.SymSeq{Name: fmt.Sprintf("exts#%d", cl.Seq), Len: fold.Range(0, 10)}, errChoice(cl.M, fmt.Sprintf("negotiate#%d.err", cl.Seq), "negotiate-error")}
	}
	m.Models[ws+".btsSelectExtensions"] = func(cl *fold.Call) fold.Val {
		cl.M.Emit(fold.Effect{Kind: "call", Name: "selectExtensions", Args: cl.Args})
		return fold.Tuple{fold.SymSeq{Name: fmt.Sprintf("exts#%d", cl.Seq), Len: fold.Range(0, 10)}, fold.Bool(cl.M.Choose(fmt.Sprintf("extsel#%d.ok", cl.Seq), 2) == 1)}
	}
	m.Models[ws+".httpWriteResponseError"] = func(cl *fold.Call) fold.Val {
		cl.M.Emit(fold.Effect{Kind: "call", Name: "WriteError", Args: cl.Args})
		return nil
	}
	m.Models[ws+".httpWriteResponseUpgrade"] = func(cl *fold.Call) fold.Val {
		cl.M.Emit(fold.Effect{Kind: "call", Name: "WriteUpgrade", Args: cl.Args})
		return nil
	}
	m.Models["(*bufio.Writer).Flush"] = func(cl *fold.Call) fold.Val {
		cl.M.Emit(fold.Effect{Kind: "call", Name: "Flush", Args: cl.Args})
		return errChoice(cl.M, fmt.Sprintf("flush%d.err", cl.Seq), "flush-error")
	}
	for _, n := range []string{"SetDeadline", "SetWriteDeadline", "SetReadDeadline"} {
		n := n
		m.Models["invoke:(net.Conn)."+n] = func(cl *fold.Call) fold.Val {
			cl.M.Emit(fold.Effect{Kind: "call", Name: n, Args: cl.Args[1:]})
			return fold.Nil{}
		}
	}
	m.Models["time.Now"] = func(cl *fold.Call) fold.Val { return fold.Sym{Name: "now"} }
	m.Models["(time.Time).Add"] = func(cl *fold.Call) fold.Val { return fold.Sym{Name: "now+timeout"} }
	m.Models["invoke:(error).Error"] = func(cl *fold.Call) fold.Val {
		return fold.SymSeq{Name: "errtext", Len: fold.Range(0, 1<<20), IsStr: true}
	}
	major := &fold.IntDom{Name: "ProtoMajor", Lo: -1, Hi: 1 << 20}
	minor := &fold.IntDom{Name: "ProtoMinor", Lo: -1, Hi: 1 << 20}
	var out []rec
	paths, err := m.ExploreCells(f, []*fold.IntDom{major, minor}, func(mm *fold.Machine, cells []fold.Int) []fold.Val {
		u := fold.SymOfType("u", hu).(fold.Struct)
		ust := structOf(hu)
		for i := 0; i < ust.NumFields(); i++ {
			switch ust.Field(i).Name() {
			case "Timeout":
				u.F[i] = fold.K(int64(mm.Choose("timeout", 2)) * 1000)
			case "Header":
				u.F[i] = fold.Sym{Name: "Header"}
			default:
				u.F[i] = fold.Sym{Name: ust.Field(i).Name()}
			}
		}
		r := fold.SymOfType("r", derefType(reqT)).(fold.Struct)
		if mm.Choose("method.get", 2) == 1 {
			r.F[fMethod] = fold.Str("GET")
		} else {
			r.F[fMethod] = fold.Str("POST")
		}
		r.F[fMajor], r.F[fMinor] = cells[0], cells[1]
		if mm.Choose("host.present", 2) == 1 {
			r.F[fHost] = fold.SymSeq{Name: "host", Len: fold.Int{Lo: 1, Hi: 1 << 20, Name: "len(host)"}, IsStr: true}
		} else {
			r.F[fHost] = fold.Str("")
		}
		r.F[fHeader] = fold.Sym{Name: "header-map", NonNil: true}
		return []fold.Val{u, fold.Ref{O: mm.NewObj("request", r)}, fold.Iface{V: fold.Sym{Name: "w", NonNil: true}}}
	}, func(mm *fold.Machine, cells []fold.Int, p *fold.Path) { out = append(out, rec{cells: cells, p: p}) })
	var problems []string
	if err != nil {
		problems = append(problems, "undecided: "+err.Error())
	}
	final := map[*fold.Path]bool{}
	for _, p := range paths {
		final[p.Path] = true
		if p.Abort != "" || p.Panic {
			problems = append(problems, "undecided: "+p.Abort+panicNote(p.Path))
		}
	}
	c.R.AddCells(len(paths))
	c.R.Paths += len(paths)
	succ := 0
	for _, r := range out {
		if !final[r.p] {
			continue
		}
		p := r.p
		ret, _ := p.Ret.(fold.Tuple)
		if len(ret) != 4 {
			problems = append(problems, "unexpected result shape")
			continue
		}
		gotErr := c.errName(ret[3])
		if p.Chose("hijack.err") == 1 {
			if gotErr != "hijack-error" || len(p.Calls("httpError")) != 1 || len(p.Calls("WriteUpgrade")) != 0 {
				problems = append(problems, "a failed hijack must be reported with an HTTP error and returned")
			}
			continue
		}
		maj, min := r.cells[0], r.cells[1]
		broken := map[string]bool{}
		if p.Chose("method.get") != 1 {
			broken[errs["ErrHandshakeBadMethod"]] = true
		}
		versionOK := maj.Lo == 1 && maj.Hi == 1 && min.Lo >= 1
		versionBad := maj.Hi < 1 || maj.Lo > 1 || (maj.Lo == 1 && maj.Hi == 1 && min.Hi < 1)
		if !versionOK {
			broken[errs["ErrHandshakeBadProtocol"]] = true
			if !versionBad {
				problems = append(problems, fmt.Sprintf("undecided: version cell %s.%s straddles the HTTP/1.1 boundary", fold.Show(maj), fold.Show(min)))
				continue
			}
		}
		if p.Chose("host.present") != 1 {
			broken[errs["ErrHandshakeBadHost"]] = true
		}
		if !(p.Chose("upgrade.present") == 1 && (p.Chose(`eq(upgrade,"websocket")`) == 1 || p.Chose(`EqualFold(upgrade,"websocket")`) == 1)) {
			broken[errs["ErrHandshakeBadUpgrade"]] = true
		}
		if !(p.Chose("connection.present") == 1 && (p.Chose(`eq(connection,"Upgrade")`) == 1 || p.Chose(`HasToken(connection,"upgrade")`) == 1)) {
			broken[errs["ErrHandshakeBadConnection"]] = true
		}
		if !(p.Chose("key.present") == 1 && p.Chose("key.len24") == 1) {
			broken[errs["ErrHandshakeBadSecKey"]] = true
		}
		if !(p.Chose("version.present") == 1 && p.Chose(`eq(version,"13")`) == 1) {
			broken[errs["ErrHandshakeUpgradeRequired"]] = true
			broken[errs["ErrHandshakeBadSecVersion"]] = true
		}
		// later stages only matter when the basic checks pass
		late := ""
		// A path stands for every configuration that agrees with the atoms it asked: where a
		// selector applies (it is set and the request carries the header), the outcome has to
		// depend on it, so the path must have asked.
		miss := ""
		if len(broken) == 0 {
			values := func(part string) int {
				for _, ch := range p.Choices {
					if strings.HasPrefix(ch.Key, "values(") && strings.Contains(strings.ToLower(ch.Key), part) {
						return ch.Opt
					}
				}
				return -1
			}
			// applies reports how many header values the selector has to see (0: none or not set)
			applies := func(sel, part string) int {
				n, set := values(part), p.Chose("isnil("+sel+")")
				switch {
				case n == 0 || set == 1:
					return 0
				case set == -1:
					miss = "the outcome of this path does not depend on whether " + sel + " is set"
					return 0
				case n == -1:
					miss = sel + " is set, but the path never looks at the " + part + " header of the request"
					return 0
				}
				return n
			}
			asked := func(key, sel string) int {
				r := p.Chose(key)
				if r == -1 && miss == "" {
					miss = sel + " is set and the request carries a value for it, but it is not consulted (" + key + ")"
				}
				return r
			}
			np := applies("Protocol", "protocol")
			for i := 1; i <= np && late == "" && miss == ""; i++ {
				r := asked(fmt.Sprintf("select#%d", i), "Protocol")
				if r == 2 {
					late = errs["ErrMalformedRequest"]
				}
				if r == 1 {
					break
				}
			}
			if late == "" && miss == "" {
				if ne := applies("Negotiate", "extensions"); ne > 0 {
					for i := 1; i <= ne && late == "" && miss == ""; i++ {
						if asked(fmt.Sprintf("negotiate#%d.err", i), "Negotiate") > 0 {
							late = "negotiate-error"
						}
					}
				} else if miss == "" && p.Chose("isnil(Negotiate)") != 0 {
					ne := applies("Extension", "extensions")
					for i := 1; i <= ne && late == "" && miss == ""; i++ {
						if asked(fmt.Sprintf("extsel#%d.ok", i), "Extension") == 0 {
							late = errs["ErrMalformedRequest"]
						}
					}
				}
			}
		}
		wu, we := p.Calls("WriteUpgrade"), p.Calls("WriteError")
		desc := fmt.Sprintf("[HTTP/%s.%s %s]", fold.Show(maj), fold.Show(min), atomSummaryAll(p))
		if miss != "" {
			problems = append(problems, miss+" "+desc)
			continue
		}
		if len(broken) == 0 && late == "" {
			succ++
			if len(wu) != 1 || len(we) != 0 {
				problems = append(problems, "a compliant request must be answered with exactly one 101 response "+desc)
				continue
			}
			if len(p.Calls("Flush")) != 1 || (p.Chose("flush1.err") > 0) != (gotErr == "flush-error") {
				problems = append(problems, "the 101 response must be flushed and the flush error returned: "+gotErr)
			}
			if fold.Show(wu[0].Args[0]) != "bw" || fold.Show(wu[0].Args[1]) != "key" {
				problems = append(problems, "the 101 response is not written to the hijacked writer with the received key: "+fold.Show(wu[0].Args[1]))
			}
			// what is sent is what is returned; the subprotocol is the first one the selector accepted
			if len(wu[0].Args) >= 3 && fold.Show(wu[0].Args[2]) != fold.Show(ret[2]) {
				problems = append(problems, "the handshake data sent ("+fold.Show(wu[0].Args[2])+") differs from the one returned ("+fold.Show(ret[2])+") "+desc)
			}
			if hs, ok := ret[2].(fold.Struct); ok && len(hs.F) == 2 {
				for _, why := range extensionAccumulation(p, hs.F[1]) {
					problems = append(problems, why+" "+desc)
				}
				wantProto := `""`
				for i := 1; i <= 3 && wantProto == `""`; i++ {
					if p.Chose(fmt.Sprintf("select#%d", i)) == 1 {
						wantProto = fmt.Sprintf("%q", fmt.Sprintf("proto%d", i))
					}
				}
				if fold.Show(hs.F[0]) != wantProto {
					problems = append(problems, "returned subprotocol is "+fold.Show(hs.F[0])+", the first accepted one is "+wantProto+" "+desc)
				}
			}
			continue
		}
		if len(wu) != 0 {
			var bl []string
			for b := range broken {
				bl = append(bl, b)
			}
			problems = append(problems, fmt.Sprintf("101 Switching Protocols is written although the request breaks %v %s %s", bl, late, desc))
			continue
		}
		if len(we) != 1 || len(p.Calls("Flush")) != 1 {
			problems = append(problems, "a refused request must be answered with one flushed error response "+desc)
			continue
		}
		if why := statusCodeProblem(p, we[0].Args[2]); why != "" {
			problems = append(problems, why+" "+desc)
		}
		for _, why := range rejectionProblems(p, gotErr, we[0]) {
			problems = append(problems, why+" "+desc)
		}
		if !(broken[gotErr] || gotErr == late) || c.errName(we[0].Args[1]) != gotErr {
			problems = append(problems, fmt.Sprintf("refusal reports %s, which is not a broken rule %s", gotErr, desc))
		}
	}
	if succ == 0 {
		problems = append(problems, "undecided: no success path")
	}
	c.verdict(rule, rule+"/HTTPUpgrader.Upgrade", c.P.FuncPos(f), uniq(problems), fmt.Sprintf("%d paths; %d reach 101", len(paths), succ))
}

func atomSummaryAll(p *fold.Path) string {
	var s []string
	for _, c := range p.Choices {
		if strings.HasPrefix(c.Key, "isnil") || strings.HasPrefix(c.Key, "values(") || strings.HasPrefix(c.Key, "timeout") {
			continue
		}
		s = append(s, fmt.Sprintf("%s=%d", c.Key, c.Opt))
	}
	return strings.Join(s, " ")
}
