package rules

import (
	"fmt"
	"go/types"
	"sort"
	"strings"

	"golang.org/x/tools/go/ssa"

	"verif/wscheck/internal/load"
)

func init() {
	register(&Property{
		ID:        "C19",
		Explain:   "Absence of unsynchronised shared mutable state, decided for every schedule by dataflow over the SSA of the three packages. (1) Write-once globals: every package-level variable is stored only by package initialisation; no function stores through a pointer or slice derived from a global (element stores, copy/append destinations, in-module callees that write through a parameter are followed by a fixpoint summary, returned global pointers are followed to their uses); the only globals whose address reaches code outside the module are listed with the reason they are safe (sync.Pool-based pools, net.Dialer and tls.Config values that are only read). (2) The shared Default* values are used through value-receiver methods only. (3) Pool discipline: every Get of the byte, bufio and writer pools is matched by a Put of the same object that is deferred at once (or hands ownership to the caller, as Dialer.Upgrade documents for the bufio.Reader); the path-sensitive pairing and the 'no use after Put' order are decided by the folds of C02, C06, C08, C09 and C10. (4) Exactly one goroutine is started in the three packages (the dial watcher, whose protocol is C20). NOT decided: races inside math/rand, sync.Pool, crypto/tls (trusted); 'same results as running alone' beyond interference freedom. A pooled Writer is scrubbed by Reset (C18.writer-reset is part of this check); no handshake writes into its configuration (config-read-only); pooled objects are put back exactly once per path and nothing returned points into them (pooled-memory-escape). callback-errors-read-only: nothing is stored through an error value obtained by a type assertion (rejection errors are shared between connections). The two handshake decision tables run here as well: a pooled handshake buffer is put back once and nothing but the other Put follows a Put (values that point into the buffer - header values, results of the zero-copy selectors - are still in use until the response is written). returned-closures-read-only: a function value handed out by an exported constructor (SelectFromSlice, SelectEqual, the Rejection* options) stores nothing into what it captured - a cache filled on first use would be written by concurrent handshakes. no-global-bytes-returned: no exported function returns a byte slice that lives in a package-level variable (callers mask and fill what the frame constructors return).",
		Technique: "static analysis: def-use / base-object dataflow over go/ssa with fixpoint write-through-parameter summaries; who-may-spawn and pairing rules",
		Trusted:   []string{"go/ssa + go/types", "sync.Pool, math/rand's global source, crypto/tls, net are goroutine safe"},
		Run:       runC19,
	})
}

// baseOf follows an address or slice value to the object it points into.
func baseOf(v ssa.Value) ssa.Value {
	for i := 0; i < 100; i++ {
		switch x := v.(type) {
		case *ssa.FieldAddr:
			v = x.X
		case *ssa.IndexAddr:
			v = x.X
		case *ssa.Slice:
			v = x.X
		case *ssa.ChangeType:
			v = x.X
		case *ssa.Convert:
			v = x.X
		case *ssa.MakeInterface:
			v = x.X
		case *ssa.UnOp:
			if x.Op.String() == "*" {
				// load of a slice/pointer value: its memory is what the loaded value points to;
				// for a global of slice/pointer type the region belongs to the global.
				if g, ok := x.X.(*ssa.Global); ok {
					if isRefType(g.Type().(*types.Pointer).Elem()) {
						return g
					}
				}
				return v
			}
			return v
		default:
			return v
		}
	}
	return v
}

func isRefType(t types.Type) bool {
	switch t.Underlying().(type) {
	case *types.Slice, *types.Pointer, *types.Map:
		return true
	}
	return false
}

func runC19(c *Ctx) {
	c19Globals(c)
	c19ValueReceivers(c)
	c19Pools(c)
	c19Goroutines(c)
	c19ReturnedClosures(c)
	// pooled memory must not stay reachable from results: a recycled buffer is shared state
	c17UnsafeViews(c)
	c17Selection(c)
	// a pooled Writer is scrubbed by Reset: whatever it keeps is shared between sessions
	c18Writer(c)
	// a handshake must not write into its (shared) configuration
	configReadOnlyRules(c, "C19")
	pooledEscapeRules(c, "C19")
	sharedErrorRules(c, "C19")
	// the pooled handshake buffers: put back once, after the last use of anything that can point into them
	serverUpgraderRules(c, "C19")
	dialerUpgradeRules(c, "C19")
}

func c19Globals(c *Ctx) {
	const rule = "C19.write-once-globals"
	c.R.Rule(rule, 40, "package-level variables are written only by package initialisation")
	funcs := c.P.AllModuleFuncs()
	// fixpoint: which parameters does a function write through?
	writes := map[*ssa.Parameter]bool{}
	retGlobals := map[*ssa.Function]map[*ssa.Global]bool{}
	isInit := func(fn *ssa.Function) bool {
		for f := fn; f != nil; f = f.Parent() {
			if f.Synthetic == "package initializer" || strings.HasPrefix(f.Name(), "init#") || f.Name() == "init" {
				return true
			}
		}
		return false
	}
	// derived(v) = set of roots (globals or parameters) v's memory may belong to
	type root struct {
		g *ssa.Global
		p *ssa.Parameter
	}
	var rootsOf func(v ssa.Value, depth int, seen map[ssa.Value]bool) []root
	rootsOf = func(v ssa.Value, depth int, seen map[ssa.Value]bool) []root {
		if depth > 30 || seen[v] {
			return nil
		}
		seen[v] = true
		b := baseOf(v)
		switch x := b.(type) {
		case *ssa.Global:
			return []root{{g: x}}
		case *ssa.Parameter:
			return []root{{p: x}}
		case *ssa.Phi:
			var out []root
			for _, e := range x.Edges {
				out = append(out, rootsOf(e, depth+1, seen)...)
			}
			return out
		case *ssa.Call:
			if callee := x.Call.StaticCallee(); callee != nil {
				var out []root
				for g := range retGlobals[callee] {
					out = append(out, root{g: g})
				}
				return out
			}
		case *ssa.Extract:
			return rootsOf(x.Tuple, depth+1, seen)
		case *ssa.Lookup:
			// an element of a map (or string): a reference element lives in the map's memory
			return rootsOf(x.X, depth+1, seen)
		case *ssa.FreeVar:
			// captured variable: find the binding in the parent
			fn := x.Parent()
			if par := fn.Parent(); par != nil {
				for _, b := range par.Blocks {
					for _, in := range b.Instrs {
						if mc, ok := in.(*ssa.MakeClosure); ok && mc.Fn == fn {
							for i, fv := range fn.FreeVars {
								if fv == x && i < len(mc.Bindings) {
									return rootsOf(mc.Bindings[i], depth+1, seen)
								}
							}
						}
					}
				}
			}
		case *ssa.UnOp:
			if x != v {
				return rootsOf(x, depth+1, seen)
			}
		}
		return nil
	}
	type finding struct {
		g    *ssa.Global
		pos  string
		what string
	}
	var findings []finding
	external := map[string]bool{}
	// writers outside the module that mutate an argument
	extMutates := func(callee *ssa.Function, argIdx int) bool {
		if callee == nil {
			return false
		}
		n := callee.String()
		switch {
		case n == "io.ReadFull" || n == "io.ReadAtLeast":
			return argIdx == 1
		case strings.HasPrefix(n, "(encoding/binary.") && strings.Contains(n, ").Put"):
			return argIdx == 1
		case n == "math/rand.Read" || n == "crypto/rand.Read":
			return argIdx == 0
		case n == "(*encoding/base64.Encoding).Encode":
			return argIdx == 1
		}
		return false
	}
	for round := 0; round < 10; round++ {
		changed := false
		findings = findings[:0]
		for _, fn := range funcs {
			note := func(roots []root, pos string, what string) {
				for _, r := range roots {
					if r.p != nil && !writes[r.p] {
						writes[r.p] = true
						changed = true
					}
					if r.g != nil && !isInit(fn) {
						findings = append(findings, finding{g: r.g, pos: pos, what: what + " in " + fn.String()})
					}
				}
			}
			for _, b := range fn.Blocks {
				for _, in := range b.Instrs {
					switch x := in.(type) {
					case *ssa.Store:
						note(rootsOf(x.Addr, 0, map[ssa.Value]bool{}), c.P.Pos(x.Pos()), "store")
					case *ssa.MapUpdate:
						note(rootsOf(x.Map, 0, map[ssa.Value]bool{}), c.P.Pos(x.Pos()), "map update")
					case *ssa.Return:
						for _, rv := range x.Results {
							for _, r := range rootsOf(rv, 0, map[ssa.Value]bool{}) {
								if r.g != nil {
									if retGlobals[fn] == nil {
										retGlobals[fn] = map[*ssa.Global]bool{}
									}
									if !retGlobals[fn][r.g] {
										retGlobals[fn][r.g] = true
										changed = true
									}
								}
							}
						}
					case ssa.CallInstruction:
						cc := x.Common()
						if bi, ok := cc.Value.(*ssa.Builtin); ok {
							switch bi.Name() {
							case "copy":
								note(rootsOf(cc.Args[0], 0, map[ssa.Value]bool{}), c.P.Pos(x.Pos()), "copy into")
							case "append":
								note(rootsOf(cc.Args[0], 0, map[ssa.Value]bool{}), c.P.Pos(x.Pos()), "append to")
							}
							continue
						}
						callee := cc.StaticCallee()
						args := cc.Args
						for i, a := range args {
							roots := rootsOf(a, 0, map[ssa.Value]bool{})
							if len(roots) == 0 {
								continue
							}
							if callee != nil && load.InModule(callee) && callee.Blocks != nil && i < len(callee.Params) {
								if writes[callee.Params[i]] {
									note(roots, c.P.Pos(x.Pos()), "passed to "+shortName(callee.String())+" which writes through parameter "+callee.Params[i].Name())
								}
								continue
							}
							if extMutates(callee, i) {
								note(roots, c.P.Pos(x.Pos()), "passed as destination to "+callee.String())
								continue
							}
							// pointer to a global handed to code outside the module
							if _, isPtr := a.Type().Underlying().(*types.Pointer); isPtr {
								for _, r := range roots {
									if r.g != nil && !isInit(fn) && r.g.Pkg != nil && inModulePkg(r.g.Pkg.Pkg.Path()) {
										name := "dynamic call"
										if callee != nil {
											name = callee.String()
										} else if cc.IsInvoke() {
											name = cc.Method.FullName()
										}
										if strings.HasPrefix(name, "(*sync.Pool).") {
											continue // sync.Pool is safe for concurrent use by construction
										}
										external[canonGlobalName(r.g)+" -> "+name] = true
									}
								}
							}
						}
					case *ssa.MakeClosure:
						// bound method values such as netEmptyDialer.DialContext
						for _, bnd := range x.Bindings {
							if _, isPtr := bnd.Type().Underlying().(*types.Pointer); !isPtr {
								continue
							}
							if g, ok := baseOf(bnd).(*ssa.Global); ok && !isInit(fn) {
								if fnv, ok := x.Fn.(*ssa.Function); ok && !load.InModule(fnv) && g.Pkg != nil && inModulePkg(g.Pkg.Pkg.Path()) {
									external[canonGlobalName(g)+" -> "+strings.TrimSuffix(fnv.String(), "$bound")] = true
								}
							}
						}
					}
				}
			}
		}
		if !changed {
			break
		}
	}
	byGlobal := map[*ssa.Global][]finding{}
	for _, f := range findings {
		byGlobal[f.g] = append(byGlobal[f.g], f)
	}
	n := 0
	for _, sp := range c.P.ModulePkgs() {
		var names []string
		for name, m := range sp.Members {
			if _, ok := m.(*ssa.Global); ok && !strings.HasPrefix(name, "init$") {
				names = append(names, name)
			}
		}
		sort.Strings(names)
		for _, name := range names {
			g := sp.Members[name].(*ssa.Global)
			n++
			key := rule + "/" + shortPkg(sp.Pkg.Path()) + "." + canonGlobalName(g)
			if fs := byGlobal[g]; len(fs) > 0 {
				c.R.Fail(rule, key, fs[0].pos, fmt.Sprintf("shared variable %s is written after initialisation: %s (%d sites) - concurrent connections race on it", name, fs[0].what, len(fs)))
			} else {
				c.R.OK(rule, key, c.P.Pos(g.Pos()), "stored only by package initialisation")
			}
		}
	}
	c.R.Sites += n
	// bytes of a package-level variable handed to the caller: the documented idiom for what the
	// constructors return is to mask / fill it in place, which then writes the shared bytes
	{
		const brule = "C19.no-global-bytes-returned"
		c.R.Rule(brule, 1, "no exported function returns a byte slice that lives in a package-level variable")
		var bad []string
		checked := 0
		for _, fn := range funcs {
			if fn.Parent() != nil || fn.Object() == nil || !fn.Object().Exported() || fn.Blocks == nil {
				continue
			}
			res := fn.Signature.Results()
			returnsBytes := false
			for i := 0; i < res.Len(); i++ {
				if sl, ok := res.At(i).Type().Underlying().(*types.Slice); ok {
					if bt, ok := sl.Elem().Underlying().(*types.Basic); ok && bt.Kind() == types.Byte {
						returnsBytes = true
					}
				}
			}
			if !returnsBytes {
				continue
			}
			checked++
			for _, b := range fn.Blocks {
				for _, in := range b.Instrs {
					ret, ok := in.(*ssa.Return)
					if !ok {
						continue
					}
					for i, rv := range ret.Results {
						if sl, ok := res.At(i).Type().Underlying().(*types.Slice); !ok || !isByteSlice(sl) {
							continue
						}
						for _, r := range rootsOf(rv, 0, map[ssa.Value]bool{}) {
							if r.g != nil && r.g.Pkg != nil && inModulePkg(r.g.Pkg.Pkg.Path()) {
								bad = append(bad, fmt.Sprintf("%s returns bytes of the package-level variable %s (%s)", astFuncName(fn), canonGlobalName(r.g), c.P.Pos(ret.Pos())))
							}
						}
					}
				}
			}
		}
		sort.Strings(bad)
		if len(bad) > 0 {
			c.R.Fail(brule, brule+"/exported-results", "-", fmt.Sprintf("%d result(s) hand shared bytes to the caller; first: %s - a caller that masks or fills what it was given (the documented use of the frame constructors) changes it for every other connection", len(bad), bad[0]))
		} else {
			c.R.OK(brule, brule+"/exported-results", "-", fmt.Sprintf("%d exported functions return byte slices, none of them memory of a package-level variable", checked))
		}
	}
	// reviewed escapes of global addresses to code outside the module
	reviewed := map[string]string{
		"writers -> (*github.com/gobwas/pool.Pool).Get":                           "pool.Pool is a set of sync.Pool: goroutine safe",
		"writers -> (*github.com/gobwas/pool.Pool).Put":                           "pool.Pool is a set of sync.Pool: goroutine safe",
		"netEmptyDialer -> (*net.Dialer).DialContext":                             "net.Dialer methods do not modify the Dialer",
		"tlsEmptyConfig -> crypto/tls.Client":                                     "never reached with the shared value: ServerName is empty, so tlsClient clones it first (and tls.Client only reads the Config)",
		"DefaultHelper -> (*github.com/gobwas/ws/wsflate.Helper).CompressFrame":   "in-module",
		"DefaultHelper -> (*github.com/gobwas/ws/wsflate.Helper).DecompressFrame": "in-module",
	}
	const erule = "C19.global-address-escapes"
	c.R.Rule(erule, 2, "addresses of shared variables reach code outside the module only at reviewed sites")
	var keys []string
	for k := range external {
		keys = append(keys, k)
	}
	sort.Strings(keys)
	for _, k := range keys {
		if why, ok := reviewed[k]; ok {
			c.R.OK(erule, erule+"/"+k, "-", "reviewed: "+why)
		} else {
			c.R.Fail(erule, erule+"/"+k, "-", "the address of a shared variable is handed to code outside the module at a site that was not reviewed: "+k)
		}
	}
}

func c19ValueReceivers(c *Ctx) {
	const rule = "C19.defaults-by-value"
	c.R.Rule(rule, 4, "the shared Default* values are used through value-receiver methods, which copy them")
	for _, tm := range [][2]string{{"Upgrader", "Upgrade"}, {"HTTPUpgrader", "Upgrade"}, {"Dialer", "Dial"}, {"Dialer", "Upgrade"}, {"Dialer", "dial"}, {"Dialer", "tlsClient"}} {
		f := c.method(rule, ws, tm[0], tm[1])
		if f == nil {
			continue
		}
		recv := f.Signature.Recv()
		_, isPtr := recv.Type().Underlying().(*types.Pointer)
		c.R.Check(!isPtr, rule, rule+"/"+tm[0]+"."+tm[1], c.P.FuncPos(f), "value receiver", "pointer receiver: calls through the shared Default"+tm[0]+" would work on shared memory")
		// no store through a pointer loaded from the receiver
		var bad []string
		var visit func(fn *ssa.Function)
		visit = func(fn *ssa.Function) {
			for _, b := range fn.Blocks {
				for _, in := range b.Instrs {
					st, ok := in.(*ssa.Store)
					if !ok {
						continue
					}
					// walk the address chain: does it pass through a load of a receiver field?
					v := st.Addr
					for i := 0; i < 50; i++ {
						switch x := v.(type) {
						case *ssa.FieldAddr:
							v = x.X
							continue
						case *ssa.IndexAddr:
							v = x.X
							continue
						case *ssa.UnOp:
							// pointer loaded from somewhere: is that somewhere the receiver?
							if b := baseOf(x.X); b == fn.Params[0] || isRecvSpill(b, fn) {
								bad = append(bad, c.P.Pos(st.Pos()))
							}
						case *ssa.Field:
							if x.X == ssa.Value(fn.Params[0]) {
								bad = append(bad, c.P.Pos(st.Pos()))
							}
						}
						break
					}
				}
			}
		}
		visit(f)
		c.R.Check(len(bad) == 0, rule, rule+"/"+tm[0]+"."+tm[1]+"/no-store-through-receiver-pointer", c.P.FuncPos(f), "no store through a pointer held by the receiver", "stores through a pointer field of the (shared) receiver at "+strings.Join(bad, ", "))
	}
	// the Default* wrappers call those methods on the globals
	for _, w := range [][2]string{{"Upgrade", "DefaultUpgrader"}, {"UpgradeHTTP", "DefaultHTTPUpgrader"}, {"Dial", "DefaultDialer"}} {
		f := c.fn(rule, ws, w[0])
		if f == nil {
			continue
		}
		g := c.P.Global(ws, w[1])
		loads := false
		for _, b := range f.Blocks {
			for _, in := range b.Instrs {
				if u, ok := in.(*ssa.UnOp); ok && u.X == ssa.Value(g) {
					loads = true
				}
			}
		}
		c.R.Check(g != nil && loads, rule, rule+"/"+w[0], c.P.FuncPos(f), "copies "+w[1]+" before use", w[0]+" does not take "+w[1]+" by value")
	}
}

// isRecvSpill reports whether v is the stack slot the (value) receiver was spilled to.
func isRecvSpill(v ssa.Value, fn *ssa.Function) bool {
	a, ok := v.(*ssa.Alloc)
	if !ok || len(fn.Params) == 0 {
		return false
	}
	for _, r := range *a.Referrers() {
		if st, ok := r.(*ssa.Store); ok && st.Addr == ssa.Value(a) && st.Val == ssa.Value(fn.Params[0]) {
			return true
		}
	}
	return false
}

func c19Pools(c *Ctx) {
	const rule = "C19.pool-get-put-pairing"
	c.R.Rule(rule, 9, "every pooled object taken is put back by a deferred Put of the same object (or ownership is handed to the caller)")
	getters := map[string]string{
		"github.com/gobwas/pool/pbytes.GetLen":    "github.com/gobwas/pool/pbytes.Put",
		"github.com/gobwas/pool/pbytes.Get":       "github.com/gobwas/pool/pbytes.Put",
		"github.com/gobwas/pool/pbytes.GetCap":    "github.com/gobwas/pool/pbytes.Put",
		"github.com/gobwas/pool/pbufio.GetReader": "github.com/gobwas/pool/pbufio.PutReader",
		"github.com/gobwas/pool/pbufio.GetWriter": "github.com/gobwas/pool/pbufio.PutWriter",
	}
	count := 0
	for _, fn := range c.P.AllModuleFuncs() {
		for _, b := range fn.Blocks {
			for idx, in := range b.Instrs {
				call, ok := in.(*ssa.Call)
				if !ok {
					continue
				}
				callee := call.Call.StaticCallee()
				if callee == nil {
					continue
				}
				put, isGet := getters[callee.String()]
				if !isGet {
					continue
				}
				count++
				key := fmt.Sprintf("%s/%s:%s#%d", rule, shortName(fn.String()), shortName(callee.String()), count)
				key = fmt.Sprintf("%s/%s:%s", rule, shortName(fn.String()), callee.Name())
				// look for Defer Put(call) in the same block after the Get, or a deferred closure that Puts the captured cell
				ok1 := false
				why := ""
				for _, r := range *call.Referrers() {
					switch x := r.(type) {
					case *ssa.Defer:
						if sc := x.Call.StaticCallee(); sc != nil && sc.String() == put && len(x.Call.Args) == 1 && x.Call.Args[0] == ssa.Value(call) {
							if x.Block() == b && indexOf(b, x) > idx {
								ok1, why = true, "defer "+sc.Name()+" right after the Get"
							} else {
								why = "the deferred Put is not in the block of the Get: an early return could skip it"
							}
						}
					case *ssa.Store:
						// stored into a captured cell: a deferred closure must Put it
						if cell, isAlloc := x.Addr.(*ssa.Alloc); isAlloc {
							if deferredClosurePuts(fn, cell, put) {
								ok1, why = true, "put back by a deferred closure (ownership may be handed to the caller there)"
							}
						}
					}
				}
				if !ok1 {
					// value captured directly (not via a cell)
					if deferredClosurePutsValue(fn, call, put) {
						ok1, why = true, "put back by a deferred closure"
					}
				}
				if !ok1 {
					if w, ok := explicitPutOnAllPaths(fn, call, put); ok {
						ok1, why = true, w
					} else if w != "" {
						why = w
					}
				}
				if dbl := doublePut(call, put); dbl != "" {
					c.R.Fail(rule, key, c.P.Pos(call.Pos()), dbl+": the same backing array is handed out to two later users, which then share memory")
					continue
				}
				if ok1 {
					c.R.OK(rule, key, c.P.Pos(call.Pos()), why)
				} else {
					if why == "" {
						why = "no deferred " + put + " of this object in " + fn.String()
					}
					c.R.Fail(rule, key, c.P.Pos(call.Pos()), why+": the pooled object leaks or, if put back early, is shared with another connection while still in use")
				}
			}
		}
	}
	c.R.Sites += count
}

func indexOf(b *ssa.BasicBlock, in ssa.Instruction) int {
	for i, x := range b.Instrs {
		if x == in {
			return i
		}
	}
	return -1
}

func deferredClosurePuts(fn *ssa.Function, cell *ssa.Alloc, put string) bool {
	for _, b := range fn.Blocks {
		for _, in := range b.Instrs {
			d, ok := in.(*ssa.Defer)
			if !ok {
				continue
			}
			mc, ok := d.Call.Value.(*ssa.MakeClosure)
			if !ok {
				continue
			}
			cf := mc.Fn.(*ssa.Function)
			for i, bnd := range mc.Bindings {
				if bnd != ssa.Value(cell) || i >= len(cf.FreeVars) {
					continue
				}
				fv := cf.FreeVars[i]
				for _, cb := range cf.Blocks {
					for _, cin := range cb.Instrs {
						call, ok := cin.(*ssa.Call)
						if !ok {
							continue
						}
						if sc := call.Call.StaticCallee(); sc != nil && sc.String() == put && len(call.Call.Args) == 1 {
							if u, ok := call.Call.Args[0].(*ssa.UnOp); ok && u.X == ssa.Value(fv) {
								return true
							}
						}
					}
				}
			}
		}
	}
	return false
}

func deferredClosurePutsValue(fn *ssa.Function, v ssa.Value, put string) bool {
	for _, b := range fn.Blocks {
		for _, in := range b.Instrs {
			d, ok := in.(*ssa.Defer)
			if !ok {
				continue
			}
			mc, ok := d.Call.Value.(*ssa.MakeClosure)
			if !ok {
				continue
			}
			cf := mc.Fn.(*ssa.Function)
			for i, bnd := range mc.Bindings {
				if bnd != v || i >= len(cf.FreeVars) {
					continue
				}
				fv := cf.FreeVars[i]
				for _, cb := range cf.Blocks {
					for _, cin := range cb.Instrs {
						if call, ok := cin.(*ssa.Call); ok {
							if sc := call.Call.StaticCallee(); sc != nil && sc.String() == put && len(call.Call.Args) == 1 && call.Call.Args[0] == ssa.Value(fv) {
								return true
							}
						}
					}
				}
			}
		}
	}
	return false
}

func c19Goroutines(c *Ctx) {
	const rule = "C19.single-goroutine"
	c.R.Rule(rule, 1, "the three packages start exactly one goroutine (the dial watcher)")
	var sites []string
	for _, fn := range c.P.AllModuleFuncs() {
		for _, b := range fn.Blocks {
			for _, in := range b.Instrs {
				if g, ok := in.(*ssa.Go); ok {
					sites = append(sites, fn.String()+" at "+c.P.Pos(g.Pos()))
				}
			}
		}
	}
	okOne := len(sites) == 1 && strings.Contains(sites[0], "setupContextDeadliner")
	c.R.Check(okOne, rule, rule+"/go-statements", "-", "one go statement: "+strings.Join(sites, "; "), fmt.Sprintf("%d go statements (%s): every goroutine sharing connection state needs its own synchronisation argument", len(sites), strings.Join(sites, "; ")))
}

func inModulePkg(path string) bool {
	return path == load.PkgWS || path == load.PkgWSUtil || path == load.PkgWSFlate
}

// explicitPutOnAllPaths accepts a Get whose object is put back by ordinary
// (non-deferred) calls: every path from the Get to a return passes a Put of
// the same object, and the object is not used after a Put.
func explicitPutOnAllPaths(fn *ssa.Function, get *ssa.Call, put string) (string, bool) {
	isPut := func(in ssa.Instruction) bool {
		c, ok := in.(*ssa.Call)
		if !ok {
			return false
		}
		sc := c.Call.StaticCallee()
		return sc != nil && sc.String() == put && len(c.Call.Args) == 1 && c.Call.Args[0] == ssa.Value(get)
	}
	uses := map[ssa.Instruction]bool{}
	for _, r := range *get.Referrers() {
		if !isPut(r) {
			uses[r] = true
		}
	}
	anyPut := false
	for _, b := range fn.Blocks {
		for _, in := range b.Instrs {
			if isPut(in) {
				anyPut = true
			}
		}
	}
	if !anyPut {
		return "", false
	}
	// walk from the instruction after the Get; state: put already done or not
	type node struct {
		b    *ssa.BasicBlock
		done bool
	}
	seen := map[node]bool{}
	var msg string
	var walk func(b *ssa.BasicBlock, start int, done bool) bool
	walk = func(b *ssa.BasicBlock, start int, done bool) bool {
		for i := start; i < len(b.Instrs); i++ {
			in := b.Instrs[i]
			if isPut(in) {
				if done {
					msg = "the pooled object is put back twice on a path"
					return false
				}
				done = true
				continue
			}
			if done && uses[in] {
				msg = "the pooled object is used after it was put back"
				return false
			}
			if _, ok := in.(*ssa.Return); ok && !done {
				msg = "a path returns without putting the pooled object back"
				return false
			}
			if _, ok := in.(*ssa.Panic); ok {
				return true
			}
		}
		for _, s := range b.Succs {
			n := node{s, done}
			if seen[n] {
				continue
			}
			seen[n] = true
			if !walk(s, 0, done) {
				return false
			}
		}
		return true
	}
	if walk(get.Block(), indexOf(get.Block(), get)+1, false) {
		return "put back by an explicit Put on every path, no use afterwards", true
	}
	return msg, false
}

// doublePut reports a path on which the pooled object v is put back twice: a
// deferred Put together with an explicit one, two deferred ones, or an explicit
// Put that dominates another.
func doublePut(v *ssa.Call, put string) string {
	var defers []*ssa.Defer
	var calls []*ssa.Call
	for _, r := range *v.Referrers() {
		switch x := r.(type) {
		case *ssa.Defer:
			if sc := x.Call.StaticCallee(); sc != nil && sc.String() == put && len(x.Call.Args) == 1 && x.Call.Args[0] == ssa.Value(v) {
				defers = append(defers, x)
			}
		case *ssa.Call:
			if sc := x.Call.StaticCallee(); sc != nil && sc.String() == put && len(x.Call.Args) == 1 && x.Call.Args[0] == ssa.Value(v) {
				calls = append(calls, x)
			}
		}
	}
	switch {
	case len(defers) >= 1 && len(calls) >= 1:
		return "the object is put back explicitly although a deferred Put of it is registered (put twice on that path)"
	case len(defers) >= 2:
		for i := range defers {
			for j := range defers {
				if i != j && defers[i].Block().Dominates(defers[j].Block()) {
					return "two deferred Puts of the same object run on one path"
				}
			}
		}
	}
	for i := range calls {
		for j := range calls {
			if i == j {
				continue
			}
			bi, bj := calls[i].Block(), calls[j].Block()
			if bi == bj && indexOf(bi, calls[i]) < indexOf(bj, calls[j]) || bi != bj && bi.Dominates(bj) {
				return "the object is put back twice on one path"
			}
		}
	}
	return ""
}

// discardedErrorRules: an error result that nobody looks at. Every call in the
// three packages whose error result is unused (not assigned, assigned to the
// blank identifier, or extracted from a tuple and never read) must be in the
// reviewed table, keyed by caller and callee: a new one is how a failed write
// or a cut read turns into success.
var reviewedDiscards = map[string]string{
	"ws.(Dialer).Dial -> (net.Conn).Close":                                                  "closing on the error path: the handshake error is what is returned",
	"ws.(Dialer).Dial -> (net.Conn).SetDeadline":                                            "best-effort deadline: a failure shows as the I/O error of the operation it was meant to bound",
	"ws.(Dialer).Dial -> (net.Conn).SetDeadline (deferred)":                                 "best-effort deadline: a failure shows as the I/O error of the operation it was meant to bound",
	"ws.(HTTPUpgrader).Upgrade -> (*bufio.Writer).Flush":                                    "error path only: the refusal that is being reported must not be overwritten by the flush error (the success path stores the Flush error; decided by the httpupgrader fold)",
	"ws.(HTTPUpgrader).Upgrade -> (net.Conn).SetDeadline":                                   "best-effort deadline: a failure shows as the I/O error of the operation it was meant to bound",
	"ws.(HTTPUpgrader).Upgrade -> (net.Conn).SetWriteDeadline":                              "best-effort deadline: a failure shows as the I/O error of the operation it was meant to bound",
	"ws.(HTTPUpgrader).Upgrade -> (net.Conn).SetWriteDeadline (deferred)":                   "best-effort deadline: a failure shows as the I/O error of the operation it was meant to bound",
	"ws.(Upgrader).Upgrade -> (*bufio.Writer).Flush":                                        "error path only: the refusal that is being reported must not be overwritten (the success path returns the Flush error; decided by the upgrader fold)",
	"ws.errorText -> (*bufio.Writer).Flush":                                                 "init-time rendering into a bytes.Buffer, which cannot fail",
	"ws.httpError -> (net/http.ResponseWriter).Write":                                       "best-effort body of an HTTP error reply on a path that already failed",
	"ws.httpWriteHeader -> (*bufio.Writer).WriteString":                                     "the bufio.Writer keeps the first write error and reports it at Flush, which the caller examines on the success path",
	"ws.httpWriteHeaderBts -> (*bufio.Writer).Write":                                        "the bufio.Writer keeps the first write error and reports it at Flush, which the caller examines on the success path",
	"ws.httpWriteHeaderBts -> (*bufio.Writer).WriteString":                                  "the bufio.Writer keeps the first write error and reports it at Flush, which the caller examines on the success path",
	"ws.httpWriteHeaderKey -> (*bufio.Writer).WriteString":                                  "the bufio.Writer keeps the first write error and reports it at Flush, which the caller examines on the success path",
	"ws.httpWriteResponseError -> (*bufio.Writer).WriteString":                              "the bufio.Writer keeps the first write error and reports it at Flush, which the caller examines on the success path",
	"ws.httpWriteResponseError -> dynamic call":                                             "the header callback writes into the same bufio.Writer: the bufio.Writer keeps the first write error and reports it at Flush, which the caller examines on the success path",
	"ws.httpWriteResponseUpgrade -> (*bufio.Writer).WriteString":                            "the bufio.Writer keeps the first write error and reports it at Flush, which the caller examines on the success path",
	"ws.httpWriteResponseUpgrade -> dynamic call":                                           "the header callback writes into the same bufio.Writer: the bufio.Writer keeps the first write error and reports it at Flush, which the caller examines on the success path",
	"ws.httpWriteResponseUpgrade -> httphead.WriteOptions":                                  "the bufio.Writer keeps the first write error and reports it at Flush, which the caller examines on the success path",
	"ws.httpWriteResponseUpgrade -> ws.writeAccept":                                         "the bufio.Writer keeps the first write error and reports it at Flush, which the caller examines on the success path",
	"ws.httpWriteUpgradeRequest -> (*bufio.Writer).WriteString":                             "the bufio.Writer keeps the first write error and reports it at Flush, which the caller examines on the success path",
	"ws.httpWriteUpgradeRequest -> (io.WriterTo).WriteTo":                                   "the user's header writes into the same bufio.Writer: the bufio.Writer keeps the first write error and reports it at Flush, which the caller examines on the success path",
	"ws.httpWriteUpgradeRequest -> httphead.WriteOptions":                                   "the bufio.Writer keeps the first write error and reports it at Flush, which the caller examines on the success path",
	"ws.setupContextDeadliner -> (net.Conn).SetDeadline":                                    "poisoning / clearing the deadline is best effort (the protocol of the watcher is decided by C20.watcher-protocol)",
	"ws.statusText -> (*bufio.Writer).Flush":                                                "init-time rendering into a bytes.Buffer, which cannot fail",
	"ws.writeErrorText -> (*bufio.Writer).WriteString":                                      "the bufio.Writer keeps the first write error and reports it at Flush, which the caller examines on the success path",
	"ws.writeStatusText -> (*bufio.Writer).WriteByte":                                       "the bufio.Writer keeps the first write error and reports it at Flush, which the caller examines on the success path",
	"ws.writeStatusText -> (*bufio.Writer).WriteString":                                     "the bufio.Writer keeps the first write error and reports it at Flush, which the caller examines on the success path",
	"wsflate.init -> compress/flate.NewWriter":                                              "fails only for an invalid compression level; the level is a constant",
	"wsutil.(*DebugDialer).Dial -> (*bufio.Reader).Peek":                                    "fills the buffer of the reader handed back; a failure shows at the caller's first read",
	"wsutil.(*DebugUpgrader).Upgrade -> (io.Closer).Close":                                  "drains the sniffed copy of the request for the debug report only",
	"wsutil.(*DebugUpgrader).Upgrade -> io.Copy":                                            "drains the sniffed copy of the request for the debug report only",
	"wsutil.(*Writer).Write -> (*wsutil.Writer).FlushFragment":                              "the writer's error is sticky in w.err, which the loop condition tests (decided by the writer method tables)",
	"wsutil.(*Writer).Write -> (*wsutil.Writer).WriteThrough":                               "the writer's error is sticky in w.err, which the loop condition tests (decided by the writer method tables)",
	"wsutil.(*prefetchResponseReader).Read -> (io.Closer).Close":                            "drains the sniffed copy of the response for the debug report only",
	"wsutil.(*prefetchResponseReader).Read -> io.Copy":                                      "drains the sniffed copy of the response for the debug report only",
	"wsutil.(ControlHandler).HandleClose -> (wsutil.ControlHandler).closeWithProtocolError": "best-effort close reply; the protocol error itself is returned to the caller",
}

func discardedErrorRules(c *Ctx, prop string) {
	rule := prop + ".discarded-errors"
	c.R.Rule(rule, 5, "every error result that is not examined is a reviewed case")
	found := map[string]string{}
	for _, fn := range c.P.AllModuleFuncs() {
		if pk := fn.Package(); pk == nil && fn.Parent() == nil {
			continue
		}
		top := fn
		for top.Parent() != nil {
			top = top.Parent()
		}
		if top.Package() == nil {
			continue
		}
		switch top.Package().Pkg.Path() {
		case ws, wsutil, wsflate:
		default:
			continue
		}
		for _, b := range fn.Blocks {
			for _, in := range b.Instrs {
				var cc *ssa.CallCommon
				var val ssa.Value
				switch x := in.(type) {
				case *ssa.Call:
					cc, val = x.Common(), x
				case *ssa.Defer:
					cc = x.Common()
				case *ssa.Go:
					cc = x.Common()
				default:
					continue
				}
				res := cc.Signature().Results()
				errIdx := -1
				for i := 0; i < res.Len(); i++ {
					if isErrorT(res.At(i).Type()) {
						errIdx = i
					}
				}
				if errIdx < 0 {
					continue
				}
				used := false
				if val != nil && val.Referrers() != nil {
					for _, r := range *val.Referrers() {
						if res.Len() == 1 {
							if _, isDbg := r.(*ssa.DebugRef); !isDbg {
								used = true
							}
							continue
						}
						if ex, ok := r.(*ssa.Extract); ok && ex.Index == errIdx && ex.Referrers() != nil {
							for _, rr := range *ex.Referrers() {
								if _, isDbg := rr.(*ssa.DebugRef); !isDbg {
									used = true
								}
							}
						}
					}
				}
				if used {
					continue
				}
				key := astFuncName(fn) + " -> " + shortName(calleeName(cc))
				if _, isDefer := in.(*ssa.Defer); isDefer {
					key += " (deferred)"
				}
				found[key] = c.P.Pos(in.Pos())
			}
		}
	}
	var keys []string
	for k := range found {
		keys = append(keys, k)
	}
	sort.Strings(keys)
	for _, k := range keys {
		why, ok := reviewedDiscards[k]
		if !ok {
			// a helper that was split out of a reviewed function inherits its caller's cases
			if i := strings.Index(k, " -> "); i > 0 {
				for _, o := range c.ownerChain(k[:i])[1:] {
					if w, has := reviewedDiscards[o+k[i:]]; has {
						why, ok = w+" (moved into helper "+k[:i]+")", true
						break
					}
				}
			}
		}
		if ok {
			c.R.OK(rule, rule+"/"+k, found[k], "reviewed: "+why)
		} else {
			c.R.Fail(rule, rule+"/"+k, found[k], "the error result of this call is not examined and the case was not reviewed: a failure here is reported as success")
		}
	}
	c.R.Sites += len(keys)
}

// c19ReturnedClosures: a function value the library hands out (a selector made
// by SelectFromSlice, a rejection option, the watcher's done function) is used
// by every connection that shares the configuration it was put into. What it
// captured is shared state just like a package-level variable: the closure may
// read it, but a store into a captured variable or into a captured map - a
// cache filled on first use, a counter - is an unsynchronised write under
// concurrent handshakes.
func c19ReturnedClosures(c *Ctx) {
	const rule = "C19.returned-closures-read-only"
	c.R.Rule(rule, 4, "function values returned by exported constructors do not write to what they captured")
	n := 0
	for _, fn := range c.P.AllModuleFuncs() {
		if fn.Parent() != nil || fn.Blocks == nil || fn.Object() == nil || !fn.Object().Exported() {
			continue
		}
		returnsFunc := false
		res := fn.Signature.Results()
		for i := 0; i < res.Len(); i++ {
			if _, ok := res.At(i).Type().Underlying().(*types.Signature); ok {
				returnsFunc = true
			}
		}
		if !returnsFunc {
			continue
		}
		for _, b := range fn.Blocks {
			for _, in := range b.Instrs {
				ret, ok := in.(*ssa.Return)
				if !ok {
					continue
				}
				for _, rv := range ret.Results {
					if ch, ok := rv.(*ssa.ChangeType); ok {
						rv = ch.X
					}
					mc, ok := rv.(*ssa.MakeClosure)
					if !ok {
						continue
					}
					body, _ := mc.Fn.(*ssa.Function)
					if body == nil {
						continue
					}
					n++
					key := rule + "/" + astFuncName(fn) + "#" + fmt.Sprint(n)
					bad := ""
					captured := func(v ssa.Value) bool {
						for i := 0; i < 6; i++ {
							switch x := v.(type) {
							case *ssa.FreeVar:
								return true
							case *ssa.UnOp:
								v = x.X
							case *ssa.FieldAddr:
								v = x.X
							case *ssa.IndexAddr:
								v = x.X
							default:
								return false
							}
						}
						return false
					}
					for _, bb := range body.Blocks {
						for _, bi := range bb.Instrs {
							switch x := bi.(type) {
							case *ssa.Store:
								if captured(x.Addr) {
									bad = "a captured variable is assigned at " + c.P.Pos(x.Pos())
								}
							case *ssa.MapUpdate:
								if captured(x.Map) {
									bad = "a captured map is filled at " + c.P.Pos(x.Pos())
								}
							}
						}
					}
					c.R.Check(bad == "", rule, key, c.P.Pos(mc.Pos()), "reads what it captured, writes nothing of it",
						"the function value returned by "+astFuncName(fn)+" writes to state it captured ("+bad+"): the value is shared by every connection that uses the configuration it sits in, so concurrent handshakes race on it")
				}
			}
		}
	}
	c.R.Sites += n
}

func isByteSlice(sl *types.Slice) bool {
	bt, ok := sl.Elem().Underlying().(*types.Basic)
	return ok && bt.Kind() == types.Byte
}
