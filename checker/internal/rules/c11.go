package rules

import (
	"fmt"

	"verif/wscheck/internal/fold"
)

func init() {
	register(&Property{
		ID:      "C11",
		Explain: "Chunking independence and buffer lifetime of both handshakes, decided structurally. (1) readLine is folded on chunking scripts (one chunk, \\n and \\r\\n terminators, lines split by bufio.ErrBufferFull into two and three chunks with the terminator in either chunk, EOF mid-line) with the bufio buffer clobbered at every ReadSlice: the returned line is always the concatenation of the chunks minus the terminator - a partial chunk that was not copied shows up as clobbered bytes. (2) In the folds of Upgrader.Upgrade and Dialer.Upgrade (shared with C09/C10) the pooled bufio.Reader is touched only by readLine / Buffered / Put, every slice of a line (request line, uri, header key and value) is dead before the next readLine recycles the buffer and none is returned; the reads never go past the blank line. (3) I/O buffer sizes are nonZero(configured, default). (4) Debug wrappers: every bytes/strings.Index* result is compared with -1 before it is used as a bound or in arithmetic. NOT decided: that dialer and upgrader reach the same outcome for every configuration pair and that the debug wrappers report exactly the bytes exchanged - both need the two sides to run.",
		Trusted: []string{"go/ssa + go/types", "the checker's abstract evaluator", "bufio.Reader.ReadSlice invalidates its result at the next read (documented)"},
		Assume:  []string{"agreement of the two peers for all configuration pairs is not decided"},
		Run: func(c *Ctx) {
			readLineRules(c, "C11")
			serverUpgraderRules(c, "C11")
			dialerUpgradeRules(c, "C11")
			indexResultRules(c, "C11")
			c11BufferSizes(c)
			c17Selection(c)
			c17UnsafeViews(c)
			configReadOnlyRules(c, "C11")
		},
	})
}

func c11BufferSizes(c *Ctx) {
	const rule = "C11.buffer-size-defaults"
	c.R.Rule(rule, 1, "nonZero(a, b) is a unless it is zero")
	f := c.fn(rule, ws, "nonZero")
	if f == nil {
		return
	}
	m := c.machine()
	dom := &fold.IntDom{Name: "a", Lo: -bigLen(), Hi: bigLen()}
	paths, err := m.ExploreCells(f, []*fold.IntDom{dom}, func(mm *fold.Machine, cells []fold.Int) []fold.Val {
		return []fold.Val{cells[0], fold.Int{Lo: 1, Hi: 1 << 30, Name: "default"}}
	}, nil)
	var problems []string
	if err != nil {
		problems = append(problems, "undecided: "+err.Error())
	}
	for _, p := range paths {
		if p.Abort != "" || p.Panic {
			problems = append(problems, "undecided: "+p.Abort)
			continue
		}
		a := p.Cells[0]
		got, _ := p.Ret.(fold.Int)
		if a.IsConst() && a.Const() == 0 {
			if got.Name != "default" {
				problems = append(problems, "nonZero(0, d) = "+fold.Show(got))
			}
		} else if a.Lo <= 0 && a.Hi >= 0 {
			problems = append(problems, "undecided: cell "+fold.Show(a)+" straddles zero")
		} else if got.Name != "a" {
			problems = append(problems, fmt.Sprintf("nonZero(%s, d) = %s", fold.Show(a), fold.Show(got)))
		}
	}
	c.verdict(rule, rule+"/nonZero", c.P.FuncPos(f), uniq(problems), "configured size unless zero")
	// the four pool Gets use it with the documented defaults
	const drule = "C11.buffer-size-wiring"
	c.R.Rule(drule, 4, "the handshake buffers are sized nonZero(configured, documented default)")
	want := map[string][2]string{
		"(Upgrader).Upgrade": {"DefaultServerReadBufferSize", "DefaultServerWriteBufferSize"},
		"(Dialer).Upgrade":   {"DefaultClientReadBufferSize", "DefaultClientWriteBufferSize"},
	}
	for _, tm := range [][2]string{{"Upgrader", "Upgrade"}, {"Dialer", "Upgrade"}} {
		fn := c.method(drule, ws, tm[0], tm[1])
		if fn == nil {
			continue
		}
		w := want["("+tm[0]+")."+tm[1]]
		for i, get := range []string{"GetReader", "GetWriter"} {
			ok, detail := sizeArgIsNonZeroOf(c, fn, get, []string{"ReadBufferSize", "WriteBufferSize"}[i], w[i])
			c.R.Check(ok, drule, drule+"/"+tm[0]+"."+get, c.P.FuncPos(fn), detail, detail)
		}
	}
}

// sizeArgIsNonZeroOf checks pbufio.<get>(conn, nonZero(recv.<field>, <const>)).
func sizeArgIsNonZeroOf(c *Ctx, fn *ssaFunction, get, field, constName string) (bool, string) {
	k, ok := c.constIntQuiet(ws, constName)
	if !ok {
		return false, "constant " + constName + " does not resolve"
	}
	for _, b := range fn.Blocks {
		for _, in := range b.Instrs {
			call, isCall := in.(*ssaCall)
			if !isCall {
				continue
			}
			sc := call.Call.StaticCallee()
			if sc == nil || sc.Name() != get || len(call.Call.Args) != 2 {
				continue
			}
			nz, isNZ := call.Call.Args[1].(*ssaCall)
			if !isNZ || nz.Call.StaticCallee() == nil || nz.Call.StaticCallee().Name() != "nonZero" {
				return false, get + " is not sized with nonZero(configured, default)"
			}
			def, isConst := nz.Call.Args[1].(*ssaConst)
			if !isConst || def.Int64() != k {
				return false, fmt.Sprintf("%s default is not %s (%d)", get, constName, k)
			}
			if !fieldLoadOf(nz.Call.Args[0], field) {
				return false, get + " does not use the configured " + field
			}
			return true, fmt.Sprintf("%s(conn, nonZero(%s, %s=%d))", get, field, constName, k)
		}
	}
	return false, get + " call not found"
}
