package rules

import (
	"fmt"
	"go/token"
	"go/types"
	"strings"

	"golang.org/x/tools/go/ssa"

	"verif/wscheck/internal/load"

	"verif/wscheck/internal/fold"
)

func init() {
	register(&Property{
		ID:      "C11",
		Explain: "Chunking independence and buffer lifetime of both handshakes, decided structurally. (1) readLine is folded on chunking scripts (one chunk, \\n and \\r\\n terminators, lines split by bufio.ErrBufferFull into two and three chunks with the terminator in either chunk, EOF mid-line) with the bufio buffer clobbered at every ReadSlice: the returned line is always the concatenation of the chunks minus the terminator - a partial chunk that was not copied shows up as clobbered bytes. (2) In the folds of Upgrader.Upgrade and Dialer.Upgrade (shared with C09/C10) the pooled bufio.Reader is touched only by readLine / Buffered / Put, every slice of a line (request line, uri, header key and value) is dead before the next readLine recycles the buffer and none is returned; the reads never go past the blank line. (3) I/O buffer sizes are nonZero(configured, default). (4) Debug wrappers: every bytes/strings.Index* result is compared with -1 before it is used as a bound or in arithmetic. NOT decided: that dialer and upgrader reach the same outcome for every configuration pair and that the debug wrappers report exactly the bytes exchanged - both need the two sides to run. config-read-only for the debug wrappers (they have pointer receivers and must work on a copy of the embedded Dialer / Upgrader); debug-upgrader-passthrough: the reader handed to the inner Upgrader replays the sniffed bytes and then continues with the connection itself. head-end-index: headEndIndex is evaluated on every byte string over {a, CR, LF} up to length 7 against the line-end definition of the handshake parser. The debug wrappers reach the wrapped handshake on every path (every return is dominated by the call). sniff-snapshot-after-drain: in the functions that sniff through an io.TeeReader, no read through the tee is reachable (CFG) from a Bytes() snapshot of the sniff buffer. The parse helpers and the dial layering (the user's WrapConn wraps the outermost, i.e. the TLS, connection) are part of this check. debug-dialer-wrap: the WrapConn hook DebugDialer.Dial installs is folded with and without a user WrapConn, OnRequest, OnResponse: the connection it remembers (and Dial returns and re-points the buffered reader at) and the one embedded in what the handshake runs on are both the user's wrapped connection. debug-dialer-rebind: every (*bufio.Reader).Reset in DebugDialer.Dial (or a helper only it calls) sits on the OnResponse != nil side of a test of that field - without the sniffed bytes a reset throws away what the dialer buffered. The HTTP upgrader table and the request / response writers run here as well. In every tee of written bytes the connection is the first writer (MultiWriter stops at the first failure, so the copy holds what the transport took). prefetch-length-measured runs here as well. debug-dialer-wrap also decides the gating: the response is sniffed exactly when OnResponse is set and the request teed exactly when OnRequest is. negotiate-extensions (shared by both upgraders) and prefetch-keeps-source (whatever prefetchResponseReader installs as its reader ends in the connection it was given) run here.",
		Trusted: []string{"go/ssa + go/types", "the checker's abstract evaluator", "bufio.Reader.ReadSlice invalidates its result at the next read (documented)"},
		Assume:  []string{"agreement of the two peers for all configuration pairs is not decided"},
		Run: func(c *Ctx) {
			readLineRules(c, "C11")
			serverUpgraderRules(c, "C11")
			httpUpgraderRules(c, "C11")
			httpGetHeaderRules(c, "C11")
			responseWriterRules(c, "C11")
			requestWriterRules(c, "C11")
			dialerUpgradeRules(c, "C11")
			indexResultRules(c, "C11")
			c11BufferSizes(c)
			c17Selection(c)
			c17UnsafeViews(c)
			configReadOnlyRules(c, "C11")
			c11DebugPassthrough(c)
			c11HeadEnd(c)
			c11SniffSnapshot(c)
			c11DebugDialerWrap(c)
			c11DebugDialerRebind(c)
			c15PrefetchMeasured(c)
			parserHelperRules(c, "C11")
			// the debug dialer sees the handshake through WrapConn: it must wrap the outermost connection
			c20DialConn(c)
			// both upgraders share negotiateExtensions: a refusal ends the handshake on both sides
			negotiateExtensionsRules(c, "C11")
			// the sniffing reader chains the connection behind what it prefetched, always
			c20PrefetchKeepsSource(c, "C11")
		},
	})
}

func c11BufferSizes(c *Ctx) {
	const rule = "C11.buffer-size-defaults"
	c.R.Rule(rule, 1, "nonZero(a, b) is a unless it is zero")
	f := c.fn(rule, ws, "nonZero")
	if f == nil {
		return
	}
	m := c.machine()
	dom := &fold.IntDom{Name: "a", Lo: -bigLen(), Hi: bigLen()}
	paths, err := m.ExploreCells(f, []*fold.IntDom{dom}, func(mm *fold.Machine, cells []fold.Int) []fold.Val {
		return []fold.Val{cells[0], fold.Int{Lo: 1, Hi: 1 << 30, Name: "default"}}
	}, nil)
	var problems []string
	if err != nil {
		problems = append(problems, "undecided: "+err.Error())
	}
	for _, p := range paths {
		if p.Abort != "" || p.Panic {
			problems = append(problems, "undecided: "+p.Abort)
			continue
		}
		a := p.Cells[0]
		got, _ := p.Ret.(fold.Int)
		if a.IsConst() && a.Const() == 0 {
			if got.Name != "default" {
				problems = append(problems, "nonZero(0, d) = "+fold.Show(got))
			}
		} else if a.Lo <= 0 && a.Hi >= 0 {
			problems = append(problems, "undecided: cell "+fold.Show(a)+" straddles zero")
		} else if got.Name != "a" {
			problems = append(problems, fmt.Sprintf("nonZero(%s, d) = %s", fold.Show(a), fold.Show(got)))
		}
	}
	c.verdict(rule, rule+"/nonZero", c.P.FuncPos(f), uniq(problems), "configured size unless zero")
	// the four pool Gets use it with the documented defaults
	const drule = "C11.buffer-size-wiring"
	c.R.Rule(drule, 4, "the handshake buffers are sized nonZero(configured, documented default)")
	want := map[string][2]string{
		"(Upgrader).Upgrade": {"DefaultServerReadBufferSize", "DefaultServerWriteBufferSize"},
		"(Dialer).Upgrade":   {"DefaultClientReadBufferSize", "DefaultClientWriteBufferSize"},
	}
	for _, tm := range [][2]string{{"Upgrader", "Upgrade"}, {"Dialer", "Upgrade"}} {
		fn := c.method(drule, ws, tm[0], tm[1])
		if fn == nil {
			continue
		}
		w := want["("+tm[0]+")."+tm[1]]
		for i, get := range []string{"GetReader", "GetWriter"} {
			ok, detail := sizeArgIsNonZeroOf(c, fn, get, []string{"ReadBufferSize", "WriteBufferSize"}[i], w[i])
			c.R.Check(ok, drule, drule+"/"+tm[0]+"."+get, c.P.FuncPos(fn), detail, detail)
		}
	}
}

// sizeArgIsNonZeroOf checks pbufio.<get>(conn, nonZero(recv.<field>, <const>)).
func sizeArgIsNonZeroOf(c *Ctx, fn *ssaFunction, get, field, constName string) (bool, string) {
	k, ok := c.constIntQuiet(ws, constName)
	if !ok {
		return false, "constant " + constName + " does not resolve"
	}
	for _, b := range fn.Blocks {
		for _, in := range b.Instrs {
			call, isCall := in.(*ssaCall)
			if !isCall {
				continue
			}
			sc := call.Call.StaticCallee()
			if sc == nil || sc.Name() != get || len(call.Call.Args) != 2 {
				continue
			}
			nz, isNZ := call.Call.Args[1].(*ssaCall)
			if !isNZ || nz.Call.StaticCallee() == nil || nz.Call.StaticCallee().Name() != "nonZero" {
				return false, get + " is not sized with nonZero(configured, default)"
			}
			def, isConst := nz.Call.Args[1].(*ssaConst)
			if !isConst || def.Int64() != k {
				return false, fmt.Sprintf("%s default is not %s (%d)", get, constName, k)
			}
			if !fieldLoadOf(nz.Call.Args[0], field) {
				return false, get + " does not use the configured " + field
			}
			return true, fmt.Sprintf("%s(conn, nonZero(%s, %s=%d))", get, field, constName, k)
		}
	}
	return false, get + " call not found"
}

// c11DebugPassthrough: the debug upgrader sniffs the request and then lets the
// real Upgrader run on a reader / writer pair built from the connection. For
// the wrapped handshake to see what the plain one would see, the reader must
// continue with the connection itself after the sniffed bytes are replayed
// (the sniffer may stop early: net/http rejects requests ws.Upgrader accepts),
// and the writer must write to the connection.
func c11DebugPassthrough(c *Ctx) {
	const rule = "C11.debug-upgrader-passthrough"
	c.R.Rule(rule, 1, "the reader and writer DebugUpgrader hands to the Upgrader end in the connection itself")
	f := c.method(rule, wsutil, "DebugUpgrader", "Upgrade")
	if f == nil || len(f.Params) < 2 {
		return
	}
	conn := f.Params[1]
	var reaches func(v ssa.Value, writer bool, depth int) bool
	// a module helper that builds the reader / writer from its arguments: its parameters stand
	// for the arguments of the call being followed
	env := map[*ssa.Parameter]ssa.Value{}
	// elems returns the values stored into the variadic array behind s
	elems := func(s ssa.Value) []ssa.Value {
		sl, ok := s.(*ssa.Slice)
		if !ok {
			return nil
		}
		al, ok := sl.X.(*ssa.Alloc)
		if !ok || al.Referrers() == nil {
			return nil
		}
		byIdx := map[int64]ssa.Value{}
		max := int64(-1)
		for _, r := range *al.Referrers() {
			ia, ok := r.(*ssa.IndexAddr)
			if !ok || ia.Referrers() == nil {
				continue
			}
			k, ok := ia.Index.(*ssa.Const)
			if !ok {
				return nil
			}
			for _, rr := range *ia.Referrers() {
				if st, ok := rr.(*ssa.Store); ok && st.Addr == ssa.Value(ia) {
					byIdx[k.Int64()] = st.Val
					if k.Int64() > max {
						max = k.Int64()
					}
				}
			}
		}
		out := make([]ssa.Value, max+1)
		for i := range out {
			out[i] = byIdx[int64(i)]
		}
		return out
	}
	reaches = func(v ssa.Value, writer bool, depth int) bool {
		if v == nil || depth > 20 {
			return false
		}
		switch x := v.(type) {
		case *ssa.Parameter:
			if x == conn {
				return true
			}
			if a, ok := env[x]; ok {
				return reaches(a, writer, depth+1)
			}
			return false
		case *ssa.ChangeInterface:
			return reaches(x.X, writer, depth+1)
		case *ssa.MakeInterface:
			return reaches(x.X, writer, depth+1)
		case *ssa.Phi:
			for _, e := range x.Edges {
				if !reaches(e, writer, depth+1) {
					return false
				}
			}
			return len(x.Edges) > 0
		case *ssa.UnOp:
			// load of a local cell: every value stored into it
			if al, ok := x.X.(*ssa.Alloc); ok && al.Referrers() != nil {
				n := 0
				for _, r := range *al.Referrers() {
					if st, ok := r.(*ssa.Store); ok && st.Addr == ssa.Value(al) {
						n++
						if !reaches(st.Val, writer, depth+1) {
							return false
						}
					}
				}
				return n > 0
			}
		case *ssa.Call:
			callee := x.Call.StaticCallee()
			if callee == nil {
				return false
			}
			switch callee.String() {
			case "io.MultiReader":
				es := elems(x.Call.Args[0])
				// the last reader is the one that keeps delivering after the replayed bytes
				return !writer && len(es) > 0 && reaches(es[len(es)-1], writer, depth+1)
			case "io.MultiWriter":
				if !writer {
					return false
				}
				// the connection comes first: MultiWriter stops at the first writer that fails, so
				// the copy behind it holds what the transport took, not bytes that were never sent
				es := elems(x.Call.Args[0])
				return len(es) > 0 && reaches(es[0], writer, depth+1)
			case "io.TeeReader":
				return !writer && reaches(x.Call.Args[0], writer, depth+1)
			}
			if load.InModule(callee) && callee.Blocks != nil && len(callee.Params) == len(x.Call.Args) {
				for i, p := range callee.Params {
					env[p] = x.Call.Args[i]
				}
				n := 0
				for _, b := range callee.Blocks {
					for _, in := range b.Instrs {
						if ret, ok := in.(*ssa.Return); ok && len(ret.Results) == 1 {
							n++
							if !reaches(ret.Results[0], writer, depth+1) {
								return false
							}
						}
					}
				}
				return n > 0
			}
		}
		return false
	}
	found := false
	for _, b := range f.Blocks {
		for _, in := range b.Instrs {
			ci, ok := in.(ssa.CallInstruction)
			if !ok {
				continue
			}
			callee := ci.Common().StaticCallee()
			if callee == nil || callee.Name() != "Upgrade" || !load.InModule(callee) || len(ci.Common().Args) < 2 {
				continue
			}
			found = true
			pos := c.P.Pos(in.Pos())
			// the argument is an interface made from a struct{io.Reader; io.Writer} literal
			arg := ci.Common().Args[len(ci.Common().Args)-1]
			mi, ok := arg.(*ssa.MakeInterface)
			if !ok {
				c.R.Unknown(rule, rule+"/argument", pos, "the connection argument of the inner Upgrade is not a struct literal of reader and writer")
				continue
			}
			var cell *ssa.Alloc
			if ld, ok := mi.X.(*ssa.UnOp); ok {
				cell, _ = ld.X.(*ssa.Alloc)
			}
			if cell == nil || cell.Referrers() == nil {
				c.R.Unknown(rule, rule+"/argument", pos, "the connection argument of the inner Upgrade cannot be followed to its reader and writer")
				continue
			}
			parts := map[int]ssa.Value{}
			for _, r := range *cell.Referrers() {
				fa, ok := r.(*ssa.FieldAddr)
				if !ok || fa.Referrers() == nil {
					continue
				}
				for _, rr := range *fa.Referrers() {
					if st, ok := rr.(*ssa.Store); ok && st.Addr == ssa.Value(fa) {
						parts[fa.Field] = st.Val
					}
				}
			}
			if reaches(parts[0], false, 0) {
				c.R.OK(rule, rule+"/reader", pos, "the reader is the connection, or replays the sniffed bytes and then continues with the connection")
			} else {
				c.R.Fail(rule, rule+"/reader", pos, "the reader handed to the Upgrader does not continue with the connection after the sniffed bytes: when the sniffer stops early (net/http refuses a request the Upgrader accepts) or the request arrives in several reads, the wrapped handshake fails where the plain one succeeds")
			}
			if reaches(parts[1], true, 0) {
				c.R.OK(rule, rule+"/writer", pos, "the writer is the connection, or a MultiWriter that writes the connection first")
			} else {
				c.R.Fail(rule, rule+"/writer", pos, "the writer handed to the Upgrader does not write to the connection first: a MultiWriter stops at the first writer that fails, so a copy placed before the connection reports bytes that were never sent")
			}
		}
	}
	if !found {
		c.R.Unknown(rule, rule+"/anchor", c.P.FuncPos(f), "DebugUpgrader.Upgrade no longer calls an in-module Upgrade")
	}
	// must-pass-through: whatever the sniffing of the request or response runs into, the wrapped
	// handshake itself is always attempted (the sniffer is stricter than the handshake parser)
	for _, w := range [][3]string{{"DebugUpgrader", "Upgrade", "Upgrade"}, {"DebugDialer", "Dial", "Dial"}} {
		fn := c.method(rule, wsutil, w[0], w[1])
		if fn == nil {
			continue
		}
		var callBlock *ssa.BasicBlock
		callIdx := -1
		for _, b := range fn.Blocks {
			for i, in := range b.Instrs {
				if ci, ok := in.(ssa.CallInstruction); ok {
					if callee := ci.Common().StaticCallee(); callee != nil && callee.Name() == w[2] && callee.Package() != nil && callee.Package().Pkg.Path() == ws {
						if _, isDefer := in.(*ssa.Defer); !isDefer {
							callBlock, callIdx = b, i
						}
					}
				}
			}
		}
		key := rule + "/" + w[0] + "." + w[1] + ":always-runs-the-handshake"
		if callBlock == nil {
			c.R.Unknown(rule, key, c.P.FuncPos(fn), "the call of ws."+w[2]+" was not found")
			continue
		}
		bad := ""
		for _, b := range fn.Blocks {
			if b == fn.Recover {
				continue
			}
			for i, in := range b.Instrs {
				if _, ok := in.(*ssa.Return); !ok {
					continue
				}
				if b == callBlock && i > callIdx {
					continue
				}
				if b != callBlock && callBlock.Dominates(b) {
					continue
				}
				bad = c.P.Pos(in.Pos())
			}
		}
		if bad == "" {
			c.R.OK(rule, key, c.P.FuncPos(fn), "every return is reached through the wrapped handshake")
		} else {
			c.R.Fail(rule, key, bad, "the debug wrapper returns without running the wrapped handshake: a request or response that the sniffer (net/http) refuses but the handshake parser accepts fails here and succeeds without the wrapper")
		}
	}
}

// c11HeadEnd evaluates wsutil.headEndIndex on every byte string over
// {'a', '\r', '\n'} up to length 7 and compares it with the definition the
// handshake parser uses (lines end in "\n", optionally preceded by "\r"; the
// head ends after the first empty line that follows a line end).
func c11HeadEnd(c *Ctx) {
	const rule = "C11.head-end-index"
	c.R.Rule(rule, 1, "headEndIndex finds the end of the HTTP head exactly where readLine-based parsing does, for \\n and \\r\\n line ends in any mixture")
	f := c.fn(rule, wsutil, "headEndIndex")
	if f == nil {
		return
	}
	alphabet := []byte{'a', '\r', '\n'}
	var inputs []string
	var gen func(prefix string, left int)
	gen = func(prefix string, left int) {
		inputs = append(inputs, prefix)
		if left == 0 {
			return
		}
		for _, ch := range alphabet {
			gen(prefix+string(ch), left-1)
		}
	}
	gen("", 7)
	ref := func(p string) int {
		for i := 0; i < len(p); i++ {
			if p[i] != '\n' {
				continue
			}
			// p[i] ends a line; is the next line empty?
			rest := p[i+1:]
			if strings.HasPrefix(rest, "\n") {
				return i + 2
			}
			if strings.HasPrefix(rest, "\r\n") {
				return i + 3
			}
		}
		return -1
	}
	results := make([]string, len(inputs))
	parallel(len(inputs), func(i int) {
		in := inputs[i]
		m := c.machine()
		m.Models["bytes.Index"] = func(cl *fold.Call) fold.Val {
			a, ok1 := concreteBytes(cl.M, cl.Args[0])
			b, ok2 := concreteBytes(cl.M, cl.Args[1])
			if !ok1 || !ok2 {
				return fold.Int{Lo: -1, Hi: 1 << 20}
			}
			return fold.K(int64(strings.Index(string(a), string(b))))
		}
		m.Models["bytes.IndexByte"] = func(cl *fold.Call) fold.Val {
			a, ok := concreteBytes(cl.M, cl.Args[0])
			ch, _ := cl.Args[1].(fold.Int)
			if !ok || !ch.IsConst() {
				return fold.Int{Lo: -1, Hi: 1 << 20}
			}
			return fold.K(int64(strings.IndexByte(string(a), byte(ch.Const()))))
		}
		ps := m.Explore(f, func(mm *fold.Machine) []fold.Val {
			el := make([]fold.Val, len(in))
			for j := range el {
				el[j] = fold.K(int64(in[j]))
			}
			return []fold.Val{mm.NewBytes("p", el)}
		}, nil)
		if len(ps) != 1 || ps[0].Abort != "" {
			why := fmt.Sprintf("%d paths", len(ps))
			if len(ps) > 0 {
				why = ps[0].Abort
			}
			results[i] = fmt.Sprintf("undecided: headEndIndex(%q): %s", in, why)
			return
		}
		if ps[0].Panic {
			results[i] = fmt.Sprintf("headEndIndex(%q) panics: %s", in, fold.Show(ps[0].PanicV))
			return
		}
		if got, want := fold.Show(ps[0].Ret), fmt.Sprint(ref(in)); got != want {
			results[i] = fmt.Sprintf("headEndIndex(%q) = %s, the head ends at %s", in, got, want)
		}
	})
	var problems []string
	for _, r := range results {
		if r != "" {
			problems = append(problems, r)
		}
	}
	c.R.AddCells(len(inputs))
	c.verdict(rule, rule+"/headEndIndex", c.P.FuncPos(f), uniq(problems), fmt.Sprintf("%d byte strings over {a, CR, LF} up to length 7", len(inputs)))
}

// c11SniffSnapshot: the debug wrappers sniff the handshake through an
// io.TeeReader into a buffer and then replay / report buffer.Bytes(). The
// snapshot is complete only if nothing is read through the tee after it was
// taken: in every function that sets up a TeeReader, no call that reads
// (http.ReadRequest / ReadResponse, io.Copy*, ReadAll, ReadFull) is reachable in
// the control-flow graph from a Bytes() call on a bytes.Buffer.
func c11SniffSnapshot(c *Ctx) {
	const rule = "C11.sniff-snapshot-after-drain"
	c.R.Rule(rule, 2, "the sniffed bytes are snapshotted only after the last read through the tee")
	isDrain := func(cc *ssa.CallCommon) string {
		if cc.IsInvoke() {
			return "" // reading the replay itself is what the snapshot is for
		}
		callee := cc.StaticCallee()
		if callee == nil {
			return ""
		}
		switch callee.String() {
		case "net/http.ReadRequest", "net/http.ReadResponse", "io.Copy", "io.CopyN", "io.CopyBuffer", "io.ReadAll", "io/ioutil.ReadAll", "io.ReadFull":
			return callee.String()
		}
		return ""
	}
	// helpers that set up the tee or read through it count at their call sites
	direct := func(fn *ssa.Function, want func(cc *ssa.CallCommon) bool) bool {
		for _, b := range fn.Blocks {
			for _, in := range b.Instrs {
				if ci, ok := in.(ssa.CallInstruction); ok && want(ci.Common()) {
					return true
				}
			}
		}
		return false
	}
	teeFuncs, drainFuncs := map[*ssa.Function]bool{}, map[*ssa.Function]bool{}
	for round := 0; round < 4; round++ {
		for _, fn := range c.P.AllModuleFuncs() {
			if fn.Package() == nil || fn.Package().Pkg.Path() != wsutil {
				continue
			}
			if direct(fn, func(cc *ssa.CallCommon) bool {
				cal := cc.StaticCallee()
				return cal != nil && (cal.String() == "io.TeeReader" || teeFuncs[cal])
			}) {
				teeFuncs[fn] = true
			}
			if teeFuncs[fn] && direct(fn, func(cc *ssa.CallCommon) bool {
				cal := cc.StaticCallee()
				return isDrain(cc) != "" || cal != nil && drainFuncs[cal]
			}) {
				drainFuncs[fn] = true
			}
		}
	}
	n := 0
	for _, fn := range c.P.AllModuleFuncs() {
		if fn.Package() == nil || fn.Package().Pkg.Path() != wsutil {
			continue
		}
		tee := teeFuncs[fn]
		type site struct {
			b   *ssa.BasicBlock
			idx int
			in  ssa.Instruction
		}
		var snaps []site
		var drains []site
		var drainNames []string
		for _, b := range fn.Blocks {
			for i, in := range b.Instrs {
				ci, ok := in.(ssa.CallInstruction)
				if !ok {
					continue
				}
				cc := ci.Common()
				if callee := cc.StaticCallee(); callee != nil {
					switch callee.String() {
					case "io.TeeReader":
						tee = true
					case "(*bytes.Buffer).Bytes":
						snaps = append(snaps, site{b, i, in})
					}
				}
				d := isDrain(cc)
				if cal := cc.StaticCallee(); d == "" && cal != nil && drainFuncs[cal] {
					d = shortName(cal.String()) + " (reads through the tee)"
				}
				if d != "" {
					if _, isDefer := in.(*ssa.Defer); !isDefer {
						drains = append(drains, site{b, i, in})
						drainNames = append(drainNames, d)
					}
				}
			}
		}
		if !tee || len(snaps) == 0 {
			continue
		}
		n++
		key := rule + "/" + astFuncName(fn)
		bad := ""
		for _, s := range snaps {
			// blocks reachable from the snapshot
			reach := map[*ssa.BasicBlock]bool{}
			var walk func(b *ssa.BasicBlock)
			walk = func(b *ssa.BasicBlock) {
				for _, su := range b.Succs {
					if !reach[su] {
						reach[su] = true
						walk(su)
					}
				}
			}
			walk(s.b)
			for k, d := range drains {
				if d.b == s.b && d.idx > s.idx || reach[d.b] && d.b != s.b || reach[d.b] && d.b == s.b {
					bad = fmt.Sprintf("%s (at %s) can run after the snapshot taken at %s", drainNames[k], c.P.Pos(d.in.Pos()), c.P.Pos(s.in.Pos()))
				}
			}
		}
		if bad == "" {
			c.R.OK(rule, key, c.P.FuncPos(fn), "every Bytes() snapshot of the sniff buffer is taken after the last read through the tee")
		} else {
			c.R.Fail(rule, key, c.P.FuncPos(fn), "the sniffed bytes are snapshotted too early: "+bad+" - what is read afterwards is missing from the replay / report, so the wrapped handshake sees a truncated stream depending on how the peer's bytes were split into reads")
		}
	}
	c.R.Sites += n
}

// c11DebugDialerWrap folds the WrapConn hook DebugDialer.Dial installs: the
// connection it tees, remembers (and later returns and re-points the buffered
// reader at) is the outermost one - the result of the user's own WrapConn when
// there is one - so that the debug wrapper changes nothing but the tee.
func c11DebugDialerWrap(c *Ctx) {
	const rule = "C11.debug-dialer-wrap"
	c.R.Rule(rule, 1, "DebugDialer.Dial: the connection remembered, teed and handed back by its WrapConn hook is the user's wrapped connection (the raw one when no WrapConn is configured)")
	f := c.method(rule, wsutil, "DebugDialer", "Dial")
	if f == nil {
		return
	}
	// the closure stored into the WrapConn field of the dialer copy
	var hook *ssa.MakeClosure
	for _, b := range f.Blocks {
		for _, in := range b.Instrs {
			st, ok := in.(*ssa.Store)
			if !ok {
				continue
			}
			fa, ok := st.Addr.(*ssa.FieldAddr)
			if !ok {
				continue
			}
			stt, ok := fa.X.Type().Underlying().(*types.Pointer).Elem().Underlying().(*types.Struct)
			if !ok || stt.Field(fa.Field).Name() != "WrapConn" {
				continue
			}
			if mc, ok := st.Val.(*ssa.MakeClosure); ok {
				hook = mc
			}
		}
	}
	if hook == nil {
		c.R.Unknown(rule, rule+"/hook", c.P.FuncPos(f), "no closure is stored into the dialer's WrapConn any more: how the debug wrapper sees the handshake is not recognisable")
		return
	}
	fn := hook.Fn.(*ssa.Function)
	c.R.Func(fn.String())
	m := c.machine()
	m.OpaqueOK = true
	m.Models["callback:userWrap"] = func(cl *fold.Call) fold.Val {
		cl.M.Emit(fold.Effect{Kind: "call", Name: "userWrap", Args: cl.Args})
		return fold.Iface{V: fold.Sym{Name: "wrapped(" + nameOf(cl.Args[0]) + ")", NonNil: true}}
	}
	m.Models["io.MultiWriter"] = func(cl *fold.Call) fold.Val {
		if sl, ok := cl.Args[0].(fold.SliceV); ok && sl.Len > 0 {
			cl.M.Emit(fold.Effect{Kind: "call", Name: "MultiWriter-first", Args: []fold.Val{cl.M.Elems(sl)[0]}})
		}
		return fold.Iface{V: fold.Sym{Name: "multiwriter", NonNil: true}}
	}
	var connObj *fold.Obj
	userSet := false
	gated, onReq, onRes := false, false, false
	// which of the two callbacks is configured decides what the hook installs
	debugDialerCfg := func(mm *fold.Machine, init fold.Val, t types.Type) fold.Val {
		st, ok := init.(fold.Struct)
		if !ok || types.TypeString(t, nil) != wsutil+".DebugDialer" {
			return init
		}
		ds := structOf(c.P.NamedType(wsutil, "DebugDialer"))
		iq, is := fieldIdx(ds, "OnRequest", nil), fieldIdx(ds, "OnResponse", nil)
		if iq < 0 || is < 0 {
			return init
		}
		gated = true
		onReq, onRes = mm.Choose("on-request", 2) == 1, mm.Choose("on-response", 2) == 1
		st.F[iq], st.F[is] = fold.Val(fold.Nil{}), fold.Val(fold.Nil{})
		if onReq {
			st.F[iq] = fold.Sym{Name: "OnRequest", NonNil: true}
		}
		if onRes {
			st.F[is] = fold.Sym{Name: "OnResponse", NonNil: true}
		}
		return st
	}
	m.Bind = func(mm *fold.Machine) []fold.Val {
		var out []fold.Val
		connObj = nil
		for i, fv := range fn.FreeVars {
			_, byRef := hook.Bindings[i].(*ssa.Alloc)
			pt, isPtr := fv.Type().Underlying().(*types.Pointer)
			switch {
			case byRef && isPtr:
				var init fold.Val
				switch pt.Elem().Underlying().(type) {
				case *types.Signature:
					// the user's hook, captured before it was replaced
					if mm.Choose("user-wrap-set", 2) == 1 {
						init = fold.Sym{Name: "userWrap", NonNil: true}
						userSet = true
					} else {
						init = fold.Nil{}
						userSet = false
					}
				case *types.Interface:
					init = fold.Nil{}
				case *types.Pointer:
					// the receiver, captured by reference
					if ip, ok := pt.Elem().Underlying().(*types.Pointer); ok && types.TypeString(ip.Elem(), nil) == wsutil+".DebugDialer" {
						init = fold.Ref{O: mm.NewObj("debugdialer", debugDialerCfg(mm, fold.SymOfType("d", ip.Elem()), ip.Elem()))}
					} else {
						init = fold.SymOfType(fv.Name(), pt.Elem())
					}
				default:
					init = fold.SymOfType(fv.Name(), pt.Elem())
				}
				o := mm.NewObj(fv.Name(), init)
				if types.TypeString(pt.Elem(), nil) == "net.Conn" {
					connObj = o
				}
				out = append(out, fold.Ref{O: o})
			case isPtr:
				init := fold.SymOfType(fv.Name(), pt.Elem())
				init = debugDialerCfg(mm, init, pt.Elem())
				out = append(out, fold.Ref{O: mm.NewObj(fv.Name(), init)})
			default:
				out = append(out, fold.SymOfType(fv.Name(), fv.Type()))
			}
		}
		return out
	}
	var problems []string
	n := 0
	paths := m.Explore(fn, func(mm *fold.Machine) []fold.Val {
		return []fold.Val{fold.Iface{V: fold.Sym{Name: "raw", NonNil: true}}}
	}, func(mm *fold.Machine, p *fold.Path) {
		n++
		want := "raw"
		if userSet {
			want = "wrapped(raw)"
			if len(p.Calls("userWrap")) != 1 {
				problems = append(problems, "the user's WrapConn is configured but is not applied exactly once")
			}
		}
		if connObj == nil {
			problems = append(problems, "undecided: the hook does not remember the connection in a captured net.Conn variable")
			return
		}
		for _, e := range p.Calls("MultiWriter-first") {
			if first := nameOf(e.Args[0]); first != want {
				problems = append(problems, "the request is teed with "+first+" in front of the connection: MultiWriter stops at the first failing writer, so the copy must come after the transport")
			}
		}
		if got := nameOf(mm.Load(fold.Ref{O: connObj})); got != want {
			problems = append(problems, fmt.Sprintf("the connection Dial hands back (and re-points the buffered reader at) is %s, the handshake ran on %s: the user's WrapConn is lost for everything after the handshake", got, want))
		}
		ret := p.Ret
		if i, ok := ret.(fold.Iface); ok {
			ret = i.V
		}
		if st, ok := ret.(fold.Struct); ok && len(st.F) > 0 {
			if got := nameOf(st.F[0]); got != want {
				problems = append(problems, fmt.Sprintf("the connection the handshake is given embeds %s instead of %s", got, want))
			}
			// the response is sniffed exactly when OnResponse is set, the request teed exactly when
			// OnRequest is (each callback reports its own direction; without it the handshake
			// talks to the connection directly)
			if gated && len(st.F) == 3 {
				rd, wr := nameOf(st.F[1]), nameOf(st.F[2])
				if sniffs := rd != want; sniffs != onRes {
					problems = append(problems, fmt.Sprintf("OnResponse set=%v but the handshake reads from %s (OnRequest set=%v)", onRes, rd, onReq))
				}
				if tees := wr != want; tees != onReq {
					problems = append(problems, fmt.Sprintf("OnRequest set=%v but the handshake writes to %s (OnResponse set=%v)", onReq, wr, onRes))
				}
			}
		} else {
			problems = append(problems, "undecided: the hook returns "+fold.Show(p.Ret))
		}
	})
	for _, p := range paths {
		if p.Abort != "" || p.Panic {
			problems = append(problems, "undecided: "+p.Abort+panicNote(p))
		}
	}
	c.R.AddCells(len(paths))
	c.verdict(rule, rule+"/DebugDialer.Dial", c.P.FuncPos(fn), uniq(problems), fmt.Sprintf("%d paths: with and without a user WrapConn, with and without OnRequest / OnResponse", n))
}

// c11DebugDialerRebind: DebugDialer.Dial re-points the buffered reader it got
// from the dialer at the raw connection, putting the bytes it sniffed after the
// response head in front. Those bytes exist only when OnResponse is set (the
// sniffing reader is installed only then): without it a Reset would throw away
// what the dialer had buffered. So every (*bufio.Reader).Reset in Dial sits on
// the OnResponse != nil side of a test of that field.
func c11DebugDialerRebind(c *Ctx) {
	const rule = "C11.debug-dialer-rebind"
	c.R.Rule(rule, 1, "DebugDialer.Dial resets the returned buffered reader only where OnResponse is set (where the sniffed bytes that replace its contents exist)")
	f := c.method(rule, wsutil, "DebugDialer", "Dial")
	if f == nil {
		return
	}
	isOnResponse := func(v ssa.Value) bool {
		// a load of the OnResponse field, possibly through a local copy (phi-free: the tree
		// reads the field into a local and tests that)
		for i := 0; i < 4; i++ {
			switch x := v.(type) {
			case *ssa.UnOp:
				if fa, ok := x.X.(*ssa.FieldAddr); ok {
					if st, ok := fa.X.Type().Underlying().(*types.Pointer).Elem().Underlying().(*types.Struct); ok {
						return st.Field(fa.Field).Name() == "OnResponse"
					}
				}
				return false
			case *ssa.ChangeType:
				v = x.X
			default:
				return false
			}
		}
		return false
	}
	var okBlocks []*ssa.BasicBlock
	fns := append([]*ssa.Function{f}, f.AnonFuncs...)
	for _, b := range f.Blocks {
		if len(b.Instrs) == 0 {
			continue
		}
		iff, ok := b.Instrs[len(b.Instrs)-1].(*ssa.If)
		if !ok {
			continue
		}
		bo, ok := iff.Cond.(*ssa.BinOp)
		if !ok || !(isOnResponse(bo.X) || isOnResponse(bo.Y)) {
			continue
		}
		switch bo.Op {
		case token.NEQ:
			okBlocks = append(okBlocks, b.Succs[0])
		case token.EQL:
			okBlocks = append(okBlocks, b.Succs[1])
		}
	}
	n := 0
	var problems []string
	// Reset calls in Dial itself and in the unexported helpers only it calls
	seen := map[*ssa.Function]bool{}
	var scan func(fn *ssa.Function, guarded bool, depth int)
	scan = func(fn *ssa.Function, guarded bool, depth int) {
		if fn == nil || fn.Blocks == nil || depth > 3 || seen[fn] && !guarded {
			return
		}
		seen[fn] = true
		for _, b := range fn.Blocks {
			for _, in := range b.Instrs {
				call, ok := in.(ssa.CallInstruction)
				if !ok {
					continue
				}
				g := guarded
				if fn == f {
					g = false
					for _, ob := range okBlocks {
						if len(ob.Preds) == 1 && ob.Dominates(b) {
							g = true
						}
					}
				}
				cal := call.Common().StaticCallee()
				if cal == nil {
					continue
				}
				if cal.String() == "(*bufio.Reader).Reset" {
					n++
					if !g {
						problems = append(problems, "the buffered reader is reset at "+c.P.Pos(call.Pos())+" where OnResponse may be nil: nothing was sniffed then, and what the dialer had buffered after the response head is thrown away")
					}
				} else if load.InModule(cal) && cal.Pkg == f.Pkg && !cal.Object().Exported() {
					scan(cal, g, depth+1)
				}
			}
		}
	}
	_ = fns
	scan(f, false, 0)
	if n == 0 {
		c.R.Unknown(rule, rule+"/DebugDialer.Dial", c.P.FuncPos(f), "no (*bufio.Reader).Reset is found in DebugDialer.Dial any more: how the returned reader is re-pointed is not recognisable")
		return
	}
	c.verdict(rule, rule+"/DebugDialer.Dial", c.P.FuncPos(f), uniq(problems), fmt.Sprintf("%d reset(s), each behind OnResponse != nil", n))
}
