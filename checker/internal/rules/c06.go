package rules

func init() {
	register(&Property{
		ID:      "C06",
		Explain: "FOLD of the fragmenting writer. (1) reserve(): for every buffer size (interval cells, split where the code compares) and both sides the reserved header space is >= ws.HeaderSize of the largest payload the buffer can hold, so the header always fits right-aligned before the payload. (2) flushFragment is evaluated at 8 concrete buffer shapes x opcode x fseq x fin x 0-2 extensions with named payload lanes; the single slice handed to dest.Write is compared byte for byte with the RFC frame: opcode or continuation, Fin, extension bits, length, mask key iff client, payload ciphered with that same key at offset 0 iff client. (3) Effect tables of Flush / FlushFragment / WriteThrough / opCode over n, dirty, fseq, failed, side: Flush emits one final fragment iff something was written and then n=0, dirty=false, fseq=0; FlushFragment emits one non-final fragment iff the buffer is non-empty and counts it; WriteThrough refuses a non-empty buffer, sends Fin=false with a pooled masked copy iff client. (4) Write / ReadFrom are evaluated with a concrete buffer and the length of p as interval cells: accepted count == len(p), no emission while the data fits (no pre-emptive flush), none at all with flushing disabled. NOT decided: byte accounting over arbitrary call histories and all sizes. ReadFrom is folded over sources that return data, EOF, an error, or data together with EOF / an error: the result and the buffer account for every byte handed over. Writer folds vary composite states (client|extended): the side is a flag, not a value. FlushFragment must leave the message dirty so that the final Flush emits the final frame. Grow is folded on concrete buffers (buffered bytes kept behind the new reservation, power-of-two size, room for n more bytes); Reset recomputes the reservation for the new side (C18.writer-reset). SetExtensions replaces the attached extensions (it does not accumulate); ResetOp is folded from every combination of leftovers. FlushFragment on an empty buffer leaves the writer exactly as it was (no fragment is counted). counter-width: every struct field the code increments (the fragment number fseq, buffer fill, stream positions) is as wide as int - a narrower one wraps on a long message. Write and ReadFrom are also folded on a buffer with spare capacity behind its length (NewWriterBuffer(arena[:n])): free space is len(buf)-n, never cap(buf)-n.",
		Trusted: []string{"go/ssa + go/types", "the checker's abstract evaluator", "ws.WriteHeader layout (decided under C01)", "ws.Cipher (C02)"},
		Run: func(c *Ctx) {
			writerReserveRules(c, "C06")
			writerFlushFragmentRules(c, "C06")
			writerMethodRules(c, "C06")
			writerWriteRules(c, "C06")
			writerGrowRules(c, "C06")
			counterWidthRules(c, "C06")
			// the reservation is recomputed by Reset for the new side
			c18Writer(c)
		},
	})
}
