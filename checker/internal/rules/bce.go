package rules

import (
	"bytes"
	"fmt"
	"go/ast"
	"go/constant"
	"go/printer"
	"go/token"
	"go/types"
	"os"
	"os/exec"
	"path/filepath"
	"regexp"
	"sort"
	"strconv"
	"strings"
	"sync"
	"verif/wscheck/internal/fold"

	"golang.org/x/tools/go/ssa"

	"verif/wscheck/internal/load"
)

// bceSite is one index/slice expression the compiler's prove pass could not
// show to be in range.
type bceSite struct {
	File string
	Line int
	Col  int
	Kind string // IsInBounds | IsSliceInBounds
	Func string // enclosing function (short name)
	Expr string // source text of the index / slice expression
	// Callee is set when the check belongs to the body of a callee that the
	// compiler inlined at this call expression ("pkgpath.Name").
	Callee string
	Lbrack token.Pos // position of the '[' (the position go/ssa gives the instruction)
}

func (s bceSite) Key() string { return s.Func + ": " + s.Expr }

var bceLine = regexp.MustCompile(`^(\S+?):(\d+):(\d+): Found (IsInBounds|IsSliceInBounds)`)

// compilerUnprovenBounds compiles (does not run) the three packages with the
// compiler's bounds-check debug flag and returns the sites it reports.
func (c *Ctx) compilerUnprovenBounds() ([]bceSite, error) {
	cache := filepath.Join(os.Getenv("WSCHECK_VERIF_DIR"), ".cache", "bce-"+c.P.Config.Name)
	if os.Getenv("WSCHECK_VERIF_DIR") == "" {
		cache = filepath.Join("/verif", ".cache", "bce-"+c.P.Config.Name)
	}
	if d := os.Getenv("WSCHECK_VERIF"); d != "" {
		cache = filepath.Join(d, ".cache", "bce-"+c.P.Config.Name)
	}
	_ = os.MkdirAll(cache, 0o755)
	args := []string{"build", "-gcflags=-d=ssa/check_bce/debug=1"}
	if len(c.P.Config.Tags) > 0 {
		args = append(args, "-tags="+strings.Join(c.P.Config.Tags, ","))
	}
	args = append(args, ".", "./wsutil", "./wsflate")
	cmd := exec.Command("go", args...)
	cmd.Dir = c.P.Dir
	env := []string{}
	for _, kv := range os.Environ() {
		k := kv
		if i := strings.IndexByte(kv, '='); i >= 0 {
			k = kv[:i]
		}
		switch k {
		case "GOFLAGS", "GOPROXY", "GOSUMDB", "GOWORK", "GOTOOLCHAIN", "GOARCH", "GOCACHE", "CGO_ENABLED":
			continue
		}
		env = append(env, kv)
	}
	env = append(env, "GOFLAGS=-mod=mod", "GOPROXY=off", "GOSUMDB=off", "GOWORK=off", "GOTOOLCHAIN=local", "GOCACHE="+cache)
	if c.P.Config.GOARCH != "" {
		env = append(env, "GOARCH="+c.P.Config.GOARCH, "CGO_ENABLED=0")
	}
	cmd.Env = env
	var out bytes.Buffer
	cmd.Stdout, cmd.Stderr = &out, &out
	if err := cmd.Run(); err != nil {
		return nil, fmt.Errorf("go build with bounds-check report failed: %v\n%s", err, firstLines(out.String(), 10))
	}
	var sites []bceSite
	for _, line := range strings.Split(out.String(), "\n") {
		mm := bceLine.FindStringSubmatch(strings.TrimSpace(line))
		if mm == nil {
			continue
		}
		ln, _ := strconv.Atoi(mm[2])
		col, _ := strconv.Atoi(mm[3])
		f := strings.TrimPrefix(mm[1], "./")
		sites = append(sites, bceSite{File: f, Line: ln, Col: col, Kind: mm[4]})
	}
	// attach function and expression text
	for i := range sites {
		c.locateSite(&sites[i])
	}
	sort.Slice(sites, func(i, j int) bool {
		if sites[i].Func != sites[j].Func {
			return sites[i].Func < sites[j].Func
		}
		if sites[i].Line != sites[j].Line {
			return sites[i].Line < sites[j].Line
		}
		return sites[i].Col < sites[j].Col
	})
	return sites, nil
}

func firstLines(s string, n int) string {
	l := strings.Split(s, "\n")
	if len(l) > n {
		l = l[:n]
	}
	return strings.Join(l, "\n")
}

func (c *Ctx) locateSite(s *bceSite) {
	for _, path := range []string{load.PkgWS, load.PkgWSUtil, load.PkgWSFlate} {
		pk := c.P.ByPath[path]
		for _, file := range pk.Syntax {
			fn := c.P.Fset.Position(file.Pos()).Filename
			rel := strings.TrimPrefix(fn, c.P.Dir+"/")
			if rel != s.File {
				continue
			}
			var best ast.Node
			var encl string
			ast.Inspect(file, func(n ast.Node) bool {
				if n == nil {
					return false
				}
				p0, p1 := c.P.Fset.Position(n.Pos()), c.P.Fset.Position(n.End())
				if p0.Line > s.Line || p1.Line < s.Line {
					return false
				}
				switch x := n.(type) {
				case *ast.FuncDecl:
					encl = x.Name.Name
					if x.Recv != nil && len(x.Recv.List) == 1 {
						encl = "(" + exprText(c.P.Fset, x.Recv.List[0].Type) + ")." + x.Name.Name
					}
					encl = shortPkg(path) + "." + encl
				case *ast.IndexExpr:
					if lb := c.P.Fset.Position(x.Lbrack); lb.Line == s.Line && lb.Column == s.Col || c.P.Fset.Position(x.Pos()).Line == s.Line && c.P.Fset.Position(x.Pos()).Column == s.Col {
						best = x
					}
				case *ast.SliceExpr:
					if lb := c.P.Fset.Position(x.Lbrack); lb.Line == s.Line && lb.Column == s.Col || c.P.Fset.Position(x.Pos()).Line == s.Line && c.P.Fset.Position(x.Pos()).Column == s.Col {
						best = x
					}
				case *ast.CallExpr:
					// a check inside an inlined callee is attributed to the call site
					if p := c.P.Fset.Position(x.Lparen); p.Line == s.Line && p.Column == s.Col {
						if best == nil {
							best = x
							s.Callee = calleePath(pk.TypesInfo, x)
						}
					}
				}
				return true
			})
			s.Func = canonShortName(encl)
			if ce, ok := best.(*ast.CallExpr); ok {
				s.Expr = "inlined " + s.Callee + " at " + exprText(c.P.Fset, ce.Fun) + "(...)"
			} else if best != nil {
				s.Expr = normExpr(c.P.Fset, pk.TypesInfo, best)
				switch x := best.(type) {
				case *ast.IndexExpr:
					s.Lbrack = x.Lbrack
				case *ast.SliceExpr:
					s.Lbrack = x.Lbrack
				}
			} else {
				s.Expr = fmt.Sprintf("<expression at column %d>", s.Col)
			}
			return
		}
	}
}

func exprText(fset *token.FileSet, n ast.Node) string {
	var b bytes.Buffer
	_ = printer.Fprint(&b, fset, n)
	return strings.Join(strings.Fields(b.String()), " ")
}

// reachableFromPeerInput returns the module functions reachable (CHA) from the
// decoding entry points.
func (c *Ctx) reachableFromPeerInput() map[string]bool {
	entries := [][3]string{
		{ws, "", "ReadHeader"}, {ws, "", "ReadFrame"}, {ws, "", "ParseCloseFrameData"}, {ws, "", "ParseCloseFrameDataUnsafe"}, {ws, "", "CheckHeader"}, {ws, "", "CheckCloseFrameData"},
		{ws, "Upgrader", "Upgrade"}, {ws, "HTTPUpgrader", "Upgrade"}, {ws, "Dialer", "Upgrade"}, {ws, "", "Cipher"},
		{wsutil, "Reader", "NextFrame"}, {wsutil, "Reader", "Read"}, {wsutil, "Reader", "Discard"}, {wsutil, "", "ReadMessage"}, {wsutil, "", "readData"},
		{wsutil, "ControlHandler", "Handle"}, {wsutil, "ControlHandler", "HandlePing"}, {wsutil, "ControlHandler", "HandlePong"}, {wsutil, "ControlHandler", "HandleClose"},
		{wsutil, "UTF8Reader", "Read"}, {wsutil, "CipherReader", "Read"}, {wsutil, "", "NextReader"}, {wsutil, "", "HandleControlMessage"},
		{wsflate, "Reader", "Read"}, {wsflate, "suffixedReader", "Read"}, {wsflate, "suffixedReader", "ReadByte"}, {wsflate, "Parameters", "Parse"}, {wsflate, "Extension", "Negotiate"},
		{wsflate, "Helper", "DecompressFrameBuffer"}, {wsflate, "Helper", "DecompressTo"}, {wsflate, "MessageState", "UnsetBits"},
		// the debugging wrappers see the handshake bytes of the peer as well
		{wsutil, "DebugDialer", "Dial"}, {wsutil, "DebugUpgrader", "Upgrade"}, {wsutil, "prefetchResponseReader", "Read"},
	}
	cg := c.P.CHA()
	seen := map[*ssa.Function]bool{}
	var work []*ssa.Function
	for _, e := range entries {
		var f *ssa.Function
		if e[1] == "" {
			f = c.P.Func(e[0], e[2])
		} else {
			f = c.P.Method(e[0], e[1], e[2])
		}
		if f != nil && !seen[f] {
			seen[f] = true
			work = append(work, f)
		}
	}
	for len(work) > 0 {
		f := work[0]
		work = work[1:]
		node := cg.Nodes[f]
		if node == nil {
			continue
		}
		for _, e := range node.Out {
			cal := e.Callee.Func
			if cal == nil || seen[cal] || !load.InModule(cal) {
				continue
			}
			seen[cal] = true
			work = append(work, cal)
		}
		for _, a := range f.AnonFuncs {
			if !seen[a] {
				seen[a] = true
				work = append(work, a)
			}
		}
	}
	out := map[string]bool{}
	for f := range seen {
		out[astFuncName(f)] = true
	}
	return out
}

// astFuncName renders an SSA function the way locateSite names functions.
func astFuncName(f *ssa.Function) string {
	return canonShortName(astFuncNameRaw(f))
}

// canonShortName maps a table name built from the current source to the frozen one.
func canonShortName(n string) string {
	if o, ok := canonShort[n]; ok {
		return o
	}
	for nw, old := range typeCanonShort {
		n = replaceIdent(n, nw, old)
	}
	if o, ok := canonShort[n]; ok {
		return o
	}
	return n
}

func astFuncNameRaw(f *ssa.Function) string {
	for f.Parent() != nil {
		f = f.Parent()
	}
	pk := ""
	if f.Package() != nil {
		pk = shortPkg(f.Package().Pkg.Path())
	}
	if recv := f.Signature.Recv(); recv != nil {
		t := recv.Type().String()
		t = strings.ReplaceAll(t, "github.com/gobwas/ws/wsutil.", "")
		t = strings.ReplaceAll(t, "github.com/gobwas/ws/wsflate.", "")
		t = strings.ReplaceAll(t, "github.com/gobwas/ws.", "")
		return pk + ".(" + t + ")." + f.Name()
	}
	return pk + "." + f.Name()
}

// calleePath names the function a call expression resolves to.
func calleePath(info *types.Info, call *ast.CallExpr) string {
	var id *ast.Ident
	switch f := ast.Unparen(call.Fun).(type) {
	case *ast.Ident:
		id = f
	case *ast.SelectorExpr:
		id = f.Sel
	}
	if id == nil {
		return "?"
	}
	obj := info.Uses[id]
	if obj == nil {
		return "?"
	}
	if fn, ok := obj.(*types.Func); ok {
		return fn.FullName()
	}
	if obj.Pkg() != nil {
		return obj.Pkg().Path() + "." + obj.Name()
	}
	return obj.Name()
}

// normExpr renders an expression with local variables and parameters renamed
// to v1, v2, ... in order of first appearance, so that the key of a reviewed
// site survives the renaming of a local. Fields, constants, package-level
// names and literals are kept.
func normExpr(fset *token.FileSet, info *types.Info, n ast.Node) string {
	names := map[types.Object]string{}
	var b bytes.Buffer
	var w func(e ast.Node)
	w = func(e ast.Node) {
		if ex, ok := e.(ast.Expr); ok {
			// constant expressions (named constants, len of arrays, literals in any base) by value
			if tv, ok := info.Types[ex]; ok && tv.Value != nil && tv.Value.Kind() == constant.Int {
				b.WriteString(tv.Value.ExactString())
				return
			}
		}
		switch x := e.(type) {
		case *ast.Ident:
			obj := info.Uses[x]
			if obj == nil {
				obj = info.Defs[x]
			}
			if o, ok := globalCanon[obj]; ok {
				b.WriteString(o)
				return
			}
			if v, ok := obj.(*types.Var); ok && !v.IsField() && v.Parent() != nil && v.Pkg() != nil && v.Parent() != v.Pkg().Scope() {
				nm, seen := names[obj]
				if !seen {
					nm = fmt.Sprintf("v%d", len(names)+1)
					names[obj] = nm
				}
				b.WriteString(nm)
				return
			}
			b.WriteString(x.Name)
		case *ast.IndexExpr:
			w(x.X)
			b.WriteString("[")
			w(x.Index)
			b.WriteString("]")
		case *ast.SliceExpr:
			w(x.X)
			b.WriteString("[")
			if x.Low != nil {
				w(x.Low)
			}
			b.WriteString(":")
			if x.High != nil {
				w(x.High)
			}
			if x.Max != nil {
				b.WriteString(":")
				w(x.Max)
			}
			b.WriteString("]")
		case *ast.BinaryExpr:
			w(x.X)
			b.WriteString(x.Op.String())
			w(x.Y)
		case *ast.ParenExpr:
			b.WriteString("(")
			w(x.X)
			b.WriteString(")")
		case *ast.SelectorExpr:
			w(x.X)
			if v, ok := info.Uses[x.Sel].(*types.Var); ok {
				if o, ok := fieldCanon[v]; ok {
					b.WriteString("." + o)
					return
				}
			}
			b.WriteString("." + x.Sel.Name)
		case *ast.UnaryExpr:
			b.WriteString(x.Op.String())
			w(x.X)
		case *ast.StarExpr:
			b.WriteString("*")
			w(x.X)
		case *ast.CallExpr:
			w(x.Fun)
			b.WriteString("(")
			for i, a := range x.Args {
				if i > 0 {
					b.WriteString(",")
				}
				w(a)
			}
			b.WriteString(")")
		case *ast.BasicLit:
			b.WriteString(x.Value)
		default:
			b.WriteString(exprText(fset, e))
		}
	}
	w(n)
	return b.String()
}

// owners maps an unexported module function that has exactly one static caller
// in the module (and whose address is never taken) to that caller: such a
// helper is a piece of its caller's body that was moved out, so a reviewed
// argument about the caller's code extends to it. ownerChain follows the map.
func (c *Ctx) owners() map[string]string {
	if c.ownerMap != nil {
		return c.ownerMap
	}
	callers := map[string]map[string]bool{}
	taken := map[string]bool{}
	exported := map[string]bool{}
	for _, fn := range c.P.AllModuleFuncs() {
		from := astFuncName(fn)
		if fn.Parent() == nil && (ast.IsExported(fn.Name()) || fn.Name() == "init") {
			exported[from] = true
		}
		for _, b := range fn.Blocks {
			for _, in := range b.Instrs {
				var callee *ssa.Function
				if ci, ok := in.(ssa.CallInstruction); ok {
					callee = ci.Common().StaticCallee()
				}
				for _, op := range in.Operands(nil) {
					if op == nil || *op == nil {
						continue
					}
					f, ok := (*op).(*ssa.Function)
					if !ok || !load.InModule(f) || f.Parent() != nil {
						continue
					}
					name := astFuncName(f)
					if f == callee {
						if name != from {
							if callers[name] == nil {
								callers[name] = map[string]bool{}
							}
							callers[name][from] = true
						}
						continue
					}
					taken[name] = true // used as a value: callers unknown
				}
				// a bound method or interface method value hides its callers as well
				if mc, ok := in.(*ssa.MakeClosure); ok {
					if f, ok := mc.Fn.(*ssa.Function); ok && f.Synthetic != "" {
						taken[strings.TrimSuffix(astFuncName(f), "$bound")] = true
					}
				}
			}
		}
	}
	// methods may be called through interfaces: only those no interface in the module or std could reach
	// are treated as statically called. Conservative: a method is a helper only if its name is unexported.
	// CHA sees dynamic calls too (interface dispatch, function values): add them
	for f, node := range c.P.CHA().Nodes {
		if f == nil || !load.InModule(f) {
			continue
		}
		name := astFuncName(f)
		if f.Signature.Recv() == nil {
			// a plain function is only called dynamically if its address is taken somewhere,
			// which the scan above records; CHA would add every caller of a matching func type
			continue
		}
		for _, e := range node.In {
			if e.Caller.Func == nil || !load.InModule(e.Caller.Func) {
				continue
			}
			from := astFuncName(e.Caller.Func)
			if from == name {
				continue
			}
			if callers[name] == nil {
				callers[name] = map[string]bool{}
			}
			callers[name][from] = true
		}
	}
	c.ownerMap = map[string]string{}
	c.callersOf = callers
	c.notHelper = map[string]bool{}
	for n := range exported {
		c.notHelper[n] = true
	}
	for n := range taken {
		c.notHelper[n] = true
	}
	for name, cs := range callers {
		if exported[name] || taken[name] || len(cs) != 1 {
			continue
		}
		for from := range cs {
			c.ownerMap[name] = from
		}
	}
	return c.ownerMap
}

// coveredBy reports whether every execution of function name happens under one
// of the given entry functions: it is an entry itself, or it is an unexported
// helper (address never taken) all of whose callers are covered.
func (c *Ctx) coveredBy(name string, entries map[string]bool) bool {
	c.owners()
	var rec func(n string, depth int, onPath map[string]bool) bool
	rec = func(n string, depth int, onPath map[string]bool) bool {
		if entries[n] {
			return true
		}
		if depth > 8 || onPath[n] || c.notHelper[n] || len(c.callersOf[n]) == 0 {
			return false
		}
		onPath[n] = true
		defer delete(onPath, n)
		for from := range c.callersOf[n] {
			if !rec(from, depth+1, onPath) {
				return false
			}
		}
		return true
	}
	return rec(name, 0, map[string]bool{})
}

func (c *Ctx) ownerChain(name string) []string {
	out := []string{name}
	seen := map[string]bool{name: true}
	for {
		o, ok := c.owners()[name]
		if !ok || seen[o] {
			return out
		}
		seen[o] = true
		out = append(out, o)
		name = o
	}
}

// foldBounds collects what the total folds established about index / slice
// instructions: a fold is total when it explores its entry function for every
// input (all cells, all symbolic bytes, all callee outcomes) and no path was
// aborted. For such an entry every executed bounds check that was in range on
// every path is decided, for the entry itself and for every helper that is
// only ever called from it.
type foldBounds struct {
	mu      sync.Mutex
	note    map[token.Pos]string // worst note per instruction
	count   map[token.Pos]int
	entries map[string]bool // astFuncName of entry functions explored totally
	// the same for every other exploration of the check (bounded input domains)
	bnote    map[token.Pos]string
	bcount   map[token.Pos]int
	bentries map[string]bool
	// last-resort folds of single functions over unconstrained arguments
	auto map[string]*autoFoldResult
}

// harvestBounds records the bounds notes of a total exploration of entry.
// It must only be called with the complete set of paths of the exploration.
func (c *Ctx) harvestBounds(entry *ssa.Function, paths []*fold.Path) {
	for _, p := range paths {
		if p.Abort != "" {
			return // not total: nothing is concluded
		}
	}
	c.fb.mu.Lock()
	defer c.fb.mu.Unlock()
	if c.fb.note == nil {
		c.fb.note, c.fb.count, c.fb.entries = map[token.Pos]string{}, map[token.Pos]int{}, map[string]bool{}
	}
	c.fb.entries[astFuncName(entry)] = true
	rank := map[string]int{"proven": 0, "unproven": 1, "violated": 2}
	for _, p := range paths {
		for _, b := range p.Bounds {
			c.fb.count[b.Pos]++
			if old, ok := c.fb.note[b.Pos]; !ok || rank[b.Note] > rank[old] {
				c.fb.note[b.Pos] = b.Note
			}
		}
	}
}

// noteExploration records the bounds notes of any exploration (bounded domain).
func (c *Ctx) noteExploration(entry *ssa.Function, paths []*fold.Path) {
	c.fb.mu.Lock()
	defer c.fb.mu.Unlock()
	if c.fb.bnote == nil {
		c.fb.bnote, c.fb.bcount, c.fb.bentries = map[token.Pos]string{}, map[token.Pos]int{}, map[string]bool{}
	}
	c.fb.bentries[astFuncName(entry)] = true
	rank := map[string]int{"proven": 0, "unproven": 1, "violated": 2}
	for _, p := range paths {
		worst := ""
		if p.Abort != "" {
			worst = "unproven" // whatever this path touched is not decided
		}
		for _, b := range p.Bounds {
			n := b.Note
			if worst != "" && rank[worst] > rank[n] {
				n = worst
			}
			c.fb.bcount[b.Pos]++
			if old, ok := c.fb.bnote[b.Pos]; !ok || rank[n] > rank[old] {
				c.fb.bnote[b.Pos] = n
			}
		}
	}
}

// decidedByBoundedFold: the site was executed by explorations of its own function (or of the
// only caller chain of its function) and was in range on every execution. The explorations range
// over bounded inputs (e.g. all separator positions for lengths 0..6): an argument by uniformity
// in the input size, used only for sites the reviewed table does not know.
func (c *Ctx) decidedByBoundedFold(s bceSite) (string, bool) {
	c.fb.mu.Lock()
	defer c.fb.mu.Unlock()
	if !s.Lbrack.IsValid() || c.fb.bnote[s.Lbrack] != "proven" {
		return "", false
	}
	if c.coveredBy(s.Func, c.fb.bentries) {
		return fmt.Sprintf("in range on all %d executions of the site in the folds that cover every caller of %s (bounded input domains; every execution proven for the whole cell / symbolic content)", c.fb.bcount[s.Lbrack], s.Func), true
	}
	return "", false
}

// decidedByFold reports whether the bounds site was executed by a total fold,
// in range every time, in a function all of whose executions the fold covers.
func (c *Ctx) decidedByFold(s bceSite) (string, bool) {
	c.fb.mu.Lock()
	defer c.fb.mu.Unlock()
	if !s.Lbrack.IsValid() || c.fb.note[s.Lbrack] != "proven" {
		return "", false
	}
	for _, o := range c.ownerChain(s.Func) {
		if c.fb.entries[o] {
			return fmt.Sprintf("decided by the total fold of %s: in range on all %d executions of the site", o, c.fb.count[s.Lbrack]), true
		}
	}
	return "", false
}

// autoFold is the last resort for a bounds site nothing else decides: a total
// fold of the site's own function over unconstrained arguments (every integer
// in its type's range, every slice and string of any length and content, every
// call without a body an opaque effect with fresh results). Nothing about the
// callers is assumed, so a site that is in range on every path is in range in
// every execution. Any aborted path leaves the whole function undecided.
type autoFoldResult struct {
	total bool
	paths int
	note  map[token.Pos]string
	// why the fold is not total
	aborts []string
}

func (c *Ctx) autoFoldDecides(s bceSite) (why string, ok bool) {
	if !s.Lbrack.IsValid() {
		return "", false
	}
	c.fb.mu.Lock()
	if c.fb.auto == nil {
		c.fb.auto = map[string]*autoFoldResult{}
	}
	res, have := c.fb.auto[s.Func]
	c.fb.mu.Unlock()
	if !have {
		res = &autoFoldResult{note: map[token.Pos]string{}}
		var fn *ssa.Function
		for _, f := range c.P.AllModuleFuncs() {
			if astFuncName(f) == s.Func && f.Blocks != nil {
				fn = f
				break
			}
		}
		if fn != nil {
			func() {
				defer func() {
					if r := recover(); r != nil {
						res.total = false
					}
				}()
				m := c.machine()
				m.OpaqueOK = true
				m.MaxPaths = 20000
				paths := m.Explore(fn, func(mm *fold.Machine) []fold.Val {
					var args []fold.Val
					for _, p := range fn.Params {
						args = append(args, fold.SymOfType(p.Name(), p.Type()))
					}
					return args
				}, nil)
				res.total = len(paths) > 0
				res.paths = len(paths)
				rank := map[string]int{"proven": 0, "unproven": 1, "violated": 2}
				for _, p := range paths {
					if p.Abort != "" {
						res.total = false
						res.aborts = append(res.aborts, p.Abort)
					}
					for _, b := range p.Bounds {
						if old, seen := res.note[b.Pos]; !seen || rank[b.Note] > rank[old] {
							res.note[b.Pos] = b.Note
						}
					}
				}
			}()
		}
		if os.Getenv("WSCHECK_DEBUG_AUTOFOLD") != "" {
			fmt.Fprintf(os.Stderr, "autofold %s: fn=%v total=%v paths=%d notes=%v aborts=%v\n", s.Func, fn != nil, res.total, res.paths, res.note, res.aborts)
		}
		c.fb.mu.Lock()
		c.fb.auto[s.Func] = res
		c.fb.mu.Unlock()
	}
	if res.total && res.note[s.Lbrack] == "proven" {
		return fmt.Sprintf("in range on every one of the %d paths of a total fold of %s over unconstrained arguments (no assumption about its callers)", res.paths, s.Func), true
	}
	return "", false
}
