package rules

import (
	"fmt"
	"go/token"
	"go/types"
	"strings"

	"golang.org/x/tools/go/ssa"

	"verif/wscheck/internal/fold"
	"verif/wscheck/internal/load"
)

func init() {
	register(&Property{
		ID:        "C20",
		Explain:   "Path-sensitive FOLD of ws.Dialer.Dial over URL-parse outcome x Timeout set or not x context has an earlier deadline or not x background or cancellable context x dial outcome x handshake outcome (nil / timeout error / other error) x what the watcher reports: on every path after a successful dial the connection is closed exactly when the final error is non-nil and never otherwise; the deferred function that may rewrite the named error (done(&err)) runs before the one that reads it to decide Close; on the background path SetDeadline(deadline) is paired with SetDeadline(zero) on every exit; on the watcher path the context handed to the watcher is the Timeout-bounded one whenever Timeout shortened the deadline, so the handshake phase is bounded too. setupContextDeadliner: the reply channel is buffered, the goroutine sends exactly once on every path (SetDeadline(aLongTimeAgo) before reporting ctx.Err()), done closes quit once, receives once and maps: context error wins iff the I/O error is nil or a timeout. NOT decided: timing, real connections honouring deadlines, the scheduler's race itself - the rules show both outcomes of the race are handled. The comparison that decides whether Timeout shortens the context is read with its operand order. The I/O error of the handshake must reach the watcher's mapping unchanged (dialer decision table). dial-connection-ownership: Dialer.dial is folded over scheme x callbacks x dial outcome; once a connection exists it is returned with a nil error or closed before an error is returned. Dialer.dial layering (TLS on the dialed connection, WrapConn outermost); no-io-before-deadline: dial and tlsClient perform no Read/Write/Handshake; readLine hands the read error back (chunking fold). The done function of the watcher is recognised as a closure or as a method of a state struct started with `go w.watch()`; its fold takes the kind of I/O error (nil, not a timeout, timeout) as an input fixed up front, so a mapping that never asks still meets every kind. The watcher publishes nothing but nil or the context's own ctx.Err(). The watcher's go statement dominates every return of setupContextDeadliner and nothing else sends on its channels; any non-zero Timeout, also a negative one, bounds the dial. A path of Dial that never asks whether the context has a deadline of its own stands for every answer: with a Timeout it must still use the Timeout-bounded context for the connect phase (the background context included). prefetch-keeps-source: the debug dialer's sniffing reader lets the connection's own error (the poisoned deadline) through to the handshake on every path.",
		Technique: "static analysis: path-sensitive abstract interpretation of go/ssa (defer stacks modelled) plus CFG path counting on the watcher goroutine",
		Trusted:   []string{"go/ssa + go/types", "the checker's abstract evaluator (defers run LIFO at function exit)", "context, net.Conn deadlines, the Go scheduler (not analysed)"},
		Run:       runC20,
	})
}

func runC20(c *Ctx) {
	c20Dial(c)
	c20Watcher(c)
	// the watcher maps the I/O error Upgrade returns: Upgrade must hand it back unchanged
	dialerUpgradeRules(c, "C20")
	c20DialConn(c)
	// the poisoned deadline ends the handshake only if readLine hands the read error back
	readLineRules(c, "C20")
	c20NoEarlyIO(c)
	// the debug dialer's sniffing reader must let the connection's own error through
	c20PrefetchKeepsSource(c, "C20")
}

func c20Dial(c *Ctx) {
	const rule = "C20.dial-paths"
	c.R.Rule(rule, 1, "Dial closes the connection exactly on error, clears what it set, and bounds both phases by Timeout")
	f := c.method(rule, ws, "Dialer", "Dial")
	dn := c.P.NamedType(ws, "Dialer")
	if f == nil || dn == nil {
		return
	}
	dst := structOf(dn)
	iTimeout := fieldIdx(dst, "Timeout", nil)
	if iTimeout < 0 {
		c.R.Unknown(rule, rule+"/anchor:Dialer.Timeout", "-", "field does not resolve")
		return
	}
	m := c.machine()
	var errObj *fold.Obj
	m.Models["net/url.ParseRequestURI"] = func(cl *fold.Call) fold.Val {
		cl.M.Emit(fold.Effect{Kind: "call", Name: "ParseRequestURI", Args: cl.Args})
		return fold.Tuple{fold.Sym{Name: "url", NonNil: true}, errChoice(cl.M, "parse.err", "parse-error")}
	}
	m.Models["time.Now"] = func(cl *fold.Call) fold.Val { return fold.Sym{Name: "now"} }
	m.Models["(time.Time).Add"] = func(cl *fold.Call) fold.Val {
		return fold.Sym{Name: "now+" + intName(cl.Args[1])}
	}
	// the only instants compared are now+Timeout and the context's own deadline; one atom says which
	// is earlier, and the operand order of the comparison decides how it is read (ties are immaterial)
	earlier := func(cl *fold.Call, x, y fold.Val) fold.Val {
		xs, ys := fold.Show(x), fold.Show(y)
		switch {
		case strings.HasPrefix(xs, "now+") && ys == "ctx-deadline":
			return fold.Bool(cl.M.Atom("timeout-deadline-earlier"))
		case xs == "ctx-deadline" && strings.HasPrefix(ys, "now+"):
			return fold.Bool(!cl.M.Atom("timeout-deadline-earlier"))
		}
		return fold.Bool(cl.M.Atom("earlier(" + xs + "," + ys + ")"))
	}
	m.Models["(time.Time).Before"] = func(cl *fold.Call) fold.Val { return earlier(cl, cl.Args[0], cl.Args[1]) }
	m.Models["(time.Time).After"] = func(cl *fold.Call) fold.Val { return earlier(cl, cl.Args[1], cl.Args[0]) }
	m.Models["invoke:(context.Context).Deadline"] = func(cl *fold.Call) fold.Val {
		return fold.Tuple{fold.Sym{Name: "ctx-deadline"}, fold.Bool(cl.M.Atom("ctx-has-deadline"))}
	}
	m.Models["context.WithDeadline"] = func(cl *fold.Call) fold.Val {
		cl.M.Emit(fold.Effect{Kind: "call", Name: "WithDeadline", Args: cl.Args})
		return fold.Tuple{fold.Iface{V: fold.Sym{Name: "bounded(" + fold.Show(cl.Args[0]) + "," + fold.Show(cl.Args[1]) + ")", NonNil: true}}, fold.Sym{Name: "cancel", NonNil: true}}
	}
	m.Models["callback:cancel"] = func(cl *fold.Call) fold.Val {
		cl.M.Emit(fold.Effect{Kind: "call", Name: "cancel"})
		return nil
	}
	m.Models["context.Background"] = func(cl *fold.Call) fold.Val {
		return fold.Iface{V: fold.Sym{Name: "global:background-context", NonNil: true}}
	}
	m.Models["("+ws+".Dialer).dial"] = func(cl *fold.Call) fold.Val {
		cl.M.Emit(fold.Effect{Kind: "call", Name: "dial", Args: cl.Args[1:]})
		if cl.M.Choose("dial.err", 2) == 1 {
			return fold.Tuple{fold.Nil{}, fold.Sym{Name: "dial-error", NonNil: true}}
		}
		return fold.Tuple{fold.Iface{V: fold.Sym{Name: "conn", NonNil: true}}, fold.Nil{}}
	}
	m.Models["invoke:(net.Conn).SetDeadline"] = func(cl *fold.Call) fold.Val {
		cl.M.Emit(fold.Effect{Kind: "call", Name: "SetDeadline", Args: cl.Args[1:]})
		return fold.Nil{}
	}
	m.Models["invoke:(net.Conn).Close"] = func(cl *fold.Call) fold.Val {
		cur := "?"
		if errObj != nil {
			cur = c.errName(cl.M.Load(fold.Ref{O: errObj}))
		}
		cl.M.Emit(fold.Effect{Kind: "call", Name: "Close", Args: []fold.Val{fold.Str(cur)}})
		return fold.Nil{}
	}
	m.Models[ws+".setupContextDeadliner"] = func(cl *fold.Call) fold.Val {
		cl.M.Emit(fold.Effect{Kind: "call", Name: "watch", Args: cl.Args})
		return fold.Sym{Name: "done", NonNil: true}
	}
	m.Models["callback:done"] = func(cl *fold.Call) fold.Val {
		mm := cl.M
		mm.Emit(fold.Effect{Kind: "call", Name: "done", Args: cl.Args})
		r, ok := cl.Args[0].(fold.Ref)
		if !ok {
			return nil
		}
		errObj = r.O
		if mm.Choose("ctx-ended", 2) == 1 {
			cur := c.errName(mm.Load(r))
			if cur == "nil" || cur == "upgrade-timeout" {
				mm.Store(r, fold.Sym{Name: "ctx-error", NonNil: true})
			}
		}
		return nil
	}
	m.Models["("+ws+".Dialer).Upgrade"] = func(cl *fold.Call) fold.Val {
		cl.M.Emit(fold.Effect{Kind: "call", Name: "Upgrade", Args: cl.Args[1:]})
		var e fold.Val = fold.Nil{}
		switch cl.M.Choose("upgrade", 3) {
		case 1:
			e = fold.Sym{Name: "upgrade-timeout", NonNil: true}
		case 2:
			e = fold.Sym{Name: "upgrade-error", NonNil: true}
		}
		return fold.Tuple{fold.Sym{Name: "br"}, fold.Struct{F: []fold.Val{fold.Str(""), fold.Nil{}}}, e}
	}
	var problems []string
	paths := m.Explore(f, func(mm *fold.Machine) []fold.Val {
		errObj = nil
		d := fold.SymOfType("d", dn).(fold.Struct)
		for i := 0; i < dst.NumFields(); i++ {
			switch dst.Field(i).Type().Underlying().(type) {
			case *types.Signature, *types.Interface, *types.Pointer:
				d.F[i] = fold.Sym{Name: dst.Field(i).Name()}
			}
		}
		// zero means "no timeout"; any other value, also a negative one (a budget already used
		// up), bounds the dial: the derived context is over at once
		switch mm.Choose("timeout", 3) {
		case 1:
			d.F[iTimeout] = fold.Int{Lo: 1, Hi: bigLen(), Name: "Timeout"}
		case 2:
			d.F[iTimeout] = fold.Int{Lo: -bigLen(), Hi: -1, Name: "Timeout"}
		default:
			d.F[iTimeout] = fold.K(0)
		}
		var ctx fold.Val = fold.Iface{V: fold.Sym{Name: "global:caller-context", NonNil: true}}
		if mm.Choose("background", 2) == 1 {
			ctx = fold.Iface{V: fold.Sym{Name: "global:background-context", NonNil: true}}
		}
		return []fold.Val{d, ctx, fold.SymSeq{Name: "urlstr", Len: fold.Range(0, 1<<20), IsStr: true}}
	}, func(mm *fold.Machine, p *fold.Path) {
		ret, _ := p.Ret.(fold.Tuple)
		if len(ret) != 4 {
			problems = append(problems, "unexpected result shape")
			return
		}
		e := c.errName(ret[3])
		desc := "[" + p.ChoiceString() + "]"
		timeout := p.Chose("timeout") >= 1
		background := p.Chose("background") == 1
		var seq []string
		for _, ef := range p.Effects {
			if ef.Kind == "call" {
				seq = append(seq, ef.Name)
			}
		}
		js := strings.Join(seq, ",")
		if p.Chose("parse.err") == 1 {
			if e != "parse-error" || len(p.Calls("dial")) != 0 {
				problems = append(problems, "an unparsable URL must be returned before dialing "+desc)
			}
			return
		}
		// a path that never asked whether the context has a deadline of its own, or which of the
		// two is earlier, stands for every answer - also for the one in which Timeout is the
		// earlier bound (the background context has no deadline at all)
		shortened := timeout && (p.Chose("ctx-has-deadline") != 1 || p.Chose("timeout-deadline-earlier") != 0)
		ctxName := "global:caller-context"
		if background {
			ctxName = "global:background-context"
		}
		wantDialCtx := ctxName
		if shortened {
			wantDialCtx = "bounded(iface(<nil>:" + ctxName + "),now+Timeout)"
		}
		dl := p.Calls("dial")
		if len(dl) != 1 {
			problems = append(problems, "dial is not attempted exactly once "+desc)
			return
		}
		if got := fold.Show(dl[0].Args[0]); !strings.Contains(got, wantDialCtx) {
			problems = append(problems, "the connect phase uses context "+got+", want "+wantDialCtx+" "+desc)
		}
		if shortened && len(p.Calls("cancel")) != 1 {
			problems = append(problems, "the derived context is not cancelled on return "+desc)
		}
		if p.Chose("dial.err") == 1 {
			if e != "dial-error" || len(p.Calls("Upgrade"))+len(p.Calls("Close")) != 0 {
				problems = append(problems, "a failed dial must be returned as is "+desc)
			}
			return
		}
		// after a successful dial
		cl := p.Calls("Close")
		if e != "nil" {
			if len(cl) != 1 {
				problems = append(problems, fmt.Sprintf("Dial returns error %s but closes the connection %d times %s", e, len(cl), desc))
			}
		} else if len(cl) != 0 {
			problems = append(problems, "Dial returns nil but closed the connection "+desc)
		}
		if len(p.Calls("Upgrade")) != 1 {
			problems = append(problems, "the handshake is not run exactly once "+desc)
			return
		}
		if background {
			sd := p.Calls("SetDeadline")
			want := "now+Timeout"
			if !timeout {
				want = "" // zero time
			}
			noClose := strings.ReplaceAll(js[strings.Index(js, "dial"):], ",Close", "")
			if len(sd) != 2 || !strings.HasPrefix(noClose, "dial,SetDeadline,Upgrade,SetDeadline") {
				problems = append(problems, "background context: deadline must be set before and cleared after the handshake on every exit: "+js+" "+desc)
			} else {
				if timeout && fold.Show(sd[0].Args[0]) != want {
					problems = append(problems, "background context: the handshake deadline is "+fold.Show(sd[0].Args[0])+", want now+Timeout")
				}
				if strings.Contains(fold.Show(sd[1].Args[0]), "now") {
					problems = append(problems, "background context: the deadline is not cleared after the handshake")
				}
			}
			if len(p.Calls("watch")) != 0 {
				problems = append(problems, "background context must not start the watcher goroutine")
			}
			return
		}
		w := p.Calls("watch")
		if len(w) != 1 || len(p.Calls("done")) != 1 {
			problems = append(problems, "cancellable context: the watcher must be started once and joined once "+desc)
			return
		}
		if got := fold.Show(w[0].Args[0]); !strings.Contains(got, wantDialCtx) {
			problems = append(problems, "the handshake phase is watched with context "+got+" instead of the Timeout-bounded "+wantDialCtx+": Dialer.Timeout does not bound the handshake "+desc)
		}
		if !strings.Contains(fold.Show(w[0].Args[1]), "conn") {
			problems = append(problems, "the watcher does not watch the dialed connection")
		}
		// order: Upgrade, then done, then (maybe) Close
		iu, id, ic := strings.Index(js, "Upgrade"), strings.Index(js, "done"), strings.Index(js, "Close")
		if !(iu < id) || (ic >= 0 && ic < id) {
			problems = append(problems, "the watcher must be joined (done(&err)) after the handshake and before the close-on-error decision: "+js)
		}
		if len(p.Calls("SetDeadline")) != 0 {
			problems = append(problems, "cancellable context: Dial itself must not leave a deadline on the connection")
		}
		// final error mapping is done's; the result must be what *err holds after done
		wantE := []string{"nil", "upgrade-timeout", "upgrade-error"}[p.Chose("upgrade")]
		if p.Chose("ctx-ended") == 1 && wantE != "upgrade-error" {
			wantE = "ctx-error"
		}
		if e != wantE {
			problems = append(problems, "Dial returns "+e+", want "+wantE+" "+desc)
		}
	})
	for _, p := range paths {
		if p.Abort != "" || p.Panic {
			problems = append(problems, "undecided: "+p.Abort+panicNote(p))
		}
	}
	c.R.AddCells(len(paths))
	c.R.Paths += len(paths)
	c.verdict(rule, rule+"/Dial", c.P.FuncPos(f), uniq(problems), fmt.Sprintf("%d paths", len(paths)))
}

func c20Watcher(c *Ctx) {
	const rule = "C20.watcher-protocol"
	c.R.Rule(rule, 4, "setupContextDeadliner: buffered reply channel, exactly one send per goroutine path, done closes/receives once and maps the error")
	f := c.fn(rule, ws, "setupContextDeadliner")
	if f == nil {
		return
	}
	// 1. channels: the reply channel (chan error) must be buffered
	var interrupt, quit *ssa.MakeChan
	var goInstr *ssa.Go
	for _, b := range f.Blocks {
		for _, in := range b.Instrs {
			switch x := in.(type) {
			case *ssa.MakeChan:
				if ch, ok := x.Type().Underlying().(*types.Chan); ok && fold.IsErrorType(ch.Elem()) {
					interrupt = x
				} else {
					quit = x
				}
			case *ssa.Go:
				goInstr = x
			}
		}
	}
	if interrupt == nil || quit == nil || goInstr == nil {
		c.R.Unknown(rule, rule+"/shape", c.P.FuncPos(f), "the watcher (two channels and one goroutine) is not recognisable any more")
		return
	}
	ngo := 0
	for _, fn := range c.P.AllModuleFuncs() {
		for _, b := range fn.Blocks {
			for _, in := range b.Instrs {
				if _, ok := in.(*ssa.Go); ok {
					ngo++
				}
			}
		}
	}
	c.R.Check(ngo == 1, rule, rule+"/single-goroutine", c.P.FuncPos(f), "exactly one go statement in the three packages", fmt.Sprintf("%d go statements in the three packages: each new goroutine needs its own termination argument", ngo))
	// the watcher runs on every path: a shortcut that answers for it ("the context is over already,
	// put the error into the channel") skips the SetDeadline that interrupts the handshake I/O
	{
		gb := goInstr.Block()
		var problems []string
		for _, b := range f.Blocks {
			for _, in := range b.Instrs {
				switch x := in.(type) {
				case *ssa.Return:
					if !gb.Dominates(b) {
						problems = append(problems, "a path through setupContextDeadliner returns at "+c.P.Pos(x.Pos())+" without starting the watcher: nobody interrupts the handshake I/O when the context ends")
					}
				case *ssa.Send:
					problems = append(problems, "setupContextDeadliner itself sends on a channel at "+c.P.Pos(x.Pos())+": only the watcher, after it has interrupted the I/O, may publish the context's error")
				}
			}
		}
		c.verdict(rule, rule+"/watcher-always-started", c.P.Pos(goInstr.Pos()), uniq(problems), "every return is dominated by the go statement; no send outside the watcher")
	}
	size, _ := interrupt.Size.(*ssa.Const)
	c.R.Check(size != nil && size.Int64() >= 1, rule, rule+"/reply-channel-buffered", c.P.Pos(interrupt.Pos()),
		"reply channel has capacity >= 1: the goroutine's single send cannot block", "the reply channel is unbuffered: if done() is never reached the goroutine leaks, and the send can block")
	// 2. goroutine body: exactly one send on every path; SetDeadline(aLongTimeAgo) precedes the ctx.Err() send
	gfn, _ := goInstr.Call.Value.(*ssa.MakeClosure)
	var body *ssa.Function
	if gfn != nil {
		body, _ = gfn.Fn.(*ssa.Function)
	} else if fn, ok := goInstr.Call.Value.(*ssa.Function); ok {
		body = fn
	}
	if body == nil {
		c.R.Unknown(rule, rule+"/goroutine-body", c.P.Pos(goInstr.Pos()), "goroutine body not found")
	} else {
		c.R.Func(body.String())
		type st struct {
			b     *ssa.BasicBlock
			sends int
			dl    bool
		}
		var problems []string
		var walk func(b *ssa.BasicBlock, sends int, deadline bool, depth int)
		seen := 0
		walk = func(b *ssa.BasicBlock, sends int, deadline bool, depth int) {
			if depth > 50 {
				problems = append(problems, "undecided: the goroutine has a loop")
				return
			}
			for _, in := range b.Instrs {
				switch x := in.(type) {
				case *ssa.Send:
					sends++
					// what is sent: nil constant or ctx.Err()
					if call, ok := x.X.(*ssa.Call); ok && call.Call.IsInvoke() && call.Call.Method.Name() == "Err" && !deadline {
						problems = append(problems, "ctx.Err() is reported without first interrupting the connection's I/O (SetDeadline in the past)")
					}
					// what Dial returns for an ended context is the context's own error: the only values
					// the watcher may publish are nil and ctx.Err()
					switch v := x.X.(type) {
					case *ssa.Const:
						if !v.IsNil() {
							problems = append(problems, "the watcher publishes a constant that is not nil")
						}
					case *ssa.Call:
						if !(v.Call.IsInvoke() && v.Call.Method.Name() == "Err" && v.Call.Method.Pkg() != nil && v.Call.Method.Pkg().Path() == "context") {
							problems = append(problems, "the watcher publishes "+v.Call.Value.String()+"(...) where the context's own error ctx.Err() belongs (Dial's error for an ended context must be the context's error)")
						}
					default:
						problems = append(problems, "the watcher publishes "+x.X.String()+", neither nil nor ctx.Err()")
					}
				case *ssa.Call:
					if x.Call.IsInvoke() && x.Call.Method.Name() == "SetDeadline" {
						deadline = true
					}
				case *ssa.Return:
					seen++
					if sends != 1 {
						problems = append(problems, fmt.Sprintf("a path through the watcher goroutine performs %d sends on the reply channel (done() receives exactly one)", sends))
					}
				}
			}
			for _, s := range b.Succs {
				walk(s, sends, deadline, depth+1)
			}
		}
		walk(body.Blocks[0], 0, false, 0)
		if seen < 2 {
			problems = append(problems, fmt.Sprintf("undecided: only %d exits of the goroutine seen (quit and ctx.Done expected)", seen))
		}
		hasSelect := false
		for _, b := range body.Blocks {
			for _, in := range b.Instrs {
				if s, ok := in.(*ssa.Select); ok {
					hasSelect = true
					if !s.Blocking || len(s.States) != 2 {
						problems = append(problems, "the watcher does not block on exactly {quit, ctx.Done()}")
					}
				}
			}
		}
		if !hasSelect {
			problems = append(problems, "the watcher does not select on quit / ctx.Done()")
		}
		c.verdict(rule, rule+"/goroutine-sends-once", c.P.FuncPos(body), uniq(problems), fmt.Sprintf("%d exits, one send each; I/O interrupted before ctx.Err() is reported", seen))
	}
	// 3. done closure: close(quit) once, one receive, mapping table
	var doneFn *ssa.Function
	for _, a := range f.AnonFuncs {
		if a != body {
			doneFn = a
		}
	}
	// the same protocol written with a state struct: "go w.watch(); return w.done"
	boundDone := false
	if doneFn == nil {
		for _, b := range f.Blocks {
			for _, in := range b.Instrs {
				ret, ok := in.(*ssa.Return)
				if !ok || len(ret.Results) != 1 {
					continue
				}
				if mc, ok := ret.Results[0].(*ssa.MakeClosure); ok && len(mc.Bindings) == 1 {
					if w, ok := mc.Fn.(*ssa.Function); ok && strings.HasSuffix(w.Name(), "$bound") {
						if obj, ok := w.Object().(*types.Func); ok {
							if target := c.P.Prog.FuncValue(obj); target != nil && load.InModule(target) && len(target.Params) == 2 {
								if _, isPtr := target.Params[0].Type().Underlying().(*types.Pointer); isPtr {
									doneFn, boundDone = target, true
								}
							}
						}
					}
				}
			}
		}
	}
	if doneFn == nil {
		c.R.Unknown(rule, rule+"/done", c.P.FuncPos(f), "done closure not found")
		return
	}
	c.R.Func(doneFn.String())
	m := c.machine()
	recvs := 0
	m.Recv = func(mm *fold.Machine, ch fold.Val, in *ssa.UnOp) fold.Val {
		recvs++
		mm.Emit(fold.Effect{Kind: "recv", Name: fold.Show(ch)})
		if mm.Choose("ctx-ended", 2) == 1 {
			return fold.Sym{Name: "ctx-error", NonNil: true}
		}
		return fold.Nil{}
	}
	// the kind of I/O error is fixed up front (nil, not a timeout, timeout), so that a done()
	// which never asks still meets every kind
	m.Models["invoke:(net.Error).Timeout"] = func(cl *fold.Call) fold.Val {
		return fold.Bool(len(cl.Args) > 0 && strings.Contains(fold.Show(cl.Args[0]), "io-timeout"))
	}
	var errObj *fold.Obj
	var problems []string
	m.Bind = func(mm *fold.Machine) []fold.Val {
		var out []fold.Val
		for _, fv := range doneFn.FreeVars {
			v := fold.Val(fold.Sym{Name: "chan:" + fv.Name(), NonNil: true})
			if _, isPtr := fv.Type().Underlying().(*types.Pointer); isPtr {
				v = fold.Ref{O: mm.NewObj(fv.Name(), v)}
			}
			out = append(out, v)
		}
		return out
	}
	ps := m.Explore(doneFn, func(mm *fold.Machine) []fold.Val {
		recvs = 0
		var cur fold.Val = fold.Nil{}
		switch mm.Choose("io-error", 3) {
		case 1:
			cur = fold.Iface{V: fold.Sym{Name: "io-error", NonNil: true}}
		case 2:
			cur = fold.Iface{V: fold.Sym{Name: "io-timeout", NonNil: true}}
		}
		errObj = mm.NewObj("err", cur)
		if boundDone {
			rt := doneFn.Params[0].Type().Underlying().(*types.Pointer).Elem()
			recv := fold.SymOfType("w", rt)
			if st, ok := recv.(fold.Struct); ok {
				for i, fv := range st.F {
					if sy, ok := fv.(fold.Sym); ok {
						sy.NonNil = true
						st.F[i] = sy
					}
				}
			}
			return []fold.Val{fold.Ref{O: mm.NewObj("w", recv)}, fold.Ref{O: errObj}}
		}
		return []fold.Val{fold.Ref{O: errObj}}
	}, func(mm *fold.Machine, p *fold.Path) {
		closes := 0
		for _, e := range p.Effects {
			if e.Kind == "close" {
				closes++
			}
		}
		if closes != 1 || recvs != 1 {
			problems = append(problems, fmt.Sprintf("done() closes quit %d times and receives %d replies (1 and 1 make the goroutine finish before Dial returns)", closes, recvs))
		}
		got := c.errName(mm.Load(fold.Ref{O: errObj}))
		io := p.Chose("io-error") >= 1
		timeout := p.Chose("io-error") == 2
		if timeout && p.Chose("assert(io-timeout,net.Error)") == 0 {
			return // not a kind of error that exists: a timeout is a net.Error by definition
		}
		want := "nil"
		if io {
			want = "io-error"
		}
		if timeout {
			want = "io-timeout"
		}
		if p.Chose("ctx-ended") == 1 && (!io || timeout) {
			want = "ctx-error"
		}
		if !strings.Contains(got, want) {
			problems = append(problems, fmt.Sprintf("error mapping: I/O error=%v timeout=%v context ended=%v gives %s, want %s", io, timeout, p.Chose("ctx-ended") == 1, got, want))
		}
	})
	// done is a closure: its free variables (quit, interrupt) are not bound here; give them symbols
	for _, p := range ps {
		if p.Abort != "" || p.Panic {
			problems = append(problems, "undecided: "+p.Abort+panicNote(p))
		}
	}
	c.verdict(rule, rule+"/done-mapping", c.P.FuncPos(doneFn), uniq(problems), "close(quit) once; one receive; ctx error wins iff the I/O error is nil or a timeout")
}

// c20DialConn folds Dialer.dial: once the network dial has produced a
// connection, every path either hands that connection (possibly wrapped) to the
// caller with a nil error, or closes it before reporting an error - the caller
// (Dial) only closes connections it was given.
func c20DialConn(c *Ctx) {
	const rule = "C20.dial-connection-ownership"
	c.R.Rule(rule, 1, "Dialer.dial never drops a dialed connection: it is returned without error, or closed before an error is returned")
	f := c.method(rule, ws, "Dialer", "dial")
	dn := c.P.NamedType(ws, "Dialer")
	if f == nil || dn == nil {
		return
	}
	dst := structOf(dn)
	m := c.machine()
	m.OpaqueOK = true
	dialModel := func(cl *fold.Call) fold.Val {
		cl.M.Emit(fold.Effect{Kind: "call", Name: "netdial", Args: cl.Args})
		if cl.M.Choose("dial.err", 2) == 1 {
			return fold.Tuple{fold.Nil{}, fold.Sym{Name: "dial-error", NonNil: true}}
		}
		return fold.Tuple{fold.Iface{V: fold.Sym{Name: "conn", NonNil: true}}, fold.Nil{}}
	}
	m.Models["callback:NetDial"] = dialModel
	m.Models["(*net.Dialer).DialContext"] = dialModel
	m.Models["(*net.Dialer).DialContext$bound"] = dialModel
	m.Models["callback:TLSClient"] = func(cl *fold.Call) fold.Val {
		cl.M.Emit(fold.Effect{Kind: "call", Name: "tls", Args: cl.Args})
		return fold.Iface{V: fold.Sym{Name: "tls(" + connArg(cl.Args) + ")", NonNil: true}}
	}
	m.Models["("+ws+".Dialer).tlsClient"] = func(cl *fold.Call) fold.Val {
		cl.M.Emit(fold.Effect{Kind: "call", Name: "tls", Args: cl.Args[1:]})
		return fold.Iface{V: fold.Sym{Name: "tls(" + connArg(cl.Args) + ")", NonNil: true}}
	}
	m.Models["("+ws+".Dialer).tlsClient$bound"] = m.Models["("+ws+".Dialer).tlsClient"]
	m.Models["callback:WrapConn"] = func(cl *fold.Call) fold.Val {
		cl.M.Emit(fold.Effect{Kind: "call", Name: "wrap", Args: cl.Args})
		return fold.Iface{V: fold.Sym{Name: "wrap(" + nameOf(cl.Args[0]) + ")", NonNil: true}}
	}
	m.Models["invoke:(net.Conn).Close"] = func(cl *fold.Call) fold.Val {
		cl.M.Emit(fold.Effect{Kind: "call", Name: "Close", Args: cl.Args})
		return fold.Nil{}
	}
	m.Models["fmt.Errorf"] = func(cl *fold.Call) fold.Val { return fold.Sym{Name: "scheme-error", NonNil: true} }
	m.Models[ws+".hostport"] = func(cl *fold.Call) fold.Val {
		cl.M.Emit(fold.Effect{Kind: "call", Name: "hostport", Args: cl.Args})
		return fold.Tuple{fold.SymSeq{Name: "hostname", IsStr: true, Len: fold.Range(0, 1<<20)}, fold.SymSeq{Name: "addr", IsStr: true, Len: fold.Range(0, 1<<20)}}
	}
	ut := c.P.ByPath["net/url"]
	var urlT types.Type
	if ut != nil {
		if o := ut.Types.Scope().Lookup("URL"); o != nil {
			urlT = o.Type()
		}
	}
	if urlT == nil {
		c.R.Unknown(rule, rule+"/anchor:url.URL", "-", "net/url.URL does not resolve")
		return
	}
	ust := structOf(urlT)
	iScheme := fieldIdx(ust, "Scheme", nil)
	var problems []string
	paths := m.Explore(f, func(mm *fold.Machine) []fold.Val {
		d := fold.SymOfType("d", dn).(fold.Struct)
		for i := 0; i < dst.NumFields(); i++ {
			switch dst.Field(i).Type().Underlying().(type) {
			case *types.Signature:
				if mm.Choose("set("+dst.Field(i).Name()+")", 2) == 1 {
					d.F[i] = fold.Sym{Name: dst.Field(i).Name(), NonNil: true}
				} else {
					d.F[i] = fold.Nil{}
				}
			}
		}
		u := fold.SymOfType("u", urlT).(fold.Struct)
		u.F[iScheme] = fold.Str([]string{"ws", "wss", "http"}[mm.Choose("scheme", 3)])
		return []fold.Val{d, fold.Iface{V: fold.Sym{Name: "ctx", NonNil: true}}, fold.Ref{O: mm.NewObj("url", u)}}
	}, func(mm *fold.Machine, p *fold.Path) {
		ret, _ := p.Ret.(fold.Tuple)
		if len(ret) != 2 {
			problems = append(problems, "unexpected result shape")
			return
		}
		e := c.errName(ret[1])
		desc := "[" + p.ChoiceString() + "]"
		dialed := len(p.Calls("netdial")) > 0 && p.Chose("dial.err") == 0
		closed := len(p.Calls("Close")) > 0
		// where: the address is what hostport makes of the URL's host (which keeps the brackets of
		// an IPv6 literal and adds the default port only when none is given), with :80 / :443
		if nd := p.Calls("netdial"); len(nd) > 0 {
			wantPort := []string{`":80"`, `":443"`, ""}[p.Chose("scheme")]
			hp := p.Calls("hostport")
			okAddr := false
			for _, h := range hp {
				if len(h.Args) == 2 && strings.Contains(fold.Show(h.Args[0]), "Host") && fold.Show(h.Args[1]) == wantPort {
					okAddr = true
				}
			}
			last := nd[0].Args[len(nd[0].Args)-1]
			if !okAddr || nameOf(last) != "addr" {
				problems = append(problems, fmt.Sprintf("the address dialed is %s, want the address hostport derives from the URL's Host with default port %s %s", fold.Show(last), wantPort, desc))
			}
		}
		switch {
		case !dialed:
			if e == "nil" {
				problems = append(problems, "dial reports success although no connection was established "+desc)
			}
		case e != "nil" && !closed:
			problems = append(problems, "a connection was dialed, but dial returns the error "+e+" without closing it: nobody can close it any more "+desc)
		case e == "nil":
			if !strings.Contains(fold.Show(ret[0]), "conn") {
				problems = append(problems, "dial succeeds but does not return the dialed connection: "+fold.Show(ret[0])+" "+desc)
			}
			// layering: TLS on the dialed connection, the user's wrapper outermost (it must see the
			// handshake bytes, not TLS records, and its result is what the handshake runs on)
			want := "conn"
			if p.Chose("scheme") == 1 {
				want = "tls(conn)"
			}
			if p.Chose("set(WrapConn)") == 1 {
				want = "wrap(" + want + ")"
			}
			if got := nameOf(ret[0]); got != want {
				problems = append(problems, "dial returns "+got+", want "+want+" "+desc)
			}
			if closed {
				problems = append(problems, "dial closes the connection it returns "+desc)
			}
		}
	})
	for _, p := range paths {
		if p.Abort != "" || p.Panic {
			problems = append(problems, "undecided: "+p.Abort+panicNote(p))
		}
	}
	c.R.AddCells(len(paths))
	c.verdict(rule, rule+"/dial", c.P.FuncPos(f), uniq(problems), fmt.Sprintf("%d paths over scheme x callbacks set x dial outcome", len(paths)))
}

// c20NoEarlyIO: Dial arms the deadline / the context watcher only after
// Dialer.dial returned, so nothing in dial or tlsClient may perform I/O on the
// connection (a TLS handshake there would block outside every bound).
func c20NoEarlyIO(c *Ctx) {
	const rule = "C20.no-io-before-deadline"
	c.R.Rule(rule, 2, "Dialer.dial and Dialer.tlsClient perform no I/O on the connection they set up")
	for _, name := range []string{"dial", "tlsClient"} {
		f := c.method(rule, ws, "Dialer", name)
		if f == nil {
			continue
		}
		bad := ""
		fns := append([]*ssa.Function{f}, f.AnonFuncs...)
		for _, fn := range fns {
			for _, b := range fn.Blocks {
				for _, in := range b.Instrs {
					ci, ok := in.(ssa.CallInstruction)
					if !ok {
						continue
					}
					cc := ci.Common()
					meth := ""
					if cc.IsInvoke() {
						meth = cc.Method.FullName()
					} else if cal := cc.StaticCallee(); cal != nil && cal.Signature.Recv() != nil {
						meth = cal.String()
					}
					if meth == "" {
						continue
					}
					if !(strings.Contains(meth, "net.Conn") || strings.Contains(meth, "crypto/tls.Conn") || strings.Contains(meth, "io.Reader") || strings.Contains(meth, "io.Writer")) {
						continue
					}
					short := meth[strings.LastIndexByte(meth, '.')+1:]
					switch short {
					case "Read", "Write", "Handshake", "HandshakeContext", "ReadFrom", "WriteTo":
						bad = meth + " at " + c.P.Pos(in.Pos())
					}
				}
			}
		}
		key := rule + "/Dialer." + name
		if bad == "" {
			c.R.OK(rule, key, c.P.FuncPos(f), "no Read / Write / Handshake on a connection")
		} else {
			c.R.Fail(rule, key, c.P.FuncPos(f), "I/O on the connection before Dial has armed the deadline or the context watcher: "+bad+" - a peer that stays silent there blocks Dial outside Timeout and outside the context")
		}
	}
}

// connArg names the connection among the arguments of a TLS wrapper (the receiver may or may not
// be part of the argument list, depending on how the method value was formed).
func connArg(args []fold.Val) string {
	for _, a := range args {
		switch a.(type) {
		case fold.Iface, fold.Sym:
			if n := nameOf(a); strings.Contains(n, "conn") {
				return n
			}
		}
	}
	return "?"
}

// variadicElems returns the values stored into the array behind a variadic argument slice.
func variadicElems(s ssa.Value) []ssa.Value {
	sl, ok := s.(*ssa.Slice)
	if !ok {
		return nil
	}
	al, ok := sl.X.(*ssa.Alloc)
	if !ok || al.Referrers() == nil {
		return nil
	}
	byIdx := map[int64]ssa.Value{}
	max := int64(-1)
	for _, r := range *al.Referrers() {
		ia, ok := r.(*ssa.IndexAddr)
		if !ok || ia.Referrers() == nil {
			continue
		}
		k, ok := ia.Index.(*ssa.Const)
		if !ok {
			return nil
		}
		for _, rr := range *ia.Referrers() {
			if st, ok := rr.(*ssa.Store); ok && st.Addr == ssa.Value(ia) {
				byIdx[k.Int64()] = st.Val
				if k.Int64() > max {
					max = k.Int64()
				}
			}
		}
	}
	out := make([]ssa.Value, max+1)
	for i := range out {
		out[i] = byIdx[int64(i)]
	}
	return out
}

// c20PrefetchKeepsSource: the reader DebugDialer puts between the handshake and the connection
// (when OnResponse is set) replays what it prefetched and then goes on reading the connection -
// always, also when the prefetch failed. The error the handshake must see is the connection's
// own: the context watcher interrupts a blocked handshake by poisoning the connection's
// deadline and recognises the outcome by that timeout error; a reader that answers io.EOF for
// the connection turns a cancelled Dial into a plain EOF (and a cut response into a clean end).
func c20PrefetchKeepsSource(c *Ctx, prop string) {
	rule := prop + ".prefetch-keeps-source"
	c.R.Rule(rule, 1, "prefetchResponseReader.Read: whatever it installs as its reader ends in the connection it was given (io.MultiReader(..., r.source)) on every path")
	f := c.method(rule, wsutil, "prefetchResponseReader", "Read")
	if f == nil {
		return
	}
	recv := f.Params[0]
	fieldOfRecv := func(v ssa.Value, rc ssa.Value) string {
		fa, ok := v.(*ssa.FieldAddr)
		if !ok || fa.X != rc {
			return ""
		}
		st, ok := fa.X.Type().Underlying().(*types.Pointer).Elem().Underlying().(*types.Struct)
		if !ok {
			return ""
		}
		return st.Field(fa.Field).Name()
	}
	fieldOf := func(v ssa.Value) string { return fieldOfRecv(v, recv) }
	var endsInSourceIn func(v ssa.Value, rc ssa.Value, depth int) bool
	endsInSourceIn = func(v ssa.Value, rc ssa.Value, depth int) bool {
		if v == nil || depth > 10 {
			return false
		}
		switch x := v.(type) {
		case *ssa.MakeInterface:
			return endsInSourceIn(x.X, rc, depth+1)
		case *ssa.ChangeInterface:
			return endsInSourceIn(x.X, rc, depth+1)
		case *ssa.Phi:
			for _, e := range x.Edges {
				if !endsInSourceIn(e, rc, depth+1) {
					return false
				}
			}
			return len(x.Edges) > 0
		case *ssa.UnOp:
			return x.Op == token.MUL && fieldOfRecv(x.X, rc) == "source"
		case *ssa.Call:
			cal := x.Call.StaticCallee()
			if cal == nil {
				return false
			}
			if cal.String() == "io.MultiReader" && len(x.Call.Args) == 1 {
				el := variadicElems(x.Call.Args[0])
				return len(el) > 0 && endsInSourceIn(el[len(el)-1], rc, depth+1)
			}
			// a method of the same reader that builds the chain: every value it returns
			if load.InModule(cal) && cal.Blocks != nil && len(x.Call.Args) >= 1 && x.Call.Args[0] == rc && len(cal.Params) >= 1 && cal.Signature.Results().Len() == 1 {
				rets := 0
				for _, b := range cal.Blocks {
					for _, in := range b.Instrs {
						if r, ok := in.(*ssa.Return); ok {
							rets++
							if !endsInSourceIn(r.Results[0], cal.Params[0], depth+1) {
								return false
							}
						}
					}
				}
				return rets > 0
			}
		}
		return false
	}
	endsInSource := func(v ssa.Value, depth int) bool { return endsInSourceIn(v, recv, depth) }
	stores := 0
	var problems []string
	for _, b := range f.Blocks {
		for _, in := range b.Instrs {
			st, ok := in.(*ssa.Store)
			if !ok || fieldOf(st.Addr) != "reader" {
				continue
			}
			stores++
			if !endsInSource(st.Val, 0) {
				problems = append(problems, "the reader installed at "+c.P.Pos(st.Pos())+" does not end in r.source: after the prefetched bytes the handshake is told io.EOF instead of what the connection says (a poisoned deadline, a reset, more data)")
			}
		}
	}
	if stores == 0 {
		c.R.Unknown(rule, rule+"/Read", c.P.FuncPos(f), "prefetchResponseReader.Read no longer stores into its reader field: how the prefetched bytes and the connection are chained is not recognisable")
		return
	}
	c.R.Sites += stores
	c.verdict(rule, rule+"/Read", c.P.FuncPos(f), uniq(problems), fmt.Sprintf("%d store(s) into r.reader, each an io.MultiReader ending in r.source", stores))
}
