package rules

import (
	"fmt"
	"go/token"
	"go/types"
	"sort"
	"strings"

	"golang.org/x/tools/go/ssa"

	"verif/wscheck/internal/fold"
	"verif/wscheck/internal/load"
)

func init() {
	register(&Property{
		ID:        "C15",
		Explain:   "Obligations at every construct that can panic, hang or allocate on peer input, in every function reachable (CHA call graph) from the decoding entry points. (1) Bounds: the Go compiler's own prove pass is asked (go build -gcflags=-d=ssa/check_bce/debug=1: compiles, never runs) which index/slice expressions it cannot prove; every such site in a reachable function must be in the reviewed table, keyed by function + expression text with the guard that makes it safe, or be decided by one of the byte-exact folds (header decoders, close body, handlers, Cipher, tail buffer); a new unproven expression is reported. (2) Explicit panics: each panic instruction in a reachable function is either proven dead by a fold (the 'unknown headers state' arms, the accept-buffer size checks) or listed with the reason it cannot be reached from peer input. (3) The announced length never sizes an allocation without a bound: folds of the handlers, ReadFrame and ReadMessage record every allocation whose size depends on Header.Length. (4) MaxFrameSize gate before payload access (fold shared with C05). (5) Progress: every loop in a reachable function is a range/counted loop with a monotone induction variable tested by the loop condition, or consumes input and exits on its error, or is in the reviewed table with its variant. (6) Results of bytes/strings.Index* are compared with -1 before they are used as bounds; type assertions on peer-influenced values use the comma-ok form. Thorough tier, GOARCH=386: conversions of the 63-bit announced length to a 32-bit int. NOT decided: memory and time inside compress/flate and httphead; growth of ReadAll-style helpers (bounded by bytes actually received). The handshake decision tables (they guard the size assertions of the accept computation), the flate Reader.Reset rule (a ByteReader view on a source that has none panics) and the handler folds are part of this check. head-end-index (C11) is part of this check. A bounds site that no table entry and no fold of a caller decides is given a total fold of its own function over unconstrained arguments (any integer, any slice length and content, opaque callees); it is accepted only if in range on every path and no path was aborted. error-guarded-results: a pointer returned together with an error by a call outside the module is dereferenced only on the err == nil side of a test of that error. prefetch-length-measured: the body length DebugDialer.Dial slices with is a count io.Copy returned. Module functions that return -1 for 'not found' (headEndIndex) are treated like bytes.Index: no arithmetic or bound before the -1 test. The debugging wrappers belong to the functions that see peer input. The dialer decision table runs here too: a response line without a colon must not reach the deferred clean-up with a nil reader. reader-discard runs here: Discard's loop ends on every script (a dropped NextFrame error makes it spin on a stream that has ended).",
		Technique: "static analysis: compiler bounds-check-elimination report + reviewed-site table, call-graph reachability, loop classification on go/ssa, abstract-interpretation folds for allocation sizes",
		Trusted:   []string{"the Go compiler's prove pass (sound for the checks it removes)", "go/ssa + go/types + CHA call graph", "the checker's abstract evaluator"},
		Run:       runC15,
	})
}

func runC15(c *Ctx) {
	c15Panics(c)
	c15Alloc(c)
	readerNextFrameRules(c, "C15")
	c15Loops(c)
	c15IndexResults(c)
	c15TypeAsserts(c)
	parserHelperRules(c, "C15")
	// folds that decide index expressions the table only reviews
	c12Suffixed(c)
	c07Read(c)
	c07DFA(c) // executes the table index of the step function for every reachable state x byte
	readerReadRules(c, "C15")
	// Discard's loop ends on every script: an iteration fails or advances to the next frame (a
	// dropped NextFrame error makes it spin on a stream that has ended)
	readerDiscardRules(c, "C15")
	readLineRules(c, "C15")
	c03ParseClose(c)
	c03CloseBody(c)
	controlWriterRules(c, "C15")
	c18Flate(c)
	// the handshakes guard the size assertions of the accept computation
	httpUpgraderRules(c, "C15")
	httpGetHeaderRules(c, "C15")
	serverUpgraderRules(c, "C15")
	dialerUpgradeRules(c, "C15") // the response is peer input as well (nil reader in the clean-up, header loop)
	// other folds of functions with reviewed sites
	c02Cipher(c)
	c12Cbuf(c)
	writerGrowRules(c, "C15")
	c11HeadEnd(c)
	c15PrefetchMeasured(c)
	c15ErrorGuarded(c)
	writerFlushFragmentRules(c, "C15")
	// last: the bounds rule uses what every fold above established about the sites it executed
	c15Bounds(c)
}

// reviewedBounds: function + expression -> why the access is in range. The
// entry is re-confirmed on every run only in the sense that it must still name
// an existing unproven site; the reason was established by reading the code.
var reviewedBounds = map[string]string{
	// Keys are function + expression with local variables renamed v1, v2, ... in
	// order of appearance (so renaming a local does not invalidate an entry).
	// ws: header decoding (also decided byte-exactly by the C01 folds)
	"ws.ReadHeader: v1[:v2]":               "extra is one of 2,4,6,8,10,12 <= cap(bts)=12 (C01 fold enumerates all first-two-byte values)",
	"ws.ReadHeader: v1[:2]":                "length==126 => extra >= 2 bytes were read",
	"ws.ReadHeader: v1[2:]":                "same",
	"ws.ReadHeader: v1[:8]":                "length==127 => extra >= 8",
	"ws.ReadHeader: v1[8:]":                "same",
	"ws.ReadHeader: v1[0]":                 "length==127 => extra >= 8",
	"wsutil.(*Reader).readHeader: v1[:v2]": "extra <= 12 = len(r.tmp) (C01 fold)",
	"wsutil.(*Reader).readHeader: v1[:2]":  "length==126 => extra >= 2",
	"wsutil.(*Reader).readHeader: v1[2:]":  "same",
	"wsutil.(*Reader).readHeader: v1[:8]":  "length==127 => extra >= 8",
	"wsutil.(*Reader).readHeader: v1[8:]":  "same",
	"wsutil.(*Reader).readHeader: v1[0]":   "length==127 => extra >= 8",
	// ws: masking (the C02 fold decides every index for lengths 0..72, all offsets)
	"ws.Cipher: v1[v2]":        "i < n = len(payload) (loop bound); head loop i < ln <= 3 < 8 <= n; tail loop n-rn <= i < n",
	"ws.Cipher: v1[(v2+v3)%4]": "x%4 in 0..3 for non-negative x; offset is a non-negative stream position",
	"ws.Cipher: remain[v1]":    "mpos = offset%4 in 0..3 for non-negative offset",
	"ws.Cipher: v1[v2:v2+16]":  "j = ln+16*i, i < (n-ln-rn)/16 => j+16 <= n-rn (C02 fold)",
	"ws.Cipher: v1[8:]":        "len(chunk) == 16",
	// ws: http parsing helpers (the parse-helpers folds decide all separator positions for short inputs)
	"ws.bsplit3: v1[v2+1:]":                "a >= -1 and a < len(bts) (IndexByte result) => 0 <= a+1 <= len(bts)",
	"ws.bsplit3: v1[:v2]":                  "reached only when a != -1 => 0 <= a < len(bts)",
	"ws.bsplit3: v1[v2+1:v3]":              "reached only when a != -1 and b != -1: b = a+1+IndexByte(bts[a+1:]) => a+1 <= b < len(bts)",
	"ws.bsplit3: v1[v2+1:]#2":              "b < len(bts)",
	"ws.btrim: v1[v2]":                     "guarded by i < len(bts) in the loop condition",
	"ws.btrim: v1[v2-1]":                   "guarded by j > i >= 0",
	"ws.btrim: v1[v2:v3]":                  "0 <= i <= j <= len(bts) by the two loops",
	"ws.canonicalizeHeaderKey: v1[v2]":     "i ranges over k",
	"ws.httpParseVersion: v1[:5]":          "reached only when len(bts) >= 8 (the case before returns otherwise)",
	"ws.httpParseVersion: v1[5:]":          "reached only when len(bts) >= 8",
	"ws.httpParseVersion: v1[:v2]":         "dot != -1 => 0 <= dot < len(bts)",
	"ws.httpParseVersion: v1[v2+1:]":       "dot != -1 => dot < len(bts)",
	"ws.httpParseHeaderLine: v1[:v2]":      "colon != -1 => 0 <= colon < len(line)",
	"ws.httpParseHeaderLine: v1[v2+1:]":    "colon != -1 => colon < len(line)",
	"ws.asciiToInt: v1[v2]":                "i < n = len(bts) (loop bound)",
	"ws.readLine: v1[v2-2]":                "guarded by n > 1",
	"ws.readLine: v1[:v2-2]":               "guarded by n > 1",
	"ws.readLine: v1[:v2-1]":               "n >= 1: ReadSlice returned without error, so the line ends in the delimiter",
	"ws.hostport: v1[:v2]":                 "colon > bracket >= -1 => colon >= 0 and < len(host)",
	"ws.ParseCloseFrameData: v1[2:]":       "guarded by len(payload) >= 2 (C03 fold)",
	"ws.ParseCloseFrameDataUnsafe: v1[2:]": "guarded by len(payload) >= 2",
	"ws.NewCloseFrameBody: v1[:v2]":        "crop = min(123, len(reason)) (C03 fold)",
	"ws.PutCloseFrameBody: v1[1+len(v2)]":  "explicit bounds assertion, documented to panic on a short buffer; callers inside the module size p from len(reason) (C03 fold)",
	"ws.PutCloseFrameBody: v1[2:]":         "after the assertion above len(p) >= 2",
	"ws.PutCloseFrameBody: inlined (encoding/binary.bigEndian).PutUint16 at binary.BigEndian.PutUint16(...)": "after the assertion p[1+len(reason)] the buffer has at least 2 bytes",
	"ws.WriteHeader: v1[v2:]": "n in {2,4,10} <= 14 = len(bts) (C01 fold)",
	"ws.WriteHeader: v1[:v2]": "n in {2,4,10} (+4) <= 14 = len(bts) (C01 fold)",
	// wsflate
	"wsflate.(*cbuf).Write: v1.buf[:v2]":                    "x = n - 4 with n = c.n + len(tail) <= 8 => 0 < x <= 4 and x <= c.n (C12 fold decides all fill levels)",
	"wsflate.(*cbuf).Write: v1.buf[v2:]":                    "same",
	"wsflate.(*cbuf).Write: v1.buf[v1.n:]":                  "0 <= c.n <= 4 is the struct invariant kept by Write (C12 fold)",
	"wsflate.(*suffixedReader).Read: v1.suffix[v1.pos:]":    "guarded by r.pos < len(r.suffix); pos only grows by copy counts (C12 fold)",
	"wsflate.(*suffixedReader).ReadByte: v1.suffix[v1.pos]": "guarded by r.pos < len(r.suffix)",
	"wsflate.setBits: windowBits[v1-8]":                     "guarded by isValidBits(bits): 8 <= bits <= 15",
	"wsflate.init: windowBits[v1]":                          "i ranges over windowBits",
	// wsutil: reader / handlers / utf8
	"wsutil.(*CipherReader).Read: v1[:v2]":                "n is the count returned by the source for p, 0 <= n <= len(p) by the io.Reader contract",
	"wsutil.(*UTF8Reader).Read: v1[v2]":                   "i < n <= len(p) by the io.Reader contract (loop bound)",
	"wsutil.decode: utf8d[v1]":                            "b is a byte, len(utf8d) = 364 (C07 fold)",
	"wsutil.decode: utf8d[256+v1+v2]":                     "state in {0,12,..,96}, t <= 11 => index <= 363 (C07 fold evaluates every reachable state x byte)",
	"wsutil.(ControlHandler).HandleClose: v1[:v2.Length]": "len(p) = Length + header size and 0 < Length <= 125 (C08 fold)",
	"wsutil.(ControlHandler).HandleClose: v1[:2]":         "len(p) >= 1 + 2 (C08 fold)",
	// wsutil writer: reachable because the handlers answer through a ControlWriter; every size is the library's own
	"wsutil.(*Writer).Grow: v1[v2-v3:]":                  "nextOffset >= prevOffset (reserve is monotone in the size) and p has size >= nextOffset bytes",
	"wsutil.(*Writer).Grow: v1.raw[:v2+v3]":              "prevOffset+buffered <= len(w.raw): buffered <= len(w.buf) = len(w.raw)-prevOffset",
	"wsutil.(*Writer).Grow: v1.raw[v2:]":                 "size > nextOffset by the loop that computed them",
	"wsutil.(*Writer).Write: v1[v2:]":                    "nn is a copy count or the length WriteThrough accepted, 0 <= nn <= len(p) (C06 fold: accounting)",
	"wsutil.(*Writer).Write: v1.buf[v1.n:]":              "0 <= w.n <= len(w.buf): n only grows by copy counts into w.buf[w.n:] and is reset to 0",
	"wsutil.(*Writer).flushFragment: v1.buf[:v1.n]":      "same invariant",
	"wsutil.(*Writer).flushFragment: v1.raw[v2:v3+v1.n]": "0 <= skip = offset - HeaderSize <= offset (C06 reservation rule) and offset+n <= len(raw)",
	"wsutil.(*Writer).flushFragment: v1.raw[v2:v3]":      "same",
	"wsutil.(*Writer).initBuf: v1.raw[v2:]":              "guarded by the panic on len(w.raw) <= offset just above",
	"wsutil.(*bytesWriter).Write: v1.buf[v1.pos:]":       "pos only grows by copy counts into buf[pos:]",
	"wsutil.NewControlWriterBuffer: v1[:v2]":             "guarded by len(buf) > max",
	// the debugging dialer slices the sniffed copy of the handshake response
	"wsutil.(*DebugDialer).Dial: v1[:v2]": "guarded by the clamp n > len(p); n >= 0 because h is in 0..len(p) (head-end-index fold, -1 replaced by len(p)) and the body length added to it is the count io.Copy returned (C15.prefetch-length-measured), never a length the peer announced",
	"wsutil.(*DebugDialer).Dial: v1[v2:]": "guarded by h != -1 (replaced by len(p)): headEndIndex returns -1 or an index <= len(p) (head-end-index fold)",
}

func c15Bounds(c *Ctx) {
	const rule = "C15.bounds"
	c.R.Rule(rule, 30, "every index/slice expression the compiler cannot prove, in a function reachable from peer input, is reviewed")
	sites, err := c.compilerUnprovenBounds()
	if err != nil {
		c.R.Unknown(rule, rule+"/compiler-report", "-", err.Error())
		return
	}
	// the total folds of the header codec decide their own sites
	if c.headerLayoutOK("C01.anchor") {
		c01Encoder(c)
		c01Decoder(c, "C01.decode-table", c.fn("C01.decode-table", ws, "ReadHeader"), false)
		c01Decoder(c, "C01.decode-table", c.method("C01.decode-table", wsutil, "Reader", "readHeader"), true)
	}
	reach := c.reachableFromPeerInput()
	c.R.Note("compiler reports %d unproven bounds checks in the three packages; %d functions are reachable from the decoding entry points", len(sites), len(reach))
	seen := map[string]bool{}
	inReach, outReach, byFold, byBounded, byAuto := 0, 0, 0, 0, 0
	for _, s := range sites {
		if !reach[s.Func] {
			outReach++
			continue
		}
		inReach++
		k := s.Key()
		if seen[k] {
			continue
		}
		seen[k] = true
		pos := fmt.Sprintf("%s:%d", s.File, s.Line)
		if s.Callee != "" {
			switch {
			case strings.Contains(s.Callee, "github.com/gobwas/ws"):
				continue // body of an in-module callee: reported (and judged) at its own definition
			case strings.HasPrefix(s.Callee, "(encoding/binary."):
				// indexes our argument: needs a guard, falls through to the table
			default:
				c.R.OK(rule, rule+"/"+k, pos, "internal invariant of "+s.Callee+" (not an index into a value of ours)")
				continue
			}
		}
		if why, ok := c.decidedByFold(s); ok {
			c.R.OK(rule, rule+"/"+k, pos, why)
			byFold++
			continue
		}
		why, ok := reviewedBounds[k]
		if !ok && s.Callee == "" {
			// a helper split out of a reviewed function inherits its caller's entries
			for _, o := range c.ownerChain(s.Func)[1:] {
				if w, has := reviewedBounds[o+": "+s.Expr]; has {
					why, ok = w+" (site moved into helper "+s.Func+", whose only caller is "+o+")", true
					break
				}
			}
		}
		if ok {
			if strings.Contains(why, "guarded by") || strings.Contains(why, "reached only when") || strings.Contains(why, "loop") || strings.Contains(why, "!= -1") || strings.Contains(why, "ranges over") {
				if g, found := c.siteHasDominatingGuard(s); found && !g {
					c.R.Fail(rule, rule+"/"+k, pos, "reviewed site `"+s.Expr+"` in "+s.Func+" relied on a guard ("+why+") but no branch on its index operands dominates it any more")
					continue
				}
			}
			c.R.OK(rule, rule+"/"+k, pos, "reviewed: "+why)
		} else if why, ok := c.decidedByBoundedFold(s); ok {
			c.R.OK(rule, rule+"/"+k, pos, why)
			byBounded++
		} else if why, ok := c.autoFoldDecides(s); ok {
			c.R.OK(rule, rule+"/"+k, pos, why)
			byAuto++
		} else {
			c.R.Fail(rule, rule+"/"+k, pos, "index/slice expression `"+s.Expr+"` in "+s.Func+" is reachable from peer input, is not proven in range by the compiler, is not in the reviewed table and is not decided by a fold of its function")
		}
	}
	c.R.Sites += len(sites)
	c.R.Sample(map[string]any{"rule": rule, "compiler_unproven_sites": len(sites), "in_peer_reachable_functions": inReach, "outside": outReach, "decided_by_total_fold": byFold, "decided_by_bounded_fold": byBounded, "decided_by_unconstrained_fold": byAuto})
}

// reviewedPanics: function -> why its explicit panic cannot be triggered by peer input.
var reviewedPanics = map[string]string{
	"ws.(Upgrader).Upgrade":              "'unknown headers state': proven dead by the C09 fold (no path of the decision table ends in it)",
	"ws.(Dialer).Upgrade":                "'unknown headers state': proven dead by the C10 fold",
	"ws.initAcceptFromNonce":             "buffer sizes are constants at both callers (24-byte nonce copy, 28-byte accept), checked by the accept fold",
	"ws.initNonce":                       "math/rand.Read never fails",
	"ws.MustReadFrame":                   "Must* helper: panics by contract, never called by the library",
	"ws.MustWriteFrame":                  "Must* helper",
	"ws.MustCompileFrame":                "Must* helper; the library calls it only on constant frames at init",
	"wsutil.(*Writer).initBuf":           "buffer too small for a header: configuration error of the caller, sizes in the library are constants (C08 constructor fold)",
	"wsutil.(*Writer).Grow":              "'buffer grow leads to its reduce': arithmetic impossibility, not input dependent",
	"wsutil.(*Writer).flushFragment":     "WriteHeader into the reserved space cannot fail (C06 reservation rule)",
	"wsflate.(*suffixedReader).ReadByte": "internal misuse guard: iface() exposes ReadByte only for ByteReader sources",
	"wsflate.setBits":                    "configuration value outside 8..15: set by the application, not the peer",
	"ws.PutCloseFrameBody":               "documented: panics on a buffer that is too small; library callers size the buffer first (C03 fold)",
}

func c15Panics(c *Ctx) {
	const rule = "C15.explicit-panics"
	c.R.Rule(rule, 10, "every explicit panic is unreachable from peer input or proven dead")
	n := 0
	for _, fn := range c.P.AllModuleFuncs() {
		name := astFuncName(fn)
		count := 0
		var pos token.Pos
		for _, b := range fn.Blocks {
			for _, in := range b.Instrs {
				if p, ok := in.(*ssa.Panic); ok {
					if k, isConst := p.X.(*ssa.MakeInterface); isConst {
						if cs, ok := k.X.(*ssa.Const); ok && cs.Value != nil && strings.Contains(cs.Value.String(), "blocking select matched no case") {
							continue // synthetic: unreachable arm of a blocking select
						}
					}
					count++
					pos = p.Pos()
				}
			}
		}
		if count == 0 {
			continue
		}
		n += count
		key := rule + "/" + name
		why, ok := reviewedPanics[name]
		if !ok {
			for _, o := range c.ownerChain(name)[1:] {
				if w, has := reviewedPanics[o]; has {
					why, ok = w+" (moved into helper "+name+", whose only caller is "+o+")", true
					key = rule + "/" + o
					break
				}
			}
		}
		if ok {
			c.R.OK(rule, key, c.P.Pos(pos), fmt.Sprintf("%d panic site(s), reviewed: %s", count, why))
		} else {
			c.R.Fail(rule, key, c.P.Pos(pos), fmt.Sprintf("%s contains %d explicit panic(s) that are not in the reviewed table: a panic reachable from network input takes the process down", name, count))
		}
	}
	c.R.Sites += n
}

func c15Alloc(c *Ctx) {
	// allocation sized by the announced length: the handlers are folded by the C08 rules
	handlerRules(c, "C15")
	// ReadFrame / ReadMessage allocate Header.Length bytes by design; record them
	const rule = "C15.alloc-by-announced-length"
	c.R.Rule(rule, 2, "no allocation is sized by an announced length without a bound")
	for _, fn := range c.P.AllModuleFuncs() {
		for _, b := range fn.Blocks {
			for _, in := range b.Instrs {
				ms, ok := in.(*ssa.MakeSlice)
				if !ok {
					continue
				}
				if _, isConst := ms.Len.(*ssa.Const); isConst {
					continue
				}
				// does the size derive from a Header.Length field?
				if !derivesFromHeaderLength(ms.Len, 0) {
					continue
				}
				chain := c.ownerChain(astFuncName(fn))
				key := rule + "/" + chain[len(chain)-1]
				if boundedBy(ms.Len, b) {
					c.R.OK(rule, key, c.P.Pos(ms.Pos()), "size is compared with a limit before the allocation")
				} else {
					c.R.Fail(rule, key, c.P.Pos(ms.Pos()), "make([]byte, Header.Length) without an upper bound: a 10-byte header announcing 2^62 bytes panics with 'makeslice: len out of range' (and smaller values allocate whatever the peer asks for)")
				}
			}
		}
	}
}

func derivesFromHeaderLength(v ssa.Value, depth int) bool {
	if depth > 8 {
		return false
	}
	switch x := v.(type) {
	case *ssa.Field:
		if st, ok := x.X.Type().Underlying().(*types.Struct); ok && st.Field(x.Field).Name() == "Length" && strings.HasSuffix(x.X.Type().String(), "ws.Header") {
			return true
		}
		return derivesFromHeaderLength(x.X, depth+1)
	case *ssa.UnOp:
		return derivesFromHeaderLength(x.X, depth+1)
	case *ssa.FieldAddr:
		if st, ok := x.X.Type().Underlying().(*types.Pointer).Elem().Underlying().(*types.Struct); ok && st.Field(x.Field).Name() == "Length" && strings.HasSuffix(x.X.Type().Underlying().(*types.Pointer).Elem().String(), "ws.Header") {
			return true
		}
		return derivesFromHeaderLength(x.X, depth+1)
	case *ssa.Convert:
		return derivesFromHeaderLength(x.X, depth+1)
	case *ssa.BinOp:
		return derivesFromHeaderLength(x.X, depth+1) || derivesFromHeaderLength(x.Y, depth+1)
	case *ssa.Phi:
		for _, e := range x.Edges {
			if derivesFromHeaderLength(e, depth+1) {
				return true
			}
		}
	}
	return false
}

// boundedBy reports whether block b is dominated by a branch that compares a
// value derived from the same Header.Length with something (an upper bound).
func boundedBy(v ssa.Value, b *ssa.BasicBlock) bool {
	for d := b.Idom(); d != nil; d = d.Idom() {
		if len(d.Instrs) == 0 {
			continue
		}
		iff, ok := d.Instrs[len(d.Instrs)-1].(*ssa.If)
		if !ok {
			continue
		}
		cmp, ok := iff.Cond.(*ssa.BinOp)
		if !ok {
			continue
		}
		switch cmp.Op {
		case token.GTR, token.GEQ, token.LSS, token.LEQ:
			if (derivesFromHeaderLength(cmp.X, 0) || derivesFromHeaderLength(cmp.Y, 0)) && !isZeroConst(cmp.X) && !isZeroConst(cmp.Y) {
				return true
			}
		}
	}
	return false
}

func isZeroConst(v ssa.Value) bool {
	k, ok := v.(*ssa.Const)
	return ok && k.Value != nil && k.Value.String() == "0"
}

// reviewedLoops: loops that are neither counted nor input-consuming.
var reviewedLoops = map[string]string{
	"wsutil.(*Writer).Write":       "each iteration either grows the buffer so that the condition becomes false, or consumes nn > 0 bytes of p (copy into a non-full buffer / WriteThrough of all of p), or sets w.err",
	"wsutil.(*Writer).Grow":        "size strictly grows (documented in the loop); at most two iterations",
	"wsutil.(*Writer).ReadFrom":    "outer loop: each iteration reads from src or flushes/grows a full buffer; inner loop bounded by maxEmptyReads",
	"wsutil.(*Reader).Discard":     "each iteration drains a frame and advances to the next one with NextFrame; exits on its error or at the final frame",
	"wsutil.readData":              "each iteration consumes a whole frame (NextFrame) and exits on its error",
	"ws.readLine":                  "each iteration consumes from the bufio.Reader (ReadSlice) and exits on every error but ErrBufferFull, which implies progress",
	"ws.(Upgrader).Upgrade":        "header loop: each iteration consumes one line (readLine) and exits on its error or on the blank line (C09 fold: never reads past it)",
	"ws.(Dialer).Upgrade":          "header loop: same (C10 fold)",
	"ws.btrim":                     "two counted loops whose increment is in the body",
	"ws.(HTTPUpgrader).Upgrade":    "counted loops over the request's header values",
	"ws.(handshakeHeader).WriteTo": "counted loop over a 2-element array",
}

func reviewedLoopFor(c *Ctx, name string) (string, bool) {
	for i, o := range c.ownerChain(name) {
		if w, ok := reviewedLoops[o]; ok {
			if i > 0 {
				w += " (loop moved into helper " + name + ", whose only caller is " + o + ")"
			}
			return w, true
		}
	}
	return "", false
}

func c15Loops(c *Ctx) {
	const rule = "C15.loop-progress"
	c.R.Rule(rule, 10, "every loop reachable from peer input has a recognised progress argument")
	reach := c.reachableFromPeerInput()
	n := 0
	for _, fn := range c.P.AllModuleFuncs() {
		name := astFuncName(fn)
		if !reach[name] {
			continue
		}
		loops := naturalLoops(fn)
		if len(loops) == 0 {
			continue
		}
		var unknown []string
		kinds := map[string]int{}
		for _, lp := range loops {
			k := classifyLoop(lp)
			kinds[k]++
			if k == "unknown" {
				unknown = append(unknown, c.P.Pos(firstPos(lp.header)))
			}
		}
		n += len(loops)
		key := rule + "/" + name
		var ks []string
		for k, v := range kinds {
			ks = append(ks, fmt.Sprintf("%d %s", v, k))
		}
		sort.Strings(ks)
		pos := c.P.FuncPos(fn)
		if len(unknown) == 0 {
			c.R.OK(rule, key, pos, strings.Join(ks, ", "))
		} else if why, ok := reviewedLoopFor(c, name); ok {
			c.R.OK(rule, key, pos, strings.Join(ks, ", ")+"; reviewed: "+why)
		} else {
			c.R.Fail(rule, key, pos, fmt.Sprintf("loop at %s has no recognised progress argument (not a range or counted loop, not in the reviewed table): a peer could keep it spinning", strings.Join(unknown, ", ")))
		}
	}
	c.R.Sites += n
}

type loopInfo struct {
	header *ssa.BasicBlock
	body   map[*ssa.BasicBlock]bool
}

func naturalLoops(fn *ssa.Function) []loopInfo {
	var out []loopInfo
	byHeader := map[*ssa.BasicBlock]*loopInfo{}
	for _, b := range fn.Blocks {
		for _, s := range b.Succs {
			if s.Dominates(b) { // back edge b -> s
				li := byHeader[s]
				if li == nil {
					li = &loopInfo{header: s, body: map[*ssa.BasicBlock]bool{s: true}}
					byHeader[s] = li
				}
				// collect body: nodes that reach b without passing s
				stack := []*ssa.BasicBlock{b}
				for len(stack) > 0 {
					x := stack[len(stack)-1]
					stack = stack[:len(stack)-1]
					if li.body[x] {
						continue
					}
					li.body[x] = true
					stack = append(stack, x.Preds...)
				}
			}
		}
	}
	for _, b := range fn.Blocks {
		if li := byHeader[b]; li != nil {
			out = append(out, *li)
		}
	}
	return out
}

func firstPos(b *ssa.BasicBlock) token.Pos {
	for _, in := range b.Instrs {
		if in.Pos().IsValid() {
			return in.Pos()
		}
	}
	for _, s := range b.Succs {
		for _, in := range s.Instrs {
			if in.Pos().IsValid() {
				return in.Pos()
			}
		}
	}
	return token.NoPos
}

// classifyLoop recognises range loops and counted loops: a phi in the header
// updated by +/- a constant (or a shift) on the back edge, and an exit
// condition inside the loop that depends on that phi.
func classifyLoop(lp loopInfo) string {
	for _, b := range sortedBlocks(lp.body) {
		for _, in := range b.Instrs {
			if _, ok := in.(*ssa.Next); ok {
				return "range"
			}
		}
	}
	// a slice consumed from the front: the header phi is re-sliced on the back edge with a positive
	// constant low bound (s = s[k:]) and an exit test in the loop looks at len(s)
	for _, in := range lp.header.Instrs {
		phi, ok := in.(*ssa.Phi)
		if !ok {
			continue
		}
		if _, isSlice := phi.Type().Underlying().(*types.Slice); !isSlice {
			continue
		}
		shrinks := false
		for i, e := range phi.Edges {
			if !lp.body[lp.header.Preds[i]] {
				continue
			}
			sl, ok := e.(*ssa.Slice)
			if !ok || sl.X != ssa.Value(phi) || sl.High != nil {
				shrinks = false
				break
			}
			k, ok := sl.Low.(*ssa.Const)
			if !ok || k.Value == nil || k.Int64() <= 0 {
				shrinks = false
				break
			}
			shrinks = true
		}
		if !shrinks {
			continue
		}
		for _, b := range sortedBlocks(lp.body) {
			if len(b.Instrs) == 0 {
				continue
			}
			iff, ok := b.Instrs[len(b.Instrs)-1].(*ssa.If)
			if !ok {
				continue
			}
			exits := false
			for _, s := range b.Succs {
				if !lp.body[s] {
					exits = true
				}
			}
			if exits && lenOfDependsOn(iff.Cond, phi, 0) {
				return "shrinking-slice"
			}
		}
	}
	for _, in := range lp.header.Instrs {
		phi, ok := in.(*ssa.Phi)
		if !ok {
			continue
		}
		monotone := false
		for i, e := range phi.Edges {
			if !lp.body[lp.header.Preds[i]] {
				continue // entry edge
			}
			bo, ok := e.(*ssa.BinOp)
			if !ok {
				monotone = false
				break
			}
			_, constY := bo.Y.(*ssa.Const)
			switch bo.Op {
			case token.ADD, token.SUB, token.SHR, token.SHL:
				if bo.X == ssa.Value(phi) && constY {
					monotone = true
					continue
				}
			}
			monotone = false
			break
		}
		if !monotone {
			continue
		}
		// some exit test in the loop depends on phi
		for _, b := range sortedBlocks(lp.body) {
			if len(b.Instrs) == 0 {
				continue
			}
			iff, ok := b.Instrs[len(b.Instrs)-1].(*ssa.If)
			if !ok {
				continue
			}
			exits := false
			for _, s := range b.Succs {
				if !lp.body[s] {
					exits = true
				}
			}
			if exits && dependsOn(iff.Cond, phi, 0) {
				return "counted"
			}
		}
	}
	return "unknown"
}

func sortedBlocks(m map[*ssa.BasicBlock]bool) []*ssa.BasicBlock {
	var out []*ssa.BasicBlock
	for b := range m {
		out = append(out, b)
	}
	sort.Slice(out, func(i, j int) bool { return out[i].Index < out[j].Index })
	return out
}

func dependsOn(v ssa.Value, target ssa.Value, depth int) bool {
	if v == target {
		return true
	}
	if depth > 6 {
		return false
	}
	switch x := v.(type) {
	case *ssa.BinOp:
		return dependsOn(x.X, target, depth+1) || dependsOn(x.Y, target, depth+1)
	case *ssa.UnOp:
		return dependsOn(x.X, target, depth+1)
	case *ssa.Convert:
		return dependsOn(x.X, target, depth+1)
	case *ssa.Phi:
		for _, e := range x.Edges {
			if e != v && dependsOn(e, target, depth+1) {
				return true
			}
		}
	}
	return false
}

// reviewedIndexUses: Index* results used in arithmetic before the -1 test.
var reviewedIndexUses = map[string]string{
	"ws.bsplit3":  "a+1 is 0 when a is -1, so bts[a+1:] is the whole slice; both results are tested before any other use",
	"ws.hostport": "the two results are only compared with each other; colon > bracket implies colon >= 0",
}

func c15IndexResults(c *Ctx) { indexResultRules(c, "C15") }

// indexResultRules: the -1 of bytes/strings.Index* must be tested before the
// result is used as a slice bound or in arithmetic.
func indexResultRules(c *Ctx, prop string) {
	rule := prop + ".index-result-checked"
	c.R.Rule(rule, 5, "results of bytes/strings.Index* are compared with -1 before they are used as bounds or in arithmetic")
	isIndexFn := func(f *ssa.Function) bool {
		if f == nil || f.Package() == nil {
			return false
		}
		p := f.Package().Pkg.Path()
		if (p == "bytes" || p == "strings") && (strings.HasPrefix(f.Name(), "Index") || strings.HasPrefix(f.Name(), "LastIndex")) {
			return true
		}
		// a search function of the module itself (an "...Index" by its frozen name): one int result, -1 on some path (headEndIndex)
		if load.InModule(f) && f.Blocks != nil && f.Signature.Results().Len() == 1 && strings.Contains(strings.ToLower(fold.CanonFuncName(f)), "index") {
			if b, ok := f.Signature.Results().At(0).Type().Underlying().(*types.Basic); ok && b.Kind() == types.Int {
				for _, bl := range f.Blocks {
					for _, in := range bl.Instrs {
						if ret, ok := in.(*ssa.Return); ok && len(ret.Results) == 1 {
							if k, ok := ret.Results[0].(*ssa.Const); ok && k.Value != nil && k.Int64() == -1 {
								return true
							}
						}
					}
				}
			}
		}
		return false
	}
	n := 0
	for _, fn := range c.P.AllModuleFuncs() {
		for _, b := range fn.Blocks {
			for _, in := range b.Instrs {
				call, ok := in.(*ssa.Call)
				if !ok || !isIndexFn(call.Call.StaticCallee()) {
					continue
				}
				n++
				name := astFuncName(fn)
				key := fmt.Sprintf("%s/%s:%s", rule, name, call.Call.StaticCallee().Name())
				var bad []string
				for _, r := range *call.Referrers() {
					switch u := r.(type) {
					case *ssa.DebugRef:
					case *ssa.BinOp:
						switch u.Op {
						case token.EQL, token.NEQ, token.LSS, token.LEQ, token.GTR, token.GEQ:
							continue
						}
						if !guardedByTest(call, u.Block()) {
							bad = append(bad, "arithmetic at "+c.P.Pos(u.Pos()))
						}
					case *ssa.Slice, *ssa.IndexAddr:
						if !guardedByTest(call, r.Block()) {
							bad = append(bad, "bound at "+c.P.Pos(r.Pos()))
						}
					case *ssa.Phi, *ssa.Store, *ssa.Return, *ssa.Call, *ssa.Convert, *ssa.MakeInterface, *ssa.Extract:
						if !guardedByTest(call, r.Block()) {
							bad = append(bad, fmt.Sprintf("%T at %s", u, c.P.Pos(r.Pos())))
						}
					}
				}
				if len(bad) == 0 {
					c.R.OK(rule, key, c.P.Pos(call.Pos()), "tested before use")
				} else if why, ok := reviewedIndexUses[name]; ok {
					c.R.OK(rule, key, c.P.Pos(call.Pos()), "reviewed: "+why)
				} else {
					c.R.Fail(rule, key, c.P.Pos(call.Pos()), "the result of "+call.Call.StaticCallee().Name()+" is used without the -1 test ("+strings.Join(bad, "; ")+"): when the separator is absent this is a wrong offset or a slice-bounds panic")
				}
			}
		}
	}
	c.R.Sites += n
}

// guardedByTest: block b is dominated by a successor of a branch on a
// comparison involving v.
func guardedByTest(v ssa.Value, b *ssa.BasicBlock) bool {
	for d := b; d != nil; d = d.Idom() {
		id := d.Idom()
		if id == nil || len(id.Instrs) == 0 {
			continue
		}
		iff, ok := id.Instrs[len(id.Instrs)-1].(*ssa.If)
		if !ok {
			continue
		}
		if cmp, ok := iff.Cond.(*ssa.BinOp); ok && (cmp.X == v || cmp.Y == v) {
			return true
		}
		// short-circuit conditions lower to phis of comparisons
		if dependsOnCmp(iff.Cond, v, 0) {
			return true
		}
	}
	return false
}

func dependsOnCmp(c ssa.Value, v ssa.Value, depth int) bool {
	if depth > 4 {
		return false
	}
	switch x := c.(type) {
	case *ssa.BinOp:
		return x.X == v || x.Y == v
	case *ssa.Phi:
		for _, e := range x.Edges {
			if dependsOnCmp(e, v, depth+1) {
				return true
			}
		}
	case *ssa.UnOp:
		return dependsOnCmp(x.X, v, depth+1)
	}
	return false
}

func c15TypeAsserts(c *Ctx) {
	const rule = "C15.type-assertions"
	c.R.Rule(rule, 3, "type assertions in functions reachable from peer input use the comma-ok form (or are on pool objects the library itself stored)")
	reach := c.reachableFromPeerInput()
	n := 0
	for _, fn := range c.P.AllModuleFuncs() {
		name := astFuncName(fn)
		for _, b := range fn.Blocks {
			for _, in := range b.Instrs {
				ta, ok := in.(*ssa.TypeAssert)
				if !ok || !reach[name] {
					continue
				}
				n++
				key := fmt.Sprintf("%s/%s:%s", rule, name, types.TypeString(ta.AssertedType, func(p *types.Package) string { return p.Name() }))
				if ta.CommaOk {
					c.R.OK(rule, key, c.P.Pos(ta.Pos()), "comma-ok form")
				} else if fromSyncPool(ta.X) {
					c.R.OK(rule, key, c.P.Pos(ta.Pos()), "value taken from a sync.Pool: its dynamic type is what the library itself put there, not peer input")
				} else {
					c.R.Fail(rule, key, c.P.Pos(ta.Pos()), "unchecked type assertion in a function reachable from peer input: a value of another dynamic type panics")
				}
			}
		}
	}
	c.R.Sites += n
	_ = load.PkgWS
}

// siteHasDominatingGuard locates the SSA instruction of a compiler-reported
// site and reports whether a conditional branch on (something derived from)
// its index operands dominates it. found=false: the instruction could not be
// located (no verdict).
func (c *Ctx) siteHasDominatingGuard(s bceSite) (guarded, found bool) {
	for _, fn := range c.P.AllModuleFuncs() {
		if astFuncName(fn) != s.Func {
			continue
		}
		for _, b := range fn.Blocks {
			for _, in := range b.Instrs {
				var ops []ssa.Value
				switch x := in.(type) {
				case *ssa.IndexAddr:
					ops = []ssa.Value{x.Index}
				case *ssa.Index:
					ops = []ssa.Value{x.Index}
				case *ssa.Lookup:
					ops = []ssa.Value{x.Index}
				case *ssa.Slice:
					for _, o := range []ssa.Value{x.Low, x.High, x.Max} {
						if o != nil {
							ops = append(ops, o)
						}
					}
				default:
					continue
				}
				p := c.P.Fset.Position(in.Pos())
				if p.Line != s.Line || strings.TrimPrefix(p.Filename, c.P.Dir+"/") != s.File {
					continue
				}
				found = true
				// variables the index is computed from
				vars := map[ssa.Value]bool{}
				var collect func(v ssa.Value, d int)
				collect = func(v ssa.Value, d int) {
					if v == nil || d > 4 || vars[v] {
						return
					}
					if _, isConst := v.(*ssa.Const); isConst {
						return
					}
					vars[v] = true
					switch y := v.(type) {
					case *ssa.BinOp:
						collect(y.X, d+1)
						collect(y.Y, d+1)
					case *ssa.Convert:
						collect(y.X, d+1)
					case *ssa.UnOp:
						collect(y.X, d+1)
					case *ssa.Phi:
						for _, e := range y.Edges {
							collect(e, d+1)
						}
					}
				}
				for _, o := range ops {
					collect(o, 0)
				}
				// an operand that is the result of an in-module helper (the bounds computation was
				// moved out): guarded when the helper branches on the value it returns
				for v := range vars {
					if calleeGuardsResult(v) {
						return true, true
					}
				}
				want := map[string]bool{}
				switch x := in.(type) { // a test of len(base) guards constant bounds
				case *ssa.IndexAddr:
					if k := canonValue(x.X, 0); k != "" {
						want[k] = true
					}
				case *ssa.Slice:
					if k := canonValue(x.X, 0); k != "" {
						want[k] = true
					}
				}
				for v := range vars {
					if k := canonValue(v, 0); k != "" {
						want[k] = true
					}
				}
				for d := b; d != nil; d = d.Idom() {
					id := d.Idom()
					if id == nil || len(id.Instrs) == 0 {
						continue
					}
					iff, ok := id.Instrs[len(id.Instrs)-1].(*ssa.If)
					if !ok {
						continue
					}
					for v := range vars {
						if dependsOn(iff.Cond, v, 0) || dependsOnCmp(iff.Cond, v, 0) {
							return true, true
						}
					}
					got := map[string]bool{}
					canonSub(iff.Cond, 0, got)
					for k := range got {
						if want[k] {
							return true, true
						}
					}
				}
				// a loop header's own condition guards the body it is in
				if len(b.Instrs) > 0 {
					if iff, ok := b.Instrs[len(b.Instrs)-1].(*ssa.If); ok {
						_ = iff
					}
				}
			}
		}
	}
	return false, found
}

// canonValue renders a memory-location-insensitive name of a value: two loads
// of the same field of the same base get the same name (go/ssa does no CSE).
func canonValue(v ssa.Value, d int) string {
	if d > 6 {
		return ""
	}
	switch x := v.(type) {
	case *ssa.Parameter:
		return x.Name()
	case *ssa.FreeVar:
		return x.Name()
	case *ssa.Global:
		return x.Name()
	case *ssa.FieldAddr:
		return canonValue(x.X, d+1) + "." + fmt.Sprint(x.Field)
	case *ssa.UnOp:
		if x.Op == token.MUL {
			b := canonValue(x.X, d+1)
			if b == "" {
				return ""
			}
			return "*" + b
		}
	case *ssa.Alloc:
		return "alloc:" + x.Comment
	}
	return ""
}

func canonSub(v ssa.Value, d int, out map[string]bool) {
	if v == nil || d > 5 {
		return
	}
	if k := canonValue(v, 0); k != "" {
		out[k] = true
	}
	switch x := v.(type) {
	case *ssa.BinOp:
		canonSub(x.X, d+1, out)
		canonSub(x.Y, d+1, out)
	case *ssa.UnOp:
		canonSub(x.X, d+1, out)
	case *ssa.Convert:
		canonSub(x.X, d+1, out)
	case *ssa.Phi:
		for _, e := range x.Edges {
			canonSub(e, d+1, out)
		}
	case *ssa.Call:
		for _, a := range x.Call.Args {
			canonSub(a, d+1, out)
		}
	}
}

// fromSyncPool reports whether v is the result of (*sync.Pool).Get.
func fromSyncPool(v ssa.Value) bool {
	call, ok := v.(*ssa.Call)
	if !ok {
		return false
	}
	callee := call.Call.StaticCallee()
	return callee != nil && callee.String() == "(*sync.Pool).Get"
}

// c15PrefetchMeasured backs the reviewed bound of DebugDialer.Dial: the body
// length the sniffing reader reports is a measured one - the count io.Copy
// returned while draining the body into the sniffed buffer - and not the
// Content-Length the peer announced (h + announced length can wrap negative and
// slip under the clamp).
func c15PrefetchMeasured(c *Ctx) {
	const rule = "C15.prefetch-length-measured"
	c.R.Rule(rule, 1, "the response body length DebugDialer.Dial slices with is the byte count io.Copy measured, not an announced Content-Length")
	tn := c.P.NamedType(wsutil, "prefetchResponseReader")
	if tn == nil {
		c.R.Unknown(rule, rule+"/anchor", "-", "wsutil.prefetchResponseReader does not resolve")
		return
	}
	st := structOf(tn)
	idx := fieldIdx(st, "contentLength", typeIs("*int64"))
	if idx < 0 {
		c.R.Unknown(rule, rule+"/anchor:field", "-", "prefetchResponseReader.contentLength (*int64) does not resolve")
		return
	}
	n := 0
	for _, fn := range c.P.AllModuleFuncs() {
		for _, b := range fn.Blocks {
			for _, in := range b.Instrs {
				sto, ok := in.(*ssa.Store)
				if !ok {
					continue
				}
				ld, ok := sto.Addr.(*ssa.UnOp)
				if !ok {
					continue
				}
				fa, ok := ld.X.(*ssa.FieldAddr)
				if !ok || fa.Field != idx || !types.Identical(fa.X.Type().Underlying().(*types.Pointer).Elem(), tn) {
					continue
				}
				n++
				key := fmt.Sprintf("%s/%s#%d", rule, astFuncName(fn), n)
				v := sto.Val
				if cv, ok := v.(*ssa.Convert); ok {
					v = cv.X
				}
				measured := false
				if ex, ok := v.(*ssa.Extract); ok && ex.Index == 0 {
					if call, ok := ex.Tuple.(*ssa.Call); ok {
						if cal := call.Call.StaticCallee(); cal != nil && (cal.String() == "io.Copy" || cal.String() == "io.CopyN" || cal.String() == "io.CopyBuffer") {
							measured = true
						}
					}
				}
				c.R.Check(measured, rule, key, c.P.Pos(sto.Pos()), "the stored length is the count returned by io.Copy",
					"the body length stored for DebugDialer.Dial is "+v.String()+" ("+v.Name()+"), not a count returned by io.Copy: with an announced length the peer chooses, h + length can wrap negative and `p[:n]` panics")
			}
		}
	}
	c.R.Sites += n
}

// calleeGuardsResult: v is (a component of) the result of a call to a module
// function, and that function contains a branch whose condition depends on a
// value that flows into the returned result (the clamp / the -1 test travelled
// with the computation into a helper).
func calleeGuardsResult(v ssa.Value) bool {
	idx := 0
	var call *ssa.Call
	switch x := v.(type) {
	case *ssa.Extract:
		idx = x.Index
		call, _ = x.Tuple.(*ssa.Call)
	case *ssa.Call:
		call = x
	}
	if call == nil {
		return false
	}
	callee := call.Call.StaticCallee()
	if callee == nil || !load.InModule(callee) || callee.Blocks == nil {
		return false
	}
	flows := map[ssa.Value]bool{}
	var collect func(v ssa.Value, d int)
	collect = func(v ssa.Value, d int) {
		if v == nil || d > 5 || flows[v] {
			return
		}
		if _, isConst := v.(*ssa.Const); isConst {
			return
		}
		flows[v] = true
		switch y := v.(type) {
		case *ssa.BinOp:
			collect(y.X, d+1)
			collect(y.Y, d+1)
		case *ssa.Convert:
			collect(y.X, d+1)
		case *ssa.Phi:
			for _, e := range y.Edges {
				collect(e, d+1)
			}
		}
	}
	for _, b := range callee.Blocks {
		for _, in := range b.Instrs {
			if ret, ok := in.(*ssa.Return); ok && idx < len(ret.Results) {
				collect(ret.Results[idx], 0)
			}
		}
	}
	for _, b := range callee.Blocks {
		if len(b.Instrs) == 0 {
			continue
		}
		iff, ok := b.Instrs[len(b.Instrs)-1].(*ssa.If)
		if !ok {
			continue
		}
		for fv := range flows {
			if dependsOn(iff.Cond, fv, 0) || dependsOnCmp(iff.Cond, fv, 0) {
				return true
			}
		}
	}
	return false
}

// c15ErrorGuarded: a pointer or interface that comes out of a call outside the
// module together with an error is nil when the error is not (ReadRequest,
// ReadResponse, url.Parse, ...). Every use that dereferences it - a field
// access, a method call through the interface, a load - must sit behind the
// test of that error, on the side where it is nil.
func c15ErrorGuarded(c *Ctx) {
	const rule = "C15.error-guarded-results"
	c.R.Rule(rule, 2, "a pointer returned together with an error by a call outside the module is dereferenced only where that error was tested and found nil")
	n := 0
	for _, fn := range c.P.AllModuleFuncs() {
		name := astFuncName(fn)
		for _, b := range fn.Blocks {
			for _, in := range b.Instrs {
				call, ok := in.(*ssa.Call)
				if !ok {
					continue
				}
				callee := call.Call.StaticCallee()
				if callee == nil || load.InModule(callee) {
					continue
				}
				res := call.Call.Signature().Results()
				if res.Len() < 2 || !types.Identical(res.At(res.Len()-1).Type(), types.Universe.Lookup("error").Type()) {
					continue
				}
				var errV *ssa.Extract
				var ptrs []*ssa.Extract
				for _, r := range *call.Referrers() {
					ex, ok := r.(*ssa.Extract)
					if !ok {
						continue
					}
					if ex.Index == res.Len()-1 {
						errV = ex
						continue
					}
					if _, isPtr := ex.Type().Underlying().(*types.Pointer); isPtr {
						ptrs = append(ptrs, ex)
					}
				}
				for _, p := range ptrs {
					var uses []ssa.Instruction
					for _, r := range *p.Referrers() {
						switch x := r.(type) {
						case *ssa.FieldAddr:
							if x.X == ssa.Value(p) {
								uses = append(uses, x)
							}
						case *ssa.UnOp:
							if x.Op == token.MUL && x.X == ssa.Value(p) {
								uses = append(uses, x)
							}
						}
					}
					if len(uses) == 0 {
						continue
					}
					n++
					key := fmt.Sprintf("%s/%s: %s", rule, name, shortName(callee.String()))
					pos := c.P.Pos(call.Pos())
					if errV == nil {
						c.R.Fail(rule, key, pos, "the result of "+callee.String()+" is dereferenced in "+name+" although its error is discarded")
						continue
					}
					// blocks reached only when the error is nil
					var okBlocks []*ssa.BasicBlock
					for _, bb := range fn.Blocks {
						if len(bb.Instrs) == 0 {
							continue
						}
						iff, ok := bb.Instrs[len(bb.Instrs)-1].(*ssa.If)
						if !ok {
							continue
						}
						bo, ok := iff.Cond.(*ssa.BinOp)
						if !ok {
							continue
						}
						switch {
						case bo.X == ssa.Value(errV) || bo.Y == ssa.Value(errV):
							// err == nil: then-side; err != nil: else-side
							switch bo.Op {
							case token.EQL:
								okBlocks = append(okBlocks, bb.Succs[0])
							case token.NEQ:
								okBlocks = append(okBlocks, bb.Succs[1])
							}
						case bo.X == ssa.Value(p) || bo.Y == ssa.Value(p):
							// a test of the pointer itself serves as well: p != nil then-side, p == nil else-side
							switch bo.Op {
							case token.NEQ:
								okBlocks = append(okBlocks, bb.Succs[0])
							case token.EQL:
								okBlocks = append(okBlocks, bb.Succs[1])
							}
						}
					}
					bad := ""
					for _, u := range uses {
						guarded := false
						for _, ob := range okBlocks {
							// the successor must be entered only through the test (one predecessor), and dominate the use
							if len(ob.Preds) == 1 && ob.Dominates(u.Block()) {
								guarded = true
							}
						}
						if !guarded {
							bad = c.P.Pos(u.Pos())
							break
						}
					}
					c.R.Check(bad == "", rule, key, pos, "every dereference is on the err == nil side of the test",
						"the pointer returned by "+callee.String()+" is dereferenced at "+bad+" where its error has not been found nil: on a failure the pointer is nil and "+name+" panics on input the peer controls")
				}
			}
		}
	}
	c.R.Sites += n
}

// lenOfDependsOn: the condition is computed from len(target).
func lenOfDependsOn(v ssa.Value, target ssa.Value, depth int) bool {
	if depth > 5 || v == nil {
		return false
	}
	switch x := v.(type) {
	case *ssa.Call:
		if b, ok := x.Call.Value.(*ssa.Builtin); ok && b.Name() == "len" && len(x.Call.Args) == 1 {
			return x.Call.Args[0] == target
		}
	case *ssa.BinOp:
		return lenOfDependsOn(x.X, target, depth+1) || lenOfDependsOn(x.Y, target, depth+1)
	case *ssa.UnOp:
		return lenOfDependsOn(x.X, target, depth+1)
	case *ssa.Convert:
		return lenOfDependsOn(x.X, target, depth+1)
	}
	return false
}
