package rules

import (
	"fmt"
	"strings"
	"sync"

	"golang.org/x/tools/go/ssa"

	"verif/wscheck/internal/fold"
)

func init() {
	register(&Property{
		ID:      "C01",
		Explain: "FOLD with byte lanes. (1) ws.HeaderSize, ws.WriteHeader: evaluated over Fin x Rsv(0..7) x OpCode(0..15) x Masked x Length cells (cells split at every constant the code compares Length with); the bytes handed to the single w.Write are compared lane by lane with the RFC 6455 5.2 layout (byte0 = Fin<<7|Rsv<<4|OpCode, byte1 = Masked<<7|len7, big-endian extended length, then the 4 mask lanes), the count must equal HeaderSize and be minimal. (2) ws.ReadHeader and wsutil.(*Reader).readHeader: evaluated for all 65536 values of the first two bytes with the following bytes as named input lanes; the number and size of io.ReadFull calls, every decoded field, the MSB refusal and the propagation of a failed read are compared with the same reference, so the two decoders agree with the RFC and with each other and consume exactly the header. (3) ReadFrame / WriteFrame / CompileFrame are header codec + exactly Length payload bytes (effect sequence). Encoder and decoder are checked against one reference layout, hence are mutual inverses on every minimally encoded header. NextReader is folded: the Reader it creates reads from exactly the source it was given (nothing in between that could read ahead) and starts pristine. nextframe-ext-chain runs here as well: the header Reader.NextFrame hands back is, field by field (fin, opcode, masked, mask, length), the one its decoder produced, with only the RSV bits passed through the extensions - a continuation stays a continuation.",
		Trusted: []string{"go/ssa + go/types", "encoding/binary.BigEndian is big-endian (modelled as lane intrinsics)", "io.ReadFull fills the whole slice or fails", "the checker's abstract evaluator"},
		Assume:  []string{"Rsv <= 7, OpCode <= 15, 0 <= Length <= 2^63-1 (the property's domain)"},
		Run:     runC01,
	})
}

func runC01(c *Ctx) {
	if !c.headerLayoutOK("C01.anchor") {
		return
	}
	c01Encoder(c)
	c01Decoder(c, "C01.decode-table", c.fn("C01.decode-table", ws, "ReadHeader"), false)
	c01Decoder(c, "C01.decode-table", c.method("C01.decode-table", wsutil, "Reader", "readHeader"), true)
	c01Frames(c)
	// the streaming decoder reads straight from the source it is given
	helperNextReaderRules(c, "C01")
	// ... and the header NextFrame returns is, field by field, the one its decoder produced
	readerNextFrameRules(c, "C01")
}

func lengthForm(l fold.Int) int { // 0: 7 bit, 1: 16 bit, 2: 64 bit, -1: straddles
	switch {
	case l.Hi <= 125:
		return 0
	case l.Lo >= 126 && l.Hi <= 65535:
		return 1
	case l.Lo >= 65536:
		return 2
	}
	return -1
}

func c01Encoder(c *Ctx) {
	const rule = "C01.encode-layout"
	c.R.Rule(rule, 2, "HeaderSize and WriteHeader produce the minimal RFC 6455 5.2 layout for every header")
	hs := c.fn(rule, ws, "HeaderSize")
	wh := c.fn(rule, ws, "WriteHeader")
	if hs == nil || wh == nil {
		return
	}
	// HeaderSize
	{
		m := c.machine()
		dom := &fold.IntDom{Name: "Length", Lo: 0, Hi: fold.MaxInt64, Cuts: []int64{126, 65536}}
		paths, err := m.ExploreCells(hs, []*fold.IntDom{dom}, func(m *fold.Machine, cells []fold.Int) []fold.Val {
			masked := m.Choose("Masked", 2) == 1
			return []fold.Val{headerVal(true, 0, 1, masked, nil, cells[0])}
		}, nil)
		key := rule + "/HeaderSize"
		if err != nil {
			c.R.Unknown(rule, key, c.P.FuncPos(hs), "fold failed: "+err.Error())
		} else {
			c.R.AddCells(len(paths))
			c.harvestBounds(hs, cellPaths(paths))
			var problems []string
			for _, p := range paths {
				if p.Abort != "" || p.Panic {
					problems = append(problems, "undecided: "+p.Abort+panicNote(p.Path))
					continue
				}
				form := lengthForm(p.Cells[0])
				want := []int64{2, 4, 10}
				if form < 0 {
					problems = append(problems, "cell "+fold.Show(p.Cells[0])+" straddles a length form")
					continue
				}
				w := want[form]
				if p.Chose("Masked") == 1 {
					w += 4
				}
				if fold.Show(p.Ret) != fmt.Sprint(w) {
					problems = append(problems, fmt.Sprintf("Length=%s Masked=%v: HeaderSize=%s, RFC says %d", fold.Show(p.Cells[0]), p.Chose("Masked") == 1, fold.Show(p.Ret), w))
				}
			}
			c.verdict(rule, key, c.P.FuncPos(hs), problems, fmt.Sprintf("%d cells: 2/4/10 (+4 masked) at the 125/126 and 65535/65536 boundaries", len(paths)))
		}
	}
	// WriteHeader
	m := c.machine()
	addBinaryModels(m)
	type written struct {
		lanes []string
		n     int
	}
	var lastWrite *written
	m.Models["invoke:(io.Writer).Write"] = func(cl *fold.Call) fold.Val {
		s, ok := cl.Args[1].(fold.SliceV)
		if !ok {
			cl.M.Emit(fold.Effect{Kind: "call", Name: "w.Write", Args: cl.Args[1:], Note: "opaque"})
			return fold.Tuple{fold.Int{Lo: 0, Hi: fold.MaxInt64}, errChoice(cl.M, "write.err", "write-error")}
		}
		el := cl.M.Elems(s)
		cl.M.Emit(fold.Effect{Kind: "call", Name: "w.Write", Args: el})
		return fold.Tuple{fold.K(s.Len), errChoice(cl.M, "write.err", "write-error")}
	}
	_ = lastWrite
	dom := &fold.IntDom{Name: "Length", Lo: 0, Hi: fold.MaxInt64, Cuts: []int64{126, 65536}}
	paths, err := m.ExploreCells(wh, []*fold.IntDom{dom}, func(m *fold.Machine, cells []fold.Int) []fold.Val {
		fin := m.Choose("Fin", 2) == 1
		rsv := int64(m.Choose("Rsv", 8))
		op := int64(m.Choose("OpCode", 16))
		masked := m.Choose("Masked", 2) == 1
		mask := fold.Arr{E: []fold.Val{
			fold.Int{Lo: 0, Hi: 255, Name: "m0"}, fold.Int{Lo: 0, Hi: 255, Name: "m1"},
			fold.Int{Lo: 0, Hi: 255, Name: "m2"}, fold.Int{Lo: 0, Hi: 255, Name: "m3"}}}
		return []fold.Val{fold.Sym{Name: "w", NonNil: true}, headerVal(fin, rsv, op, masked, mask, cells[0])}
	}, nil)
	key := rule + "/WriteHeader"
	if err != nil {
		c.R.Unknown(rule, key, c.P.FuncPos(wh), "fold failed: "+err.Error())
		return
	}
	c.R.AddCells(len(paths))
	c.harvestBounds(wh, cellPaths(paths))
	var problems []string
	var sample string
	for _, p := range paths {
		if p.Abort != "" || p.Panic {
			problems = append(problems, "undecided: "+p.Abort+panicNote(p.Path))
			continue
		}
		fin, rsv, op, masked := p.Chose("Fin") == 1, int64(p.Chose("Rsv")), int64(p.Chose("OpCode")), p.Chose("Masked") == 1
		form := lengthForm(p.Cells[0])
		if form < 0 {
			problems = append(problems, "cell "+fold.Show(p.Cells[0])+" straddles a length form")
			continue
		}
		b0 := op | rsv<<4
		if fin {
			b0 |= 0x80
		}
		want := []string{fmt.Sprintf("%#02x", b0)}
		mbit := int64(0)
		if masked {
			mbit = 0x80
		}
		switch form {
		case 0:
			if masked {
				want = append(want, "(Length|128)")
			} else {
				want = append(want, "Length")
			}
		case 1:
			want = append(want, fmt.Sprintf("%#02x", 126|mbit), "be16(Length).0", "be16(Length).1")
		case 2:
			want = append(want, fmt.Sprintf("%#02x", 127|mbit))
			for i := 0; i < 8; i++ {
				want = append(want, fmt.Sprintf("be64(Length).%d", i))
			}
		}
		if masked {
			want = append(want, "m0", "m1", "m2", "m3")
		}
		writes := p.Calls("w.Write")
		desc := fmt.Sprintf("Fin=%v Rsv=%d Op=%#x Masked=%v Length=%s", fin, rsv, op, masked, fold.Show(p.Cells[0]))
		if len(writes) != 1 {
			problems = append(problems, fmt.Sprintf("%s: %d writes to w instead of exactly one", desc, len(writes)))
			continue
		}
		got := laneNames(writes[0].Args)
		if form == 0 && masked && len(got) > 1 && got[1] == "(128|Length)" {
			got[1] = "(Length|128)"
		}
		if strings.Join(got, " ") != strings.Join(want, " ") {
			problems = append(problems, fmt.Sprintf("%s: wrote [%s], RFC layout is [%s]", desc, strings.Join(got, " "), strings.Join(want, " ")))
			continue
		}
		// error propagation
		werr := p.Chose("write.err")
		if (werr == 0) != (c.errName(p.Ret) == "nil") {
			problems = append(problems, desc+": result does not reflect the write error")
		}
		if sample == "" && form == 1 && masked {
			sample = desc + " -> [" + strings.Join(got, " ") + "]"
		}
	}
	c.R.Sample(map[string]any{"rule": rule, "cells": len(paths), "example": sample})
	c.verdict(rule, key, c.P.FuncPos(wh), problems, fmt.Sprintf("%d cells: one write of exactly HeaderSize lanes in RFC order", len(paths)))
}

// verdict records OK / Fail / Unknown from a list of problems.
func (c *Ctx) verdict(rule, key, pos string, problems []string, okDetail string) {
	if len(problems) == 0 {
		c.R.OK(rule, key, pos, okDetail)
		return
	}
	und := false
	for _, p := range problems {
		if strings.HasPrefix(p, "undecided") {
			und = true
		}
	}
	d := fmt.Sprintf("%d problem(s); first: %s", len(problems), strings.Join(problems[:min(3, len(problems))], " | "))
	if und {
		c.R.Unknown(rule, key, pos, d)
	} else {
		c.R.Fail(rule, key, pos, d)
	}
}

func c01Decoder(c *Ctx, rule string, f *ssa.Function, method bool) {
	floor := 2
	if !strings.HasPrefix(rule, "C01.") {
		floor = 1 // other properties fold only the decoder they depend on
	}
	c.R.Rule(rule, floor, "both header decoders read exactly 2 + extra bytes and decode every field per RFC 6455 5.2")
	if f == nil {
		return
	}
	key := rule + "/" + f.Name()
	msbErr := c.globalErrName(rule, ws, "ErrHeaderLengthMSB")
	if method && c.P.NamedType(wsutil, "Reader") == nil {
		c.R.Unknown(rule, key+"/anchor", "-", "wsutil.Reader does not resolve")
		return
	}
	type pp struct {
		*fold.Path
		b0 int
	}
	partPaths := make([][]*fold.Path, 16)
	var wg sync.WaitGroup
	for part := 0; part < 16; part++ {
		part := part
		wg.Add(1)
		go func() {
			defer wg.Done()
			m := c.machine()
			addBinaryModels(m)
			var recvType = func() fold.Val { return nil }
			if method {
				rt := c.P.NamedType(wsutil, "Reader")
				if rt == nil {
					c.R.Unknown(rule, key+"/anchor", "-", "wsutil.Reader does not resolve")
					return
				}
				recvType = func() fold.Val {
					o := m.NewObj("reader", fold.SymOfType("r", rt))
					return fold.Ref{O: o}
				}
			}
			m.Models["io.ReadFull"] = func(cl *fold.Call) fold.Val {
				mm := cl.M
				buf, ok := cl.Args[1].(fold.SliceV)
				if !ok {
					mm.Emit(fold.Effect{Kind: "call", Name: "ReadFull", Args: cl.Args, Note: "opaque-buffer"})
					return fold.Tuple{fold.K(0), fold.Sym{Name: "bad", NonNil: true}}
				}
				mm.Emit(fold.Effect{Kind: "call", Name: "ReadFull", Args: []fold.Val{cl.Args[0], fold.K(buf.Len)}})
				e := errChoice(mm, fmt.Sprintf("read%d.err", cl.Seq), "global:io.EOF", fmt.Sprintf("read%d-error", cl.Seq))
				if _, isNil := e.(fold.Nil); !isNil {
					return fold.Tuple{fold.Int{Lo: 0, Hi: buf.Len}, e}
				}
				if cl.Seq == 1 {
					if buf.Len >= 1 {
						mm.SetElem(buf, 0, fold.K(int64(part*16+mm.Choose("b0lo", 16))))
					}
					if buf.Len >= 2 {
						mm.SetElem(buf, 1, fold.K(int64(mm.Choose("b1", 256))))
					}
					for i := int64(2); i < buf.Len; i++ {
						mm.SetElem(buf, i, fold.Int{Lo: 0, Hi: 255, Name: fmt.Sprintf("y%d", i)})
					}
				} else {
					for i := int64(0); i < buf.Len; i++ {
						lane := fold.Int{Lo: 0, Hi: 255, Name: fmt.Sprintf("x%d", i)}
						if i == 0 && cl.Seq == 2 {
							if mm.Choose("x0.msb", 2) == 1 {
								lane.Lo = 128
							} else {
								lane.Hi = 127
							}
						}
						mm.SetElem(buf, i, lane)
					}
				}
				return fold.Tuple{fold.K(buf.Len), fold.Nil{}}
			}
			paths := m.Explore(f, func(mm *fold.Machine) []fold.Val {
				if method {
					return []fold.Val{recvType(), fold.Sym{Name: "in", NonNil: true}}
				}
				return []fold.Val{fold.Sym{Name: "in", NonNil: true}}
			}, nil)

			partPaths[part] = paths
		}()
	}
	wg.Wait()
	var paths []pp
	for part, ps := range partPaths {
		for _, p := range ps {
			b0 := -1
			if k := p.Chose("b0lo"); k >= 0 {
				b0 = part*16 + k
			}
			paths = append(paths, pp{Path: p, b0: b0})
		}
	}
	c.R.AddCells(len(paths))
	c.R.Paths += len(paths)
	var problems []string
	checked := 0
	for _, p := range paths {
		if p.Abort != "" || p.Panic {
			problems = append(problems, "undecided: "+p.Abort+panicNote(p.Path))
			continue
		}
		ret, _ := p.Ret.(fold.Tuple)
		if len(ret) != 2 {
			problems = append(problems, "unexpected result shape")
			continue
		}
		reads := p.Calls("ReadFull")
		gotErr := c.errName(ret[1])
		e1 := p.Chose("read1.err")
		desc := fmt.Sprintf("b0=%#02x b1=%#02x", p.b0, p.Chose("b1"))
		if len(reads) < 1 || fold.Show(reads[0].Args[0]) != "in" || fold.Show(reads[0].Args[1]) != "2" {
			problems = append(problems, desc+": first read is not io.ReadFull(in, 2 bytes)")
			continue
		}
		if e1 != 0 {
			want := []string{"", "global:io.EOF", "read1-error"}[e1]
			if len(reads) != 1 || gotErr != want {
				problems = append(problems, fmt.Sprintf("failed first read: returned %s after %d reads, want %s after 1", gotErr, len(reads), want))
			}
			continue
		}
		b0, b1 := int64(p.b0), int64(p.Chose("b1"))
		checked++
		masked := b1&0x80 != 0
		l7 := b1 & 0x7f
		extra := int64(0)
		if masked {
			extra += 4
		}
		switch l7 {
		case 126:
			extra += 2
		case 127:
			extra += 8
		}
		if extra == 0 {
			if len(reads) != 1 {
				problems = append(problems, desc+": reads beyond the 2-byte header")
				continue
			}
		} else {
			if len(reads) != 2 || fold.Show(reads[1].Args[0]) != "in" || fold.Show(reads[1].Args[1]) != fmt.Sprint(extra) {
				n := "none"
				if len(reads) > 1 {
					n = fold.Show(reads[1].Args[1])
				}
				problems = append(problems, fmt.Sprintf("%s: second read is %s bytes (%d reads), RFC header needs exactly %d more", desc, n, len(reads), extra))
				continue
			}
			if e2 := p.Chose("read2.err"); e2 != 0 {
				want := []string{"", "global:io.EOF", "read2-error"}[e2]
				if gotErr != want {
					problems = append(problems, fmt.Sprintf("%s: failed second read returned %s, want %s", desc, gotErr, want))
				}
				continue
			}
		}
		if l7 == 127 && p.Chose("x0.msb") == 1 {
			if gotErr != msbErr {
				problems = append(problems, desc+": 64-bit length with the top bit set returned "+gotErr+" instead of ErrHeaderLengthMSB")
			}
			continue
		}
		if gotErr != "nil" {
			problems = append(problems, desc+": complete header refused with "+gotErr)
			continue
		}
		h, ok := ret[0].(fold.Struct)
		if !ok || len(h.F) != 6 {
			problems = append(problems, desc+": result is not a header")
			continue
		}
		wantLen := fmt.Sprint(l7)
		off := 0
		switch l7 {
		case 126:
			wantLen = "be16(x0,x1)"
			off = 2
		case 127:
			wantLen = "int64(be64(x0,x1,x2,x3,x4,x5,x6,x7))"
			off = 8
		}
		gotLen := fold.Show(h.F[5])
		if i, ok := h.F[5].(fold.Int); ok && !i.IsConst() {
			gotLen = i.Name
		}
		wantMask := "[0,0,0,0]"
		if masked {
			wantMask = fmt.Sprintf("[x%d,x%d,x%d,x%d]", off, off+1, off+2, off+3)
		}
		gotMask := "?"
		if a, ok := h.F[4].(fold.Arr); ok {
			gotMask = "[" + strings.Join(laneNamesPlain(a.E), ",") + "]"
		}
		want := fmt.Sprintf("Fin=%v Rsv=%d Op=%d Masked=%v Mask=%s Length=%s", b0&0x80 != 0, (b0>>4)&7, b0&15, masked, wantMask, wantLen)
		got := fmt.Sprintf("Fin=%s Rsv=%s Op=%s Masked=%s Mask=%s Length=%s", fold.Show(h.F[0]), fold.Show(h.F[1]), fold.Show(h.F[2]), fold.Show(h.F[3]), gotMask, gotLen)
		if got != want {
			problems = append(problems, fmt.Sprintf("%s: decoded {%s}, RFC says {%s}", desc, got, want))
		}
	}
	if checked < 65536 {
		problems = append(problems, fmt.Sprintf("undecided: only %d of 65536 (b0,b1) pairs reached", checked))
	} else {
		all := make([]*fold.Path, len(paths))
		for i, p := range paths {
			all[i] = p.Path
		}
		c.harvestBounds(f, all)
	}
	c.R.Sample(map[string]any{"rule": rule, "decoder": f.String(), "paths": len(paths), "first_two_byte_values_covered": checked})
	c.verdict(rule, key, c.P.FuncPos(f), problems, fmt.Sprintf("%d paths, all 65536 (b0,b1) pairs: reads 2 then exactly extra bytes, fields per RFC layout, MSB refused, read errors propagated", len(paths)))
}

func cellPaths(ps []fold.CellPath) []*fold.Path {
	out := make([]*fold.Path, len(ps))
	for i, p := range ps {
		out[i] = p.Path
	}
	return out
}

func laneNamesPlain(el []fold.Val) []string {
	out := make([]string, len(el))
	for i, e := range el {
		if k, ok := e.(fold.Int); ok {
			if k.IsConst() {
				out[i] = fmt.Sprint(k.Const())
			} else {
				out[i] = k.Name
			}
		} else {
			out[i] = fold.Show(e)
		}
	}
	return out
}

func c01Frames(c *Ctx) {
	const rule = "C01.frame-is-header-plus-length"
	c.R.Rule(rule, 3, "ReadFrame, WriteFrame, CompileFrame are the header codec followed by exactly Length payload bytes")
	// ReadFrame
	if f := c.fn(rule, ws, "ReadFrame"); f != nil {
		m := c.machine()
		m.Models[ws+".ReadHeader"] = func(cl *fold.Call) fold.Val {
			cl.M.Emit(fold.Effect{Kind: "call", Name: "ReadHeader", Args: cl.Args})
			e := errChoice(cl.M, "hdr.err", "hdr-error")
			l := fold.Int{Lo: 1, Hi: fold.MaxInt64, Name: "Length"}
			if cl.M.Choose("len0", 2) == 1 {
				l = fold.K(0)
			}
			return fold.Tuple{headerVal(true, 0, 2, false, nil, l), e}
		}
		m.Models["io.ReadFull"] = func(cl *fold.Call) fold.Val {
			cl.M.Emit(fold.Effect{Kind: "call", Name: "ReadFull", Args: cl.Args})
			return fold.Tuple{fold.Int{Lo: 0, Hi: fold.MaxInt64}, errChoice(cl.M, "payload.err", "payload-error")}
		}
		paths := m.Explore(f, func(mm *fold.Machine) []fold.Val { return []fold.Val{fold.Sym{Name: "r", NonNil: true}} }, nil)
		var problems []string
		for _, p := range paths {
			if p.Abort != "" || p.Panic {
				problems = append(problems, "undecided: "+p.Abort+panicNote(p))
				continue
			}
			ret, _ := p.Ret.(fold.Tuple)
			hd := p.Calls("ReadHeader")
			if len(hd) != 1 || fold.Show(hd[0].Args[0]) != "r" {
				problems = append(problems, "header is not read with exactly one ReadHeader(r)")
				continue
			}
			rf := p.Calls("ReadFull")
			if p.Chose("hdr.err") != 0 {
				if len(rf) != 0 || c.errName(ret[1]) != "hdr-error" {
					problems = append(problems, "failed header read is not returned at once")
				}
				continue
			}
			if p.Chose("len0") == 1 {
				if len(rf) != 0 || c.errName(ret[1]) != "nil" {
					problems = append(problems, "empty frame reads payload bytes")
				}
				continue
			}
			var allocs []fold.Effect
			for _, e := range p.Effects {
				if e.Kind == "alloc" {
					allocs = append(allocs, e)
				}
			}
			sizeName := ""
			if len(allocs) == 1 {
				sizeName = intName(allocs[0].Args[0])
			}
			okSize := sizeName == "Length" || (fold.IntSize == 32 && sizeName == "int(Length)")
			if len(allocs) != 1 || !okSize {
				problems = append(problems, "payload buffer is not make([]byte, Header.Length): size "+sizeName)
				continue
			}
			if len(rf) != 1 || fold.Show(rf[0].Args[0]) != "r" || fold.Show(rf[0].Args[1]) != "make#1" {
				problems = append(problems, "payload is not read by one io.ReadFull(r, payload)")
				continue
			}
			fr, _ := ret[0].(fold.Struct)
			if len(fr.F) != 2 || fold.Show(fr.F[1]) != "make#1" {
				problems = append(problems, "returned payload is not the buffer that was filled")
			}
			if (p.Chose("payload.err") == 0) != (c.errName(ret[1]) == "nil") {
				problems = append(problems, "payload read error is not returned")
			}
		}
		c.R.Paths += len(paths)
		c.verdict(rule, rule+"/ReadFrame", c.P.FuncPos(f), problems, "ReadHeader(r); make(Length); one ReadFull(r, payload); errors returned")
	}
	// WriteFrame
	if f := c.fn(rule, ws, "WriteFrame"); f != nil {
		m := c.machine()
		m.Models[ws+".WriteHeader"] = func(cl *fold.Call) fold.Val {
			cl.M.Emit(fold.Effect{Kind: "call", Name: "WriteHeader", Args: cl.Args})
			return errChoice(cl.M, "hdr.err", "hdr-error")
		}
		m.Models["invoke:(io.Writer).Write"] = func(cl *fold.Call) fold.Val {
			cl.M.Emit(fold.Effect{Kind: "call", Name: "w.Write", Args: cl.Args})
			return fold.Tuple{fold.Int{Lo: 0, Hi: fold.MaxInt64}, errChoice(cl.M, "payload.err", "payload-error")}
		}
		paths := m.Explore(f, func(mm *fold.Machine) []fold.Val {
			h := headerVal(true, 0, 1, false, nil, fold.Int{Lo: 0, Hi: fold.MaxInt64, Name: "Length"})
			return []fold.Val{fold.Sym{Name: "w", NonNil: true}, fold.Struct{F: []fold.Val{h, fold.SymSeq{Name: "payload", Len: fold.Int{Lo: 0, Hi: fold.MaxInt64, Name: "len(payload)"}}}}}
		}, nil)
		var problems []string
		for _, p := range paths {
			if p.Abort != "" || p.Panic {
				problems = append(problems, "undecided: "+p.Abort+panicNote(p))
				continue
			}
			var seq []string
			for _, e := range p.Effects {
				if e.Kind == "call" {
					seq = append(seq, e.Name)
				}
			}
			wh := p.Calls("WriteHeader")
			if len(wh) != 1 || fold.Show(wh[0].Args[0]) != "w" || !strings.Contains(fold.Show(wh[0].Args[1]), "Length") {
				problems = append(problems, "header is not written by one WriteHeader(w, f.Header)")
				continue
			}
			if p.Chose("hdr.err") != 0 {
				if strings.Join(seq, ",") != "WriteHeader" || c.errName(p.Ret) != "hdr-error" {
					problems = append(problems, "failed header write does not stop the frame: "+strings.Join(seq, ","))
				}
				continue
			}
			ww := p.Calls("w.Write")
			if strings.Join(seq, ",") != "WriteHeader,w.Write" || fold.Show(ww[0].Args[0]) != "w" || fold.Show(ww[0].Args[1]) != "payload" {
				problems = append(problems, "frame is not WriteHeader then one w.Write(f.Payload): "+strings.Join(seq, ","))
				continue
			}
			if (p.Chose("payload.err") == 0) != (c.errName(p.Ret) == "nil") {
				problems = append(problems, "payload write error is not returned")
			}
		}
		c.R.Paths += len(paths)
		c.verdict(rule, rule+"/WriteFrame", c.P.FuncPos(f), problems, "WriteHeader(w, f.Header) then exactly one w.Write(f.Payload)")
	}
	// CompileFrame
	if f := c.fn(rule, ws, "CompileFrame"); f != nil {
		m := c.machine()
		m.OpaqueOK = true
		m.Models[ws+".WriteFrame"] = func(cl *fold.Call) fold.Val {
			cl.M.Emit(fold.Effect{Kind: "call", Name: "WriteFrame", Args: cl.Args})
			return errChoice(cl.M, "wf.err", "wf-error")
		}
		paths := m.Explore(f, func(mm *fold.Machine) []fold.Val {
			h := headerVal(true, 0, 1, false, nil, fold.Int{Lo: 0, Hi: fold.MaxInt64, Name: "Length"})
			return []fold.Val{fold.Struct{F: []fold.Val{h, fold.SymSeq{Name: "payload", Len: fold.Int{Lo: 0, Hi: fold.MaxInt64, Name: "len(payload)"}}}}}
		}, nil)
		var problems []string
		for _, p := range paths {
			if p.Abort != "" || p.Panic {
				problems = append(problems, "undecided: "+p.Abort+panicNote(p))
				continue
			}
			var seq []string
			var bufName, bytesRes string
			for _, e := range p.Effects {
				if e.Kind != "call" {
					continue
				}
				seq = append(seq, e.Name)
			}
			wf := p.Calls("WriteFrame")
			if len(wf) != 1 || !strings.Contains(fold.Show(wf[0].Args[1]), "payload") {
				problems = append(problems, "frame is not serialised by one WriteFrame(buf, f)")
				continue
			}
			bufName = fold.Show(wf[0].Args[0])
			if !strings.Contains(bufName, "bytes.NewBuffer") {
				problems = append(problems, "WriteFrame destination is not a fresh bytes.Buffer: "+bufName)
				continue
			}
			ret, _ := p.Ret.(fold.Tuple)
			if len(ret) == 2 {
				bytesRes = fold.Show(ret[0])
			}
			if !strings.Contains(bytesRes, "(*bytes.Buffer).Bytes") {
				problems = append(problems, "result is not the buffer's bytes: "+bytesRes)
			}
			// Bytes() must come after WriteFrame
			iw, ib := -1, -1
			for i, s := range seq {
				if s == "WriteFrame" {
					iw = i
				}
				if s == "(*bytes.Buffer).Bytes" {
					ib = i
				}
			}
			if iw < 0 || ib < iw {
				problems = append(problems, "buffer bytes are taken before the frame is written: "+strings.Join(seq, ","))
			}
			if (p.Chose("wf.err") == 0) != (c.errName(ret[1]) == "nil") {
				problems = append(problems, "WriteFrame error is not returned")
			}
		}
		c.R.Paths += len(paths)
		c.verdict(rule, rule+"/CompileFrame", c.P.FuncPos(f), problems, "fresh bytes.Buffer; WriteFrame(buf, f); result = buf.Bytes() taken afterwards")
	}
}
