package rules

import (
	"fmt"
	"sort"
	"strings"

	"verif/wscheck/internal/fold"
)

func init() {
	register(&Property{
		ID:      "C03",
		Explain: "FOLD: ws.CheckHeader is evaluated abstractly over the whole product Fin x Rsv(0..7) x OpCode(0..15) x Masked x State(0..15) x Length-cells (cells are split automatically at every constant the code compares Length with) and each cell's outcome is compared with a reference table of the RFC 6455 rules the check owns: accept iff no rule is broken, and a rejection must name a broken rule. ws.CheckCloseFrameData is evaluated over interval cells of the 65536 status codes (split at every constant the code and the reference use) x {valid, invalid} reason. NewCloseFrameBody / PutCloseFrameBody are evaluated over cells of len(reason): result length <= 125, every index and slice expression proven in range. ParseCloseFrameData(/Unsafe) are evaluated over cells of len(payload): < 2 gives (0, \"\"), otherwise the code is read big-endian at offset 0 and the reason is payload[2:]. This decides the predicates for every input at once; it does not run them.",
		Trusted: []string{"go/ssa construction (x/tools v0.29.0)", "go/types", "unicode/utf8.ValidString is the definition of valid UTF-8 (atom)", "encoding/binary.BigEndian (body followed, not assumed)", "the checker's own abstract evaluator (internal/fold)"},
		Assume:  []string{"Header.Length >= 0 (the property quantifies over [0, 2^63-1])", "Rsv in 0..7 and OpCode in 0..15 (the header layout admits no other values)"},
		Run:     runC03,
	})
}

type hdrCell struct {
	fin    bool
	rsv    int64
	op     int64
	masked bool
	state  int64
	length fold.Int
}

func (h hdrCell) String() string {
	return fmt.Sprintf("Fin=%v Rsv=%d Op=%#x Masked=%v State=%#x Length=%s", h.fin, h.rsv, h.op, h.masked, h.state, fold.Show(h.length))
}

// headerVal builds a ws.Header value: {Fin, Rsv, OpCode, Masked, Mask, Length}.
func headerVal(fin bool, rsv, op int64, masked bool, mask fold.Val, length fold.Val) fold.Struct {
	if mask == nil {
		mask = fold.Arr{E: []fold.Val{fold.K(0), fold.K(0), fold.K(0), fold.K(0)}}
	}
	return fold.Struct{F: []fold.Val{fold.Bool(fin), fold.K(rsv), fold.K(op), fold.Bool(masked), mask, length}}
}

func runC03(c *Ctx) {
	c03CheckHeader(c)
	c03CloseData(c)
	c03CloseBody(c)
	c03ParseClose(c)
}

func c03CheckHeader(c *Ctx) {
	const rule = "C03.checkheader-table"
	c.R.Rule(rule, 1, "CheckHeader accepts iff no owned rule is broken; a rejection names a broken rule")
	f := c.fn(rule, ws, "CheckHeader")
	if f == nil {
		return
	}
	// Check field layout assumption of ws.Header.
	if !c.headerLayoutOK(rule) {
		return
	}
	errs := map[string]string{}
	for _, n := range []string{"ErrProtocolOpCodeReserved", "ErrProtocolControlPayloadOverflow", "ErrProtocolControlNotFinal",
		"ErrProtocolNonZeroRsv", "ErrProtocolMaskRequired", "ErrProtocolMaskUnexpected",
		"ErrProtocolContinuationExpected", "ErrProtocolContinuationUnexpected"} {
		errs[n] = c.globalErrName(rule, ws, n)
	}
	m := c.machine()
	dom := &fold.IntDom{Name: "Length", Lo: 0, Hi: fold.MaxInt64, Cuts: []int64{126}}
	var cur hdrCell
	paths, err := m.ExploreCells(f, []*fold.IntDom{dom}, func(m *fold.Machine, cells []fold.Int) []fold.Val {
		cur = hdrCell{
			fin:    m.Choose("Fin", 2) == 1,
			rsv:    int64(m.Choose("Rsv", 8)),
			op:     int64(m.Choose("OpCode", 16)),
			masked: m.Choose("Masked", 2) == 1,
			state:  int64(m.Choose("State", 16)),
			length: cells[0],
		}
		return []fold.Val{headerVal(cur.fin, cur.rsv, cur.op, cur.masked, nil, cells[0]), fold.K(cur.state)}
	}, nil)
	if err != nil {
		c.R.Unknown(rule, rule+"/fold", c.P.FuncPos(f), "fold failed: "+err.Error())
		return
	}
	c.R.AddCells(len(paths))
	bad, undecided := 0, 0
	var firstBad string
	for _, p := range paths {
		cell := hdrCell{
			fin: p.Chose("Fin") == 1, rsv: int64(p.Chose("Rsv")), op: int64(p.Chose("OpCode")),
			masked: p.Chose("Masked") == 1, state: int64(p.Chose("State")), length: p.Cells[0],
		}
		if p.Abort != "" || p.Panic {
			undecided++
			if firstBad == "" {
				firstBad = cell.String() + ": " + p.Abort + panicNote(p.Path)
			}
			continue
		}
		broken := brokenHeaderRules(cell)
		got := c.errName(p.Ret)
		okCell := false
		if len(broken) == 0 {
			okCell = got == "nil"
		} else {
			for _, b := range broken {
				if errs[b] == got {
					okCell = true
				}
			}
		}
		if !okCell {
			bad++
			if firstBad == "" {
				firstBad = fmt.Sprintf("%s: returned %s, broken rules %v", cell, got, broken)
			}
		}
	}
	c.R.Sample(map[string]any{"rule": rule, "cells": len(paths), "length_cells": fold.Show(dom.Cells(0)[0]) + " ... (" + fmt.Sprint(len(dom.Cells(0))) + " cells)", "example_cell": "Fin=true Rsv=0 Op=0x9 Masked=true State=0x1 Length=[126..max] -> ErrProtocolControlPayloadOverflow"})
	switch {
	case undecided > 0:
		c.R.Unknown(rule, rule+"/CheckHeader", c.P.FuncPos(f), fmt.Sprintf("%d of %d cells could not be folded; first: %s", undecided, len(paths), firstBad))
	case bad > 0:
		c.R.Fail(rule, rule+"/CheckHeader", c.P.FuncPos(f), fmt.Sprintf("%d of %d cells disagree with the RFC 6455 reference; first: %s", bad, len(paths), firstBad))
	default:
		c.R.OK(rule, rule+"/CheckHeader", c.P.FuncPos(f), fmt.Sprintf("%d cells agree with the reference (Length cells: %d)", len(paths), len(dom.Cells(0))))
	}
}

func panicNote(p *fold.Path) string {
	if p.Panic {
		return "panics: " + fold.Show(p.PanicV)
	}
	return ""
}

// brokenHeaderRules is the reference: the RFC 6455 rules owned by CheckHeader.
func brokenHeaderRules(h hdrCell) []string {
	const (
		server, client, extended, fragmented = 1, 2, 4, 8
	)
	var b []string
	control := h.op&0x8 != 0
	reserved := (h.op >= 3 && h.op <= 7) || (h.op >= 0xb && h.op <= 0xf)
	if reserved {
		b = append(b, "ErrProtocolOpCodeReserved")
	}
	if control && h.length.Lo > 125 {
		b = append(b, "ErrProtocolControlPayloadOverflow")
	}
	if control && h.length.Lo <= 125 && h.length.Hi > 125 {
		b = append(b, "?straddle")
	}
	if control && !h.fin {
		b = append(b, "ErrProtocolControlNotFinal")
	}
	if h.rsv != 0 && h.state&extended == 0 {
		b = append(b, "ErrProtocolNonZeroRsv")
	}
	if h.state&server != 0 && !h.masked {
		b = append(b, "ErrProtocolMaskRequired")
	}
	if h.state&client != 0 && h.masked {
		b = append(b, "ErrProtocolMaskUnexpected")
	}
	if h.state&fragmented != 0 && !control && h.op != 0 {
		b = append(b, "ErrProtocolContinuationExpected")
	}
	if h.state&fragmented == 0 && h.op == 0 {
		b = append(b, "ErrProtocolContinuationUnexpected")
	}
	return b
}

// headerLayoutOK confirms that ws.Header still has the six fields the cell
// constructor assumes, in order.
func (c *Ctx) headerLayoutOK(rule string) bool {
	want := []string{"Fin", "Rsv", "OpCode", "Masked", "Mask", "Length"}
	n := c.P.NamedType(ws, "Header")
	if n == nil {
		c.R.Unknown(rule, rule+"/anchor:ws.Header", "-", "type ws.Header does not resolve")
		return false
	}
	st := structOf(n)
	if st == nil || st.NumFields() != len(want) {
		c.R.Unknown(rule, rule+"/anchor:ws.Header", "-", "ws.Header no longer has the 6 fields Fin,Rsv,OpCode,Masked,Mask,Length")
		return false
	}
	for i, w := range want {
		if st.Field(i).Name() != w {
			c.R.Unknown(rule, rule+"/anchor:ws.Header", "-", "ws.Header field order changed: "+st.Field(i).Name()+" where "+w+" was expected")
			return false
		}
	}
	return true
}

func c03CloseData(c *Ctx) {
	const rule = "C03.closecode-table"
	c.R.Rule(rule, 1, "CheckCloseFrameData accepts 1000-1003, 1007-1011, 3000-4999 with a valid reason, refuses every other code below 5000 (1012-1014 open)")
	f := c.fn(rule, ws, "CheckCloseFrameData")
	if f == nil {
		return
	}
	m := c.machine()
	dom := &fold.IntDom{Name: "code", Lo: 0, Hi: 65535, Cuts: []int64{1000, 1004, 1007, 1012, 1015, 3000, 5000}}
	paths, err := m.ExploreCells(f, []*fold.IntDom{dom}, func(m *fold.Machine, cells []fold.Int) []fold.Val {
		return []fold.Val{cells[0], fold.SymSeq{Name: "reason", Len: fold.Range(0, fold.MaxInt64), IsStr: true}}
	}, nil)
	if err != nil {
		c.R.Unknown(rule, rule+"/fold", c.P.FuncPos(f), "fold failed: "+err.Error())
		return
	}
	c.R.AddCells(len(paths))
	class := func(lo, hi int64) string { // reference classification of a whole cell
		in := func(a, b int64) bool { return lo >= a && hi <= b }
		switch {
		case in(1000, 1003), in(1007, 1011), in(3000, 4999):
			return "accept"
		case in(1012, 1014), in(5000, 65535):
			return "open"
		case in(0, 999), in(1004, 1006), in(1015, 2999):
			return "refuse"
		}
		return "straddle"
	}
	bad, und := 0, 0
	var first string
	var table []string
	for _, p := range paths {
		cell := p.Cells[0]
		if p.Abort != "" || p.Panic {
			und++
			if first == "" {
				first = fold.Show(cell) + ": " + p.Abort + panicNote(p.Path)
			}
			continue
		}
		valid := p.Chose("utf8valid(reason)") // -1 = never asked
		got := c.errName(p.Ret)
		cl := class(cell.Lo, cell.Hi)
		ok := true
		switch cl {
		case "accept":
			// accepted iff reason valid; the validity atom must have been asked
			ok = (valid == 1 && got == "nil") || (valid == 0 && got != "nil")
		case "refuse":
			ok = got != "nil"
		case "open":
			ok = !(valid == 0 && got == "nil") && !(valid == -1 && got == "nil")
		default:
			ok = false
		}
		table = append(table, fmt.Sprintf("%s utf8=%d -> %s", fold.Show(cell), valid, got))
		if !ok {
			bad++
			if first == "" {
				first = fmt.Sprintf("code %s (%s), reason valid=%d: returned %s", fold.Show(cell), cl, valid, got)
			}
		}
	}
	sort.Strings(table)
	if len(table) > 6 {
		c.R.Sample(map[string]any{"rule": rule, "table_excerpt": table[:6], "cells": len(dom.Cells(0))})
	}
	switch {
	case und > 0:
		c.R.Unknown(rule, rule+"/CheckCloseFrameData", c.P.FuncPos(f), fmt.Sprintf("%d paths could not be folded; first: %s", und, first))
	case bad > 0:
		c.R.Fail(rule, rule+"/CheckCloseFrameData", c.P.FuncPos(f), fmt.Sprintf("%d of %d (cell, validity) pairs disagree with the reference; first: %s", bad, len(paths), first))
	default:
		c.R.OK(rule, rule+"/CheckCloseFrameData", c.P.FuncPos(f), fmt.Sprintf("%d code cells x validity agree with the reference", len(dom.Cells(0))))
	}
}

func c03CloseBody(c *Ctx) {
	const rule = "C03.closebody-bounds"
	c.R.Rule(rule, 1, "NewCloseFrameBody returns at most 125 bytes and never indexes out of range, for every reason length")
	f := c.fn(rule, ws, "NewCloseFrameBody")
	if f == nil {
		return
	}
	m := c.machine()
	dom := &fold.IntDom{Name: "len(reason)", Lo: 0, Hi: bigLen()}
	code := &fold.IntDom{Name: "code", Lo: 0, Hi: 65535}
	paths, err := m.ExploreCells(f, []*fold.IntDom{dom, code}, func(m *fold.Machine, cells []fold.Int) []fold.Val {
		return []fold.Val{cells[1], fold.SymSeq{Name: "reason", Len: cells[0], IsStr: true}}
	}, nil)
	if err != nil {
		c.R.Unknown(rule, rule+"/fold", c.P.FuncPos(f), "fold failed: "+err.Error())
		return
	}
	c.R.AddCells(len(paths))
	var problems []string
	copies := 0
	for _, p := range paths {
		cell := fold.Show(p.Cells[0])
		if p.Abort != "" {
			problems = append(problems, cell+": undecided: "+p.Abort)
			continue
		}
		if p.Panic {
			problems = append(problems, cell+": panics: "+fold.Show(p.PanicV))
			continue
		}
		l := fold.LenOf(p.Ret)
		if l.Top || l.Hi > 125 {
			problems = append(problems, cell+": result length "+fold.Show(l)+" may exceed 125")
		}
		// minimal length: 2 + min(len, 123)
		want := p.Cells[0].Lo + 2
		if want > 125 {
			want = 125
		}
		if l.Top || l.Lo != want {
			problems = append(problems, cell+": result length "+fold.Show(l)+" differs from 2+min(len(reason),123)")
		}
		for _, e := range p.Effects {
			if e.Kind == "bounds" && e.Note != "proven" {
				problems = append(problems, cell+": "+e.String()+" at "+c.P.Pos(e.Pos))
			}
			if e.Kind == "copy" {
				copies++
			}
		}
	}
	if copies == 0 {
		problems = append(problems, "no copy of the reason into the body was seen")
	}
	if len(problems) > 0 {
		st := "violated"
		for _, p := range problems {
			if strings.Contains(p, "undecided") {
				st = "undecided"
			}
		}
		if st == "undecided" {
			c.R.Unknown(rule, rule+"/NewCloseFrameBody", c.P.FuncPos(f), strings.Join(problems[:min(3, len(problems))], "; "))
		} else {
			c.R.Fail(rule, rule+"/NewCloseFrameBody", c.P.FuncPos(f), strings.Join(problems[:min(3, len(problems))], "; "))
		}
		return
	}
	c.R.OK(rule, rule+"/NewCloseFrameBody", c.P.FuncPos(f), fmt.Sprintf("%d reason-length cells: length = 2+min(len,123) <= 125, all bounds proven", len(dom.Cells(0))))
}

func c03ParseClose(c *Ctx) {
	const rule = "C03.closeparse-layout"
	c.R.Rule(rule, 2, "ParseCloseFrameData(/Unsafe): payload < 2 bytes -> (0, \"\"); else code big-endian at [0,2), reason = payload[2:]")
	for _, name := range []string{"ParseCloseFrameData", "ParseCloseFrameDataUnsafe"} {
		f := c.fn(rule, ws, name)
		if f == nil {
			continue
		}
		m := c.machine()
		m.Models["(encoding/binary.bigEndian).Uint16"] = func(cl *fold.Call) fold.Val {
			cl.M.Emit(fold.Effect{Kind: "call", Name: "BigEndian.Uint16", Args: cl.Args[1:]})
			return fold.Int{Lo: 0, Hi: 65535, Name: "be16(" + fold.Show(cl.Args[1]) + ")"}
		}
		m.Models["(encoding/binary.littleEndian).Uint16"] = func(cl *fold.Call) fold.Val {
			cl.M.Emit(fold.Effect{Kind: "call", Name: "LittleEndian.Uint16", Args: cl.Args[1:]})
			return fold.Int{Lo: 0, Hi: 65535, Name: "le16(" + fold.Show(cl.Args[1]) + ")"}
		}
		dom := &fold.IntDom{Name: "len(payload)", Lo: 0, Hi: bigLen(), Cuts: []int64{2}}
		paths, err := m.ExploreCells(f, []*fold.IntDom{dom}, func(m *fold.Machine, cells []fold.Int) []fold.Val {
			return []fold.Val{fold.SymSeq{Name: "payload", Len: cells[0]}}
		}, nil)
		key := rule + "/" + name
		if err != nil {
			c.R.Unknown(rule, key, c.P.FuncPos(f), "fold failed: "+err.Error())
			continue
		}
		c.R.AddCells(len(paths))
		var problems []string
		for _, p := range paths {
			cell := fold.Show(p.Cells[0])
			if p.Abort != "" {
				problems = append(problems, "undecided "+cell+": "+p.Abort)
				continue
			}
			if p.Panic {
				problems = append(problems, cell+": panics")
				continue
			}
			ret, _ := p.Ret.(fold.Tuple)
			if len(ret) != 2 {
				problems = append(problems, "unexpected result shape")
				continue
			}
			if p.Cells[0].Hi < 2 {
				if fold.Show(ret[0]) != "0" || fold.Show(ret[1]) != `""` {
					problems = append(problems, cell+": short payload parses as ("+fold.Show(ret[0])+","+fold.Show(ret[1])+") instead of (0,\"\")")
				}
				continue
			}
			if intName(ret[0]) != "be16(payload)" {
				problems = append(problems, cell+": code is "+fold.Show(ret[0])+", want big-endian uint16 at offset 0")
			}
			rs := fold.Show(ret[1])
			wantCopy, wantView := "string(payload[2:])", "payload[2:]"
			if name == "ParseCloseFrameData" && rs != wantCopy {
				problems = append(problems, cell+": reason is "+rs+", want a copy of payload[2:]")
			}
			if name == "ParseCloseFrameDataUnsafe" && rs != wantView && rs != wantCopy {
				problems = append(problems, cell+": reason is "+rs+", want payload[2:]")
			}
			for _, e := range p.Effects {
				if e.Kind == "bounds" && e.Note != "proven" {
					problems = append(problems, cell+": "+e.String())
				}
			}
		}
		if len(problems) > 0 {
			if strings.HasPrefix(problems[0], "undecided") {
				c.R.Unknown(rule, key, c.P.FuncPos(f), strings.Join(problems[:min(3, len(problems))], "; "))
			} else {
				c.R.Fail(rule, key, c.P.FuncPos(f), strings.Join(problems[:min(3, len(problems))], "; "))
			}
			continue
		}
		c.R.OK(rule, key, c.P.FuncPos(f), "short payload -> (0,\"\"); code = be16(payload[0:2]); reason = payload[2:]")
	}
	// writer side: PutCloseFrameBody puts the code big-endian at offset 0 and the reason at 2.
	const wrule = "C03.closebody-layout"
	c.R.Rule(wrule, 1, "PutCloseFrameBody writes the code big-endian at [0,2) and the reason at [2:)")
	f := c.fn(wrule, ws, "PutCloseFrameBody")
	if f == nil {
		return
	}
	m := c.machine()
	m.Models["(encoding/binary.bigEndian).PutUint16"] = func(cl *fold.Call) fold.Val {
		cl.M.Emit(fold.Effect{Kind: "call", Name: "BigEndian.PutUint16", Args: cl.Args[1:]})
		return nil
	}
	m.Models["(encoding/binary.littleEndian).PutUint16"] = func(cl *fold.Call) fold.Val {
		cl.M.Emit(fold.Effect{Kind: "call", Name: "LittleEndian.PutUint16", Args: cl.Args[1:]})
		return nil
	}
	paths := m.Explore(f, func(m *fold.Machine) []fold.Val {
		return []fold.Val{fold.SymSeq{Name: "p", Len: fold.Range(125, 125)}, fold.Int{Lo: 0, Hi: 65535, Name: "code"}, fold.SymSeq{Name: "reason", Len: fold.Range(0, 123), IsStr: true}}
	}, nil)
	var problems []string
	for _, p := range paths {
		if p.Abort != "" {
			problems = append(problems, "undecided: "+p.Abort)
			continue
		}
		put := p.Calls("BigEndian.PutUint16")
		if len(put) != 1 || fold.Show(put[0].Args[0]) != "p" || intName(put[0].Args[1]) != "code" {
			problems = append(problems, "code is not stored with BigEndian.PutUint16(p, code)")
		}
		okCopy := false
		for _, e := range p.Effects {
			if e.Kind == "copy" && fold.Show(e.Args[0]) == "p[2:]" && fold.Show(e.Args[1]) == "reason" {
				okCopy = true
			}
		}
		if !okCopy {
			problems = append(problems, "reason is not copied to p[2:]")
		}
	}
	if len(problems) > 0 {
		if strings.HasPrefix(problems[0], "undecided") {
			c.R.Unknown(wrule, wrule+"/PutCloseFrameBody", c.P.FuncPos(f), problems[0])
		} else {
			c.R.Fail(wrule, wrule+"/PutCloseFrameBody", c.P.FuncPos(f), strings.Join(problems, "; "))
		}
		return
	}
	c.R.OK(wrule, wrule+"/PutCloseFrameBody", c.P.FuncPos(f), "PutUint16(p, code) big-endian at 0; copy(p[2:], reason)")
}
