package rules

func init() {
	register(&Property{
		ID:      "C09",
		Explain: "FOLD of both server upgraders. ws.Upgrader.Upgrade is evaluated on scripted requests (request-line forms GET 1.1 / 1.2 / 1.0 / 2.0 / 0.9 / POST / malformed; header lists: none, all five mandatory headers in two orders, each one missing, each header kind alone, with extra/protocol/extension/duplicate headers, a line without colon) with every value comparison, length test and user callback as a free atom and every read or flush able to fail; each path's outcome is compared with the reference decision procedure of RFC 6455 4.2.1: 101 exactly when nothing is broken, otherwise one error response built for the first broken rule and never a 101, transport errors returned untouched, no response for an unparsable request line, the accept key computed from the copy of the received 24-byte key, first accepted subprotocol returned and sent, pooled buffers put back exactly once after their last use. ws.HTTPUpgrader.Upgrade is folded over method x HTTP version cells x header atoms and must agree with the same reference (sibling agreement). The accept computation, the digit predicate of asciiToInt, the HTTP version parser and the response writers are folded separately. The status code handed to the error response is a real status on every path (a rejection without a status falls back to 500). config-read-only: no store reaches memory that belongs to the Upgrader / HTTPUpgrader value (whole-module may-write summaries). httpParseVersion is evaluated on ~1000 concrete version tokens against \"HTTP/\" 1*DIGIT \".\" 1*DIGIT; negotiateExtensions is folded over scripted option lists x callback outcomes (each extension offered once, in order; nothing negotiated after a rejection; the rejection returned). asciiToInt is also evaluated on long tokens around the int overflow boundaries (a value that does not fit is an error, also when the wrapped result is a small positive number). The status line of an error response carries the code that was asked for (13 codes from 101 to 599). extra-headers-writer: HandshakeHeaderHTTP.WriteTo delegates to net/http's Header.Write. A path stands for every configuration that agrees with the atoms it asked: where a callback or selector applies (OnRequest, OnHost, OnHeader, OnBeforeUpgrade, Protocol/ProtocolCustom, Negotiate, Extension/ExtensionCustom) a path that never asked whether it is set, or never asked for its verdict, is a violation; so is an error response that does not depend on whether the error is a rejection; the configured extra headers are written first and the rejection's headers second. builtin-error-statuses: the package initialiser of ws is folded (only functions that build or fill a ConnectionRejectedError are followed) and every built-in handshake error must come out as a rejection with the status the property names: 505, 405, 400, 426 with Sec-WebSocket-Version: 13. What is sent in the 101 (subprotocol, extensions) is what is returned; every Sec-WebSocket-Extensions line adds to what the earlier lines selected. httpGetHeader returns the first value of a field unchanged (never several lines joined); the header name is trimmed before it is canonicalised; readLine is folded on chunking scripts.",
		Trusted: []string{"go/ssa + go/types", "the checker's abstract evaluator", "httphead token/option scanning (atoms)", "crypto/sha1 and encoding/base64 (not analysed)"},
		Assume:  []string{"lexical behaviour of httphead on arbitrary header values and byte-exact response layout are not decided"},
		Run: func(c *Ctx) {
			serverUpgraderRules(c, "C09")
			httpUpgraderRules(c, "C09")
			httpGetHeaderRules(c, "C09")
			asciiToIntRules(c, "C09")
			acceptRules(c, "C09")
			responseWriterRules(c, "C09")
			parserHelperRules(c, "C09")
			c17Selection(c)
			c17UnsafeViews(c)
			configReadOnlyRules(c, "C09")
			negotiateExtensionsRules(c, "C09")
			headerWriterRules(c, "C09")
			builtinStatusRules(c, "C09")
			readLineRules(c, "C09")
		},
	})
}
