package rules

import (
	"fmt"
	"go/token"
	"go/types"

	"golang.org/x/tools/go/ssa"

	"verif/wscheck/internal/fold"
)

// addWriterMidModels models the writer's own emitting methods as effects that
// update the receiver the way their folded tables (writerMethodRules) say.
func addWriterMidModels(m *fold.Machine, L *writerLayout) {
	setErr := func(mm *fold.Machine, r fold.Ref, failed bool) fold.Val {
		if failed {
			e := fold.Sym{Name: "emit-error", NonNil: true}
			mm.Store(fold.Ref{O: r.O, Path: []int{L.err}}, e)
			return e
		}
		return fold.Nil{}
	}
	m.Models["(*"+wsutil+".Writer).WriteThrough"] = func(cl *fold.Call) fold.Val {
		mm := cl.M
		r := cl.Args[0].(fold.Ref)
		buffered := mm.Load(fold.Ref{O: r.O, Path: []int{L.n}})
		mm.Emit(fold.Effect{Kind: "call", Name: "WriteThrough", Args: []fold.Val{cl.Args[1], buffered}})
		if cur := mm.Load(fold.Ref{O: r.O, Path: []int{L.err}}); fold.Show(cur) != "nil" {
			return fold.Tuple{fold.K(0), cur}
		}
		failed := mm.Choose(fmt.Sprintf("through%d.err", cl.Seq), 2) == 1
		e := setErr(mm, r, failed)
		mm.Store(fold.Ref{O: r.O, Path: []int{L.dirty}}, fold.Bool(true))
		if failed {
			return fold.Tuple{fold.K(0), e}
		}
		return fold.Tuple{fold.LenOf(cl.Args[1]), e}
	}
	m.Models["(*"+wsutil+".Writer).FlushFragment"] = func(cl *fold.Call) fold.Val {
		mm := cl.M
		r := cl.Args[0].(fold.Ref)
		buffered := mm.Load(fold.Ref{O: r.O, Path: []int{L.n}})
		mm.Emit(fold.Effect{Kind: "call", Name: "FlushFragment", Args: []fold.Val{buffered}})
		if cur := mm.Load(fold.Ref{O: r.O, Path: []int{L.err}}); fold.Show(cur) != "nil" {
			return cur
		}
		failed := mm.Choose(fmt.Sprintf("flush%d.err", cl.Seq), 2) == 1
		e := setErr(mm, r, failed)
		mm.Store(fold.Ref{O: r.O, Path: []int{L.n}}, fold.K(0))
		return e
	}
	m.Models["(*"+wsutil+".Writer).Grow"] = func(cl *fold.Call) fold.Val {
		mm := cl.M
		r := cl.Args[0].(fold.Ref)
		mm.Emit(fold.Effect{Kind: "call", Name: "Grow", Args: cl.Args[1:]})
		n, _ := mm.Load(fold.Ref{O: r.O, Path: []int{L.n}}).(fold.Int)
		want, _ := cl.Args[1].(fold.Int)
		// after Grow(k) at least k more bytes fit: model exactly k
		l := addInts(n, want)
		mm.Store(fold.Ref{O: r.O, Path: []int{L.buf}}, fold.SymSeq{Name: fmt.Sprintf("grown#%d", cl.Seq), Len: l})
		return nil
	}
	m.Models["(*"+wsutil+".Writer).flushFragment"] = func(cl *fold.Call) fold.Val {
		cl.M.Emit(fold.Effect{Kind: "call", Name: "flushFragment", Args: cl.Args[1:]})
		return errChoice(cl.M, "rawemit.err", "emit-error")
	}
}

func addInts(a, b fold.Int) fold.Int {
	if a.IsConst() && b.IsConst() {
		return fold.K(a.Const() + b.Const())
	}
	if a.IsConst() && !b.Top {
		r := b
		r.Lo += a.Const()
		r.Hi += a.Const()
		if r.In != 0 {
			r.Off += a.Const()
		}
		r.Name = fmt.Sprintf("(%s+%d)", b.Name, a.Const())
		return r
	}
	if b.IsConst() {
		return addInts(b, a)
	}
	return fold.Int{Top: true}
}

var _ = token.ADD

// writerWriteRules folds Writer.Write and Writer.ReadFrom on concrete buffers
// with the input length as interval cells.
func writerWriteRules(c *Ctx, prop string) {
	L := c.writerLayout(prop + ".writer")
	if L == nil {
		return
	}
	sticky := prop == "C16"
	rule := prop + ".writer-write"
	if sticky {
		rule = prop + ".writer-sticky"
	}
	c.R.Rule(rule, 1, "Write/ReadFrom: every byte is accounted once, nothing is emitted while the data fits or when flushing is disabled, a failed writer answers with its error and sends nothing")
	if f := c.method(rule, wsutil, "Writer", "Write"); f != nil {
		m := c.machine()
		addWriterMidModels(m, L)
		dom := &fold.IntDom{Name: "len(p)", Lo: 0, Hi: 1 << 20}
		var cfg writerCfg
		var obj *fold.Obj
		type rec struct {
			cfg  writerCfg
			cell fold.Int
			p    *fold.Path
			fin  writerFinal
		}
		var out []rec
		paths, err := m.ExploreCells(f, []*fold.IntDom{dom}, func(mm *fold.Machine, cells []fold.Int) []fold.Val {
			cfg = writerCfg{rawLen: 16, offset: 2, op: 1}
			cfg.n = []int{0, 4, 14}[mm.Choose("n", 3)]
			cfg.noFlush = mm.Choose("noflush", 2) == 1
			cfg.sticky = mm.Choose("sticky", 2) == 1
			// NewWriterBuffer(arena[:n]): a caller's buffer may have capacity beyond its length;
			// the free space is counted in len(buf), never in cap(buf)
			cfg.arena = []int{0, 32}[mm.Choose("arena", 2)]
			obj, _ = newWriterObj(mm, L, cfg)
			return []fold.Val{fold.Ref{O: obj}, fold.SymSeq{Name: "p", Len: cells[0]}}
		}, func(mm *fold.Machine, cells []fold.Int, p *fold.Path) {
			out = append(out, rec{cfg: cfg, cell: cells[0], p: p, fin: writerFinalOf(mm, obj, L)})
		})
		var problems []string
		if err != nil {
			problems = append(problems, "undecided: "+err.Error())
		}
		c.R.AddCells(len(paths))
		for _, p := range paths {
			if p.Abort != "" || p.Panic {
				problems = append(problems, "undecided: "+p.Abort+panicNote(p.Path))
			}
		}
		// only keep records of the final (fully refined) round
		final := map[*fold.Path]bool{}
		for _, p := range paths {
			final[p.Path] = true
		}
		nrec := 0
		for _, r := range out {
			if !final[r.p] {
				continue
			}
			nrec++
			ret, _ := r.p.Ret.(fold.Tuple)
			if len(ret) != 2 {
				problems = append(problems, "unexpected result shape")
				continue
			}
			n, _ := ret[0].(fold.Int)
			e := c.errName(ret[1])
			desc := fmt.Sprintf("[%s len(p)=%s]", r.cfg, fold.Show(r.cell))
			emits := len(r.p.Calls("WriteThrough")) + len(r.p.Calls("FlushFragment")) + len(r.p.Calls("flushFragment"))
			avail := int64(14 - r.cfg.n)
			if r.cfg.sticky && !sticky {
				continue // behaviour of a failed writer is C16's subject
			}
			if r.cfg.sticky {
				if len(r.p.Calls("flushFragment")) != 0 || e != "sticky-error" {
					problems = append(problems, "Write on a failed writer must send nothing and return the error "+desc+": "+e)
				}
				continue
			}
			if r.cfg.noFlush && emits != 0 {
				problems = append(problems, "Write emits a frame although flushing is disabled "+desc)
			}
			if r.cell.Hi <= avail && emits != 0 {
				problems = append(problems, "Write flushes although the data fits the buffer (pre-emptive flush) "+desc)
			}
			if !r.cfg.noFlush && r.cell.Lo > avail && emits == 0 {
				problems = append(problems, "Write accepts more than the buffer holds without emitting "+desc)
			}
			for _, wt := range r.p.Calls("WriteThrough") {
				if fold.Show(wt.Args[1]) != "0" {
					problems = append(problems, "Write calls WriteThrough while bytes are buffered "+desc)
				}
			}
			if e != r.fin.err {
				problems = append(problems, "Write returns "+e+" but the writer's sticky error is "+r.fin.err+" "+desc)
			}
			if e == "nil" {
				if !(n.In == 1 && n.Off == 0) && !(n.IsConst() && r.cell.IsConst() && n.Const() == r.cell.Const()) {
					problems = append(problems, "Write reports "+fold.Show(n)+" bytes accepted, not len(p) "+desc)
				}
				// accounting: bytes copied into the buffer + bytes written through == len(p)
				var consts int64
				lin := 0
				var offs int64
				add := func(v fold.Val) {
					i, _ := v.(fold.Int)
					switch {
					case i.IsConst():
						consts += i.Const()
					case i.In == 1:
						lin++
						offs += i.Off
					default:
						lin = 99
					}
				}
				for _, ef := range r.p.Effects {
					if ef.Kind == "copy" {
						add(ef.Args[2])
					}
				}
				for _, wt := range r.p.Calls("WriteThrough") {
					add(fold.LenOf(wt.Args[0]))
				}
				okAcc := lin == 1 && consts+offs == 0 || lin == 0 && r.cell.IsConst() && consts == r.cell.Const()
				if !okAcc {
					problems = append(problems, fmt.Sprintf("bytes buffered + written through do not add up to len(p) (%d symbolic terms, constant part %d) %s", lin, consts+offs, desc))
				}
				if r.fin.dirty != "true" {
					problems = append(problems, "Write does not mark the message dirty "+desc)
				}
			}
		}
		c.verdict(rule, rule+"/Write", c.P.FuncPos(f), uniq(problems), fmt.Sprintf("%d paths over 3 fill levels x flush mode x failed x len(p) cells %d", nrec, len(dom.Cells(0))))
	}
	if f := c.method(rule, wsutil, "Writer", "ReadFrom"); f != nil {
		m := c.machine()
		addWriterMidModels(m, L)
		var cfg writerCfg
		var obj *fold.Obj
		type rec struct {
			cfg writerCfg
			p   *fold.Path
			fin writerFinal
		}
		var out []rec
		var delivered int64 // bytes the source handed over on this path
		var flushed int64   // bytes that left the buffer through FlushFragment
		deliveredOf := map[*fold.Path]int64{}
		m.Models["invoke:(io.Reader).Read"] = func(cl *fold.Call) fold.Val {
			mm := cl.M
			mm.Emit(fold.Effect{Kind: "call", Name: "src.Read", Args: cl.Args[1:]})
			opts := 5
			if cl.Seq >= 3 {
				opts = 4
			}
			// 0 EOF, 1 error, 2 one byte together with EOF, 3 one byte together with an error, 4 data
			k := mm.Choose(fmt.Sprintf("src%d", cl.Seq), opts)
			switch k {
			case 0:
				return fold.Tuple{fold.K(0), fold.Sym{Name: "global:io.EOF", NonNil: true}}
			case 1:
				return fold.Tuple{fold.K(0), fold.Sym{Name: "src-error", NonNil: true}}
			case 2:
				delivered++
				return fold.Tuple{fold.K(1), fold.Sym{Name: "global:io.EOF", NonNil: true}}
			case 3:
				delivered++
				return fold.Tuple{fold.K(1), fold.Sym{Name: "src-error", NonNil: true}}
			}
			l := fold.LenOf(cl.Args[1])
			// fill the whole slice or one byte
			if mm.Choose(fmt.Sprintf("src%d.full", cl.Seq), 2) == 1 {
				if l.IsConst() {
					delivered += l.Const()
				} else {
					delivered = -1 << 40
				}
				return fold.Tuple{l, fold.Nil{}}
			}
			delivered++
			return fold.Tuple{fold.K(1), fold.Nil{}}
		}
		_ = flushed
		paths := m.Explore(f, func(mm *fold.Machine) []fold.Val {
			cfg = writerCfg{rawLen: 16, offset: 2, op: 1}
			delivered = 0
			cfg.n = []int{0, 4, 14}[mm.Choose("n", 3)]
			cfg.noFlush = mm.Choose("noflush", 2) == 1
			cfg.sticky = mm.Choose("sticky", 2) == 1
			// NewWriterBuffer(arena[:n]): a caller's buffer may have capacity beyond its length;
			// the free space is counted in len(buf), never in cap(buf)
			cfg.arena = []int{0, 32}[mm.Choose("arena", 2)]
			obj, _ = newWriterObj(mm, L, cfg)
			return []fold.Val{fold.Ref{O: obj}, fold.Iface{V: fold.Sym{Name: "src", NonNil: true}}}
		}, func(mm *fold.Machine, p *fold.Path) {
			deliveredOf[p] = delivered
			out = append(out, rec{cfg: cfg, p: p, fin: writerFinalOf(mm, obj, L)})
		})
		c.R.AddCells(len(paths))
		c.R.Paths += len(paths)
		var problems []string
		for _, p := range paths {
			if p.Abort != "" || p.Panic {
				problems = append(problems, "undecided: "+p.Abort+panicNote(p))
			}
		}
		for _, r := range out {
			ret, _ := r.p.Ret.(fold.Tuple)
			if len(ret) != 2 {
				problems = append(problems, "unexpected result shape")
				continue
			}
			e := c.errName(ret[1])
			desc := "[" + r.cfg.String() + " " + r.p.ChoiceString() + "]"
			// accounting: every byte the source handed over is counted in the result and in the buffer,
			// also when it arrives together with io.EOF or an error
			if d := deliveredOf[r.p]; !r.cfg.sticky && d >= 0 {
				if got := fold.Show(ret[0]); got != fmt.Sprint(d) {
					problems = append(problems, fmt.Sprintf("ReadFrom reports %s bytes although the source handed over %d (bytes that arrive together with io.EOF or an error are part of the message) %s", got, d, desc))
				}
				var out int64
				for _, ff := range r.p.Calls("FlushFragment") {
					if k, ok := ff.Args[0].(fold.Int); ok && k.IsConst() {
						out += k.Const()
					}
				}
				if len(r.p.Calls("Grow")) == 0 && r.fin.n != fmt.Sprint(int64(r.cfg.n)+d-out) {
					problems = append(problems, fmt.Sprintf("after ReadFrom %s bytes are buffered, want %d = %d before + %d read - %d flushed %s", r.fin.n, int64(r.cfg.n)+d-out, r.cfg.n, d, out, desc))
				}
			}
			emits := len(r.p.Calls("WriteThrough")) + len(r.p.Calls("FlushFragment")) + len(r.p.Calls("flushFragment"))
			if r.cfg.sticky && !sticky {
				continue
			}
			if r.cfg.sticky {
				if len(r.p.Calls("flushFragment")) != 0 || e != "sticky-error" {
					problems = append(problems, "ReadFrom on a failed writer must send nothing and return the writer's error, got "+e+" "+fmt.Sprintf("[%s]", r.cfg))
				}
				continue
			}
			if r.cfg.noFlush && emits != 0 {
				problems = append(problems, "ReadFrom emits a frame although flushing is disabled "+desc)
			}
			// find how the source ended
			ended := ""
			for i := 1; i <= 3; i++ {
				switch r.p.Chose(fmt.Sprintf("src%d", i)) {
				case 0, 2:
					ended = "eof"
				case 1, 3:
					ended = "error"
				}
				if ended != "" {
					break
				}
			}
			flushFailed := false
			for i := 1; i <= 4; i++ {
				if r.p.Chose(fmt.Sprintf("flush%d.err", i)) == 1 {
					flushFailed = true
				}
			}
			switch {
			case flushFailed:
				if e != "emit-error" {
					problems = append(problems, "ReadFrom loses the emission error: "+e+" "+desc)
				}
			case ended == "error":
				if e != "src-error" {
					problems = append(problems, "ReadFrom loses the source error: "+e+" "+desc)
				}
			case ended == "eof":
				if e != "nil" {
					problems = append(problems, "ReadFrom must return nil at EOF, got "+e+" "+desc)
				}
				if r.fin.dirty != "true" {
					problems = append(problems, "ReadFrom does not mark the message dirty at EOF "+desc)
				}
				// no pre-emptive flush after the last read
				last := ""
				for _, ef := range r.p.Effects {
					if ef.Kind == "call" {
						last = ef.Name
					}
				}
				if last == "FlushFragment" || last == "WriteThrough" || last == "flushFragment" {
					problems = append(problems, "ReadFrom flushes after the source ended (pre-emptive flush) "+desc)
				}
			}
			// every FlushFragment happens with a full buffer only
			for _, ff := range r.p.Calls("FlushFragment") {
				if fold.Show(ff.Args[0]) != "14" {
					problems = append(problems, "ReadFrom flushes a buffer that is not full ("+fold.Show(ff.Args[0])+" of 14) "+desc)
				}
			}
		}
		c.verdict(rule, rule+"/ReadFrom", c.P.FuncPos(f), uniq(problems), fmt.Sprintf("%d paths over scripted sources (data / EOF / error, up to 3 reads)", len(out)))
	}
}

// controlWriterRules folds wsutil.ControlWriter.
func controlWriterRules(c *Ctx, prop string) {
	rule := prop + ".controlwriter-limit"
	c.R.Rule(rule, 3, "ControlWriter never lets more than 125 bytes into one control frame: the limit is <= 125 and <= the inner buffer, the counter is advanced by what the inner writer accepted and cleared by Flush")
	cw := c.P.NamedType(wsutil, "ControlWriter")
	L := c.writerLayout(rule)
	if cw == nil || L == nil {
		c.R.Unknown(rule, rule+"/anchor:wsutil.ControlWriter", "-", "type does not resolve")
		return
	}
	st := structOf(cw)
	iw := fieldIdx(st, "w", typeIs("*"+wsutil+".Writer"))
	ilimit := fieldIdx(st, "limit", nil)
	in := fieldIdx(st, "n", nil)
	if iw < 0 || ilimit < 0 || in < 0 {
		c.R.Unknown(rule, rule+"/anchor:wsutil.ControlWriter.fields", "-", "fields w/limit/n do not resolve")
		return
	}
	// Write
	if f := c.method(rule, wsutil, "ControlWriter", "Write"); f != nil {
		errOverflow := c.globalErrName(rule, wsutil, "ErrControlOverflow")
		m := c.machine()
		m.Models["(*"+wsutil+".Writer).Write"] = func(cl *fold.Call) fold.Val {
			cl.M.Emit(fold.Effect{Kind: "call", Name: "inner.Write", Args: cl.Args[1:]})
			failed := cl.M.Choose("inner.err", 2) == 1
			if failed {
				return fold.Tuple{fold.Int{Lo: 0, Hi: 125, Name: "partial"}, fold.Sym{Name: "inner-error", NonNil: true}}
			}
			return fold.Tuple{fold.LenOf(cl.Args[1]), fold.Nil{}}
		}
		plen := &fold.IntDom{Name: "len(p)", Lo: 0, Hi: 4096}
		usedVals := []int64{0, 1, 60, 124, 125}
		var obj *fold.Obj
		type rec struct {
			used int64
			cell fold.Int
			p    *fold.Path
			n    fold.Val
		}
		var out []rec
		var curUsed int64
		paths, err := m.ExploreCells(f, []*fold.IntDom{plen}, func(mm *fold.Machine, cells []fold.Int) []fold.Val {
			curUsed = usedVals[mm.Choose("used", len(usedVals))]
			s := fold.SymOfType("cw", cw).(fold.Struct)
			s.F[iw] = fold.Sym{Name: "inner", NonNil: true}
			s.F[ilimit] = fold.K(125)
			s.F[in] = fold.K(curUsed)
			obj = mm.NewObj("cw", s)
			return []fold.Val{fold.Ref{O: obj}, fold.SymSeq{Name: "p", Len: cells[0]}}
		}, func(mm *fold.Machine, cells []fold.Int, p *fold.Path) {
			out = append(out, rec{used: curUsed, cell: cells[0], p: p, n: mm.Load(fold.Ref{O: obj, Path: []int{in}})})
		})
		var problems []string
		if err != nil {
			problems = append(problems, "undecided: "+err.Error())
		}
		c.R.AddCells(len(paths))
		final := map[*fold.Path]bool{}
		for _, p := range paths {
			final[p.Path] = true
			if p.Abort != "" || p.Panic {
				problems = append(problems, "undecided: "+p.Abort+panicNote(p.Path))
			}
		}
		for _, r := range out {
			if !final[r.p] {
				continue
			}
			ret, _ := r.p.Ret.(fold.Tuple)
			if len(ret) != 2 {
				continue
			}
			e := c.errName(ret[1])
			l := r.cell
			desc := fmt.Sprintf("[already written=%d len(p)=%s]", r.used, fold.Show(l))
			over := r.used+l.Lo > 125
			fits := r.used+l.Hi <= 125
			inner := r.p.Calls("inner.Write")
			switch {
			case over:
				if e != errOverflow || len(inner) != 0 {
					problems = append(problems, "a write that would exceed 125 bytes must fail with ErrControlOverflow and reach nothing "+desc+": "+e)
				}
			case fits:
				if len(inner) != 1 || fold.Show(inner[0].Args[0]) != "p" {
					problems = append(problems, "a fitting write must be delegated once to the inner writer "+desc)
					continue
				}
				if r.p.Chose("inner.err") == 0 {
					nv, _ := r.n.(fold.Int)
					okAdv := nv.In == 1 && nv.Off == r.used || nv.IsConst() && l.IsConst() && nv.Const() == r.used+l.Const()
					if !okAdv {
						problems = append(problems, "the byte counter compared with the limit is not advanced by the accepted bytes (it is "+fold.Show(r.n)+" after the write), so the 125-byte guard never trips "+desc)
					}
				}
			default:
				problems = append(problems, "undecided: cell straddles the limit "+desc)
			}
		}
		c.verdict(rule, rule+"/Write", c.P.FuncPos(f), uniq(problems), fmt.Sprintf("%d (used, len(p)) cells", len(paths)))
	}
	// Flush resets the counter
	if f := c.method(rule, wsutil, "ControlWriter", "Flush"); f != nil {
		m := c.machine()
		m.Models["(*"+wsutil+".Writer).Flush"] = func(cl *fold.Call) fold.Val {
			cl.M.Emit(fold.Effect{Kind: "call", Name: "inner.Flush", Args: cl.Args[1:]})
			return errChoice(cl.M, "flush.err", "flush-error")
		}
		var obj *fold.Obj
		var problems []string
		paths := m.Explore(f, func(mm *fold.Machine) []fold.Val {
			s := fold.SymOfType("cw", cw).(fold.Struct)
			s.F[iw] = fold.Sym{Name: "inner", NonNil: true}
			s.F[ilimit] = fold.K(125)
			s.F[in] = fold.K(77)
			obj = mm.NewObj("cw", s)
			return []fold.Val{fold.Ref{O: obj}}
		}, func(mm *fold.Machine, p *fold.Path) {
			if len(p.Calls("inner.Flush")) != 1 {
				problems = append(problems, "Flush does not flush the inner writer exactly once")
			}
			if (p.Chose("flush.err") > 0) != (c.errName(p.Ret) == "flush-error") {
				problems = append(problems, "Flush loses the inner writer's error")
			}
			if fold.Show(mm.Load(fold.Ref{O: obj, Path: []int{in}})) != "0" {
				problems = append(problems, "Flush does not clear the byte counter: the next control frame starts with the previous one's count")
			}
		})
		for _, p := range paths {
			if p.Abort != "" || p.Panic {
				problems = append(problems, "undecided: "+p.Abort+panicNote(p))
			}
		}
		c.verdict(rule, rule+"/Flush", c.P.FuncPos(f), uniq(problems), "inner flush once, error returned, counter cleared")
	}
	// constructors: limit <= 125 and <= inner buffer
	for _, ctor := range []string{"NewControlWriter", "NewControlWriterBuffer"} {
		f := c.fn(rule, wsutil, ctor)
		if f == nil {
			continue
		}
		m := c.machine()
		dom := &fold.IntDom{Name: "len(buf)", Lo: 0, Hi: 1 << 20}
		var problems []string
		var res []struct {
			cell     fold.Int
			limit, b fold.Val
		}
		doms := []*fold.IntDom{dom}
		if ctor == "NewControlWriter" {
			doms = nil
		}
		paths, err := m.ExploreCells(f, doms, func(mm *fold.Machine, cells []fold.Int) []fold.Val {
			st := fold.K(int64(1 + mm.Choose("client", 2)))
			args := []fold.Val{fold.Sym{Name: "dest", NonNil: true}, st, fold.K(9)}
			if ctor == "NewControlWriterBuffer" {
				args = append(args, fold.SymSeq{Name: "buf", Len: cells[0]})
			}
			return args
		}, func(mm *fold.Machine, cells []fold.Int, p *fold.Path) {
			r, ok := p.Ret.(fold.Ref)
			if !ok {
				return
			}
			lim := mm.Load(fold.Ref{O: r.O, Path: []int{ilimit}})
			wv := mm.Load(fold.Ref{O: r.O, Path: []int{iw}})
			var bl fold.Val
			if wr, ok := wv.(fold.Ref); ok {
				bl = fold.LenOf(mm.Load(fold.Ref{O: wr.O, Path: []int{L.buf}}))
			}
			cell := fold.K(0)
			if len(cells) > 0 {
				cell = cells[0]
			}
			res = append(res, struct {
				cell     fold.Int
				limit, b fold.Val
			}{cell, lim, bl})
		})
		if err != nil {
			problems = append(problems, "undecided: "+err.Error())
		}
		c.R.AddCells(len(paths))
		okc := 0
		for _, p := range paths {
			if p.Abort != "" {
				problems = append(problems, "undecided: "+p.Abort)
			}
			if p.Panic {
				okc++ // documented: panics when the buffer cannot hold a header and a byte
			}
		}
		for _, r := range res {
			lim, _ := r.limit.(fold.Int)
			bl, _ := r.b.(fold.Int)
			if lim.Top || lim.Hi > 125 {
				problems = append(problems, fmt.Sprintf("%s: limit %s may exceed 125 for len(buf)=%s", ctor, fold.Show(lim), fold.Show(r.cell)))
			}
			if bl.Top || !(lim.Hi <= bl.Lo || lim.In != 0 && lim.In == bl.In && lim.Off <= bl.Off) {
				problems = append(problems, fmt.Sprintf("%s: limit %s exceeds the inner buffer %s: the inner writer would fragment the control frame", ctor, fold.Show(lim), fold.Show(bl)))
			}
			okc++
		}
		if okc == 0 {
			problems = append(problems, "undecided: constructor produced no result")
		}
		c.verdict(rule, rule+"/"+ctor, c.P.FuncPos(f), uniq(problems), fmt.Sprintf("%d cells: limit <= 125 and <= inner buffer", len(res)))
	}
}

// writerGrowRules folds Writer.Grow on concrete buffers: the buffered bytes
// survive at their place behind the (possibly larger) header reservation, the
// reservation is the one the new size calls for, at least n more bytes fit,
// nothing happens when they already fit.
func writerGrowRules(c *Ctx, prop string) {
	rule := prop + ".writer-grow"
	c.R.Rule(rule, 1, "Grow keeps the buffered bytes, re-reserves the header space for the new size and makes room for n more bytes")
	L := c.writerLayout(rule)
	f := c.method(rule, wsutil, "Writer", "Grow")
	if L == nil || f == nil {
		return
	}
	type job struct {
		client   bool
		raw, n   int
		grow     int
		extended bool
		arena    int // the buffer is the front of a larger array of the caller (NewWriterBuffer(arena[:n]))
	}
	var jobs []job
	grows := []int{0, 1, 9, 120, 130, 300}
	if c.Tier == "thorough" {
		grows = append(grows, 2, 118, 119, 121, 122, 125, 126, 127, 250, 1000, 70000)
	}
	for _, client := range []bool{false, true} {
		for _, sh := range [][2]int{{16, 0}, {16, 5}, {16, 9}, {140, 0}, {140, 100}} {
			for _, g := range grows {
				jobs = append(jobs, job{client: client, raw: sh[0], n: sh[1], grow: g, extended: g%2 == 1})
			}
			jobs = append(jobs, job{client: client, raw: sh[0], n: sh[1], grow: 9, arena: 512}, job{client: client, raw: sh[0], n: sh[1], grow: 120, arena: 512})
		}
	}
	results := make([][]string, len(jobs))
	parallel(len(jobs), func(i int) {
		jb := jobs[i]
		off := 2
		if jb.client {
			off = 6
		}
		if jb.raw > 131 {
			off += 2
		}
		if jb.n > jb.raw-off {
			return
		}
		m := c.machine()
		var obj *fold.Obj
		var out []string
		desc := fmt.Sprintf("[client=%v len(raw)=%d cap(raw)=%d reserve=%d buffered=%d Grow(%d)]", jb.client, jb.raw, jb.raw+jb.arena, off, jb.n, jb.grow)
		var rawBefore *fold.Obj
		ps := m.Explore(f, func(mm *fold.Machine) []fold.Val {
			cfg := writerCfg{rawLen: jb.raw, offset: off, n: jb.n, op: 2, client: jb.client, arena: jb.arena}
			if jb.extended {
				cfg.extra = 4
			}
			obj, rawBefore = newWriterObj(mm, L, cfg)
			return []fold.Val{fold.Ref{O: obj}, fold.K(int64(jb.grow))}
		}, func(mm *fold.Machine, p *fold.Path) {
			raw, ok1 := mm.Load(fold.Ref{O: obj, Path: []int{L.raw}}).(fold.SliceV)
			buf, ok2 := mm.Load(fold.Ref{O: obj, Path: []int{L.buf}}).(fold.SliceV)
			if !ok1 || !ok2 {
				out = append(out, "undecided: buffers are not concrete after Grow "+desc)
				return
			}
			if fold.Show(mm.Load(fold.Ref{O: obj, Path: []int{L.n}})) != fmt.Sprint(jb.n) {
				out = append(out, "Grow changes the number of buffered bytes "+desc)
			}
			free := int(buf.Len) - jb.n
			if free < jb.grow {
				out = append(out, fmt.Sprintf("after Grow only %d more bytes fit %s", free, desc))
			}
			if jb.raw-off-jb.n >= jb.grow {
				if int(raw.Len) != jb.raw || int(buf.Len) != jb.raw-off {
					out = append(out, "Grow reallocates although the bytes already fit "+desc)
				}
				return
			}
			if raw.O == rawBefore && int(raw.Len) > jb.raw {
				out = append(out, fmt.Sprintf("Grow extends the buffer in place to %d bytes: with a buffer from NewWriterBuffer(arena[:n]) the writer takes over, and overwrites, the caller's memory behind the buffer %s", raw.Len, desc))
				return
			}
			newOff := int(raw.Len - buf.Len)
			if buf.O != raw.O || buf.Lo != raw.Lo+int64(newOff) || buf.Lo+buf.Len != raw.Lo+raw.Len {
				out = append(out, "after Grow buf is not the tail of raw behind the reservation "+desc)
				return
			}
			// the reservation the new size calls for
			mask := 0
			if jb.client {
				mask = 4
			}
			want := mask + 10
			switch {
			case int(raw.Len) <= 125+mask+2:
				want = mask + 2
			case int(raw.Len) <= 65535+mask+4:
				want = mask + 4
			}
			if newOff != want {
				out = append(out, fmt.Sprintf("after Grow to %d bytes %d are reserved for the header, the size calls for %d %s", raw.Len, newOff, want, desc))
			}
			if raw.Len&(raw.Len-1) != 0 {
				out = append(out, fmt.Sprintf("the grown buffer has %d bytes, not a power of two (the writer pool only takes those) %s", raw.Len, desc))
			}
			got := laneNamesPlain(mm.Elems(fold.SliceV{O: buf.O, Path: buf.Path, Lo: buf.Lo, Len: int64(jb.n), Cap: int64(jb.n)}))
			for k := 0; k < jb.n; k++ {
				if got[k] != fmt.Sprintf("p%d", k) {
					out = append(out, fmt.Sprintf("buffered byte %d is %s after Grow %s", k, got[k], desc))
					break
				}
			}
		})
		for _, p := range ps {
			if p.Abort != "" {
				out = append(out, "undecided: "+p.Abort+" "+desc)
			} else if p.Panic {
				out = append(out, "Grow panics: "+fold.Show(p.PanicV)+" "+desc)
			}
		}
		results[i] = out
	})
	var problems []string
	for _, r := range results {
		problems = append(problems, r...)
	}
	c.R.AddCells(len(jobs))
	c.verdict(rule, rule+"/Grow", c.P.FuncPos(f), uniq(problems), fmt.Sprintf("%d (side, buffer, fill, n) combinations", len(jobs)))
}

// counterWidthRules: a field the code counts in (x.f++ / x.f += n: the fragment
// number of a message, a stream position, a byte count) is as wide as int. A
// narrower counter wraps on a long message - fragment 256 of a message would be
// numbered 0 again and leave as a new text frame instead of a continuation.
func counterWidthRules(c *Ctx, prop string) {
	rule := prop + ".counter-width"
	c.R.Rule(rule, 3, "every struct field that is incremented is at least as wide as int")
	type fk struct {
		t *types.Named
		i int
	}
	seen := map[fk]string{}
	intSize := int64(fold.IntSize / 8)
	sizeOf := func(t types.Type) int64 {
		if b, ok := t.Underlying().(*types.Basic); ok {
			switch b.Kind() {
			case types.Int8, types.Uint8:
				return 1
			case types.Int16, types.Uint16:
				return 2
			case types.Int32, types.Uint32:
				return 4
			case types.Int64, types.Uint64:
				return 8
			}
		}
		return intSize
	}
	for _, fn := range c.P.AllModuleFuncs() {
		for _, b := range fn.Blocks {
			for _, in := range b.Instrs {
				st, ok := in.(*ssa.Store)
				if !ok {
					continue
				}
				fa, ok := st.Addr.(*ssa.FieldAddr)
				if !ok {
					continue
				}
				v := st.Val
				if cv, ok := v.(*ssa.Convert); ok {
					v = cv.X
				}
				bo, ok := v.(*ssa.BinOp)
				if !ok || bo.Op != token.ADD {
					continue
				}
				selfLoad := func(x ssa.Value) bool {
					if cv, ok := x.(*ssa.Convert); ok {
						x = cv.X
					}
					ld, ok := x.(*ssa.UnOp)
					if !ok {
						return false
					}
					fa2, ok := ld.X.(*ssa.FieldAddr)
					return ok && fa2.Field == fa.Field && fa2.X.Type() == fa.X.Type()
				}
				if !selfLoad(bo.X) && !selfLoad(bo.Y) {
					continue
				}
				pt, ok := fa.X.Type().Underlying().(*types.Pointer)
				if !ok {
					continue
				}
				n, ok := pt.Elem().(*types.Named)
				if !ok {
					continue
				}
				stt, ok := n.Underlying().(*types.Struct)
				if !ok {
					continue
				}
				k := fk{n, fa.Field}
				if _, done := seen[k]; done {
					continue
				}
				seen[k] = c.P.Pos(st.Pos())
				fld := stt.Field(fa.Field)
				bt, isBasic := fld.Type().Underlying().(*types.Basic)
				fname := fld.Name()
				if o, ok := fieldCanon[fld]; ok {
					fname = o
				}
				key := rule + "/" + n.Obj().Name() + "." + fname
				if !isBasic || bt.Info()&types.IsInteger == 0 {
					continue
				}
				c.R.Sites++
				c.R.Check(sizeOf(fld.Type()) >= intSize, rule, key, c.P.Pos(st.Pos()),
					fmt.Sprintf("%s counts in %s", fld.Name(), fld.Type()),
					fmt.Sprintf("%s.%s is incremented at %s but is only a %s: it wraps after %d steps and the count starts again", n.Obj().Name(), fld.Name(), c.P.Pos(st.Pos()), fld.Type(), uint64(1)<<(8*uint(sizeOf(fld.Type())))))
			}
		}
	}
}
