package rules

import (
	"fmt"
	"go/types"
	"os"
	"sort"
	"strings"

	"golang.org/x/tools/go/ssa"

	"verif/wscheck/internal/load"
)

// configReadOnlyRules: a handshake only reads its configuration. Dialer,
// Upgrader and HTTPUpgrader are used through value receivers, but the slices,
// maps and pointers inside the copy still point into the caller's object; the
// debug wrappers have pointer receivers. A store through any memory reachable
// from the configuration changes what the next handshake (or a concurrent one)
// with the same value does.
//
// The analysis is a may-write summary per parameter over the whole module:
// origins(v) follows a value back through address arithmetic, loads (memory
// reachable from a parameter is reachable from the parameter), local cells
// (what was stored into them), closures (captured cells) and calls (results
// that alias an argument) to the parameters it may belong to; every store,
// map update, copy, append and call of a writing callee marks them.
func configReadOnlyRules(c *Ctx, prop string) {
	rule := prop + ".config-read-only"
	c.R.Rule(rule, 5, "no store reaches memory that belongs to the configuration object of a handshake")
	w := c.paramWrites()
	type entry struct{ pkg, typ, name string }
	entries := []entry{
		{ws, "Dialer", "Dial"}, {ws, "Dialer", "Upgrade"}, {ws, "Dialer", "dial"}, {ws, "Dialer", "tlsClient"},
		{ws, "Upgrader", "Upgrade"}, {ws, "HTTPUpgrader", "Upgrade"},
		{wsutil, "DebugDialer", "Dial"}, {wsutil, "DebugUpgrader", "Upgrade"},
	}
	for _, e := range entries {
		f := c.method(rule, e.pkg, e.typ, e.name)
		if f == nil || len(f.Params) == 0 {
			continue
		}
		key := rule + "/" + shortPkg(e.pkg) + "." + e.typ + "." + e.name
		if why, bad := w[f.Params[0]]; bad {
			c.R.Fail(rule, key, c.P.FuncPos(f), "the configuration ("+e.typ+") is written during the handshake: "+why+" - the next handshake with the same value, or a concurrent one, sees the change")
		} else {
			c.R.OK(rule, key, c.P.FuncPos(f), "nothing reachable from the receiver is written (stores, copies, appends and writing callees traced over the module)")
		}
	}
	c.R.Sites += len(entries)
	if os.Getenv("WSCHECK_DEBUG_PW") != "" {
		for _, l := range describeParamWrites(w) {
			fmt.Println("PW", l)
		}
	}
}

// paramWrites computes, for every parameter of every module function, whether
// memory reachable from it may be written, with a description of one site.
func (c *Ctx) paramWrites() map[*ssa.Parameter]string {
	if c.pwCache != nil {
		return c.pwCache
	}
	funcs := c.P.AllModuleFuncs()
	writes := map[*ssa.Parameter]string{}
	retAlias := map[*ssa.Function]map[int]bool{} // result may alias parameter i
	hasRefs := func(t types.Type) bool { return typeHasRefs(t, 0) }

	var origins func(v ssa.Value, depth int, seen map[ssa.Value]bool) []*ssa.Parameter
	// storedInto returns the origins of everything stored into a local cell
	storedInto := func(cell ssa.Value, depth int, seen map[ssa.Value]bool) []*ssa.Parameter {
		var out []*ssa.Parameter
		refs := cell.Referrers()
		if refs == nil {
			return nil
		}
		for _, r := range *refs {
			if st, ok := r.(*ssa.Store); ok && st.Addr == cell {
				out = append(out, origins(st.Val, depth+1, seen)...)
			}
		}
		return out
	}
	// loadedFrom: origins of a value read out of the memory at addr
	var loadedFrom func(addr ssa.Value, depth int, seen map[ssa.Value]bool) []*ssa.Parameter
	loadedFrom = func(addr ssa.Value, depth int, seen map[ssa.Value]bool) []*ssa.Parameter {
		if depth > 40 || addr == nil {
			return nil
		}
		lk := loadKey{addr}
		if seen[lk] {
			return nil
		}
		seen[lk] = true
		switch a := addr.(type) {
		case *ssa.Alloc:
			return storedInto(a, depth, seen)
		case *ssa.FieldAddr:
			// a field of a local cell: whatever was stored into the cell (as a whole) or the field
			out := loadedFrom(a.X, depth+1, seen)
			out = append(out, storedInto(a, depth, seen)...)
			// other FieldAddr instructions of the same field of the same base
			if refs := a.X.Referrers(); refs != nil {
				for _, r := range *refs {
					if fa, ok := r.(*ssa.FieldAddr); ok && fa != a && fa.Field == a.Field {
						out = append(out, storedInto(fa, depth, seen)...)
					}
				}
			}
			return out
		case *ssa.IndexAddr:
			out := loadedFrom(a.X, depth+1, seen)
			out = append(out, origins(a.X, depth+1, seen)...)
			return out
		case *ssa.FreeVar:
			// captured cell: look at the cell in the enclosing function
			fn := a.Parent()
			if par := fn.Parent(); par != nil {
				for _, b := range par.Blocks {
					for _, in := range b.Instrs {
						if mc, ok := in.(*ssa.MakeClosure); ok && mc.Fn == ssa.Value(fn) {
							for i, fv := range fn.FreeVars {
								if fv == a && i < len(mc.Bindings) {
									return loadedFrom(mc.Bindings[i], depth+1, seen)
								}
							}
						}
					}
				}
			}
			return nil
		}
		// memory reachable from wherever the address itself comes from
		return origins(addr, depth+1, seen)
	}
	origins = func(v ssa.Value, depth int, seen map[ssa.Value]bool) []*ssa.Parameter {
		if v == nil || depth > 40 || seen[v] {
			return nil
		}
		seen[v] = true
		switch x := v.(type) {
		case *ssa.Parameter:
			if hasRefs(x.Type()) {
				return []*ssa.Parameter{x}
			}
			return nil
		case *ssa.Alloc, *ssa.Global, *ssa.Const, *ssa.MakeClosure, *ssa.MakeSlice, *ssa.MakeMap, *ssa.MakeChan, *ssa.Function, *ssa.Builtin:
			return nil // local or fresh memory (globals are another rule's subject)
		case *ssa.FieldAddr:
			return origins(x.X, depth+1, seen)
		case *ssa.IndexAddr:
			return origins(x.X, depth+1, seen)
		case *ssa.Slice:
			return origins(x.X, depth+1, seen)
		case *ssa.ChangeType:
			return origins(x.X, depth+1, seen)
		case *ssa.Convert:
			if !hasRefs(x.Type()) {
				return nil
			}
			return origins(x.X, depth+1, seen)
		case *ssa.ChangeInterface:
			return origins(x.X, depth+1, seen)
		case *ssa.MakeInterface:
			return origins(x.X, depth+1, seen)
		case *ssa.TypeAssert:
			return origins(x.X, depth+1, seen)
		case *ssa.Field:
			if !hasRefs(x.Type()) {
				return nil
			}
			return origins(x.X, depth+1, seen)
		case *ssa.Index:
			if !hasRefs(x.Type()) {
				return nil
			}
			return origins(x.X, depth+1, seen)
		case *ssa.Lookup:
			if !hasRefs(x.Type()) {
				return nil
			}
			return origins(x.X, depth+1, seen)
		case *ssa.Extract:
			return origins(x.Tuple, depth+1, seen)
		case *ssa.Phi:
			var out []*ssa.Parameter
			for _, e := range x.Edges {
				out = append(out, origins(e, depth+1, seen)...)
			}
			return out
		case *ssa.UnOp:
			if x.Op.String() != "*" {
				return nil
			}
			if !hasRefs(x.Type()) {
				return nil
			}
			return loadedFrom(x.X, depth+1, seen)
		case *ssa.FreeVar:
			return loadedFrom(x, depth+1, seen) // only used when the captured thing is itself a reference
		case *ssa.Call:
			if !hasRefs(x.Type()) {
				return nil
			}
			cc := x.Common()
			if bi, ok := cc.Value.(*ssa.Builtin); ok {
				if bi.Name() == "append" && len(cc.Args) > 0 {
					return origins(cc.Args[0], depth+1, seen)
				}
				return nil
			}
			callee := cc.StaticCallee()
			var out []*ssa.Parameter
			if callee != nil && load.InModule(callee) && callee.Blocks != nil {
				for i := range retAlias[callee] {
					if i < len(cc.Args) {
						out = append(out, origins(cc.Args[i], depth+1, seen)...)
					}
				}
				return out
			}
			// code outside the module: a reference result may point into any reference argument,
			// except for the functions whose contract is to return fresh memory
			if callee != nil && freshResult[callee.String()] {
				return nil
			}
			for _, a := range cc.Args {
				if hasRefs(a.Type()) {
					out = append(out, origins(a, depth+1, seen)...)
				}
			}
			if cc.IsInvoke() {
				out = append(out, origins(cc.Value, depth+1, seen)...)
			}
			return out
		}
		return nil
	}
	extWrites := func(cc *ssa.CallCommon, i int) bool {
		if cc.IsInvoke() {
			// Read(p []byte) fills p
			return cc.Method.Name() == "Read" && i == 0
		}
		callee := cc.StaticCallee()
		if callee == nil {
			return false
		}
		n := callee.String()
		switch {
		case n == "io.ReadFull" || n == "io.ReadAtLeast":
			return i == 1
		case strings.HasPrefix(n, "(encoding/binary.") && strings.Contains(n, ").Put"):
			return i == 1
		case n == "math/rand.Read" || n == "crypto/rand.Read":
			return i == 0
		case n == "(*encoding/base64.Encoding).Encode":
			return i == 1
		case n == "sort.Strings" || n == "sort.Slice" || n == "sort.Sort":
			return i == 0
		}
		return false
	}
	for round := 0; round < 12; round++ {
		changed := false
		mark := func(fn *ssa.Function, ps []*ssa.Parameter, pos, what string) {
			for _, p := range ps {
				if _, done := writes[p]; !done {
					writes[p] = what + " at " + pos + " in " + shortName(fn.String())
					changed = true
				}
			}
		}
		for _, fn := range funcs {
			for _, b := range fn.Blocks {
				for _, in := range b.Instrs {
					seen := map[ssa.Value]bool{}
					switch x := in.(type) {
					case *ssa.Store:
						mark(fn, origins(x.Addr, 0, seen), c.P.Pos(x.Pos()), "store")
					case *ssa.MapUpdate:
						mark(fn, origins(x.Map, 0, seen), c.P.Pos(x.Pos()), "map update")
					case *ssa.Return:
						top := fn
						for i, rv := range x.Results {
							_ = i
							for _, p := range origins(rv, 0, map[ssa.Value]bool{}) {
								if p.Parent() != top {
									continue
								}
								for pi, pp := range top.Params {
									if pp == p {
										if retAlias[top] == nil {
											retAlias[top] = map[int]bool{}
										}
										if !retAlias[top][pi] {
											retAlias[top][pi] = true
											changed = true
										}
									}
								}
							}
						}
					case ssa.CallInstruction:
						cc := x.Common()
						if bi, ok := cc.Value.(*ssa.Builtin); ok {
							switch bi.Name() {
							case "copy":
								mark(fn, origins(cc.Args[0], 0, seen), c.P.Pos(x.Pos()), "copy into")
							case "append":
								// appending may write into spare capacity of the shared backing array
								if sl, isSlice := cc.Args[0].(*ssa.Slice); !(isSlice && sl.Max != nil) {
									mark(fn, origins(cc.Args[0], 0, seen), c.P.Pos(x.Pos()), "append to (spare capacity of the shared array is written)")
								}
							}
							continue
						}
						callee := cc.StaticCallee()
						for i, a := range cc.Args {
							if !hasRefs(a.Type()) {
								continue
							}
							if callee != nil && load.InModule(callee) && callee.Blocks != nil {
								if i < len(callee.Params) {
									if why, w := writes[callee.Params[i]]; w {
										mark(fn, origins(a, 0, map[ssa.Value]bool{}), c.P.Pos(x.Pos()), "passed to "+shortName(callee.String())+" ("+why+")")
									}
								}
								continue
							}
							idx := i
							if extWrites(cc, idx) {
								mark(fn, origins(a, 0, map[ssa.Value]bool{}), c.P.Pos(x.Pos()), "passed as destination to "+calleeName(cc))
							}
						}
					}
				}
			}
		}
		if !changed {
			break
		}
	}
	c.pwCache = writes
	c.retAlias = retAlias
	return writes
}

// resultAliasRules: functions whose result is kept by the caller must not hand
// back (a view of) an argument that lives in recycled memory.
// (*wsflate.Extension).Negotiate is called by the zero-copy Upgrader with an
// option that points into the pooled read buffer: its answer must be built
// from the negotiator's own data, not from the offer.
func resultAliasRules(c *Ctx, prop string) {
	rule := prop + ".negotiate-result-fresh"
	c.R.Rule(rule, 1, "Extension.Negotiate does not return (a view of) the offered option")
	c.paramWrites()
	f := c.method(rule, wsflate, "Extension", "Negotiate")
	if f == nil || len(f.Params) < 2 {
		return
	}
	if c.retAlias[f][1] {
		c.R.Fail(rule, rule+"/Negotiate", c.P.FuncPos(f), "a result of Negotiate may be the offered option itself: with the zero-copy Upgrader the offer points into the pooled read buffer, so Handshake.Extensions is overwritten by a later handshake")
	} else {
		c.R.OK(rule, rule+"/Negotiate", c.P.FuncPos(f), "no result is derived from the offer (may-alias summary over the module)")
	}
}

// sharedErrorRules: an error value that came out of a callback (a
// *ConnectionRejectedError found by a type assertion) may be shared between
// connections: nothing is stored through it.
func sharedErrorRules(c *Ctx, prop string) {
	rule := prop + ".callback-errors-read-only"
	c.R.Rule(rule, 2, "nothing is stored through an error value obtained by a type assertion")
	n := 0
	for _, fn := range c.P.AllModuleFuncs() {
		bad := ""
		sites := 0
		for _, b := range fn.Blocks {
			for _, in := range b.Instrs {
				if ta, ok := in.(*ssa.TypeAssert); ok && isErrorT(ta.X.Type()) {
					sites++
				}
				st, ok := in.(*ssa.Store)
				if !ok {
					continue
				}
				v := st.Addr
				for depth := 0; depth < 10; depth++ {
					switch x := v.(type) {
					case *ssa.FieldAddr:
						v = x.X
						continue
					case *ssa.IndexAddr:
						v = x.X
						continue
					case *ssa.Extract:
						v = x.Tuple
						continue
					}
					break
				}
				if ta, ok := v.(*ssa.TypeAssert); ok && isErrorT(ta.X.Type()) {
					bad = c.P.Pos(st.Pos())
				}
			}
		}
		if sites == 0 {
			continue
		}
		n++
		key := rule + "/" + astFuncName(fn)
		if bad == "" {
			c.R.OK(rule, key, c.P.FuncPos(fn), "the asserted error is only read")
		} else {
			c.R.Fail(rule, key, bad, "a field of an error value that came out of a type assertion is written: a rejection error created once by the application and returned from a callback for many connections is changed under them (and concurrent handshakes race on it)")
		}
	}
	c.R.Sites += n
}

func calleeName(cc *ssa.CallCommon) string {
	if cc.IsInvoke() {
		return cc.Method.FullName()
	}
	if f := cc.StaticCallee(); f != nil {
		return f.String()
	}
	return "dynamic call"
}

// freshResult lists functions outside the module whose result never aliases an argument.
var freshResult = map[string]bool{
	"(*crypto/tls.Config).Clone": true,
	"bytes.Clone":                true,
	"strings.Clone":              true,
	"(net/http.Header).Clone":    true,
	"(*net/url.URL).String":      true,
}

// loadKey marks "the memory at v was already visited" in the visited set of a query.
type loadKey struct{ ssa.Value }

// typeHasRefs reports whether a value of type t can carry a reference to shared memory.
func typeHasRefs(t types.Type, depth int) bool {
	if depth > 6 {
		return true
	}
	switch u := t.Underlying().(type) {
	case *types.Basic:
		return false // strings are immutable
	case *types.Slice, *types.Pointer, *types.Map, *types.Interface, *types.Chan, *types.Signature:
		return true
	case *types.Struct:
		for i := 0; i < u.NumFields(); i++ {
			if typeHasRefs(u.Field(i).Type(), depth+1) {
				return true
			}
		}
		return false
	case *types.Array:
		return typeHasRefs(u.Elem(), depth+1)
	case *types.Tuple:
		for i := 0; i < u.Len(); i++ {
			if typeHasRefs(u.At(i).Type(), depth+1) {
				return true
			}
		}
		return false
	}
	return true
}

// describeParamWrites lists every written parameter (debug aid).
func describeParamWrites(w map[*ssa.Parameter]string) []string {
	var out []string
	for p, why := range w {
		out = append(out, fmt.Sprintf("%s.%s: %s", shortName(p.Parent().String()), p.Name(), why))
	}
	sort.Strings(out)
	return out
}

// pooledEscapeRules: memory of an object that a function takes from a pool and
// puts back itself must not be reachable from what the function returns: after
// the Put the next user of the pool overwrites it. Taint: the pooled object,
// results of calls that get it (or something tainted) as receiver or argument
// and can carry a reference, slices / fields / elements of tainted values,
// cells a tainted value was stored into. Sink: a returned value.
func pooledEscapeRules(c *Ctx, prop string) {
	rule := prop + ".pooled-memory-escape"
	c.R.Rule(rule, 8, "nothing a function returns points into a pooled object that the same function puts back")
	getters := map[string]string{
		"github.com/gobwas/pool/pbytes.GetLen":    "github.com/gobwas/pool/pbytes.Put",
		"github.com/gobwas/pool/pbytes.Get":       "github.com/gobwas/pool/pbytes.Put",
		"github.com/gobwas/pool/pbytes.GetCap":    "github.com/gobwas/pool/pbytes.Put",
		"github.com/gobwas/pool/pbufio.GetReader": "github.com/gobwas/pool/pbufio.PutReader",
		"github.com/gobwas/pool/pbufio.GetWriter": "github.com/gobwas/pool/pbufio.PutWriter",
		"(*sync.Pool).Get":                        "(*sync.Pool).Put",
		"(*github.com/gobwas/pool.Pool).Get":      "(*github.com/gobwas/pool.Pool).Put",
	}
	// reviewed: functions whose results are derived from pooled memory through copying selectors;
	// the copies are decided by other rules of the same check
	reviewed := map[string]string{
		"ws.(Upgrader).Upgrade": "the Handshake is filled from the pooled reader's lines through copying selectors (decided by handshake-buffer-lifetime and selection-copies)",
		"ws.(Dialer).Upgrade":   "same on the client side; the returned *bufio.Reader is handed to the caller only when it still holds data and is then not put back (decided by the dialer fold)",
	}
	n := 0
	for _, fn := range c.P.AllModuleFuncs() {
		if fn.Parent() != nil {
			continue
		}
		for _, b := range fn.Blocks {
			for _, in := range b.Instrs {
				call, ok := in.(*ssa.Call)
				if !ok {
					continue
				}
				callee := call.Call.StaticCallee()
				if callee == nil {
					continue
				}
				put, isGet := getters[callee.String()]
				if !isGet {
					continue
				}
				if !putsBack(fn, call, put) {
					continue // ownership leaves the function with the object
				}
				n++
				name := astFuncName(fn)
				key := rule + "/" + name + ":" + callee.Name()
				if how := escapesByReturn(fn, call); how != "" {
					if why, ok := reviewed[name]; ok {
						c.R.OK(rule, key, c.P.Pos(call.Pos()), "reviewed: "+why)
					} else {
						c.R.Fail(rule, key, c.P.Pos(call.Pos()), "the object taken from the pool here is put back by "+name+", but "+how+": the caller keeps a view of memory that the next user of the pool overwrites")
					}
				} else {
					c.R.OK(rule, key, c.P.Pos(call.Pos()), "no returned value is derived from the pooled object")
				}
			}
		}
	}
	c.R.Sites += n
}

// putsBack reports whether fn (or a closure it defers) calls put on a value derived from v.
func putsBack(fn *ssa.Function, v *ssa.Call, put string) bool {
	t := taintFrom(fn, v)
	found := false
	var scan func(f *ssa.Function, bound map[ssa.Value]bool)
	scan = func(f *ssa.Function, bound map[ssa.Value]bool) {
		for _, b := range f.Blocks {
			for _, in := range b.Instrs {
				ci, ok := in.(ssa.CallInstruction)
				if !ok {
					continue
				}
				cc := ci.Common()
				if sc := cc.StaticCallee(); sc != nil && sc.String() == put {
					for _, a := range cc.Args {
						if t[a] || bound[a] {
							found = true
						}
						if u, ok := a.(*ssa.UnOp); ok && (t[u.X] || bound[u.X]) {
							found = true
						}
					}
				}
				if mc, ok := cc.Value.(*ssa.MakeClosure); ok {
					if cf, ok := mc.Fn.(*ssa.Function); ok {
						nb := map[ssa.Value]bool{}
						for i, bv := range mc.Bindings {
							if (t[bv] || bound[bv]) && i < len(cf.FreeVars) {
								nb[cf.FreeVars[i]] = true
							}
						}
						if len(nb) > 0 {
							scan(cf, nb)
						}
					}
				}
			}
		}
	}
	scan(fn, nil)
	return found
}

// taintFrom computes the values of fn that may point into the object v.
func taintFrom(fn *ssa.Function, v ssa.Value) map[ssa.Value]bool {
	t := map[ssa.Value]bool{v: true}
	for changed := true; changed; {
		changed = false
		add := func(x ssa.Value) {
			if x != nil && !t[x] {
				t[x] = true
				changed = true
			}
		}
		for _, b := range fn.Blocks {
			for _, in := range b.Instrs {
				switch x := in.(type) {
				case *ssa.TypeAssert:
					if t[x.X] {
						add(x)
					}
				case *ssa.Extract:
					if t[x.Tuple] && typeHasRefs(x.Type(), 0) {
						add(x)
					}
				case *ssa.Slice:
					if t[x.X] {
						add(x)
					}
				case *ssa.FieldAddr:
					if t[x.X] {
						add(x)
					}
				case *ssa.IndexAddr:
					if t[x.X] {
						add(x)
					}
				case *ssa.Field:
					if t[x.X] && typeHasRefs(x.Type(), 0) {
						add(x)
					}
				case *ssa.Index:
					if t[x.X] && typeHasRefs(x.Type(), 0) {
						add(x)
					}
				case *ssa.ChangeType:
					if t[x.X] {
						add(x)
					}
				case *ssa.ChangeInterface:
					if t[x.X] {
						add(x)
					}
				case *ssa.MakeInterface:
					if t[x.X] {
						add(x)
					}
				case *ssa.Convert:
					// []byte -> string copies; string -> []byte copies
					if t[x.X] && typeHasRefs(x.Type(), 0) {
						if _, isSlice := x.X.Type().Underlying().(*types.Slice); !isSlice {
							add(x)
						}
					}
				case *ssa.Phi:
					for _, e := range x.Edges {
						if t[e] {
							add(x)
						}
					}
				case *ssa.UnOp:
					if x.Op.String() == "*" && t[x.X] && typeHasRefs(x.Type(), 0) {
						add(x)
					}
				case *ssa.Store:
					if t[x.Val] {
						// the cell (and the object the cell belongs to) now holds a view
						add(x.Addr)
						base := x.Addr
						for {
							switch a := base.(type) {
							case *ssa.FieldAddr:
								base = a.X
								add(base)
								continue
							case *ssa.IndexAddr:
								base = a.X
								add(base)
								continue
							}
							break
						}
					}
				case *ssa.Call:
					if !typeHasRefs(x.Type(), 0) {
						continue
					}
					cc := x.Common()
					if bi, ok := cc.Value.(*ssa.Builtin); ok {
						if bi.Name() == "append" {
							for _, a := range cc.Args {
								if t[a] {
									add(x)
								}
							}
						}
						continue
					}
					if callee := cc.StaticCallee(); callee != nil && freshResult[callee.String()] {
						continue
					}
					if cc.IsInvoke() && t[cc.Value] {
						add(x)
					}
					for _, a := range cc.Args {
						if t[a] {
							add(x)
						}
					}
				}
			}
		}
	}
	return t
}

// escapesByReturn describes a returned value of fn that is tainted by v ("" if none).
func escapesByReturn(fn *ssa.Function, v *ssa.Call) string {
	t := taintFrom(fn, v)
	for _, b := range fn.Blocks {
		for _, in := range b.Instrs {
			ret, ok := in.(*ssa.Return)
			if !ok {
				continue
			}
			for i, rv := range ret.Results {
				if !typeHasRefs(rv.Type(), 0) || isErrorT(rv.Type()) {
					continue
				}
				if t[rv] {
					return fmt.Sprintf("result #%d (%s) is derived from it", i+1, types.TypeString(rv.Type(), func(p *types.Package) string { return p.Name() }))
				}
			}
		}
	}
	return ""
}

func isErrorT(t types.Type) bool {
	return types.Identical(t, types.Universe.Lookup("error").Type())
}

// callerSliceRules: a slice of values (not a byte buffer) that a struct keeps
// without copying - it was stored from a parameter, or the field is exported
// and filled in by the application - still belongs to the caller. The library
// may replace or re-slice the field, but a store into its elements changes the
// caller's own slice (which the caller may have attached to another object).
func callerSliceRules(c *Ctx, prop string) {
	rule := prop + ".caller-slices-not-written"
	c.R.Rule(rule, 1, "no element store goes into a slice field that holds the caller's own slice (stored from a parameter without a copy, or an exported field)")
	type fkey struct {
		t *types.Named
		i int
	}
	owned := map[fkey]string{}
	fieldOf := func(fa *ssa.FieldAddr) (fkey, *types.Var, bool) {
		pt, ok := fa.X.Type().Underlying().(*types.Pointer)
		if !ok {
			return fkey{}, nil, false
		}
		n, ok := pt.Elem().(*types.Named)
		if !ok {
			return fkey{}, nil, false
		}
		st, ok := n.Underlying().(*types.Struct)
		if !ok || n.Obj().Pkg() == nil || !inModulePkg(n.Obj().Pkg().Path()) {
			return fkey{}, nil, false
		}
		return fkey{n, fa.Field}, st.Field(fa.Field), true
	}
	valueSlice := func(t types.Type) bool {
		sl, ok := t.Underlying().(*types.Slice)
		if !ok {
			return false
		}
		b, isBasic := sl.Elem().Underlying().(*types.Basic)
		return !(isBasic && (b.Kind() == types.Byte || b.Kind() == types.Uint8))
	}
	funcs := c.P.AllModuleFuncs()
	// 1. which fields hold a caller's slice
	for _, fn := range funcs {
		for _, b := range fn.Blocks {
			for _, in := range b.Instrs {
				st, ok := in.(*ssa.Store)
				if !ok {
					continue
				}
				fa, ok := st.Addr.(*ssa.FieldAddr)
				if !ok {
					continue
				}
				k, fv, ok := fieldOf(fa)
				if !ok || !valueSlice(fv.Type()) {
					continue
				}
				v := st.Val
				for {
					if sl, ok := v.(*ssa.Slice); ok {
						v = sl.X
						continue
					}
					break
				}
				if p, ok := v.(*ssa.Parameter); ok {
					owned[k] = "stored from parameter " + p.Name() + " of " + astFuncName(fn) + " without a copy"
				}
			}
		}
	}
	for _, sp := range c.P.ModulePkgs() {
		for _, mem := range sp.Members {
			tn, ok := mem.(*ssa.Type)
			if !ok || !tn.Object().Exported() {
				continue
			}
			n, ok := tn.Type().(*types.Named)
			if !ok {
				continue
			}
			st, ok := n.Underlying().(*types.Struct)
			if !ok {
				continue
			}
			for i := 0; i < st.NumFields(); i++ {
				if st.Field(i).Exported() && valueSlice(st.Field(i).Type()) {
					if _, has := owned[fkey{n, i}]; !has {
						owned[fkey{n, i}] = "exported field, filled in by the application"
					}
				}
			}
		}
	}
	// 2. element stores into them
	n := 0
	var bad []string
	badPos := ""
	for _, fn := range funcs {
		for _, b := range fn.Blocks {
			for _, in := range b.Instrs {
				st, ok := in.(*ssa.Store)
				if !ok {
					continue
				}
				ia, ok := st.Addr.(*ssa.IndexAddr)
				if !ok {
					continue
				}
				v := ia.X
				for {
					if sl, ok := v.(*ssa.Slice); ok {
						v = sl.X
						continue
					}
					break
				}
				ld, ok := v.(*ssa.UnOp)
				if !ok {
					continue
				}
				fa, ok := ld.X.(*ssa.FieldAddr)
				if !ok {
					continue
				}
				k, fv, ok := fieldOf(fa)
				if !ok {
					continue
				}
				why, isOwned := owned[k]
				if !isOwned {
					continue
				}
				n++
				bad = append(bad, fmt.Sprintf("%s stores into an element of %s.%s (%s) at %s", astFuncName(fn), k.t.Obj().Name(), fv.Name(), why, c.P.Pos(st.Pos())))
				if badPos == "" {
					badPos = c.P.Pos(st.Pos())
				}
			}
		}
	}
	c.R.Sites += len(owned)
	names := make([]string, 0, len(owned))
	for k := range owned {
		names = append(names, k.t.Obj().Name()+"."+k.t.Underlying().(*types.Struct).Field(k.i).Name())
	}
	sort.Strings(names)
	if len(bad) > 0 {
		sort.Strings(bad)
		c.R.Fail(rule, rule+"/element-stores", badPos, fmt.Sprintf("%d store(s) change a slice that belongs to the caller; first: %s", len(bad), bad[0]))
	} else {
		c.R.OK(rule, rule+"/element-stores", "-", fmt.Sprintf("%d caller-owned slice fields (%s): replaced or re-sliced only, never written element-wise", len(owned), strings.Join(names, ", ")))
	}
}
