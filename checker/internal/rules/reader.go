package rules

import (
	"fmt"
	"go/types"
	"runtime"
	"strings"
	"sync"

	"verif/wscheck/internal/fold"
)

// ---- struct layout helpers ----

// fieldIdx finds a struct field by name; if the name is gone it falls back to
// the unique field whose type satisfies pred (role by type).
func fieldIdx(st *types.Struct, name string, pred func(types.Type) bool) int {
	for i := 0; i < st.NumFields(); i++ {
		if st.Field(i).Name() == name {
			return i
		}
	}
	if i, ok := fieldAlias[st][name]; ok {
		return i
	}
	if pred != nil {
		found := -1
		for i := 0; i < st.NumFields(); i++ {
			if !st.Field(i).Exported() && pred(st.Field(i).Type()) {
				if found >= 0 {
					return -1
				}
				found = i
			}
		}
		return found
	}
	return -1
}

// fieldPath finds a field by name in st or, failing that, in exactly one of its
// unexported struct-typed fields (state that was grouped into a nested struct).
func fieldPath(st *types.Struct, name string) []int {
	if i := fieldIdx(st, name, nil); i >= 0 {
		return []int{i}
	}
	var found []int
	for i := 0; i < st.NumFields(); i++ {
		f := st.Field(i)
		if f.Exported() {
			continue
		}
		if in, ok := f.Type().Underlying().(*types.Struct); ok {
			if j := fieldIdx(in, name, nil); j >= 0 {
				if found != nil {
					return nil
				}
				found = []int{i, j}
			}
		}
	}
	return found
}

// uSet stores v at path p inside the struct value u (copy-on-write of nested structs).
func uSet(u fold.Struct, p []int, v fold.Val) {
	if len(p) == 1 {
		u.F[p[0]] = v
		return
	}
	in, ok := u.F[p[0]].(fold.Struct)
	if !ok {
		return
	}
	in = fold.Struct{F: append([]fold.Val{}, in.F...)}
	uSet(in, p[1:], v)
	u.F[p[0]] = in
}

// uPath is prefix followed by p.
func uPath(prefix int, p []int) []int { return append([]int{prefix}, p...) }

func typeIs(s string) func(types.Type) bool {
	return func(t types.Type) bool { return canonTypeString(t) == s }
}

type readerLayout struct {
	st                                                              *types.Struct
	source, state, skip, checkUTF8, exts, maxFrame, onCont, onInter int
	opCode, frame, raw, utf8, tmp, cr                               int
	utf8Source, utf8Accepted, utf8State, utf8Codep                  int
	// paths of the same fields inside UTF8Reader (they may live in a nested struct)
	utf8SourceP, utf8AcceptedP, utf8StateP, utf8CodepP []int
	crR, crMask, crPos                                 int
	named                                              *types.Named
	cipherReader                                       *types.Named
}

func (c *Ctx) readerLayout(rule string) *readerLayout {
	n := c.P.NamedType(wsutil, "Reader")
	if n == nil {
		c.R.Unknown(rule, rule+"/anchor:wsutil.Reader", "-", "type wsutil.Reader does not resolve")
		return nil
	}
	st := structOf(n)
	L := &readerLayout{st: st, named: n}
	L.source = fieldIdx(st, "Source", nil)
	L.state = fieldIdx(st, "State", nil)
	L.skip = fieldIdx(st, "SkipHeaderCheck", nil)
	L.checkUTF8 = fieldIdx(st, "CheckUTF8", nil)
	L.exts = fieldIdx(st, "Extensions", nil)
	L.maxFrame = fieldIdx(st, "MaxFrameSize", nil)
	L.onCont = fieldIdx(st, "OnContinuation", nil)
	L.onInter = fieldIdx(st, "OnIntermediate", nil)
	L.opCode = fieldIdx(st, "opCode", typeIs(ws+".OpCode"))
	L.frame = fieldIdx(st, "frame", typeIs("io.Reader"))
	L.raw = fieldIdx(st, "raw", typeIs("io.LimitedReader"))
	L.utf8 = fieldIdx(st, "utf8", typeIs(wsutil+".UTF8Reader"))
	L.tmp = fieldIdx(st, "tmp", func(t types.Type) bool { _, ok := t.Underlying().(*types.Array); return ok })
	L.cr = fieldIdx(st, "cr", typeIs("*"+wsutil+".CipherReader"))
	for name, v := range map[string]int{"Source": L.source, "State": L.state, "SkipHeaderCheck": L.skip, "CheckUTF8": L.checkUTF8,
		"Extensions": L.exts, "MaxFrameSize": L.maxFrame, "OnContinuation": L.onCont, "OnIntermediate": L.onInter,
		"opCode": L.opCode, "frame": L.frame, "raw": L.raw, "utf8": L.utf8, "tmp": L.tmp, "cr": L.cr} {
		if v < 0 {
			c.R.Unknown(rule, rule+"/anchor:wsutil.Reader."+name, "-", "field "+name+" of wsutil.Reader (or a unique field of its type) does not resolve")
			return nil
		}
	}
	u := structOf(c.P.NamedType(wsutil, "UTF8Reader"))
	if u == nil {
		c.R.Unknown(rule, rule+"/anchor:wsutil.UTF8Reader", "-", "type does not resolve")
		return nil
	}
	L.utf8Source = fieldIdx(u, "Source", nil)
	L.utf8Accepted = fieldIdx(u, "accepted", nil)
	L.utf8State = fieldIdx(u, "state", nil)
	L.utf8Codep = fieldIdx(u, "codep", nil)
	L.utf8SourceP, L.utf8AcceptedP, L.utf8StateP, L.utf8CodepP = fieldPath(u, "Source"), fieldPath(u, "accepted"), fieldPath(u, "state"), fieldPath(u, "codep")
	for name, v := range map[string][]int{"Source": L.utf8SourceP, "accepted": L.utf8AcceptedP, "state": L.utf8StateP, "codep": L.utf8CodepP} {
		if v == nil {
			c.R.Unknown(rule, rule+"/anchor:wsutil.UTF8Reader."+name, "-", "field "+name+" of wsutil.UTF8Reader does not resolve: the validating reader keeps its automaton state in a shape these rules cannot follow")
			return nil
		}
	}
	L.cipherReader = c.P.NamedType(wsutil, "CipherReader")
	cr := structOf(L.cipherReader)
	if cr == nil {
		c.R.Unknown(rule, rule+"/anchor:wsutil.CipherReader", "-", "type does not resolve")
		return nil
	}
	L.crR = fieldIdx(cr, "r", typeIs("io.Reader"))
	L.crMask = fieldIdx(cr, "mask", typeIs("[4]byte"))
	L.crPos = fieldIdx(cr, "pos", typeIs("int"))
	if L.crR < 0 || L.crMask < 0 || L.crPos < 0 {
		c.R.Unknown(rule, rule+"/anchor:wsutil.CipherReader", "-", "fields r/mask/pos do not resolve")
		return nil
	}
	return L
}

// ---- NextFrame ----

type nfIn struct {
	hdrErr    int // 0 nil, 1 io.EOF, 2 other
	fin       bool
	op        int
	masked    bool
	frag      bool
	side      int
	skip      bool
	checkUTF8 bool
	prevText  bool
	crNil     bool
	nExt      int
	maxKind   int // 0: MaxFrameSize==0, 1: <0, 2: >0
	onInter   bool
	onCont    bool
}

func (i nfIn) String() string {
	return fmt.Sprintf("hdrErr=%d fin=%v op=%#x masked=%v fragmented=%v skipCheck=%v checkUTF8=%v prevText=%v cr=nil:%v exts=%d maxFrame=%d onIntermediate=%v onContinuation=%v",
		i.hdrErr, i.fin, i.op, i.masked, i.frag, i.skip, i.checkUTF8, i.prevText, i.crNil, i.nExt, i.maxKind, i.onInter, i.onCont)
}

// refTo reports whether v (possibly wrapped in an interface) is a pointer to
// the sub-object of o at path.
func refTo(v fold.Val, o *fold.Obj, path ...int) bool {
	if i, ok := v.(fold.Iface); ok {
		v = i.V
	}
	r, ok := v.(fold.Ref)
	if !ok || r.O != o || len(r.Path) != len(path) {
		return false
	}
	for i := range path {
		if r.Path[i] != path[i] {
			return false
		}
	}
	return true
}

// isRefIface reports whether v is an interface holding a pointer to a whole object.
func isObjRef(v fold.Val) (*fold.Obj, bool) {
	if i, ok := v.(fold.Iface); ok {
		v = i.V
	}
	r, ok := v.(fold.Ref)
	if !ok || len(r.Path) != 0 {
		return nil, false
	}
	return r.O, true
}

type nfPath struct {
	in                             nfIn
	p                              *fold.Path
	recv                           *fold.Obj
	frameV, utf8SourceV, crV, crRV fold.Val
	// final receiver state (rendered)
	rawR, rawN, frame, state, opCode, utf8Source, utf8State, cr string
	crR, crMask, crPos                                          string
	retHdr                                                      fold.Val
	retErr                                                      string
	tooLarge                                                    bool // size atom: MaxFrameSize>0 && Length>MaxFrameSize
	sizeAsked                                                   bool
}

var nfOps = []int{0x0, 0x1, 0x2, 0x9}

var initFrame = fold.Show(fold.Iface{T: types.Typ[types.Invalid], V: fold.Sym{Name: "old-frame"}})

const (
	initRawR   = "old-raw.R"
	initRawN   = "77"
	initUTF8S  = "old-utf8-source"
	initUTF8St = "24"
)

func (c *Ctx) foldNextFrame(rule string) ([]nfPath, *readerLayout) {
	if c.cacheNF != nil {
		return c.cacheNF, c.cacheNFL
	}
	L := c.readerLayout(rule)
	if L == nil {
		return nil, nil
	}
	f := c.method(rule, wsutil, "Reader", "NextFrame")
	if f == nil {
		return nil, nil
	}
	type part struct {
		out   []nfPath
		paths int
	}
	var presets []nfIn
	for _, frag := range []bool{false, true} {
		for _, skip := range []bool{false, true} {
			for nExt := 0; nExt < 3; nExt++ {
				for mk := 0; mk < 3; mk++ {
					presets = append(presets, nfIn{frag: frag, skip: skip, nExt: nExt, maxKind: mk, side: 1 + (nExt+mk)%2})
				}
			}
		}
	}
	parts := make([]part, len(presets))
	var wg sync.WaitGroup
	sem := make(chan struct{}, runtime.NumCPU())
	for pi := range presets {
		pi := pi
		wg.Add(1)
		go func() {
			defer wg.Done()
			sem <- struct{}{}
			defer func() { <-sem }()
			preset := presets[pi]
			m := c.machine()
			m.MaxPaths = 400000
			var out []nfPath
			var recv, crObj *fold.Obj
			_ = crObj
			var cur nfIn
			m.Models["(*"+wsutil+".Reader).readHeader"] = func(cl *fold.Call) fold.Val {
				mm := cl.M
				mm.Emit(fold.Effect{Kind: "call", Name: "readHeader", Args: cl.Args[1:]})
				var e fold.Val = fold.Nil{}
				switch cur.hdrErr {
				case 1:
					e = fold.Sym{Name: "global:io.EOF", NonNil: true}
				case 2:
					e = fold.Sym{Name: "hdr-error", NonNil: true}
				}
				mask := fold.Arr{E: []fold.Val{fold.Int{Lo: 0, Hi: 255, Name: "m0"}, fold.Int{Lo: 0, Hi: 255, Name: "m1"}, fold.Int{Lo: 0, Hi: 255, Name: "m2"}, fold.Int{Lo: 0, Hi: 255, Name: "m3"}}}
				h := headerVal(cur.fin, 0, int64(cur.op), cur.masked, mask, fold.Int{Lo: 0, Hi: fold.MaxInt64, Name: "Length"})
				h.F[1] = fold.Int{Lo: 0, Hi: 7, Name: "Rsv"}
				return fold.Tuple{h, e}
			}
			m.Models[ws+".CheckHeader"] = func(cl *fold.Call) fold.Val {
				cl.M.Emit(fold.Effect{Kind: "call", Name: "CheckHeader", Args: cl.Args})
				return errChoice(cl.M, "check.err", "check-error")
			}
			m.Models["invoke:("+wsutil+".RecvExtension).UnsetBits"] = func(cl *fold.Call) fold.Val {
				cl.M.Emit(fold.Effect{Kind: "call", Name: "UnsetBits", Args: cl.Args})
				h, ok := cl.Args[1].(fold.Struct)
				if !ok {
					return fold.Tuple{cl.Args[1], fold.Sym{Name: "bad-header", NonNil: true}}
				}
				n := fold.Struct{F: append([]fold.Val{}, h.F...)}
				n.F[1] = fold.Int{Lo: 0, Hi: 7, Name: fmt.Sprintf("unset(%s,%s)", fold.Show(cl.Args[0]), intName(h.F[1]))}
				return fold.Tuple{n, errChoice(cl.M, fmt.Sprintf("ext%d.err", cl.Seq), fmt.Sprintf("ext%d-error", cl.Seq))}
			}
			m.Models["callback:OnIntermediate"] = func(cl *fold.Call) fold.Val {
				cl.M.Emit(fold.Effect{Kind: "call", Name: "OnIntermediate", Args: cl.Args})
				e := errChoice(cl.M, "inter.err", "inter-error", "global:io.EOF")
				if c.errName(e) == "global:io.EOF" {
					// the handler hit the end of the stream inside the payload
					cl.M.Store(fold.Ref{O: recv, Path: []int{L.raw, 1}}, fold.Int{Lo: 1, Hi: fold.MaxInt64, Name: "left"})
				}
				return e
			}
			m.Models["callback:OnContinuation"] = func(cl *fold.Call) fold.Val {
				cl.M.Emit(fold.Effect{Kind: "call", Name: "OnContinuation", Args: cl.Args})
				return errChoice(cl.M, "cont.err", "cont-error")
			}
			m.Models["io.Copy"] = func(cl *fold.Call) fold.Val {
				mm := cl.M
				mm.Emit(fold.Effect{Kind: "call", Name: "io.Copy", Args: cl.Args})
				// outcome: 0 drained fully; 1 source ended early (io.Copy swallows EOF); 2 transport error
				k := mm.Choose("drain", 3)
				rawN := fold.Ref{O: recv, Path: []int{L.raw, 1}}
				switch k {
				case 0:
					mm.Store(rawN, fold.K(0))
					return fold.Tuple{fold.Int{Lo: 0, Hi: fold.MaxInt64}, fold.Nil{}}
				case 1:
					mm.Store(rawN, fold.Int{Lo: 1, Hi: fold.MaxInt64, Name: "left"})
					return fold.Tuple{fold.Int{Lo: 0, Hi: fold.MaxInt64}, fold.Nil{}}
				}
				mm.Store(rawN, fold.Int{Lo: 1, Hi: fold.MaxInt64, Name: "left"})
				return fold.Tuple{fold.Int{Lo: 0, Hi: fold.MaxInt64}, fold.Sym{Name: "drain-error", NonNil: true}}
			}
			paths := m.Explore(f, func(mm *fold.Machine) []fold.Val {
				cur = preset
				cur.hdrErr = mm.Choose("hdr.err", 3)
				if cur.hdrErr == 0 {
					cur.fin = mm.Choose("fin", 2) == 1
					cur.op = nfOps[mm.Choose("op", len(nfOps))]
					cur.masked = mm.Choose("masked", 2) == 1
					cur.checkUTF8 = mm.Choose("checkutf8", 2) == 1
					if cur.frag {
						cur.prevText = mm.Choose("prevtext", 2) == 1
					}
					if cur.masked {
						cur.crNil = mm.Choose("crnil", 2) == 1
					}
					if cur.frag && cur.op&8 != 0 {
						cur.onInter = mm.Choose("oninter", 2) == 1
					}
					if cur.op == 0 {
						cur.onCont = mm.Choose("oncont", 2) == 1
					}
				}
				st := fold.SymOfType("r", L.named).(fold.Struct)
				st.F[L.source] = fold.Sym{Name: "Source", NonNil: true}
				state := int64(cur.side)
				if cur.frag {
					state |= 8
				}
				st.F[L.state] = fold.K(state)
				st.F[L.skip] = fold.Bool(cur.skip)
				st.F[L.checkUTF8] = fold.Bool(cur.checkUTF8)
				ext := make([]fold.Val, cur.nExt)
				for i := range ext {
					ext[i] = fold.Sym{Name: fmt.Sprintf("ext%d", i+1), NonNil: true}
				}
				eo := mm.NewObj("exts", fold.Arr{E: ext})
				if cur.nExt == 0 {
					st.F[L.exts] = fold.Nil{}
				} else {
					st.F[L.exts] = fold.SliceV{O: eo, Len: int64(cur.nExt), Cap: int64(cur.nExt)}
				}
				switch cur.maxKind {
				case 0:
					st.F[L.maxFrame] = fold.K(0)
				case 1:
					st.F[L.maxFrame] = fold.K(-5)
				default:
					st.F[L.maxFrame] = fold.Int{Lo: 1, Hi: fold.MaxInt64, Name: "MaxFrameSize"}
				}
				if cur.onInter {
					st.F[L.onInter] = fold.Sym{Name: "OnIntermediate", NonNil: true}
				} else {
					st.F[L.onInter] = fold.Nil{}
				}
				if cur.onCont {
					st.F[L.onCont] = fold.Sym{Name: "OnContinuation", NonNil: true}
				} else {
					st.F[L.onCont] = fold.Nil{}
				}
				if cur.prevText {
					st.F[L.opCode] = fold.K(1)
				} else {
					st.F[L.opCode] = fold.K(2)
				}
				st.F[L.frame] = fold.Iface{T: types.Typ[types.Invalid], V: fold.Sym{Name: "old-frame"}}
				st.F[L.raw] = fold.Struct{F: []fold.Val{fold.Sym{Name: initRawR, NonNil: true}, fold.K(77)}}
				u := st.F[L.utf8].(fold.Struct)
				uSet(u, L.utf8SourceP, fold.Sym{Name: initUTF8S, NonNil: true})
				uSet(u, L.utf8StateP, fold.K(24))
				uSet(u, L.utf8CodepP, fold.K(5))
				uSet(u, L.utf8AcceptedP, fold.K(3))
				crObj = nil
				if cur.crNil {
					st.F[L.cr] = fold.Nil{}
				} else {
					cs := fold.SymOfType("cr", L.cipherReader).(fold.Struct)
					cs.F[L.crR] = fold.Sym{Name: "old-cr.r", NonNil: true}
					cs.F[L.crMask] = fold.Arr{E: []fold.Val{fold.K(9), fold.K(9), fold.K(9), fold.K(9)}}
					cs.F[L.crPos] = fold.K(3)
					crObj = mm.NewObj("cipherreader", cs)
					st.F[L.cr] = fold.Ref{O: crObj}
				}
				recv = mm.NewObj("reader", st)
				return []fold.Val{fold.Ref{O: recv}}
			}, func(mm *fold.Machine, p *fold.Path) {
				np := nfPath{in: cur, p: p, recv: recv}
				np.frameV = mm.Load(fold.Ref{O: recv, Path: []int{L.frame}})
				np.utf8SourceV = mm.Load(fold.Ref{O: recv, Path: uPath(L.utf8, L.utf8SourceP)})
				ld := func(path ...int) string { return fold.Show(mm.Load(fold.Ref{O: recv, Path: path})) }
				np.rawR, np.rawN = ld(L.raw, 0), ld(L.raw, 1)
				np.frame = ld(L.frame)
				np.state = ld(L.state)
				np.opCode = ld(L.opCode)
				np.utf8Source = ld(uPath(L.utf8, L.utf8SourceP)...)
				np.utf8State = ld(uPath(L.utf8, L.utf8StateP)...)
				crv := mm.Load(fold.Ref{O: recv, Path: []int{L.cr}})
				np.cr = fold.Show(crv)
				np.crV = crv
				if r, ok := crv.(fold.Ref); ok {
					np.crRV = mm.Load(fold.Ref{O: r.O, Path: append(append([]int{}, r.Path...), L.crR)})
					np.crR = fold.Show(mm.Load(fold.Ref{O: r.O, Path: append(append([]int{}, r.Path...), L.crR)}))
					if a, ok := mm.Load(fold.Ref{O: r.O, Path: append(append([]int{}, r.Path...), L.crMask)}).(fold.Arr); ok {
						np.crMask = "[" + strings.Join(laneNamesPlain(a.E), ",") + "]"
					}
					np.crPos = fold.Show(mm.Load(fold.Ref{O: r.O, Path: append(append([]int{}, r.Path...), L.crPos)}))
				}
				if t, ok := p.Ret.(fold.Tuple); ok && len(t) == 2 {
					np.retHdr = t[0]
					np.retErr = c.errName(t[1])
				}
				if k := p.Chose("cmp(MaxFrameSize<Length)"); k >= 0 {
					np.sizeAsked = true
					np.tooLarge = k == 1
				}
				out = append(out, np)
			})
			for _, p := range paths {
				if p.Abort != "" || p.Panic {
					out = append(out, nfPath{in: cur, p: p})
				}
			}

			parts[pi] = part{out: out, paths: len(paths)}
		}()
	}
	wg.Wait()
	var out []nfPath
	npaths := 0
	for _, pt := range parts {
		out = append(out, pt.out...)
		npaths += pt.paths
	}
	c.R.AddCells(npaths)
	c.R.Paths += npaths
	c.cacheNF, c.cacheNFL = out, L
	return out, L
}

// readerNextFrameRules evaluates the rules over the folded paths of
// Reader.NextFrame that belong to property prop.
func readerNextFrameRules(c *Ctx, prop string) {
	base := prop + ".nextframe"
	paths, L := c.foldNextFrame(base)
	f := c.P.Method(wsutil, "Reader", "NextFrame")
	if paths == nil || f == nil {
		return
	}
	pos := c.P.FuncPos(f)
	// undecided paths poison every rule
	var und []string
	for _, np := range paths {
		if np.p.Abort != "" || np.p.Panic {
			und = append(und, "undecided: "+np.p.Abort+panicNote(np.p))
		}
	}
	if len(und) > 0 {
		c.R.Rule(base, 1, "Reader.NextFrame folds completely")
		c.verdict(base, base+"/fold", pos, und, "")
		return
	}
	isRaw := func(np nfPath, v fold.Val) bool { return refTo(v, np.recv, L.raw) }
	isUTF8 := func(np nfPath, v fold.Val) bool { return refTo(v, np.recv, L.utf8) }
	isCR := func(np nfPath, v fold.Val) bool {
		o, ok := isObjRef(v)
		co, ok2 := isObjRef(np.crV)
		return ok && ok2 && o == co
	}
	stateOf := func(in nfIn) int64 {
		s := int64(in.side)
		if in.frag {
			s |= 8
		}
		return s
	}
	untouched := func(np nfPath) string {
		var d []string
		if np.frame != initFrame {
			d = append(d, "frame="+np.frame)
		}
		if np.state != fmt.Sprint(stateOf(np.in)) {
			d = append(d, "State="+np.state)
		}
		want := "2"
		if np.in.prevText {
			want = "1"
		}
		if np.opCode != want {
			d = append(d, "opCode="+np.opCode)
		}
		if np.utf8Source != initUTF8S || np.utf8State != initUTF8St {
			d = append(d, "utf8 changed")
		}
		return strings.Join(d, ",")
	}
	passedGates := func(np nfPath) string {
		if np.in.hdrErr != 0 {
			return "header read failed"
		}
		if !np.in.skip {
			ch := np.p.Calls("CheckHeader")
			if len(ch) != 1 {
				return fmt.Sprintf("CheckHeader called %d times", len(ch))
			}
			if np.p.Chose("check.err") != 0 {
				return "CheckHeader rejected the header"
			}
		}
		if np.in.maxKind == 2 && (!np.sizeAsked || np.tooLarge) {
			return "frame larger than MaxFrameSize (or size never compared)"
		}
		return ""
	}
	installed := func(np nfPath) bool {
		return np.rawR != initRawR || np.rawN != initRawN || np.frame != initFrame
	}
	control := func(op int) bool { return op&8 != 0 }

	want := func(r string) bool { return ruleWanted(prop, r) }

	if want("source") {
		rule := prop + ".nextframe-source"
		c.R.Rule(rule, 1, "NextFrame reads the connection only through readHeader(r.Source) and the per-frame limited reader")
		var problems []string
		for _, np := range paths {
			rh := np.p.Calls("readHeader")
			if len(rh) != 1 || fold.Show(rh[0].Args[0]) != "Source" {
				problems = append(problems, "header is not read by exactly one readHeader(r.Source): "+np.in.String())
			}
			if installed(np) && np.rawR != initRawR && np.rawR != "Source" {
				problems = append(problems, "limited reader wraps "+np.rawR+" instead of r.Source")
			}
		}
		c.verdict(rule, rule+"/NextFrame", pos, uniq(problems), fmt.Sprintf("%d paths", len(paths)))
	}
	if want("gate") {
		rule := prop + ".nextframe-gates"
		c.R.Rule(rule, 1, "no payload reader is installed unless the header was read, checked (CheckHeader(hdr, r.State) unless SkipHeaderCheck) and is within MaxFrameSize")
		var problems []string
		for _, np := range paths {
			why := passedGates(np)
			if why != "" && installed(np) {
				problems = append(problems, fmt.Sprintf("payload reader installed although %s [%s]", why, np.in))
			}
			if why != "" && np.retErr == "nil" {
				problems = append(problems, fmt.Sprintf("nil error although %s [%s]", why, np.in))
			}
			if why != "" {
				if d := untouched(np); d != "" {
					problems = append(problems, fmt.Sprintf("reader state changed (%s) although %s", d, why))
				}
			}
			if !np.in.skip && np.in.hdrErr == 0 {
				ch := np.p.Calls("CheckHeader")
				if len(ch) == 1 {
					h, _ := ch[0].Args[0].(fold.Struct)
					okH := len(h.F) == 6 && intName(h.F[1]) == "Rsv" && intName(h.F[5]) == "Length" && fold.Show(h.F[2]) == fmt.Sprint(np.in.op) &&
						fold.Show(h.F[0]) == fmt.Sprint(np.in.fin) && fold.Show(h.F[3]) == fmt.Sprint(np.in.masked)
					if !okH {
						problems = append(problems, "CheckHeader is not given the header as decoded: "+fold.Show(ch[0].Args[0]))
					}
					if fold.Show(ch[0].Args[1]) != fmt.Sprint(stateOf(np.in)) {
						problems = append(problems, "CheckHeader is not given the reader's current State: "+fold.Show(ch[0].Args[1]))
					}
				}
			}
			if np.in.skip && len(np.p.Calls("CheckHeader")) != 0 {
				// harmless, but then its verdict must not be ignored
			}
			// checks come before anything else touches the payload
			for _, e := range np.p.Effects {
				if e.Kind == "call" && (e.Name == "UnsetBits" || e.Name == "OnIntermediate" || e.Name == "OnContinuation" || e.Name == "io.Copy") && why != "" {
					problems = append(problems, fmt.Sprintf("%s runs although %s", e.Name, why))
				}
			}
		}
		c.verdict(rule, rule+"/NextFrame", pos, uniq(problems), fmt.Sprintf("%d paths: installs only after read+check+size gate; failures leave the reader untouched", len(paths)))
	}
	if want("size") {
		rule := prop + ".nextframe-sizegate"
		c.R.Rule(rule, 1, "MaxFrameSize > 0 and Length > MaxFrameSize => ErrFrameTooLarge before any payload access")
		tooLarge := c.globalErrName(rule, wsutil, "ErrFrameTooLarge")
		var problems []string
		seen := 0
		for _, np := range paths {
			if passed := np.in.hdrErr == 0 && (np.in.skip || np.p.Chose("check.err") == 0); !passed {
				continue
			}
			switch np.in.maxKind {
			case 2:
				if !np.sizeAsked {
					problems = append(problems, "positive MaxFrameSize is never compared with the announced length ["+np.in.String()+"]")
					continue
				}
				if np.tooLarge {
					seen++
					if np.retErr != tooLarge {
						problems = append(problems, "oversized frame returns "+np.retErr+" instead of ErrFrameTooLarge")
					}
					if installed(np) || len(np.p.Calls("io.Copy"))+len(np.p.Calls("OnIntermediate"))+len(np.p.Calls("UnsetBits")) > 0 {
						problems = append(problems, "oversized frame: payload reader installed or payload touched")
					}
				}
			default:
				if np.retErr == tooLarge {
					problems = append(problems, "ErrFrameTooLarge although MaxFrameSize is not positive")
				}
			}
		}
		if seen == 0 {
			problems = append(problems, "undecided: no path compares the announced length with MaxFrameSize")
		}
		c.verdict(rule, rule+"/NextFrame", pos, uniq(problems), fmt.Sprintf("%d oversized paths refused before installation", seen))
	}
	if want("eof") {
		rule := prop + ".nextframe-eof-fragmented"
		c.R.Rule(rule, 1, "io.EOF from the header read while a fragmented message is open becomes io.ErrUnexpectedEOF; other read errors are returned as they are")
		var problems []string
		for _, np := range paths {
			switch np.in.hdrErr {
			case 1:
				want := "global:io.EOF"
				if np.in.frag {
					want = "global:io.ErrUnexpectedEOF"
				}
				if np.retErr != want {
					problems = append(problems, fmt.Sprintf("EOF at a frame boundary (fragmented=%v) returns %s, want %s", np.in.frag, np.retErr, want))
				}
			case 2:
				if np.retErr != "hdr-error" {
					problems = append(problems, "header read error is replaced by "+np.retErr)
				}
			}
		}
		c.verdict(rule, rule+"/NextFrame", pos, uniq(problems), "EOF mapping decided on every path")
	}
	if want("install") {
		rule := prop + ".nextframe-install"
		c.R.Rule(rule, 1, "per frame: raw = LimitedReader{Source, hdr.Length}; masked frames are read through the cipher reader reset to (raw, hdr.Mask, pos 0)")
		var problems []string
		okc := 0
		for _, np := range paths {
			if passedGates(np) != "" {
				continue
			}
			// extension error aborts before install of frame (checked in ext rule); raw is set before.
			if np.rawR != "Source" || np.rawN != "Length[0..max]" && !(control(np.in.op) && np.in.frag) {
				problems = append(problems, fmt.Sprintf("raw = {%s, %s}, want {Source, hdr.Length} [%s]", np.rawR, np.rawN, np.in))
				continue
			}
			extFailed := false
			for i := 1; i <= np.in.nExt; i++ {
				if np.p.Chose(fmt.Sprintf("ext%d.err", i)) > 0 {
					extFailed = true
				}
			}
			if extFailed {
				continue
			}
			if np.in.masked {
				if !strings.HasPrefix(np.cr, "&") || !isRaw(np, np.crRV) || np.crMask != "[m0,m1,m2,m3]" || np.crPos != "0" {
					problems = append(problems, fmt.Sprintf("masked frame: cipher reader = {r:%s mask:%s pos:%s}, want {&r.raw, hdr.Mask, 0} [%s]", np.crR, np.crMask, np.crPos, np.in))
					continue
				}
			}
			if control(np.in.op) && np.in.frag {
				// handed to OnIntermediate: must be the (unmasking) frame reader
				for _, e := range np.p.Calls("OnIntermediate") {
					fr := e.Args[1]
					if np.in.masked && !isCR(np, fr) || !np.in.masked && !isRaw(np, fr) {
						problems = append(problems, "OnIntermediate is handed "+fold.Show(fr)+" instead of the frame's (unmasking) reader")
					}
				}
				okc++
				continue
			}
			wantUTF8 := np.in.checkUTF8 && (np.in.op == 1 || (np.in.frag && np.in.prevText))
			inner := np.frameV
			if wantUTF8 {
				inner = np.utf8SourceV
			}
			if np.in.masked && !isCR(np, inner) || !np.in.masked && !isRaw(np, inner) {
				problems = append(problems, fmt.Sprintf("frame reader is %s (masked=%v) [%s]", fold.Show(inner), np.in.masked, np.in))
				continue
			}
			okc++
		}
		c.verdict(rule, rule+"/NextFrame", pos, uniq(problems), fmt.Sprintf("%d successful paths install the right reader chain", okc))
	}
	if want("utf8") {
		rule := prop + ".nextframe-utf8-install"
		c.R.Rule(rule, 1, "the validating reader is installed iff CheckUTF8 and (text frame or continuation of a text message); the carried DFA state is kept across fragments; control frames do not touch it")
		var problems []string
		n := 0
		for _, np := range paths {
			if passedGates(np) != "" || np.retErr != "nil" && !strings.HasPrefix(np.retErr, "cont-") {
				continue
			}
			if control(np.in.op) && np.in.frag {
				if np.utf8Source != initUTF8S || np.utf8State != initUTF8St {
					problems = append(problems, "intermediate control frame touches the UTF-8 reader")
				}
				continue
			}
			if np.in.frag != (np.in.op == 0) {
				continue // a new data frame inside a fragmented message / a stray continuation: refused by CheckHeader (C03)
			}
			wantUTF8 := np.in.checkUTF8 && (np.in.op == 1 || (np.in.frag && np.in.op == 0 && np.in.prevText))
			got := isUTF8(np, np.frameV)
			if wantUTF8 != got {
				problems = append(problems, fmt.Sprintf("validating reader installed=%v, want %v [%s]", got, wantUTF8, np.in))
			}
			// what the continuation callback is handed is the installed chain: bytes it consumes
			// pass through the validator (and the unmasking reader) like the ones Read delivers
			for _, e := range np.p.Calls("OnContinuation") {
				if len(e.Args) == 2 && fold.Show(e.Args[1]) != fold.Show(np.frameV) {
					problems = append(problems, fmt.Sprintf("OnContinuation is handed %s while the frame reader installed for Read is %s: what the callback consumes bypasses the UTF-8 check [%s]", fold.Show(e.Args[1]), fold.Show(np.frameV), np.in))
				}
			}
			if np.utf8State != initUTF8St {
				problems = append(problems, "NextFrame changes the carried UTF-8 state")
			}
			n++
		}
		c.verdict(rule, rule+"/NextFrame", pos, uniq(problems), fmt.Sprintf("%d paths", n))
	}
	if want("state") {
		rule := prop + ".nextframe-state-table"
		c.R.Rule(rule, 1, "data frame: Fragmented' = !Fin, opCode' = first frame's opcode; an intermediate control frame returns before the state update and leaves opCode, utf8 and frame untouched")
		var problems []string
		n := 0
		for _, np := range paths {
			if passedGates(np) != "" {
				continue
			}
			extFailed := false
			for i := 1; i <= np.in.nExt; i++ {
				if np.p.Chose(fmt.Sprintf("ext%d.err", i)) > 0 {
					extFailed = true
				}
			}
			if extFailed {
				continue
			}
			if control(np.in.op) && np.in.frag {
				if d := untouched(np); d != "" {
					problems = append(problems, "intermediate control frame changes "+d)
				}
				n++
				continue
			}
			ws := int64(np.in.side)
			if !np.in.fin {
				ws |= 8
			}
			if np.state != fmt.Sprint(ws) {
				problems = append(problems, fmt.Sprintf("State after frame (fin=%v) is %s, want %d [%s]", np.in.fin, np.state, ws, np.in))
			}
			wo := "2"
			if np.in.prevText {
				wo = "1"
			}
			if !np.in.frag {
				wo = fmt.Sprint(np.in.op)
			}
			if np.opCode != wo {
				problems = append(problems, fmt.Sprintf("opCode after frame is %s, want %s [%s]", np.opCode, wo, np.in))
			}
			n++
		}
		c.verdict(rule, rule+"/NextFrame", pos, uniq(problems), fmt.Sprintf("%d paths", n))
	}
	if want("ext") {
		rule := prop + ".nextframe-ext-chain"
		c.R.Rule(rule, 1, "every RecvExtension.UnsetBits runs, in order, on the header after the checks; its result is what the caller gets; an error aborts before the frame reader is installed")
		var problems []string
		n := 0
		for _, np := range paths {
			if passedGates(np) != "" {
				continue
			}
			calls := np.p.Calls("UnsetBits")
			failedAt := 0
			for i := 1; i <= np.in.nExt; i++ {
				if np.p.Chose(fmt.Sprintf("ext%d.err", i)) > 0 {
					failedAt = i
					break
				}
			}
			wantCalls := np.in.nExt
			if failedAt > 0 {
				wantCalls = failedAt
			}
			if len(calls) != wantCalls {
				problems = append(problems, fmt.Sprintf("%d UnsetBits calls for %d extensions (failure at %d)", len(calls), np.in.nExt, failedAt))
				continue
			}
			prev := "Rsv"
			for i, e := range calls {
				if fold.Show(e.Args[0]) != fmt.Sprintf("ext%d", i+1) {
					problems = append(problems, "extensions run out of order")
				}
				h, _ := e.Args[1].(fold.Struct)
				if len(h.F) != 6 || intName(h.F[1]) != prev {
					problems = append(problems, "extension "+fmt.Sprint(i+1)+" is not given the previous extension's header")
				}
				prev = fmt.Sprintf("unset(ext%d,%s)", i+1, prev)
			}
			if failedAt > 0 {
				if np.retErr != fmt.Sprintf("ext%d-error", failedAt) {
					problems = append(problems, "extension error is not returned: "+np.retErr)
				}
				if np.frame != initFrame {
					problems = append(problems, "frame reader installed although an extension rejected the header")
				}
				continue
			}
			if h, ok := np.retHdr.(fold.Struct); !ok || len(h.F) != 6 || intName(h.F[1]) != prev {
				problems = append(problems, "returned header is not the extensions' result")
			} else {
				// every other field is what the decoder produced: the application sees the frame's
				// own fin / opcode / mask / length (a continuation stays a continuation), exactly
				// as ws.ReadHeader would report the same bytes
				want := headerVal(np.in.fin, 0, int64(np.in.op), np.in.masked, fold.Arr{E: []fold.Val{fold.Int{Lo: 0, Hi: 255, Name: "m0"}, fold.Int{Lo: 0, Hi: 255, Name: "m1"}, fold.Int{Lo: 0, Hi: 255, Name: "m2"}, fold.Int{Lo: 0, Hi: 255, Name: "m3"}}}, fold.Int{Lo: 0, Hi: fold.MaxInt64, Name: "Length"})
				for _, i := range []int{0, 2, 3, 4, 5} {
					if got, w := fold.Show(h.F[i]), fold.Show(want.F[i]); got != w {
						problems = append(problems, fmt.Sprintf("NextFrame returns header field %d as %s, the decoder produced %s [fin=%v op=%#x masked=%v fragmented=%v]", i, got, w, np.in.fin, np.in.op, np.in.masked, np.in.frag))
					}
				}
			}
			n++
		}
		c.verdict(rule, rule+"/NextFrame", pos, uniq(problems), fmt.Sprintf("%d paths", n))
	}
	if want("drain") {
		rule := prop + ".nextframe-intermediate-drain"
		c.R.Rule(rule, 1, "an intermediate control frame is handed to OnIntermediate, then drained; a payload cut short or a failing drain is an error")
		var problems []string
		n := 0
		for _, np := range paths {
			if passedGates(np) != "" || !(control(np.in.op) && np.in.frag) {
				continue
			}
			extFailed := false
			for i := 1; i <= np.in.nExt; i++ {
				if np.p.Chose(fmt.Sprintf("ext%d.err", i)) > 0 {
					extFailed = true
				}
			}
			if extFailed {
				continue
			}
			n++
			if np.in.onInter && len(np.p.Calls("OnIntermediate")) != 1 {
				problems = append(problems, "OnIntermediate is not called exactly once")
			}
			if ie := np.p.Chose("inter.err"); ie == 1 {
				if np.retErr != "inter-error" {
					problems = append(problems, "OnIntermediate error is not returned")
				}
				continue
			} else if ie == 2 {
				if np.retErr == "nil" || np.retErr == "global:io.EOF" {
					problems = append(problems, "the control handler hit io.EOF inside the payload of an intermediate control frame and NextFrame returns "+np.retErr+": read-until-EOF helpers take the cut message for a complete one")
				}
				continue
			}
			d := np.p.Chose("drain")
			if d < 0 {
				problems = append(problems, "payload of the intermediate control frame is not drained")
				continue
			}
			switch d {
			case 0:
				if np.retErr != "nil" {
					problems = append(problems, "fully drained control frame returns "+np.retErr)
				}
			case 1:
				if np.retErr == "nil" {
					problems = append(problems, "control frame payload cut short (source ended with bytes outstanding) but NextFrame returns nil")
				}
			case 2:
				if np.retErr != "drain-error" {
					problems = append(problems, "drain error is not returned")
				}
			}
		}
		c.verdict(rule, rule+"/NextFrame", pos, uniq(problems), fmt.Sprintf("%d intermediate-control paths", n))
	}
}

func uniq(s []string) []string {
	seen := map[string]bool{}
	var out []string
	for _, x := range s {
		if !seen[x] {
			seen[x] = true
			out = append(out, x)
		}
	}
	return out
}

// ruleWanted maps properties to the NextFrame rule groups they own.
func ruleWanted(prop, r string) bool {
	switch prop {
	case "C01":
		return r == "ext" // what NextFrame hands back is the decoded header
	case "C04":
		// size: a valid frame of exactly MaxFrameSize bytes is delivered, not refused
		return r == "source" || r == "install" || r == "state" || r == "size"
	case "C05":
		return r == "gate" || r == "size" || r == "eof" || r == "ext" || r == "state"
	case "C08":
		return r == "install" || r == "drain"
	case "C18":
		return r == "install" || r == "state" || r == "utf8"
	case "C07":
		return r == "utf8" || r == "state"
	case "C13":
		return r == "ext"
	case "C15":
		return r == "size"
	case "C16":
		return r == "drain" || r == "eof"
	case "ALL":
		return true
	}
	return false
}
