// Package report collects obligations of one property check and renders
// verdict lines, evidence and replay files.
package report

import (
	"encoding/json"
	"fmt"
	"os"
	"path/filepath"
	"sort"
	"strings"
	"time"
)

type Status string

const (
	Discharged Status = "discharged"
	Violated   Status = "violated"
	Undecided  Status = "undecided"
)

// Obligation is one rule instance on one construct.
type Obligation struct {
	Rule   string `json:"rule"`
	Key    string `json:"key"` // rule + construct identity; never a line number
	Status Status `json:"status"`
	Pos    string `json:"pos,omitempty"`    // file:line of the construct (diagnostic only)
	Detail string `json:"detail,omitempty"` // what was established / what fails
	Config string `json:"config,omitempty"` // build configuration
	// NonTrivial marks obligations whose premise is not vacuous on this tree.
	NonTrivial bool `json:"-"`
}

// RuleStat aggregates per rule.
type RuleStat struct {
	Rule       string `json:"rule"`
	Instances  int    `json:"instances"`
	Floor      int    `json:"floor"`
	Discharged int    `json:"discharged"`
	Violated   int    `json:"violated"`
	Undecided  int    `json:"undecided"`
	Cells      int    `json:"fold_cells,omitempty"`
	Doc        string `json:"doc,omitempty"`
}

// Report accumulates the result of checking one property.
type Report struct {
	Property string
	Tier     string
	Start    time.Time
	Config   string // current configuration label, stamped on obligations

	Obls     []Obligation
	rules    map[string]*RuleStat
	order    []string
	Funcs    map[string]bool // functions analysed
	Sites    int             // call sites / instructions inspected
	Cells    int             // fold cells evaluated
	Paths    int             // fold paths explored
	Configs  []string
	Notes    []string
	Samples  []any
	Trusted  []string
	Assume   []string
	Explain  string
	Controls []string // positive controls that fired
}

func New(property, tier string) *Report {
	return &Report{Property: property, Tier: tier, Start: time.Now(), rules: map[string]*RuleStat{}, Funcs: map[string]bool{}}
}

// Rule declares a rule with its instance floor and returns its stat record.
func (r *Report) Rule(name string, floor int, doc string) *RuleStat {
	if s, ok := r.rules[name]; ok {
		return s
	}
	s := &RuleStat{Rule: name, Floor: floor, Doc: doc}
	r.rules[name] = s
	r.order = append(r.order, name)
	return s
}

func (r *Report) add(o Obligation) {
	o.Config = r.Config
	s := r.rules[o.Rule]
	if s == nil {
		s = r.Rule(o.Rule, 0, "")
	}
	s.Instances++
	switch o.Status {
	case Discharged:
		s.Discharged++
	case Violated:
		s.Violated++
	default:
		s.Undecided++
	}
	r.Obls = append(r.Obls, o)
}

func (r *Report) OK(rule, key, pos, detail string) {
	r.add(Obligation{Rule: rule, Key: key, Status: Discharged, Pos: pos, Detail: detail, NonTrivial: true})
}
func (r *Report) Fail(rule, key, pos, detail string) {
	r.add(Obligation{Rule: rule, Key: key, Status: Violated, Pos: pos, Detail: detail, NonTrivial: true})
}
func (r *Report) Unknown(rule, key, pos, detail string) {
	r.add(Obligation{Rule: rule, Key: key, Status: Undecided, Pos: pos, Detail: detail, NonTrivial: true})
}

// Check records OK or Fail depending on cond.
func (r *Report) Check(cond bool, rule, key, pos, okDetail, failDetail string) bool {
	if cond {
		r.OK(rule, key, pos, okDetail)
	} else {
		r.Fail(rule, key, pos, failDetail)
	}
	return cond
}

func (r *Report) Func(name string) { r.Funcs[name] = true }
func (r *Report) Note(format string, a ...any) {
	r.Notes = append(r.Notes, fmt.Sprintf(format, a...))
}
func (r *Report) Sample(v any) {
	if len(r.Samples) < 40 {
		r.Samples = append(r.Samples, v)
	}
}
func (r *Report) AddCells(n int) { r.Cells += n }

// ---- known findings ----

type Known struct {
	Property  string `json:"property"`
	Rule      string `json:"rule"`
	Key       string `json:"key"`
	WhatFails string `json:"what_fails"`
	Status    string `json:"status"` // "known" | "fixed"
	Commit    string `json:"commit,omitempty"`
	Config    string `json:"config,omitempty"` // optional: only in this configuration
}

type KnownFile struct {
	Findings []Known `json:"findings"`
}

func LoadKnown(path string) (*KnownFile, error) {
	b, err := os.ReadFile(path)
	if err != nil {
		if os.IsNotExist(err) {
			return &KnownFile{}, nil
		}
		return nil, err
	}
	var k KnownFile
	if err := json.Unmarshal(b, &k); err != nil {
		return nil, fmt.Errorf("%s: %v", path, err)
	}
	return &k, nil
}

func (k *KnownFile) match(prop string, o Obligation) *Known {
	for i := range k.Findings {
		f := &k.Findings[i]
		if f.Status != "known" {
			continue
		}
		if f.Property == prop && f.Rule == o.Rule && f.Key == o.Key && (f.Config == "" || f.Config == o.Config) {
			return f
		}
	}
	return nil
}

// ---- finishing ----

type replayFile struct {
	Property   string     `json:"property"`
	Obligation Obligation `json:"obligation"`
	Tier       string     `json:"tier"`
	Hint       string     `json:"hint"`
}

// Finish applies floors, prints verdict lines, writes evidence and replay
// files, and returns the process exit code.
func (r *Report) Finish(verifDir string, known *KnownFile, level, checkerCmd string) int {
	// Floors: a rule that matched fewer instances than confirmed by hand went vacuous.
	for _, name := range r.order {
		s := r.rules[name]
		if s.Floor > 0 && s.Instances < s.Floor*max(1, len(r.Configs)) {
			r.add(Obligation{Rule: name, Key: name + "/floor", Status: Undecided,
				Detail: fmt.Sprintf("rule matched %d instances, fewer than the %d confirmed on the pinned tree (per configuration): the guarded construct disappeared or an anchor no longer resolves", s.Instances, s.Floor), NonTrivial: true})
		}
	}
	sort.SliceStable(r.Obls, func(i, j int) bool {
		a, b := r.Obls[i], r.Obls[j]
		if a.Rule != b.Rule {
			return a.Rule < b.Rule
		}
		if a.Key != b.Key {
			return a.Key < b.Key
		}
		return a.Config < b.Config
	})

	replayDir := filepath.Join(verifDir, "evidence", "replay")
	_ = os.MkdirAll(replayDir, 0o755)
	// remove stale replay files of this property
	if old, _ := filepath.Glob(filepath.Join(replayDir, r.Property+"-*.json")); old != nil {
		for _, f := range old {
			_ = os.Remove(f)
		}
	}

	violations := 0
	knownHits := 0
	seenKnown := map[string]bool{}
	seenViol := map[string]bool{}
	var findings []map[string]string
	for _, o := range r.Obls {
		if o.Status == Discharged {
			continue
		}
		if k := known.match(r.Property, o); k != nil {
			id := k.Rule + "|" + k.Key
			if !seenKnown[id] {
				seenKnown[id] = true
				fmt.Printf("KNOWN-FINDING: property=%s %s [%s %s]\n", r.Property, k.WhatFails, k.Rule, k.Key)
			}
			knownHits++
			findings = append(findings, map[string]string{"rule": o.Rule, "key": o.Key, "status": string(o.Status), "known": "yes", "detail": o.Detail, "pos": o.Pos, "config": o.Config})
			continue
		}
		id := o.Rule + "|" + o.Key
		findings = append(findings, map[string]string{"rule": o.Rule, "key": o.Key, "status": string(o.Status), "known": "no", "detail": o.Detail, "pos": o.Pos, "config": o.Config})
		if seenViol[id] {
			continue
		}
		seenViol[id] = true
		violations++
		name := fmt.Sprintf("%s-%s-%d.json", r.Property, sanitize(o.Rule), violations)
		path := filepath.Join(replayDir, name)
		rf := replayFile{Property: r.Property, Obligation: o, Tier: r.Tier,
			Hint: "re-run: ./bin/wscheck replay " + path}
		b, _ := json.MarshalIndent(rf, "", " ")
		_ = os.WriteFile(path, b, 0o644)
		fmt.Printf("%s: [%s] %s: %s (%s)%s\n", o.Pos, o.Rule, o.Key, o.Detail, o.Status, cfgSuffix(o.Config))
		fmt.Printf("VIOLATION property=%s replay=%s\n", r.Property, path)
	}

	// evidence
	obl := len(r.Obls)
	dis := 0
	keys := map[string]bool{}
	for _, o := range r.Obls {
		if o.Status == Discharged {
			dis++
		}
		if o.NonTrivial {
			keys[o.Rule+"|"+o.Key] = true
		}
	}
	var stats []RuleStat
	for _, n := range r.order {
		stats = append(stats, *r.rules[n])
	}
	var funcs []string
	for f := range r.Funcs {
		funcs = append(funcs, f)
	}
	sort.Strings(funcs)
	samples := r.Samples
	if len(samples) == 0 {
		for i, o := range r.Obls {
			if i >= 12 {
				break
			}
			samples = append(samples, o)
		}
	}
	if len(samples) == 0 {
		samples = append(samples, "no obligations generated")
	}
	if r.Assume == nil {
		r.Assume = []string{}
	}
	if r.Trusted == nil {
		r.Trusted = []string{}
	}
	if r.Notes == nil {
		r.Notes = []string{}
	}
	if r.Controls == nil {
		r.Controls = []string{}
	}
	ev := map[string]any{
		"property_id": r.Property,
		"tier":        r.Tier,
		"seed":        seed(),
		"level":       level,
		"coverage": map[string]any{
			"explanation":         r.Explain,
			"obligations":         obl,
			"discharged":          dis,
			"evaluations":         obl + r.Cells,
			"distinct_nontrivial": len(keys),
			"rule":                "one obligation per rule instance (rule + construct key); fold rules additionally evaluate one abstract cell per element of the input partition (fold_cells); an obligation is non-trivial when its premise matched a construct of the current tree; distinct = distinct rule+construct keys",
			"samples":             samples,
			"checker_cmd":         checkerCmd,
			"trusted_base":        r.Trusted,
			"rules":               stats,
			"functions_analysed":  funcs,
			"sites_inspected":     r.Sites,
			"fold_cells":          r.Cells,
			"fold_paths":          r.Paths,
			"configurations":      r.Configs,
			"findings":            findings,
			"known_findings_hit":  knownHits,
			"notes":               r.Notes,
			"controls_fired":      r.Controls,
			"exhaustive":          false,
		},
		"assumptions": r.Assume,
		"wall_s":      time.Since(r.Start).Seconds(),
		"violations":  violations,
	}
	b, _ := json.MarshalIndent(ev, "", " ")
	evPath := filepath.Join(verifDir, "evidence", r.Property+".json")
	if err := os.WriteFile(evPath, b, 0o644); err != nil {
		fmt.Fprintf(os.Stderr, "cannot write evidence: %v\n", err)
		return 2
	}
	fmt.Printf("%s %s: %d obligations, %d discharged, %d known, %d violations; %d rules, %d functions, %d fold cells, %.1fs\n",
		r.Property, r.Tier, obl, dis, knownHits, violations, len(r.order), len(funcs), r.Cells, time.Since(r.Start).Seconds())
	if violations > 0 {
		return 1
	}
	return 0
}

func cfgSuffix(c string) string {
	if c == "" || c == "default" {
		return ""
	}
	return " [config " + c + "]"
}

func sanitize(s string) string {
	return strings.Map(func(r rune) rune {
		if r >= 'a' && r <= 'z' || r >= 'A' && r <= 'Z' || r >= '0' && r <= '9' || r == '-' || r == '_' {
			return r
		}
		return '_'
	}, s)
}

func seed() int {
	var n int
	fmt.Sscanf(os.Getenv("VERIF_SEED"), "%d", &n)
	return n
}
