// Package load type-checks /repo afresh and builds its SSA form and call graph.
//
// Nothing under /repo is executed: go/packages runs `go list` (and cgo
// pre-processing for the std `net` package) to obtain file lists, then every
// package is parsed and type-checked from source in this process.
package load

import (
	"fmt"
	"go/ast"
	"go/token"
	"go/types"
	"os"
	"sort"
	"strings"

	"golang.org/x/tools/go/callgraph"
	"golang.org/x/tools/go/callgraph/cha"
	"golang.org/x/tools/go/callgraph/vta"
	"golang.org/x/tools/go/packages"
	"golang.org/x/tools/go/ssa"
	"golang.org/x/tools/go/ssa/ssautil"
)

// Module paths of the three packages the rules apply to.
const (
	PkgWS      = "github.com/gobwas/ws"
	PkgWSUtil  = "github.com/gobwas/ws/wsutil"
	PkgWSFlate = "github.com/gobwas/ws/wsflate"
)

// Config names one build configuration.
type Config struct {
	Name   string   // "default", "purego", "386"
	Tags   []string // build tags
	GOARCH string   // "" = host
}

var (
	ConfigDefault = Config{Name: "default"}
	ConfigPurego  = Config{Name: "purego", Tags: []string{"purego"}}
	Config386     = Config{Name: "386", GOARCH: "386"}
)

// Program is the loaded, type-checked, SSA-built repository.
type Program struct {
	Config Config
	Dir    string
	Fset   *token.FileSet
	Pkgs   []*packages.Package          // root packages (./...)
	ByPath map[string]*packages.Package // every package, including deps
	Prog   *ssa.Program
	SSA    map[string]*ssa.Package
	// Renamed maps the frozen full name of an unexported helper that no longer
	// exists to the function that took its place (see rules.ResolveRenames).
	Renamed        map[string]*ssa.Function
	RenamedTypes   map[string]*types.Named
	RenamedGlobals map[string]*ssa.Global

	cha *callgraph.Graph
	vta *callgraph.Graph
}

// RepoDir returns the repository to analyse ($WSCHECK_REPO or /repo).
func RepoDir() string {
	if d := os.Getenv("WSCHECK_REPO"); d != "" {
		return d
	}
	return "/repo"
}

// Load loads ./... of dir under cfg. Any type error is fatal.
func Load(dir string, cfg Config) (*Program, error) {
	env := []string{}
	for _, kv := range os.Environ() {
		k := kv
		if i := strings.IndexByte(kv, '='); i >= 0 {
			k = kv[:i]
		}
		switch k {
		case "GOFLAGS", "GOPROXY", "GOSUMDB", "GOWORK", "GOTOOLCHAIN", "GOARCH", "GOOS", "CGO_ENABLED":
			continue
		}
		env = append(env, kv)
	}
	env = append(env,
		"GOFLAGS=-mod=mod", "GOPROXY=off", "GOSUMDB=off", "GOWORK=off", "GOTOOLCHAIN=local",
	)
	if cfg.GOARCH != "" {
		env = append(env, "GOARCH="+cfg.GOARCH, "CGO_ENABLED=0")
	}
	pc := &packages.Config{
		Mode:  packages.LoadAllSyntax,
		Dir:   dir,
		Env:   env,
		Tests: false,
	}
	if len(cfg.Tags) > 0 {
		pc.BuildFlags = []string{"-tags=" + strings.Join(cfg.Tags, ",")}
	}
	pkgs, err := packages.Load(pc, "./...")
	if err != nil {
		return nil, fmt.Errorf("packages.Load: %v", err)
	}
	if len(pkgs) == 0 {
		return nil, fmt.Errorf("no packages loaded from %s", dir)
	}
	p := &Program{
		Config: cfg,
		Dir:    dir,
		Pkgs:   pkgs,
		ByPath: map[string]*packages.Package{},
		SSA:    map[string]*ssa.Package{},
	}
	var errs []string
	packages.Visit(pkgs, nil, func(pk *packages.Package) {
		p.ByPath[pk.PkgPath] = pk
		for _, e := range pk.Errors {
			errs = append(errs, pk.PkgPath+": "+e.Error())
		}
		if pk.Fset != nil {
			p.Fset = pk.Fset
		}
	})
	if len(errs) > 0 {
		sort.Strings(errs)
		if len(errs) > 10 {
			errs = errs[:10]
		}
		return nil, fmt.Errorf("load/type errors:\n  %s", strings.Join(errs, "\n  "))
	}
	for _, need := range []string{PkgWS, PkgWSUtil, PkgWSFlate} {
		if p.ByPath[need] == nil {
			return nil, fmt.Errorf("package %s not loaded", need)
		}
	}
	prog, _ := ssautil.AllPackages(pkgs, ssa.InstantiateGenerics)
	prog.Build()
	p.Prog = prog
	for _, sp := range prog.AllPackages() {
		p.SSA[sp.Pkg.Path()] = sp
	}
	return p, nil
}

// InModule reports whether fn belongs to one of the three analysed packages.
func InModule(fn *ssa.Function) bool {
	if fn == nil {
		return false
	}
	pk := fn.Package()
	if pk == nil && fn.Parent() != nil {
		return InModule(fn.Parent())
	}
	if pk == nil {
		// instantiated generic / wrapper: look at the origin.
		if o := fn.Origin(); o != nil && o != fn {
			return InModule(o)
		}
		return false
	}
	switch pk.Pkg.Path() {
	case PkgWS, PkgWSUtil, PkgWSFlate:
		return true
	}
	return false
}

// ModulePkgs returns the three analysed SSA packages in fixed order.
func (p *Program) ModulePkgs() []*ssa.Package {
	return []*ssa.Package{p.SSA[PkgWS], p.SSA[PkgWSUtil], p.SSA[PkgWSFlate]}
}

// Func resolves a package-level function by package path and name.
func (p *Program) Func(pkg, name string) *ssa.Function {
	sp := p.SSA[pkg]
	if sp == nil {
		return nil
	}
	if f := sp.Func(name); f != nil {
		return f
	}
	return p.Renamed[pkg+"."+name]
}

// Method resolves a method by package path, type name and method name. It
// works for both value and pointer receivers.
func (p *Program) Method(pkg, typ, name string) *ssa.Function {
	sp := p.SSA[pkg]
	if sp == nil {
		return nil
	}
	var named types.Type
	if t := sp.Type(typ); t != nil {
		named = t.Type()
	} else if rt := p.RenamedTypes[pkg+"."+typ]; rt != nil {
		named = rt
	} else {
		return nil
	}
	for _, T := range []types.Type{named, types.NewPointer(named)} {
		ms := p.Prog.MethodSets.MethodSet(T)
		if sel := ms.Lookup(sp.Pkg, name); sel != nil {
			fn := p.Prog.MethodValue(sel)
			if fn != nil {
				// unwrap synthetic pointer-receiver wrappers
				if fn.Synthetic != "" {
					if o := sel.Obj().(*types.Func); o != nil {
						if f := p.Prog.FuncValue(o); f != nil {
							return f
						}
					}
				}
				return fn
			}
		}
	}
	if f := p.Renamed["(*"+pkg+"."+typ+")."+name]; f != nil {
		return f
	}
	return p.Renamed["("+pkg+"."+typ+")."+name]
}

// Global resolves a package-level variable.
func (p *Program) Global(pkg, name string) *ssa.Global {
	sp := p.SSA[pkg]
	if sp == nil {
		return nil
	}
	if g, ok := sp.Members[name].(*ssa.Global); ok {
		return g
	}
	return p.RenamedGlobals[pkg+"."+name]
}

// NamedType resolves a named type.
func (p *Program) NamedType(pkg, name string) *types.Named {
	sp := p.SSA[pkg]
	if sp == nil {
		return nil
	}
	t := sp.Type(name)
	if t == nil {
		return p.RenamedTypes[pkg+"."+name]
	}
	n, _ := t.Type().(*types.Named)
	return n
}

// AllModuleFuncs returns every source function (including closures and
// methods) of the three packages, sorted by name.
func (p *Program) AllModuleFuncs() []*ssa.Function {
	var out []*ssa.Function
	seen := map[*ssa.Function]bool{}
	var add func(fn *ssa.Function)
	add = func(fn *ssa.Function) {
		if fn == nil || seen[fn] || fn.Blocks == nil {
			return
		}
		if fn.Synthetic != "" && fn.Synthetic != "package initializer" {
			return
		}
		seen[fn] = true
		out = append(out, fn)
		for _, a := range fn.AnonFuncs {
			add(a)
		}
	}
	for _, sp := range p.ModulePkgs() {
		for _, m := range sp.Members {
			switch m := m.(type) {
			case *ssa.Function:
				add(m)
			case *ssa.Type:
				T := m.Type()
				for _, tt := range []types.Type{T, types.NewPointer(T)} {
					ms := p.Prog.MethodSets.MethodSet(tt)
					for i := 0; i < ms.Len(); i++ {
						if f, ok := ms.At(i).Obj().(*types.Func); ok {
							add(p.Prog.FuncValue(f))
						}
					}
				}
			}
		}
	}
	sort.Slice(out, func(i, j int) bool { return out[i].String() < out[j].String() })
	return out
}

// CHA returns the class-hierarchy call graph (built once).
func (p *Program) CHA() *callgraph.Graph {
	if p.cha == nil {
		p.cha = cha.CallGraph(p.Prog)
	}
	return p.cha
}

// VTA returns the VTA-refined call graph (built once).
func (p *Program) VTA() *callgraph.Graph {
	if p.vta == nil {
		p.vta = vta.CallGraph(ssautil.AllFunctions(p.Prog), p.CHA())
	}
	return p.vta
}

// Pos renders a position relative to the repository.
func (p *Program) Pos(pos token.Pos) string {
	if !pos.IsValid() {
		return "-"
	}
	ps := p.Fset.Position(pos)
	f := ps.Filename
	if strings.HasPrefix(f, p.Dir+"/") {
		f = f[len(p.Dir)+1:]
	}
	return fmt.Sprintf("%s:%d", f, ps.Line)
}

// FuncPos renders the position of a function.
func (p *Program) FuncPos(fn *ssa.Function) string {
	if fn == nil {
		return "-"
	}
	return p.Pos(fn.Pos())
}

// FileOf returns the syntax file containing pos in one of the module packages.
func (p *Program) FileOf(pos token.Pos) (*packages.Package, *ast.File) {
	for _, path := range []string{PkgWS, PkgWSUtil, PkgWSFlate} {
		pk := p.ByPath[path]
		for _, f := range pk.Syntax {
			if f.Pos() <= pos && pos <= f.End() {
				return pk, f
			}
		}
	}
	return nil, nil
}
